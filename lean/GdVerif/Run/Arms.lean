import GdVerif.Run.Dispatch
import GdVerif.Proto.ArmsSem
/-
  Line-protocol entries that run the TRANSLATED glue (`Gen/Arms.lean` through the evaluator of `Proto/ArmsSem.lean`)
  instead of the hand-written `Dispatch.generic` / `Extra.to*`; the harness answers them with the same real code as
  `dispatch` / `extra-conv`:
    arms-dispatch <id> <port|-> <retries|-> <extra|-> <script> [opts]
    arms-conv     <E…|->
  A disagreement here is a defect of the translator or of the evaluator (the theorems of Props/C14_arms.lean tie both to
  the model; this ties them to the code).
-/
namespace Gd.Run
open Gd Gd.Dispatch Gd.Arms

def entryArmsDispatch (args : List String) : String :=
  match args with
  | id :: port :: r :: extra :: rest =>
    match Gd.Gen.gameDefs.find? (·.id == id) with
    | none => "no-such-game"
    | some row =>
      match Game.ofRow row with
      | none => "no-model"
      | some game =>
        if game.protocol == .proprietary .eco then "not-scripted"
        else
          match parsePortArg port, parseOptField String.toNat? r, parseExtra extra, parseNetArgs rest with
          | some port, some r, some extra, some na =>
            match translated (dispatchExt na) game port (timeoutOf r) extra with
            | some q => runQ q na showDispatchResponse
            | none => "no-arm"
          | _, _, _, _ => "bad-case"
  | _ => "bad-case"

/-- same text as `extra-conv`, every conversion computed by the evaluator from the generated tables -/
def entryArmsConv (args : List String) : String :=
  match args with
  | [x] =>
    match parseExtra x with
    | some given =>
      let e : Dispatch.Extra := given.getD ⟨none, none, none, none, none⟩
      let ev := encExtra e
      match (convOf .valveGather ev).bind decValveGather, (convOf .unreal2Gather ev).bind decUnreal2Gather,
          (convOf .mcRequestSettings ev).bind decMcSettings with
      | some v, some u, some m =>
        match (intoExtraOf .valveGather (encValveGather v)).bind decExtra,
            (intoExtraOf .unreal2Gather (encUnreal2Gather u)).bind decExtra with
        | some vx, some ux =>
          s!"X {showExtraReq e} | valve {showToggleD v.players}{showToggleD v.rules}{if v.checkAppId then "T" else "F"} u2 {showToggleD u.mutatorsAndRules}{showToggleD u.players} mc {showStr m.hostname}/{m.protocolVersion} | vx {showExtraReq vx} ux {showExtraReq ux}"
        | _, _ => "no-into-extra"
      | _, _, _ => "no-conversion"
    | none => "bad-case"
  | _ => "bad-case"

def armsEntries : List (String × (List String → String)) :=
  [("arms-dispatch", entryArmsDispatch), ("arms-conv", entryArmsConv)]

end Gd.Run
