import GdVerif.Run.GenLib
import GdVerif.Run.Unreal2
import GdVerif.Spec.Unreal2
/-
  Generators for the Unreal 2 family: whole exchanges (`gen unreal2`) and single strings
  (`gen u2str`: first an exhaustive sweep of every length byte 0–255 — hence both encodings, every
  length 0–127 — each plain and decorated with colour escapes / control characters, then random ones).
-/
namespace Gd.Run
open Gd Gd.Unreal2 Gd.Unreal2.Spec

namespace U2

instance : Inhabited Outcome := ⟨.valid⟩
instance : Inhabited Enc := ⟨.latin1⟩
instance : Inhabited Gd.Toggle := ⟨.try_⟩

def latin1Alphabet : List Nat :=
  [0x41, 0x42, 0x61, 0x7a, 0x30, 0x39, 0x20, 0x5f, 0x2d, 0x41, 0x42, 0x43, 0x01, 0x1a, 0x1c, 0x1f, 0x7f, 0x80, 0x81,
   0x9f, 0xa0, 0xe9, 0xff, 0xfe, 0xef, 0xbb, 0xbf, 0x0a, 0x09, 0x5b, 0x5d]

/-- characters as lists of UTF-16 units (a surrogate pair is one choice) -/
def ucs2Alphabet : List (List Nat) :=
  [[0x41], [0x42], [0x61], [0x20], [0x100], [0x101], [0x401], [0x20ac], [0x3042], [0xffff], [0xfeff], [0xfffe],
   [0x01], [0x1a], [0x1c], [0xe9], [0x7f], [0x80], [0xd83d, 0xde00], [0xdbff, 0xdfff], [0x1b01], [0xff00]]

def colourBytes : List Nat := [1, 27, 64, 255, 0x1a, 0x41, 0x80, 0xfe]

def lengths : List Nat := [0, 0, 1, 1, 2, 3, 5, 8, 12, 25, 26, 27, 28, 30, 31, 32, 33, 40, 63, 64, 100, 125, 126, 127]

/-- about `len` units of text in the given encoding, with colour escapes and the odd defect -/
def gUnits (enc : Enc) (len : Nat) : G (List Nat) := do
  -- now and then a Latin-1 text whose bytes, side by side, are well-formed UTF-8 throughout (Latin-1 is not UTF-8: each
  -- byte is a character of its own)
  let looksUtf8 ← G.chance 1 12
  if looksUtf8 && enc == .latin1 then
    let pieces ← G.listOf len (G.oneOf [[0x41], [0x61], [0x20], [0x35], [0xc3, 0xa9], [0xc2, 0xb0], [0xe2, 0x82, 0xac],
      [0xf0, 0x9f, 0x98, 0x80], [0xd0, 0x9f], [0xc3, 0xbf]])
    let flat := pieces.flatten
    -- cut at a group boundary
    let rec takeGroups (ps : List (List Nat)) (room : Nat) : List Nat :=
      match ps with
      | [] => []
      | p :: rest => if p.length ≤ room then p ++ takeGroups rest (room - p.length) else []
    let _ := flat
    return takeGroups pieces len
  let pieces ← G.listOf len (do
    let c ← G.below 40
    if c == 0 then do
      let r ← G.oneOf colourBytes; let g ← G.oneOf colourBytes; let b ← G.oneOf colourBytes
      pure [0x1b, r, g, b]
    else if c == 1 then pure [0x1b]
    else match enc with
      | .latin1 => do let u ← G.oneOf latin1Alphabet; pure [u]
      | .ucs2 => G.oneOf ucs2Alphabet)
  pure (pieces.flatten.take len)

def gUStrOf (enc : Enc) (count : Nat) : G UStr := do
  let nul ← G.chance 9 10
  let nul := nul && count > 0
  let units ← gUnits enc (count - (if nul then 1 else 0))
  -- a cut surrogate pair at the end would make the text ill-formed: pad back to the length with 'A'
  let units := match enc, units.getLast? with
    | .ucs2, some u => if 0xd800 ≤ u && u < 0xdc00 then units.dropLast ++ [0x41] else units
    | _, _ => units
  let stray ← G.chance 1 4
  let stray := stray && enc == .ucs2
  -- a UCS-2 text starting with a byte 0x01 is only in the domain with the stray byte: mostly send it
  let keep ← G.chance 1 600
  let first := (units ++ (if nul then [0] else [])).head?
  let stray := if enc == .ucs2 && !keep && (first.isNone || first.map (· % 256) == some 1) then true else stray
  -- rare: a NUL inside, or (UCS-2) a lone surrogate — outside the domain
  let d ← G.below 2000
  let units := if d == 0 && units.length > 1 then units.take 1 ++ [0] ++ units.drop 2
    else if d == 1 && enc == .ucs2 && units.length > 0 then units.dropLast ++ [0xd800]
    else units
  pure ⟨enc, units, nul, stray⟩

def gUStr (maxLen : Nat := 127) : G UStr := do
  let enc ← G.oneOf [Enc.latin1, .latin1, .latin1, .ucs2, .ucs2]
  let count ← G.oneOf (lengths.filter (· ≤ maxLen))
  gUStrOf enc count

/-- plain ASCII text in either encoding -/
def asciiStr (enc : Enc) (s : String) (stray : Bool := false) : UStr :=
  ⟨enc, s.toList.map (·.toNat), true, stray && enc == .ucs2⟩

def gKey : G UStr := do
  let c ← G.below 12
  let enc ← G.oneOf [Enc.latin1, .latin1, .latin1, .ucs2]
  let stray ← G.chance 1 4
  if c < 3 then do
    let k ← G.oneOf ["Mutator", "Mutator", "mutator", "MUTATOR", "MuTaToR"]
    pure (asciiStr enc k stray)
  else if c < 5 then pure (asciiStr enc "GamePassword" stray)
  else if c < 10 then do
    let k ← G.oneOf ["ServerMode", "AdminName", "AdminEmail", "ServerVersion", "GameStats", "MinPlayers", "a", ""]
    pure (asciiStr enc k stray)
  else gUStr 12

def gValue (key : UStr) : G UStr := do
  let enc ← G.oneOf [Enc.latin1, .latin1, .ucs2]
  if key.text == asciiBytes "GamePassword" then do
    let v ← G.oneOf ["True", "true", "TRUE", "tRuE", "False", "", "Tru", "e", "Trues"]
    pure (asciiStr enc v)
  else do
    let c ← G.below 4
    if c == 0 then do
      let v ← G.oneOf ["DMMutator", "InstaGib", "InstaGib", "dedicated", "1", ""]
      pure (asciiStr enc v)
    else gUStr 40

def gPlayer : G SPlayer := do
  let ping ← G.oneOf [0, 0, 0, 1, 50, 120, 4294967295, 65536]
  pure ⟨← G.nat 32, ← gUStr 33, ping, ← G.int 32, ← G.nat 32⟩

/-- entries per datagram: random targets, closing a datagram early when the next entry would not fit
any more (`PACKET_SIZE` less the 5 header bytes) -/
def cutsBy (targets : List Nat) (sizes : List Nat) : List Nat :=
  let rec go (ts : List Nat) (zs : List Nat) (c s : Nat) (acc : List Nat) : List Nat :=
    match zs with
    | [] => acc.reverse
    | z :: zr =>
      let t := ts.headD 6
      if c > 0 && (c ≥ t || s + z > 1019) then go ts.tail zr 1 z (c :: acc)
      else go ts zr (c + 1) (s + z) acc
  go targets sizes 0 0 []

def gCuts (sizes : List Nat) : G (List Nat) := do
  let c ← G.below 10
  if c == 0 then
    -- the last datagram carries no entry at all
    pure (cutsBy [] sizes ++ [sizes.length])
  else do
    let per ← G.oneOf [1, 2, 3, 5, 8, 100, 100]
    let ts ← G.listOf 6 (do let j ← G.below 3; pure (per + j))
    pure (cutsBy (ts ++ List.replicate 64 100) sizes)

def gOutcome : G Outcome := G.oneOf [.valid, .valid, .valid, .valid, .valid, .valid, .valid, .silent, .silent, .malformed]

def gToggle : G Gd.Toggle := G.oneOf [.skip, .try_, .enforce, .try_, .enforce]

def gCase (retries : Nat) : G (Config × State) := do
  let header ← G.oneOf [[0x80, 0, 0, 0], [0x80, 0, 0, 0], [0, 0, 0, 0], [0xff, 0xff, 0xff, 0xff], [0x79, 0, 0, 0]]
  let np ← G.oneOf [0, 1, 2, 3, 5, 12, 30, 64]
  let players ← G.listOf np gPlayer
  let nr ← G.oneOf [0, 1, 2, 3, 8, 20, 40]
  let pairs ← G.listOf nr (do let k ← gKey; let v ← gValue k; pure (k, v))
  let c ← G.below 8
  let numPlayers ← if c < 5 then pure np else if c == 5 then G.nat 32 else if c == 6 then pure 0 else pure (np + 1)
  let extra ← G.oneOf [[], [], [0x10, 0, 0, 0, 0, 0, 0, 0, 2, 0x31, 0], [0xff]]
  let serverId ← G.nat 32
  let ip ← gUStr 25
  let gamePort ← G.nat 32
  let queryPort ← G.nat 32
  let name ← gUStr 127
  let map ← gUStr 40
  let gameType ← gUStr 40
  let maxPlayers ← G.nat 32
  let st : State := ⟨header.map UInt8.ofNat, serverId, ip, gamePort, queryPort, name, map, gameType,
    numPlayers, maxPlayers, extra.map UInt8.ofNat, pairs, players⟩
  let rulesCuts ← gCuts (pairs.map fun p => (encPair p).length)
  let playersCuts ← gCuts (players.map fun p => (encPlayer p).length)
  let gather : Gather := ⟨← gToggle, ← gToggle⟩
  pure (⟨gather, retries, rulesCuts, playersCuts, ← gOutcome, ← gOutcome⟩, st)

def showToggleArg : Gd.Toggle → String
  | .skip => "s" | .try_ => "t" | .enforce => "e"

def showGatherArg (g : Gather) : String := showToggleArg g.mutatorsAndRules ++ showToggleArg g.players

def showDelivery : Delivery → String
  | .data d => if d.isEmpty then "-" else hexOf d
  | .silence => "~"

def showDeliveries (ds : List Delivery) : String :=
  if ds.isEmpty then "." else String.intercalate "," (ds.map showDelivery)

/-- the sweep: case `k` of 512 is length byte `k % 256`, plain for `k < 256`, decorated after -/
def sweepStr (seed k : Nat) : UStr :=
  let lb := k % 256
  let enc := if lb ≥ 128 then Enc.ucs2 else .latin1
  let count := lb % 128
  if k < 256 then
    let n := count - 1
    ⟨enc, (List.range n).map (fun i => 0x41 + (i + lb) % 26), count > 0, false⟩
  else G.run (gUStrOf enc count) (seed * 7919 + k)

def strLine (id : String) (s : UStr) (trailer : Bytes) : String :=
  let e := encStr s
  -- an empty UCS-2 string without stray byte is in the domain when no byte 0x01 follows it
  let emptyOk := s.enc == .ucs2 && s.count == 0 && !s.stray && trailer.head? != some 1
  let wf := if wfStr s || emptyOk then "" else " NOTWF"
  s!"{id} u2str {hexOf (e ++ trailer)} ## WANT OK {showStr s.text} @{e.length}{wf}"

end U2

/-- `gen unreal2 <seed> <n>` -/
def genUnreal2 (seed n : Nat) : List String :=
  (List.range n).map fun k =>
    let retries := k % 3
    let (cfg, st) := G.run (U2.gCase retries) (seed * 1000003 + k)
    let port := 7777 + k % 3
    let line := s!"u{seed}_{k} unreal2 {port} {U2.showGatherArg cfg.gather} {retries} {U2.showDeliveries (Spec.script cfg st)}"
    let wf := if Spec.wf cfg st then "" else " NOTWF"
    line ++ " ## WANT " ++ showRes U2.showResponse (Spec.expected cfg st) ++ wf
      ++ " ## SENT " ++ String.intercalate "," ((Spec.requests cfg st).map hexOf)
      ++ " ## SEG " ++ String.intercalate "," ((Spec.segments cfg st).map toString)

/-- `gen u2str <seed> <n>`: the 512-case sweep, then `n` random strings -/
def genUnreal2Strings (seed n : Nat) : List String :=
  ((List.range 512).map fun k =>
    let trailer : Bytes := if k % 3 == 0 then [] else [0x00, 0x41]
    U2.strLine s!"s{seed}_w{k}" (U2.sweepStr seed k) trailer) ++
  ((List.range n).map fun k =>
    let (s, t) := G.run (do
      let s ← U2.gUStr
      let t ← G.oneOf [[], [0x00], [0x41, 0x42], [0x01], [0xff, 0xfe]]
      pure (s, t)) (seed * 1000003 + 77777 + k)
    -- a byte 0x01 after an empty UCS-2 string without stray byte is the format's ambiguity
    let t : List Nat := if s.enc == .ucs2 && s.count == 0 && !s.stray then [] else t
    U2.strLine s!"s{seed}_{k}" s (t.map UInt8.ofNat))

end Gd.Run
