import GdVerif.Run.Net
import GdVerif.Proto.Savage2
namespace Gd.Run
open Gd Gd.Savage2

def showSavage2 (r : Savage2.Response) : String :=
  "S2{" ++ String.intercalate ";" [showStr r.name, toString r.playersOnline, toString r.playersMaximum,
    toString r.playersMinimum, showStr r.time, showStr r.map, showStr r.nextMap, showStr r.location,
    showStr r.gameMode, showStr r.protocolVersion, toString r.levelMinimum] ++ "}"

/-- `savage2 <port> <retries (unused by the protocol)> <script> [opts]` -/
def entrySavage2 (args : List String) : String :=
  match args with
  | port :: r :: rest =>
    match port.toNat?, r.toNat?, parseNetArgs rest with
    | some port, some _, some na => runQ (Savage2.query port) na showSavage2
    | _, _, _ => "bad-case"
  | _ => "bad-case"

/-- `savage2_dp <ignored> <retries> <script>`: no port given -/
def entrySavage2Dp (args : List String) : String :=
  match args with
  | _ :: r :: rest =>
    match r.toNat?, parseNetArgs rest with
    | some _, some na => runQ (Savage2.query Savage2.DEFAULT_PORT) na showSavage2
    | _, _ => "bad-case"
  | _ => "bad-case"

def savage2Entries : List (String × (List String → String)) :=
  [("savage2", entrySavage2), ("savage2_dp", entrySavage2Dp)]

end Gd.Run
