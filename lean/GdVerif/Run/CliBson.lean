import GdVerif.Run.CliPlan
import GdVerif.Proto.CliBson
/-
  Driver entries for the BSON model (`Proto/CliBson.lean`):

    bson-enc <tokens>        → `OK <hex document>` / `ERR u64` / `ERR cstring` / `ERR top`
    bson-dec <hex document>  → tokens / `bad`

  tokens: `N` `T` `F` `I<kind>:<decimal>` (kind = i8 i16 i32 i64 u8 u16 u32 u64) `D<16 hex digits of the f64 bits>`
  `S<hex>` (`S` alone = empty) `A<n> item…` `O<n> (<hex key|-> value)…`
-/
namespace Gd.Run
open Gd Gd.Cli

def kindOfName (s : String) : Option IntKind :=
  match s with
  | "i8" => some .i8 | "i16" => some .i16 | "i32" => some .i32 | "i64" => some .i64
  | "u8" => some .u8 | "u16" => some .u16 | "u32" => some .u32 | "u64" => some .u64
  | _ => none

def kindName : IntKind → String
  | .i8 => "i8" | .i16 => "i16" | .i32 => "i32" | .i64 => "i64" | .u8 => "u8" | .u16 => "u16" | .u32 => "u32" | .u64 => "u64"

mutual
  partial def parseV : List String → Option (V × List String)
    | [] => none
    | t :: rest =>
      if t == "N" then some (.null, rest)
      else if t == "T" then some (.bool true, rest)
      else if t == "F" then some (.bool false, rest)
      else if t.startsWith "I" then
        match (t.drop 1).toString.splitOn ":" with
        | [k, d] =>
          match kindOfName k, d.toInt? with
          | some k, some v => if (Num.int k v).typed then some (.num (.int k v), rest) else none
          | _, _ => none
        | _ => none
      else if t.startsWith "D" then
        match parseHex (t.drop 1).toString with
        | some b => if b.length = 8 then some (.num (.f64 (beNat b)), rest) else none
        | none => none
      else if t.startsWith "S" then
        (if t.length = 1 then some [] else parseHex (t.drop 1).toString).map fun s => (.str s, rest)
      else if t.startsWith "A" then
        match (t.drop 1).toString.toNat? with
        | some n => (parseVList n rest).map fun (l, r) => (.arr l, r)
        | none => none
      else if t.startsWith "O" then
        match (t.drop 1).toString.toNat? with
        | some n => (parseVMembers n rest).map fun (m, r) => (.doc m, r)
        | none => none
      else none
  partial def parseVList : Nat → List String → Option (VList × List String)
    | 0, toks => some (.nil, toks)
    | n + 1, toks =>
      match parseV toks with
      | some (v, r) => (parseVList n r).map fun (l, r2) => (.cons v l, r2)
      | none => none
  partial def parseVMembers : Nat → List String → Option (VMembers × List String)
    | 0, toks => some (.nil, toks)
    | n + 1, toks =>
      match toks with
      | [] => none
      | k :: r =>
        match parseHex k, parseV r with
        | some kb, some (v, r2) => (parseVMembers n r2).map fun (m, r3) => (.cons kb v m, r3)
        | _, _ => none
end

def hex16 (n : Nat) : String := hexOf (natBE 8 n)

mutual
  partial def showV : V → List String
    | .null => ["N"]
    | .bool b => [if b then "T" else "F"]
    | .num (.int k v) => ["I" ++ kindName k ++ ":" ++ toString v]
    | .num (.f64 bits) => ["D" ++ hex16 bits]
    | .str s => ["S" ++ hexOf s]
    | .arr l => let items := showVList l; ("A" ++ toString items.length) :: items.flatten
    | .doc m => let ms := showVMembers m; ("O" ++ toString ms.length) :: ms.flatten
  partial def showVList : VList → List (List String)
    | .nil => []
    | .cons h t => showV h :: showVList t
  partial def showVMembers : VMembers → List (List String)
    | .nil => []
    | .cons k v t => (hexOrDash k :: showV v) :: showVMembers t
end

def entryBsonEnc (args : List String) : String :=
  match parseV args with
  | some (v, []) =>
    match bsonEncode v with
    | .ok b => "OK " ++ hexOrDash b
    | .error .unsignedRange => "ERR u64"
    | .error .nulKey => "ERR cstring"
    | .error .notDocument => "ERR top"
  | _ => "bad-case"

def entryBsonDec (args : List String) : String :=
  match args with
  | [h] =>
    match parseHex h with
    | some doc =>
      match bsonDecode doc with
      | some v => String.intercalate " " (showV v)
      | none => "bad"
    | none => "bad-case"
  | _ => "bad-case"

def cliBsonEntries : List (String × (List String → String)) := [("bson-enc", entryBsonEnc), ("bson-dec", entryBsonDec)]

end Gd.Run
