import GdVerif.Run.Net
import GdVerif.Proto.Jc2m
namespace Gd.Run
open Gd Gd.Jc2m

def showJc2mPlayer (p : Jc2m.Player) : String :=
  "(" ++ showStr p.name ++ ";" ++ showStr p.steamId ++ ";" ++ toString p.ping ++ ")"

def showJc2mResponse (r : Jc2m.Response) : String :=
  "JC{" ++ String.intercalate ";" [showStr r.gameVersion, showStr r.description, showStr r.name,
    showBool r.hasPassword, toString r.playersMaximum, toString r.playersOnline] ++ "}"
  ++ " P" ++ showList showJc2mPlayer r.players

/-- `jc2m <port|-> <retries> <script> [opts]` (`-` = no port given: the game's default port) -/
def entryJc2m (args : List String) : String :=
  match args with
  | port :: r :: rest =>
    let port? : Option (Option Nat) := if port == "-" then some none else port.toNat?.map some
    match port?, r.toNat?, parseNetArgs rest with
    | some port, some r, some na => runQ (Jc2m.query port r) na showJc2mResponse
    | _, _, _ => "bad-case"
  | _ => "bad-case"

def jc2mEntries : List (String × (List String → String)) := [("jc2m", entryJc2m)]

end Gd.Run
