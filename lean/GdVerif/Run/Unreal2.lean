import GdVerif.Run.Net
import GdVerif.Proto.Unreal2
namespace Gd.Run
open Gd Gd.Unreal2

namespace U2

def showInfo (i : ServerInfo) : String :=
  "I{" ++ String.intercalate ";" [toString i.serverId, showStr i.ip, toString i.gamePort, toString i.queryPort,
    showStr i.name, showStr i.map, showStr i.gameType, toString i.numPlayers, toString i.maxPlayers,
    showBool i.password] ++ "}"

def showPlayer (p : Player) : String :=
  "(" ++ String.intercalate ";" [toString p.id, showStr p.name, toString p.ping, toString p.score, toString p.statsId] ++ ")"

def showRule (p : Bytes × List Bytes) : String := showStr p.1 ++ "=" ++ showList showStr p.2

/-- sets and maps are printed sorted by the bytes of the element / key -/
def showMR (m : MutatorsAndRules) : String :=
  "M" ++ showList showStr (sortBy bytesLt m.mutators) ++ " R" ++ showList showRule (sortBy (fun a b => bytesLt a.1 b.1) m.rules)

def showPlayers (p : Players) : String :=
  "P" ++ showList showPlayer p.players ++ " B" ++ showList showPlayer p.bots

def showResponse (r : Response) : String :=
  showInfo r.serverInfo ++ " " ++ showMR r.mutatorsAndRules ++ " " ++ showPlayers r.players

def parseToggle : Char → Option Toggle
  | 's' => some .skip | 't' => some .try_ | 'e' => some .enforce | _ => none

/-- two letters: mutators-and-rules toggle, players toggle -/
def parseGather (s : String) : Option Gather :=
  match s.toList with
  | [m, p] =>
    match parseToggle m, parseToggle p with
    | some m, some p => some ⟨p, m⟩
    | _, _ => none
  | _ => none

/-- the bytes a `u2str` case is about: the first delivery of the first scripted socket -/
def firstDelivery (sc : List ConnScript) : Bytes :=
  match sc with
  | .opened (.data d :: _) :: _ => d
  | _ => []

/-- text, cursor after the read -/
def showU2Str (data : Bytes) : String :=
  let r := match readU2Str (Buf.new data) with
    | .ok (s, b) => "OK " ++ showStr s ++ " @" ++ toString b.pos
    | .err k => "ERR " ++ k.name
    | .crash => "CRASH"
  r ++ " ;; R0:-:" ++ toString data.length

end U2

/-- `unreal2 <port> <gather> <retries> <script> [opts]` -/
def entryUnreal2 (args : List String) : String :=
  match args with
  | port :: g :: r :: rest =>
    match port.toNat?, U2.parseGather g, r.toNat?, parseNetArgs rest with
    | some port, some g, some r, some na => runQ (Unreal2.query port g r) na U2.showResponse
    | _, _, _, _ => "bad-case"
  | _ => "bad-case"

/-- `u2str <hex>`: one `read_string::<Unreal2StringDecoder>` over the bytes -/
def entryU2Str (args : List String) : String :=
  match args with
  | sc :: _ =>
    match parseNetArgs [sc] with
    | some na => U2.showU2Str (U2.firstDelivery na.script)
    | none => "bad-case"
  | _ => "bad-case"

def unreal2Entries : List (String × (List String → String)) := [("unreal2", entryUnreal2), ("u2str", entryU2Str)]

end Gd.Run
