import GdVerif.Run.GenTheShip
import GdVerif.Run.Battalion
import GdVerif.Spec.Battalion
namespace Gd.Run
open Gd Gd.Valve Gd.Valve.Spec

/-- a random subset of the six `bat_*` rules; numbers mostly 0–255 in decimal, sometimes not -/
def gBatRules : G Rules := do
  let num : G Bytes := do
    let c ← G.below 12
    match c with
    | 0 => pure (asciiBytes "256")
    | 1 => G.oneOf [asciiBytes "", asciiBytes "abc", asciiBytes "-1", asciiBytes "1 ", asciiBytes "+5"]
    | 2 => pure (asciiBytes "007")
    | _ => do let n ← G.nat 8; pure (natDec n)
  let yn ← G.oneOf [asciiBytes "Y", asciiBytes "N", asciiBytes "y", asciiBytes ""]
  let cands : List (Bytes × Bytes) :=
    [(asciiBytes "bat_max_players_i", ← num), (asciiBytes "bat_player_count_s", ← num),
     (asciiBytes "bat_has_password_s", yn), (asciiBytes "bat_name_s", ← gStr 40),
     (asciiBytes "bat_gamemode_s", ← gStr 12), (asciiBytes "bat_map_s", ← gStr 12)]
  let all ← G.chance 1 3
  let keep ← G.listOf 6 (G.chance 1 2)
  pure ((cands.zip keep).filterMap fun (kv, k) => if all || k then some kv else none)

/-- `gen battalion <seed> <n>` -/
def genBattalion (seed n : Nat) : List String :=
  (List.range n).map fun k =>
    let (cfg, st) := G.run (gGameState Battalion.Spec.batEngine 489940 gBatRules) (seed * 1000003 + k)
    let dp := k % 5 == 4
    let port := if dp then Battalion.Spec.defaultPort else 7780 + k % 3
    let entry := if dp then "battalion_dp" else "battalion"
    let line := s!"bt{seed}_{k} {entry} {port} 0 {showScript (Spec.script cfg st)}"
    let wf := if Battalion.Spec.wf cfg st then "" else " NOTWF"
    line ++ " ## WANT " ++ showRes showGameResponse (Battalion.Spec.expected st) ++ wf ++ valveTags cfg st

end Gd.Run
