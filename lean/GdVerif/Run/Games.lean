import GdVerif.Run.Valve
import GdVerif.Proto.Games
import GdVerif.Gen.Games
namespace Gd.Run
open Gd Gd.Valve Gd.Games

def showGamePlayer (p : GamePlayer) : String :=
  "(" ++ String.intercalate ";" [showStr p.name, toString p.score, showNat p.duration] ++ ")"

def showGameResponse (r : GameResponse) : String :=
  "G{" ++ String.intercalate ";" [showNat r.protocol, showStr r.name, showStr r.map, showStr r.game, showNat r.appid,
    showNat r.playersOnline, showList showGamePlayer r.playersDetails, showNat r.playersMaximum, showNat r.playersBots,
    showServerType r.serverType, showBool r.hasPassword, showBool r.vacSecured, showStr r.version,
    showOpt showNat r.port, showOpt showNat r.steamId, showOpt showNat r.tvPort, showOpt showStr r.tvName,
    showOpt showStr r.keywords, showMap r.rules] ++ "}"

def valveParamsOf (row : Gd.Gen.GameRow) : Option ValveParams :=
  if row.proto != "valve" then none
  else match parseEngine row.engine, parseGather row.gather with
    | some e, some g => some ⟨row.port, e, g⟩
    | _, _ => none

def parsePortArg (s : String) : Option (Option Nat) := if s == "-" then some none else s.toNat?.map some

/-- `game-generic <id> <port|-> <retries> <script>` — result shown through the documented conversion -/
def entryGameGeneric (args : List String) : String :=
  match args with
  | id :: port :: r :: rest =>
    match (Gd.Gen.gameDefs.find? (·.id == id)).bind valveParamsOf, parsePortArg port, r.toNat?, parseNetArgs rest with
    | some d, some port, some r, some na => runQ (mapQ gameView (genericQuery (extOf na) d port r)) na showGameResponse
    | none, _, _, _ => "no-such-valve-game"
    | _, _, _, _ => "bad-case"
  | _ => "bad-case"

/-- `game-module <module> <port|-> <script>` -/
def entryGameModule (args : List String) : String :=
  match args with
  | id :: port :: rest =>
    match (Gd.Gen.gameMods.find? (·.id == id)).bind valveParamsOf, parsePortArg port, parseNetArgs rest with
    | some m, some port, some na => runQ (moduleQuery (extOf na) m port) na showGameResponse
    | none, _, _ => "no-such-valve-game"
    | _, _, _ => "bad-case"
  | _ => "bad-case"

/-- `game-protocol <port> <engine> <gather> <retries> <script>` — protocol-level query, shown through the conversion -/
def entryGameProtocol (args : List String) : String :=
  match args with
  | port :: eng :: g :: r :: rest =>
    match port.toNat?, parseEngine eng, parseGather g, r.toNat?, parseNetArgs rest with
    | some port, some eng, some g, some r, some na =>
      runQ (mapQ gameView (protocolQuery (extOf na) port eng g r)) na showGameResponse
    | _, _, _, _, _ => "bad-case"
  | _ => "bad-case"

/-- `game-generic` and `game-module` are served by the dispatch model (`Run/Dispatch.lean`: `Dispatch.generic`,
`Dispatch.moduleQuery` over the generated rows); `entryGameGeneric` / `entryGameModule` above are the Valve-only
model of `Proto/Games.lean`, which `C14_dispatch_valve_arm` identifies with the Valve arm of the dispatch. -/
def gameEntries : List (String × (List String → String)) :=
  [("game-protocol", entryGameProtocol)]

end Gd.Run
