import GdVerif.Run.Valve
import GdVerif.Proto.Ffow
namespace Gd.Run
open Gd Gd.Ffow

def showFfow (r : Ffow.Response) : String :=
  "FF{" ++ String.intercalate ";" [toString r.protocolVersion, showStr r.name, showStr r.activeMod, showStr r.gameMode,
    showStr r.gameVersion, showStr r.description, showStr r.map, toString r.playersOnline, toString r.playersMaximum,
    showServerType r.serverType, showEnvironment r.environmentType, showBool r.hasPassword, showBool r.vacSecured,
    toString r.round, toString r.roundsMaximum, toString r.timeLeft] ++ "}"

/-- `ffow <port> <retries> <script> [opts]` -/
def entryFfow (args : List String) : String :=
  match args with
  | port :: r :: rest =>
    match port.toNat?, r.toNat?, parseNetArgs rest with
    | some port, some r, some na => runQ (Ffow.query (extOf na) port r) na showFfow
    | _, _, _ => "bad-case"
  | _ => "bad-case"

/-- `ffow_dp <ignored> <retries> <script>`: no port given -/
def entryFfowDp (args : List String) : String :=
  match args with
  | _ :: r :: rest =>
    match r.toNat?, parseNetArgs rest with
    | some r, some na => runQ (Ffow.query (extOf na) Ffow.DEFAULT_PORT r) na showFfow
    | _, _ => "bad-case"
  | _ => "bad-case"

def ffowEntries : List (String × (List String → String)) := [("ffow", entryFfow), ("ffow_dp", entryFfowDp)]

end Gd.Run
