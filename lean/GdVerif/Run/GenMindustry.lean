import GdVerif.Run.GenLib
import GdVerif.Run.Mindustry
import GdVerif.Spec.Mindustry
namespace Gd.Run
open Gd Gd.Mindustry Gd.Mindustry.Spec

def gMdStr (maxLen : Nat) : G Bytes := do
  -- now and then exactly the longest string the length byte can announce (255 bytes) or just below, ASCII or ending in a
  -- multi-byte scalar
  let edge ← G.chance 1 10
  if edge then
    let n ← G.oneOf [255, 254, 255, 253]
    let tail ← G.oneOf [([] : Bytes), [0xC3, 0xA9], [0xE2, 0x82, 0xAC]]
    return List.replicate (n - tail.length) 0x61 ++ tail
  -- mostly within the game's own limits, sometimes up to the format's 255
  let big ← G.chance 1 12
  let t ← G.text [0] (if big then 255 else maxLen)
  let b := utf8Encode t
  -- the length byte counts bytes: keep whole scalars within 255 bytes
  pure (if b.length < 256 then b else utf8Encode (t.take 60))

def gMindustryState : G Spec.State := do
  let name ← gMdStr 100
  let map ← gMdStr 64
  let players ← G.int 32
  let wave ← G.int 32
  let build ← G.oneOf [146, 0, -1, 2147483647, -2147483648, 126, 256, 65536]
  let vt ← gMdStr 32
  let mode ← G.oneOf [GameMode.survival, .sandbox, .attack, .pvp, .editor]
  let limit ← G.int 32
  let desc ← gMdStr 100
  let hasMode ← G.bool
  let modeName ← if hasMode then do let s ← gMdStr 50; pure (some s) else pure none
  pure ⟨name, map, players, wave, build, vt, mode, limit, desc, modeName⟩

def showScriptConns (conns : List (List Bytes)) : String :=
  if conns.isEmpty then "_" else
  String.intercalate "/" (conns.map fun dgs => if dgs.isEmpty then "." else String.intercalate "," (dgs.map hexOf))

/-- `gen mindustry <seed> <n>` -/
def genMindustry (seed n : Nat) : List String :=
  (List.range n).map fun k =>
    let st := G.run gMindustryState (seed * 1000003 + k)
    let dp := k % 5 == 4
    let port := if dp then Spec.defaultPort else 6567 + k % 3
    let entry := if dp then "mindustry_dp" else "mindustry"
    let retries := k % 3
    let line := s!"md{seed}_{k} {entry} {port} {retries} {showScriptConns [Spec.script st]}"
    let wf := if Spec.wf st then "" else " NOTWF"
    line ++ " ## WANT " ++ showRes showServerData (.ok (Spec.expected st)) ++ wf
      ++ " ## SENT " ++ String.intercalate "," ((Spec.requests st).map hexOf)
      ++ " ## SEG 1"

end Gd.Run
