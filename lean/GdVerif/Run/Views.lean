import GdVerif.Run.Common
import GdVerif.Gen.Views
import GdVerif.Spec.Views
/-
  Driver entry for C15: evaluate the GENERATED accessor tables on a response value given as a token
  tree and print the protocol-independent JSON form.
  Tokens: `N` null, `T`/`F`, `I<int>`, `S<hex>`, `A<n>` + n values, `O<n>` + n × (`<hexkey>` value).
-/
namespace Gd.Run
open Gd Gd.Views

partial def parseVal : List String → Option (Val × List String)
  | [] => none
  | t :: rest =>
    if t == "N" then some (.null, rest)
    else if t == "T" then some (.bool true, rest)
    else if t == "F" then some (.bool false, rest)
    else if t.startsWith "I" then (parseInt? (t.drop 1).toString).map fun i => (.num i, rest)
    else if t.startsWith "S" then (parseHex (t.drop 1).toString).map fun s => (.str s, rest)
    else if t.startsWith "A" then
      match (t.drop 1).toString.toNat? with
      | none => none
      | some n =>
        let rec items (k : Nat) (toks : List String) (acc : List Val) : Option (List Val × List String) :=
          match k with
          | 0 => some (acc.reverse, toks)
          | k + 1 => match parseVal toks with
            | some (v, r) => items k r (v :: acc)
            | none => none
        (items n rest []).map fun (l, r) => (.arr l, r)
    else if t.startsWith "O" then
      match (t.drop 1).toString.toNat? with
      | none => none
      | some n =>
        let rec fields (k : Nat) (toks : List String) (acc : List (String × Val)) : Option (List (String × Val) × List String) :=
          match k with
          | 0 => some (acc.reverse, toks)
          | k + 1 => match toks with
            | key :: r =>
              match parseHex key, parseVal r with
              | some kb, some (v, r2) => fields k r2 ((String.ofList (kb.map fun b => Char.ofNat b.toNat), v) :: acc)
              | _, _ => none
            | [] => none
        (fields n rest []).map fun (l, r) => (.obj l, r)
    else none

partial def showVal : Val → String
  | .null => "N"
  | .bool b => if b then "T" else "F"
  | .num i => "I" ++ toString i
  | .str s => "S" ++ hexOf s
  | .arr l => String.intercalate " " (("A" ++ toString l.length) :: l.map showVal)
  | .obj fs => String.intercalate " " (("O" ++ toString fs.length) :: fs.map fun (k, v) => hexOf (asciiBytes k) ++ " " ++ showVal v)

def findView (file trait type : String) : Option ImplView :=
  Gd.Gen.implViews.find? fun v => v.file == file && v.trait == trait && v.type == type

/-- `view <file> <Type> <player file|-> <player Type|-> <tokens…>` -/
def entryView (args : List String) : String :=
  match args with
  | file :: type :: pfile :: ptype :: toks =>
    match findView file "CommonResponse" type, parseVal toks with
    | some rv, some (v, []) =>
      let pt := match findView pfile "CommonPlayer" ptype with
        | some pv => pv.table
        | none => []
      showVal (responseJson rv.table pt v)
    | none, _ => "no-such-view"
    | _, _ => "bad-case"
  | _ => "bad-case"

def findIntended (file trait type : String) : Option (List (String × ViewExpr)) :=
  (Gd.Views.Spec.intended.find? fun v => v.1 == file && v.2.1 == trait && v.2.2.1 == type).map (·.2.2.2)

/-- `view-intended <file> <Type> <player file|-> <player Type|-> <tokens…>`: the same evaluation with the INTENDED
table (Spec/Views.lean, written from RESPONSES.md) instead of the one generated from the source: what the view must be -/
def entryViewIntended (args : List String) : String :=
  match args with
  | file :: type :: pfile :: ptype :: toks =>
    match findIntended file "CommonResponse" type, parseVal toks with
    | some rt, some (v, []) => showVal (responseJson rt ((findIntended pfile "CommonPlayer" ptype).getD []) v)
    | none, _ => "no-such-view"
    | _, _ => "bad-case"
  | _ => "bad-case"

def viewEntries : List (String × (List String → String)) := [("view", entryView), ("view-intended", entryViewIntended)]

end Gd.Run
