import GdVerif.Run.Cli
import GdVerif.Run.Views
import GdVerif.Run.Dispatch
import GdVerif.Proto.CliPlan
/-
  Driver entries for the command-line tool's model (`Proto/CliPlan.lean`, `Proto/CliJson.lean`, `Proto/CliCodec.lean`):

    cli-plan  <key>:<hex value>… [res:<hex of an address text>|res:fail]
              keys g i p f o ct rt wt rn hn pv gp gr ca = the flags of `gamedig_cli query` (absent key = flag not given,
              `g:` = the empty string); `res` = what the system resolver answers for the host (a parameter of the model)
    ip-parse  <hex text>                → the address as `Display` prints it / `none`
    hex-enc / b64-enc <hex bytes>       → the text          hex-dec / b64-dec <hex text> → `OK <hex bytes>` / `ERR`
    json-print <c|p> <tokens>           → hex of the compact / pretty document (tokens as for `xml-of`)
    json-read <hex document>            → tokens / `bad`
    cli-doc   <g|p> <json|json-pretty> <file> <Type> <player file|-> <player Type|-> <Variant,Variant…|-> <Val tokens>
              → hex of the document `output_result` prints for that response in that mode
-/
namespace Gd.Run
open Gd Gd.Cli Gd.CliPlan

def hexOrDash (b : Bytes) : String := if b.isEmpty then "-" else hexOf b

def bytesToString (b : Bytes) : String := String.ofList (b.map fun x => Char.ofNat x.toNat)

/-- `key:hexvalue` -/
def splitKV (s : String) : Option (String × Bytes) :=
  match s.splitOn ":" with
  | [k, v] => (if v.isEmpty then some [] else parseHexAux v.toList []).map fun b => (k, b)
  | _ => none

def flagsOf (kvs : List (String × Bytes)) : Option Flags :=
  kvs.foldlM (init := ({} : Flags)) fun fl (k, v) =>
    match k with
    | "g" => some { fl with game := some v }
    | "i" => some { fl with ip := some v }
    | "p" => some { fl with port := some v }
    | "f" => some { fl with format := some v }
    | "o" => some { fl with outputMode := some v }
    | "ct" => some { fl with connectTimeout := some v }
    | "rt" => some { fl with readTimeout := some v }
    | "wt" => some { fl with writeTimeout := some v }
    | "rn" => some { fl with retries := some v }
    | "hn" => some { fl with hostname := some v }
    | "pv" => some { fl with protocolVersion := some v }
    | "gp" => some { fl with gatherPlayers := some v }
    | "gr" => some { fl with gatherRules := some v }
    | "ca" => some { fl with checkAppId := some v }
    | _ => none

def showDurP (d : Option Settings.Duration) : String :=
  match d with
  | some d => s!"+{d.secs}:{d.nanos}"
  | none => "-"

def showTimeoutP (t : Option Settings.Timeout) : String :=
  match t with
  | none => "-"
  | some t => s!"c{showDurP t.connect},r{showDurP t.read},w{showDurP t.write},n{t.retries}"

def showExtraP (e : Dispatch.Extra) : String :=
  let o {α} (f : α → String) (x : Option α) : String := match x with | some a => f a | none => "-"
  s!"E{o (fun h => "=" ++ hexOf h) e.hostname}:{o (fun (v : Int) => toString v) e.protocolVersion}:{o showToggleD e.gatherPlayers}:{o showToggleD e.gatherRules}:{o (fun b => if b then "T" else "F") e.checkAppId}"

def showModeP : OutputMode → String
  | .generic => "generic" | .protocolSpecific => "protocol-specific"

def showFormatP : OutputFormat → String
  | .debug => "debug" | .jsonPretty => "json-pretty" | .json => "json" | .xml => "xml"
  | .bsonHex => "bson-hex" | .bsonBase64 => "bson-base64"

def showPlan (p : Plan) : String :=
  s!"PLAN game={hexOrDash (asciiBytes p.row.name)} defport={p.row.port} proto={p.row.proto} engine={p.row.engine} "
    ++ s!"reqset={showExtraP (Dispatch.requestSettingsOf p.row.tag)} host={if p.hostWasName then "name" else "literal"} "
    ++ s!"ip={bytesToString (showIpAddr p.address)} port={match p.port with | some n => toString n | none => "-"} "
    ++ s!"timeout={showTimeoutP p.timeoutSettings} extra={match p.extraOptions with | some e => showExtraP e | none => "-"} "
    ++ s!"mode={showModeP p.outputMode} format={showFormatP p.format}"

def showStepPlan : Step Plan → String
  | .ok p => showPlan p
  | .usage => "EXIT 2"
  | .fail (.unknownGame id) => "EXIT 1 UnknownGame " ++ showStr id
  | .fail (.invalidHostname h) => "EXIT 1 InvalidHostname " ++ showStr h
  | .fail _ => "EXIT 1 other"
  | .panic => "CRASH"
  | .unmodelled => "no-model"

def entryCliPlan (args : List String) : String :=
  let (res, kvs) := args.partition (·.startsWith "res:")
  let resolver : Option (Bytes → Option Http.IpAddr) :=
    match res with
    | [] => some fun _ => none
    | ["res:fail"] => some fun _ => none
    | [r] => (parseHexAux (r.drop 4).toString.toList []).map fun text => fun _ => parseIpAddr text
    | _ => none
  match resolver, (kvs.mapM splitKV).bind flagsOf with
  | some resolve, some fl => showStepPlan (plan resolve fl)
  | _, _ => "bad-case"

def entryIpParse (args : List String) : String :=
  match args with
  | [h] =>
    match parseHex h with
    | some text =>
      match parseIpAddr text with
      | some ip => bytesToString (showIpAddr ip)
      | none => "none"
    | none => "bad-case"
  | _ => "bad-case"

def textOut (b : Bytes) : String := if b.isEmpty then "-" else bytesToString b

def entryEnc (enc : Bytes → Bytes) (args : List String) : String :=
  match args with
  | [h] => match parseHex h with
    | some b => textOut (enc b)
    | none => "bad-case"
  | _ => "bad-case"

def entryDec (dec : Bytes → Option Bytes) (args : List String) : String :=
  match args with
  | [h] => match parseHex h with
    | some t => match dec t with
      | some b => "OK " ++ hexOrDash b
      | none => "ERR"
    | none => "bad-case"
  | _ => "bad-case"

mutual
  partial def showJ : J → List String
    | .null => ["N"]
    | .bool b => [if b then "T" else "F"]
    | .num t => ["#" ++ hexOf t]
    | .str s => ["S" ++ hexOf s]
    | .arr l => let items := showJList l; ("A" ++ toString items.length) :: items.flatten
    | .obj m => let ms := showJMembers m; ("O" ++ toString ms.length) :: ms.flatten
  partial def showJList : JList → List (List String)
    | .nil => []
    | .cons h t => showJ h :: showJList t
  partial def showJMembers : JMembers → List (List String)
    | .nil => []
    | .cons k v t => (hexOrDash k :: showJ v) :: showJMembers t
end

def entryJsonPrint (args : List String) : String :=
  match args with
  | style :: toks =>
    match parseJ toks with
    | some (j, []) =>
      if style == "c" then hexOrDash (jsonCompact j) else if style == "p" then hexOrDash (jsonPretty j) else "bad-case"
    | _ => "bad-case"
  | _ => "bad-case"

def entryJsonRead (args : List String) : String :=
  match args with
  | [h] =>
    match parseHex h with
    | some doc =>
      match readJson doc with
      | some j => String.intercalate " " (showJ j)
      | none => "bad"
    | none => "bad-case"
  | _ => "bad-case"

def entryCliDoc (args : List String) : String :=
  match args with
  | mode :: fmt :: file :: type :: pfile :: ptype :: variants :: toks =>
    match findView file "CommonResponse" type, parseVal toks with
    | some rv, some (v, []) =>
      let pt := match findView pfile "CommonPlayer" ptype with
        | some pv => pv.table
        | none => []
      let r : Rendered := ⟨v, rv.table, pt, if variants == "-" then [] else variants.splitOn ","⟩
      let m : Option OutputMode := if mode == "g" then some .generic else if mode == "p" then some .protocolSpecific else none
      match m with
      | none => "bad-case"
      | some m =>
        let value := valueFor m r
        if fmt == "json" then hexOrDash (jsonCompact value)
        else if fmt == "json-pretty" then hexOrDash (jsonPretty value)
        else "bad-case"
    | none, _ => "no-such-view"
    | _, _ => "bad-case"
  | _ => "bad-case"

def cliPlanEntries : List (String × (List String → String)) := [
  ("cli-plan", entryCliPlan), ("ip-parse", entryIpParse),
  ("hex-enc", entryEnc hexEncode), ("hex-dec", entryDec hexDecode),
  ("b64-enc", entryEnc b64Encode), ("b64-dec", entryDec b64Decode),
  ("json-print", entryJsonPrint), ("json-read", entryJsonRead), ("cli-doc", entryCliDoc)]

end Gd.Run
