import GdVerif.Run.Net
import GdVerif.Run.McJson
import GdVerif.Proto.Minecraft
/-
  Line-protocol entries of the Minecraft family:
    mcjava    <port> <protocol version> <host name hex> <retries> <script> [opts]
    mcbedrock <port> <retries> <script> [opts]
    mclegacy  <port> <16|14|b18|any> <retries> <script> [opts]
    mcauto    <port> <protocol version> <host name hex> <retries> <script> [opts]
-/
namespace Gd.Run.McDrv
open Gd Gd.Mc Gd.Run

def showLegacyGroup : LegacyGroup → String
  | .v1_6 => "16" | .v1_4 => "14" | .vb1_8 => "b18"

def showMcServer : Server → String
  | .java => "J" | .bedrock => "B" | .legacy g => "L" ++ showLegacyGroup g

def showMcPlayer (p : Player) : String := "(" ++ showStr p.name ++ ";" ++ showStr p.id ++ ")"

def showJavaResponse (r : JavaResponse) : String :=
  "J{" ++ String.intercalate ";" [showStr r.gameVersion, toString r.protocolVersion, toString r.playersMaximum,
    toString r.playersOnline, showOpt (showList showMcPlayer) r.players, showStr r.description,
    showOpt showStr r.favicon, showOpt showBool r.previewsChat, showOpt showBool r.enforcesSecureChat,
    showMcServer r.serverType] ++ "}"

def showGameMode : GameMode → String
  | .survival => "S" | .creative => "C" | .hardcore => "H" | .spectator => "P" | .adventure => "A"

def showBedrockResponse (r : BedrockResponse) : String :=
  "B{" ++ String.intercalate ";" [showStr r.edition, showStr r.name, showStr r.versionName, showStr r.protocolVersion,
    toString r.playersMaximum, toString r.playersOnline, showOpt showStr r.id, showOpt showStr r.map,
    showOpt showGameMode r.gameMode, showMcServer r.serverType] ++ "}"

def parseLegacyArg : String → Option (Option LegacyGroup)
  | "16" => some (some .v1_6) | "14" => some (some .v1_4) | "b18" => some (some .vb1_8) | "any" => some none
  | _ => none

def parseSettings (pv host : String) : Option RequestSettings :=
  match parseInt? pv, parseHex host with
  | some pv, some h => some ⟨h, pv⟩
  | _, _ => none

def entryMcJava (args : List String) : String :=
  match args with
  | port :: pv :: host :: r :: rest =>
    match port.toNat?, parseSettings pv host, r.toNat?, parseNetArgs rest with
    | some port, some st, some r, some na => runQ (queryJava McJson.ext port st r) na showJavaResponse
    | _, _, _, _ => "bad-case"
  | _ => "bad-case"

def entryMcAuto (args : List String) : String :=
  match args with
  | port :: pv :: host :: r :: rest =>
    match port.toNat?, parseSettings pv host, r.toNat?, parseNetArgs rest with
    | some port, some st, some r, some na => runQ (queryAuto McJson.ext port st r) na showJavaResponse
    | _, _, _, _ => "bad-case"
  | _ => "bad-case"

def entryMcBedrock (args : List String) : String :=
  match args with
  | port :: r :: rest =>
    match port.toNat?, r.toNat?, parseNetArgs rest with
    | some port, some r, some na => runQ (queryBedrock port r) na showBedrockResponse
    | _, _, _ => "bad-case"
  | _ => "bad-case"

def entryMcLegacy (args : List String) : String :=
  match args with
  | port :: ver :: r :: rest =>
    match port.toNat?, parseLegacyArg ver, r.toNat?, parseNetArgs rest with
    | some port, some (some g), some r, some na => runQ (queryLegacySpecific g port r) na showJavaResponse
    | some port, some none, some r, some na => runQ (queryLegacy port r) na showJavaResponse
    | _, _, _, _ => "bad-case"
  | _ => "bad-case"

def minecraftEntries : List (String × (List String → String)) :=
  [("mcjava", entryMcJava), ("mcbedrock", entryMcBedrock), ("mclegacy", entryMcLegacy), ("mcauto", entryMcAuto)]

end Gd.Run.McDrv
