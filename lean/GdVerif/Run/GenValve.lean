import GdVerif.Run.GenLib
import GdVerif.Run.Valve
import GdVerif.Spec.Valve
namespace Gd.Run
open Gd Gd.Valve Gd.Valve.Spec

deriving instance Inhabited for Gd.Valve.Engine
deriving instance Inhabited for Gd.Toggle
deriving instance Inhabited for Gd.Valve.ServerType
deriving instance Inhabited for Gd.Valve.Environment

def gStr (maxLen : Nat := 40) : G Bytes := do let t ← G.text [0] maxLen; pure (utf8Encode t)

def gOpt (g : G α) : G (Option α) := do if (← G.bool) then pure none else do let x ← g; pure (some x)

def gEngine : G Engine :=
  G.oneOf [.source none, Engine.new 730, .source (some (730, some 740)), Engine.new 2400, Engine.new 240,
    Engine.new 632360, .goldSrc false, .goldSrc true, Engine.new 440, .source (some (4000, some 4020))]

def gToggle : G Toggle := G.oneOf [.skip, .try_, .enforce, .try_, .enforce]

def gExtra (appid : Nat) : G ExtraData := do
  let port ← gOpt (G.nat 16)
  let steamId ← gOpt (G.nat 64)
  let tv ← G.bool
  let tvPort ← if tv then do let p ← G.nat 16; pure (some p) else pure none
  let tvName ← if tv then do let s ← gStr; pure (some s) else pure none
  let keywords ← gOpt (gStr 128)
  let gameId ← gOpt (do let hi ← G.nat 40; pure (appid % 2 ^ 24 + 2 ^ 24 * hi))
  pure ⟨port, steamId, tvPort, tvName, keywords, gameId⟩

def gAppid (engine : Engine) : G Nat := do
  -- (2400 is The Ship: ids whose low 16 bits read 2400 belong to other games)
  let other ← G.oneOf [0, 10, 65535, 70000, 16777215, 730, 740, 2400, 67936, 133472, 16714080]
  match engine with
  | .source (some (m, d)) =>
    let c ← G.below 6
    if c < 3 then pure m else if c < 5 then pure (d.getD m) else pure other
  | _ => pure other

def gSourceInfo (engine : Engine) : G ServerInfo := do
  let appid ← gAppid engine
  let extra ← gOpt (gExtra appid)
  -- without a GameID the id travels in 16 bits
  let appid := match extra.bind (·.gameId) with
    | some _ => appid % 2 ^ 24
    | none => appid % 2 ^ 16
  let protocol ← G.oneOf [17, 7, 0, 48, 255, 7]
  let ship ← if engine == Engine.new 2400 then do
      let a ← G.nat 8; let b ← G.nat 8; let c ← G.nat 8; pure (some (TheShip.mk a b c))
    else pure none
  pure { protocolVersion := protocol, name := ← gStr 64, map := ← gStr, folder := ← gStr, gameMode := ← gStr,
         appid, playersOnline := ← G.nat 8, playersMaximum := ← G.nat 8, playersBots := ← G.nat 8,
         serverType := ← G.oneOf [.dedicated, .nonDedicated, .tv],
         environmentType := ← G.oneOf [.linux, .windows, .mac],
         hasPassword := ← G.bool, vacSecured := ← G.bool, theShip := ship, gameVersion := ← gStr,
         extraData := extra, isMod := false, modData := none }

def gGoldInfo : G ServerInfo := do
  let isMod ← G.bool
  let md ← if isMod then do
      pure (some (ModData.mk (← gStr) (← gStr) (← G.nat 32) (← G.nat 32) (← G.bool) (← G.bool)))
    else pure none
  pure { protocolVersion := ← G.nat 8, name := ← gStr 64, map := ← gStr, folder := ← gStr, gameMode := ← gStr,
         appid := 0, playersOnline := ← G.nat 8, playersMaximum := ← G.nat 8, playersBots := ← G.nat 8,
         serverType := ← G.oneOf [.dedicated, .nonDedicated, .tv],
         environmentType := ← G.oneOf [.linux, .windows],
         hasPassword := ← G.bool, vacSecured := ← G.bool, theShip := none, gameVersion := [],
         extraData := none, isMod, modData := md }

def gPlayer (ship : Bool) : G ServerPlayer := do
  let deaths ← if ship then do let v ← G.nat 32; pure (some v) else pure none
  let money ← if ship then do let v ← G.nat 32; pure (some v) else pure none
  pure ⟨← gStr 32, ← G.int 32, ← G.nat 32, deaths, money⟩

def gRules (engine : Engine) : G Rules := do
  let n ← G.oneOf [0, 1, 2, 3, 8, 30]
  let kvs ← G.listOf n (do
    let k ← G.ident
    let v ← gStr 24
    pure (utf8Encode k, v))
  let kvs := if engine == Engine.new 632360 then (asciiBytes "Test", asciiBytes "1") :: kvs else kvs
  pure (dedupKeys kvs)

def gChallenge : G Bytes := do
  let c ← G.below 4
  match c with
  | 0 => pure [0, 0, 0, 0]
  | 1 => pure [0xFF, 0xFF, 0xFF, 0xFF]
  | _ => G.listOf 4 (do let b ← G.oneOf [0, 0x41, 0xFF, 0x0A, 0x80, 0x7F, 0x54]; pure (UInt8.ofNat b))

def gSizes (len maxFrags : Nat) : G (List Nat) := do
  let k ← G.oneOf [1, 1, 2, 3, 4, 5]
  let k := min k (maxFrags - 1)
  G.listOf k (do let s ← G.below (len / k + 2); pure (s + 1))

def gExchange (engine : Engine) (len : Nat) : G Exchange := do
  let nch ← G.oneOf [0, 0, 1, 1, 2, 3]
  let chs ← G.listOf nch gChallenge
  let c ← G.below 10
  let id ← G.nat 31
  let tr ← if c < 5 then pure Transport.single
    else match engine with
      | .goldSrc _ => do let s ← gSizes len 15; pure (Transport.goldSplit id s)
      | _ => do let s ← gSizes len 200; pure (Transport.sourceSplit id s)
  pure ⟨chs, tr⟩

def gValveCaseWith (fixed : Option (Engine × Gather)) : G (Config × Spec.State) := do
  let engine0 ← gEngine
  let engine := match fixed with
    | some (e, _) => e
    | none => engine0
  let info ← if engine == .goldSrc true then gGoldInfo else gSourceInfo engine
  let ship := engine == Engine.new 2400
  let np ← G.oneOf [0, 1, 2, 3, 5, 12, 40]
  let players ← G.listOf np (gPlayer ship)
  let rules ← gRules engine
  let gather0 : Gather := ⟨← gToggle, ← gToggle, ← G.chance 3 4⟩
  let gather := match fixed with
    | some (_, g) => g
    | none => gather0
  let st : Spec.State := ⟨info, players, rules⟩
  let addr ← G.oneOf ["127.0.0.1:27015", "a", "[::1]:1"]
  let cfg0 : Config := ⟨engine, gather, ← G.bool, asciiBytes addr, ⟨[], .single⟩, ⟨[], .single⟩, ⟨[], .single⟩⟩
  let xi ← gExchange engine (infoPacket cfg0 st).length
  let xp ← gExchange engine (encPlayers players).length
  let xr ← gExchange engine (encRules rules).length
  pure ({ cfg0 with info := xi, players := xp, rules := xr }, st)

def gValveCase : G (Config × Spec.State) := gValveCaseWith none

def showEngineArg : Engine → String
  | .source none => "S:-"
  | .source (some (a, none)) => s!"S:{a}"
  | .source (some (a, some d)) => s!"S:{a}:{d}"
  | .goldSrc false => "G:0"
  | .goldSrc true => "G:1"

def showToggleArg : Toggle → String
  | .skip => "s" | .try_ => "t" | .enforce => "e"

def showGatherArg (g : Gather) : String :=
  showToggleArg g.players ++ showToggleArg g.rules ++ (if g.checkAppId then "T" else "F")

def showScript (dgs : List Bytes) : String :=
  if dgs.isEmpty then "." else String.intercalate "," (dgs.map hexOf)

/-- `gen valve <seed> <n>` / `gen valvefor <seed> <n> <engine> <gather>` -/
def genValveWith (fixed : Option (Engine × Gather)) (seed n : Nat) : List String :=
  (List.range n).map fun k =>
    let (cfg, st) := G.run (gValveCaseWith fixed) (seed * 1000003 + k)
    let port := 27015 + k % 3
    let retries := k % 3
    let line := s!"v{seed}_{k} valve {port} {showEngineArg cfg.engine} {showGatherArg cfg.gather} {retries} {showScript (Spec.script cfg st)}"
    let wf := if Spec.wf cfg st then "" else " NOTWF"
    let nch := fun (x : Exchange) => toString x.challenges.length
    line ++ " ## WANT " ++ showRes showResponse (Spec.expected cfg st) ++ wf
      ++ " ## SENT " ++ String.intercalate "," ((Spec.requests cfg st).map hexOf)
      ++ " ## SEG " ++ String.intercalate "," ((Spec.segments cfg st).map toString)
      ++ " ## CH " ++ String.intercalate "," [nch cfg.info, nch cfg.players, nch cfg.rules]
      -- inside the domain of theorem `C02_whole` (its four hypotheses, evaluated)
      ++ " ## THM " ++ (if Spec.wf cfg st && Spec.wfExchanges cfg && Spec.uncompressed cfg && Spec.fits (Spec.script cfg st)
          then "1" else "0")

end Gd.Run

namespace Gd.Run
def genValve (seed n : Nat) : List String := genValveWith none seed n
end Gd.Run
