import GdVerif.Run.Common
import GdVerif.Proto.ReaderOps
/-
  Driver entries for C17: packet-reader operation sequences and the codecs.
-/
namespace Gd.Run

open Gd

def parseDelim1 (s : String) : Option UInt8 :=
  match parseHex s with
  | some [d] => some d
  | _ => none

def parseROp (t : String) : Option ROp :=
  let (head, arg) := match t.splitOn ":" with
    | [h, a] => (h, some a)
    | _ => (t, none)
  let d1 : Option UInt8 := match arg with
    | none => some 0
    | some a => parseDelim1 a
  let d2 : Option (UInt8 × UInt8) := match arg with
    | none => some (0, 0)
    | some a => match parseHex a with
      | some [x, y] => some (x, y)
      | _ => none
  match head with
  | "u1" => some (.u 1) | "u2" => some (.u 2) | "u4" => some (.u 4) | "u8" => some (.u 8)
  | "i1" => some (.i 1) | "i2" => some (.i 2) | "i4" => some (.i 4) | "i8" => some (.i 8)
  | "s8" => d1.map .s8
  | "sl" => d1.map .sl
  | "s16l" => d2.map (fun (a, b) => .s16 .little a b)
  | "s16b" => d2.map (fun (a, b) => .s16 .big a b)
  | "vi" => some .vi
  | "vs" => some .vs
  | "su2" => if arg.isNone then some .su2 else none
  | _ =>
    if head.startsWith "mv" then (parseInt? (head.drop 2).toString).map .mv
    else if head.startsWith "sw" then ((head.drop 2).toString.toNat?).map .sw
    else none

def showRVal : RVal → String
  | .nat n => toString n
  | .int i => toString i
  | .str s => showStr s
  | .unit => ""

/-- run one operation; returns the printed result and the new buffer -/
def runROp (e : Endian) (op : ROp) (b : Buf) : String × Option Buf :=
  match op.exec e b with
  | .ok (a, b') => ("=" ++ showRVal a ++ "@" ++ toString b'.pos ++ "/" ++ toString b'.remaining, some b')
  | .err k =>
    match op with
    -- composite reads fail part-way; where the reader stops is not part of the contract
    | .vi | .vs => ("!" ++ k.name ++ "@?", none)
    | _ => ("!" ++ k.name ++ "@" ++ toString b.pos ++ "/" ++ toString b.remaining, some b)
  | .crash => ("CRASH", none)

def runROps (e : Endian) : List ROp → Buf → List String
  | [], _ => []
  | op :: r, b =>
    match runROp e op b with
    | (s, some b') => s :: runROps e r b'
    | (s, none) => [s]

/-- `reader <L|B> <hex> <op>*` -/
def entryReader (args : List String) : String :=
  match args with
  | en :: hex :: ops =>
    let e : Option Endian := if en == "L" then some .little else if en == "B" then some .big else none
    match e, parseHex hex, ops.mapM parseROp with
    | some e, some data, some ops => String.intercalate " " (runROps e ops (Buf.new data))
    | _, _, _ => "bad-case"
  | _ => "bad-case"

/-- `varint-enc <i32>` -/
def entryVarintEnc (args : List String) : String :=
  match args with
  | [v] => match parseInt? v with
    | some i => if -(2 ^ 31 : Int) ≤ i ∧ i < 2 ^ 31 then hexOf (Mc.asVarint (ofSigned 32 i)) else "bad-case"
    | none => "bad-case"
  | _ => "bad-case"

/-- `mcstr-enc <hex utf8>` -/
def entryMcStrEnc (args : List String) : String :=
  match args with
  | [h] => match parseHex h with
    | some s => showRes hexOf (Mc.asString s)
    | none => "bad-case"
  | _ => "bad-case"


def entryLowerUpper (args : List String) : String :=
  match args with
  | [v] => match v.toNat? with
    | some n => if n < 256 then let (a, b) := lowerUpper n; s!"{a},{b}" else "bad-case"
    | none => "bad-case"
  | _ => "bad-case"


def entryExpSize (args : List String) : String :=
  match args with
  | [a, b] => match a.toNat?, b.toNat? with
    | some a, some b => showRes (fun _ => "") (errorByExpectedSize a b)
    | _, _ => "bad-case"
  | _ => "bad-case"

def readerEntries : List (String × (List String → String)) :=
  [("reader", entryReader), ("varint-enc", entryVarintEnc), ("mcstr-enc", entryMcStrEnc),
   ("lower-upper", entryLowerUpper), ("exp-size", entryExpSize)]

end Gd.Run
