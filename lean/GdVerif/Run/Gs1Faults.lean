import GdVerif.Run.GenGs1
import GdVerif.Run.Faults
import GdVerif.Spec.Gs1Faults
/-
  Driver entry `gs1plan`: the SPEC's plan script for one fault vector of the C10 check (see `Run/ValveFaults.lean`).
  `THM 1` = the hypotheses of `C10_gs1_query_faulty` / `C10_gs1_query_vars_faulty` hold.

  Unit 0: a silent attempt receives nothing.  Unit 1 (replies of two or more parts): a silent attempt receives an
  incomplete selection of the parts first — all but the first part at even positions of the vector, only the first part
  at odd ones — and a malformed datagram arrives after such a selection.
-/
namespace Gd.Run
open Gd Gd.Gs1 Gd.Gs1.Spec Gd.Faults

/-- what the attempt at position `i` of the vector receives before the silence / the malformed datagram -/
def gs1Got (unit i : Nat) (reply : List Bytes) : List Bytes :=
  if unit == 0 then [] else if i % 2 == 0 then reply.drop 1 else reply.take 1

/-- read a vector as a plan for retry count `r`, and the letters left over -/
def gs1PlanOfVector (r unit : Nat) (reply : List Bytes) : List Char → List Attempt → Plan × List Char
  | [], fails => (⟨fails, .gaveUp⟩, [])
  | c :: rest, fails =>
    if fails.length == r + 1 then (⟨fails, .gaveUp⟩, c :: rest)
    else if c == 'S' then gs1PlanOfVector r unit reply rest (fails ++ [.lost (gs1Got unit fails.length reply)])
    else if c == 'F' then gs1PlanOfVector r unit reply rest (fails ++ [.noSend])
    else if c == 'M' then (⟨fails, .malformed (gs1Got unit fails.length reply) malformedDatagram⟩, rest)
    else (⟨fails, .valid⟩, rest)

/-- deliveries / flags of the left-over letters (positions `i0`, `i0 + 1`, …): the arbitrary continuation -/
def gs1Leftover (unit : Nat) (reply : List Bytes) : Nat → List Char → List Delivery × List Bool
  | _, [] => ([], [])
  | i, c :: rest =>
    let (d, f) :=
      if c == 'S' then ((Attempt.lost (gs1Got unit i reply)).deliveries, [false])
      else if c == 'F' then ([], [true])
      else if c == 'M' then ((Ending.malformed (gs1Got unit i reply) malformedDatagram).deliveries reply, [false])
      else (Ending.valid.deliveries reply, [false])
    let (d', f') := gs1Leftover unit reply (i + 1) rest
    (d ++ d', f ++ f')

/-- `gs1plan <seed> <k> <retries> <unit 0|1> <vector>` -/
def entryGs1Plan (args : List String) : String :=
  match args with
  | [seed, k, r, unit, vec] =>
    match seed.toNat?, k.toNat?, r.toNat?, unit.toNat? with
    | some seed, some k, some r, some unit =>
      let (y, st) := G.run gGs1Case (seed * 1000003 + k)
      let port := 7777 + k % 3
      let vars := k % 4 == 3
      let entry := if vars then "gs1vars" else "gs1"
      let reply := Spec.script y st
      let (plan, left) := gs1PlanOfVector r unit reply vec.toList []
      let (lq, lf) := gs1Leftover unit reply (vec.length - left.length) left
      let thm := Spec.wf y st && wfPlan r reply plan
      let want := if vars then showRes showGs1Vars (faultyVars y st plan)
        else showRes showGs1Response (faultyExpected st plan)
      s!"{entry} {port} {r} {showDeliveries (faultyScript plan reply ++ lq)} f={showFaults (faultyFaults plan ++ lf)}"
        ++ " ## WANT " ++ want
        ++ " ## SENT " ++ showSent (faultySends plan)
        ++ " ## ATT " ++ toString plan.attempts
        ++ " ## THM " ++ (if thm then "1" else "0")
    | _, _, _, _ => "bad-case"
  | _ => "bad-case"

def gs1FaultEntries : List (String × (List String → String)) := [("gs1plan", entryGs1Plan)]

end Gd.Run
