import GdVerif.Run.GenGs3
import GdVerif.Run.Faults
import GdVerif.Spec.Gs3Faults
/-
  Driver entry `gs3plan`: the SPEC's plan script for one fault vector of the C10 check (see `Run/ValveFaults.lean`).
  `THM 1` = the hypotheses of `C10_gs3_query_faulty_cut` / `C10_gs3_query_vars_faulty_cut` hold; these are stated over
  `ConfigC` / `wfC` (replies with any allowed extra field sections whose packets may end inside value lists, the domain of
  the decoding theorems), which is what `gen gs3` draws, so every well-formed generated reply is in the domain.  Scripts
  and sends take only the challenge from the configuration (`cfg.closed`).

  Unit 0: faults at the handshake stage; unit 1: at the data stage, nothing of the reply arrives; unit 2 (replies of two or
  more data packets): at the data stage the reply STOPS HALF WAY — a silent attempt still receives some of the data packets
  (`gs3Got`: by position in the vector all but the last / only the first / all but the first in reverse order), a malformed
  datagram arrives after such a selection.
-/
namespace Gd.Run
open Gd Gd.Gs3 Gd.Gs3.Spec Gd.Faults

/-- what the attempt at position `i` of the vector still receives of the reply `pool` before the silence / the malformed
datagram, for unit 2 (nothing for the others) -/
def gs3Got (unit i : Nat) (pool : List Bytes) : List Bytes :=
  if unit < 2 then []
  else if i % 3 == 0 then pool.take (pool.length - 1)
  else if i % 3 == 1 then pool.take 1
  else (pool.drop 1).reverse

/-- read a vector as a plan for retry count `r`, faults at `stage`, and the letters left over -/
def gs3PlanOfVector (r : Nat) (stage : Stage) (unit : Nat) (pool : List Bytes) :
    List Char → List Attempt → Plan × List Char
  | [], fails => (⟨fails, .gaveUp⟩, [])
  | c :: rest, fails =>
    if fails.length == r + 1 then (⟨fails, .gaveUp⟩, c :: rest)
    else if c == 'S' then gs3PlanOfVector r stage unit pool rest (fails ++ [⟨stage, false, gs3Got unit fails.length pool⟩])
    else if c == 'F' then gs3PlanOfVector r stage unit pool rest (fails ++ [⟨stage, true, []⟩])
    else if c == 'M' then (⟨fails, .malformed stage (gs3Got unit fails.length pool) malformedDatagram⟩, rest)
    else (⟨fails, .valid⟩, rest)

/-- deliveries / flags of the left-over letters (positions `i`, `i + 1`, … of the vector) -/
def gs3Leftover (cfg : ConfigX) (arrival : List Bytes) (stage : Stage) (unit : Nat) :
    Nat → List Char → List Delivery × List Bool
  | _, [] => ([], [])
  | i, c :: rest =>
    let (d, f) :=
      if c == 'S' then ((Attempt.mk stage false (gs3Got unit i arrival)).deliveriesX cfg, (Attempt.mk stage false []).faults)
      else if c == 'F' then ((Attempt.mk stage true []).deliveriesX cfg, (Attempt.mk stage true []).faults)
      else if c == 'M' then ((Ending.malformed stage (gs3Got unit i arrival) malformedDatagram).deliveriesX cfg arrival,
        (Ending.malformed stage [] malformedDatagram).faults)
      else (Ending.valid.deliveriesX cfg arrival, Ending.valid.faults)
    let (d', f') := gs3Leftover cfg arrival stage unit (i + 1) rest
    (d ++ d', f ++ f')

/-- `gs3plan <seed> <k> <retries> <unit 0|1|2> <vector>` -/
def entryGs3Plan (args : List String) : String :=
  match args with
  | [seed, k, r, unit, vec] =>
    match seed.toNat?, k.toNat?, r.toNat?, unit.toNat? with
    | some seed, some k, some r, some unit =>
      -- the generator's replies carry extra field sections and packets that end inside value lists (`ConfigC`)
      let (cfgC, st) := G.run gGs3Case (seed * 1000003 + k)
      let cfg := cfgC.closed
      let port := 29900 + k % 3
      let vars := k % 4 == 3
      let entry := if vars then "gs3vars" else "gs3"
      let stage : Stage := if unit == 0 then .handshake else .data
      let arrival := dataPacketsC cfgC st
      let (plan, left) := gs3PlanOfVector r stage unit arrival vec.toList []
      let (lq, lf) := gs3Leftover cfg arrival stage unit (vec.length - left.length) left
      -- the hypotheses of `C10_gs3_query_faulty` (the arrival order is the order of the ids: a permutation)
      let thm := Spec.wfC cfgC st && wfPlan r (dataPacketsC cfgC st) plan
      let want := if vars then showRes showMap (packetsOutcome (payloadsC cfgC st) plan >>= buildVars)
        else showRes showGs3Response (faultyExpected st plan)
      s!"{entry} {port} {r} {showDeliveries (faultyScriptX cfg plan arrival ++ lq)} f={showFaults (faultyFaults plan ++ lf)}"
        ++ " ## WANT " ++ want
        ++ " ## SENT " ++ showSent (faultySendsX cfg plan)
        ++ " ## ATT " ++ toString plan.attempts
        ++ " ## THM " ++ (if thm then "1" else "0")
    | _, _, _, _ => "bad-case"
  | _ => "bad-case"

def gs3FaultEntries : List (String × (List String → String)) := [("gs3plan", entryGs3Plan)]

end Gd.Run
