import GdVerif.Run.GenGs3
import GdVerif.Run.Faults
import GdVerif.Spec.Gs3Faults
/-
  Driver entry `gs3plan`: the SPEC's plan script for one fault vector of the C10 check (see `Run/ValveFaults.lean`).
  `THM 1` = the hypotheses of `C10_gs3_query_faulty` / `C10_gs3_query_vars_faulty` hold.
-/
namespace Gd.Run
open Gd Gd.Gs3 Gd.Gs3.Spec Gd.Faults

/-- read a vector as a plan for retry count `r`, faults at `stage`, and the letters left over -/
def gs3PlanOfVector (r : Nat) (stage : Stage) : List Char → List Attempt → Plan × List Char
  | [], fails => (⟨fails, .gaveUp⟩, [])
  | c :: rest, fails =>
    if fails.length == r + 1 then (⟨fails, .gaveUp⟩, c :: rest)
    else if c == 'S' then gs3PlanOfVector r stage rest (fails ++ [⟨stage, false⟩])
    else if c == 'F' then gs3PlanOfVector r stage rest (fails ++ [⟨stage, true⟩])
    else if c == 'M' then (⟨fails, .malformed stage malformedDatagram⟩, rest)
    else (⟨fails, .valid⟩, rest)

def gs3Leftover (cfg : Config) (arrival : List Bytes) (stage : Stage) (cs : List Char) : List Delivery × List Bool :=
  cs.foldl (fun (acc : List Delivery × List Bool) c =>
    let (d, f) :=
      if c == 'S' then ((Attempt.mk stage false).deliveries cfg, (Attempt.mk stage false).faults)
      else if c == 'F' then ((Attempt.mk stage true).deliveries cfg, (Attempt.mk stage true).faults)
      else if c == 'M' then ((Ending.malformed stage malformedDatagram).deliveries cfg arrival,
        (Ending.malformed stage malformedDatagram).faults)
      else (Ending.valid.deliveries cfg arrival, Ending.valid.faults)
    (acc.1 ++ d, acc.2 ++ f)) ([], [])

/-- `gs3plan <seed> <k> <retries> <unit 0|1> <vector>` -/
def entryGs3Plan (args : List String) : String :=
  match args with
  | [seed, k, r, unit, vec] =>
    match seed.toNat?, k.toNat?, r.toNat?, unit.toNat? with
    | some seed, some k, some r, some unit =>
      -- the generator's replies may carry extra field sections (`ConfigX`); the fault plans only use the challenge
      -- of the configuration, the packets on the wire are those with the extras
      let (cfgX, st) := G.run gGs3Case (seed * 1000003 + k)
      let cfg : Config := cfgX.base
      let port := 29900 + k % 3
      let vars := k % 4 == 3
      let entry := if vars then "gs3vars" else "gs3"
      let stage : Stage := if unit == 0 then .handshake else .data
      let arrival := dataPacketsX cfgX st
      let (plan, left) := gs3PlanOfVector r stage vec.toList []
      let (lq, lf) := gs3Leftover cfg arrival stage left
      -- the whole-query theorem under faults is stated for replies without extra sections
      let thm := Spec.wf cfg st && (extrasOf cfgX.layout.flatten).isEmpty && wfPlan r plan
      let want := if vars then showRes showMap (faultyPackets cfg st plan >>= buildVars)
        else showRes showGs3Response (faultyExpected st plan)
      s!"{entry} {port} {r} {showDeliveries (faultyScript cfg plan arrival ++ lq)} f={showFaults (faultyFaults plan ++ lf)}"
        ++ " ## WANT " ++ want
        ++ " ## SENT " ++ showSent (faultySends cfg plan)
        ++ " ## ATT " ++ toString plan.attempts
        ++ " ## THM " ++ (if thm then "1" else "0")
    | _, _, _, _ => "bad-case"
  | _ => "bad-case"

def gs3FaultEntries : List (String × (List String → String)) := [("gs3plan", entryGs3Plan)]

end Gd.Run
