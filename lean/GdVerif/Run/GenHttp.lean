import GdVerif.Run.GenEco
import GdVerif.Run.Http
/-
  Case generators for the HTTP client (`gen httpurl | httpplan | httperr | httpdur <seed> <n>`): host names of all shapes
  (plain, mixed case, numbers the URL parser reads as IPv4, IPv6 literals, empty, with port-like suffixes, with URL
  delimiters, user info, percent escapes, tabs, non-ASCII, Punycode, very long), paths with and without slashes, dot
  segments, characters the path parser escapes, both address families in all textual shapes.
-/
namespace Gd.Run
open Gd Gd.Http

def utf8 (s : String) : Bytes := s.toUTF8.toList

def hostShapes : List String :=
  ["eco.example", "localhost", "a", "a-b.c_d", "play.eco.example", "LocalHost", "Play.Eco.Example", "ECO", "eco.example.",
   "127.1", "0x7f.1", "1.2.3.4", "1.2.3.4.", "1.2.3.4.5", "256.1.1.1", "0300.0250.0.1", "4294967295", "4294967296", "1.2.3.08",
   "example.1", "1.example", "0x", "0X1F", "1..2", ".", "..", "a..b", "09", "1.2.3", "1.2", "0xffffffff", "0x100000000", "1.0x10000", "017",
   "", " ", "a b", "host:8080", "host:", "host:80/", "host:0", "host:65536", "host:99999999999999999999", "host:80", "h:1/",
   "[::1]", "[::1]:99", "[0:0:0:0:0:0:0:1]", "[::ffff:1.2.3.4]", "[1::2::3]", "[::1", "::1", "[1:2:3:4:5:6:7:8]", "[1:2:3:4:5:6:7::]",
   "[1:2:3:4:5:6:7:8:9]", "[::]", "[1::]", "[::1.2.3]", "[::1.2.3.4.5]", "[::01.2.3.4]", "[::256.1.1.1]", "[1:2:3:4:5:6:1.2.3.4]",
   "[1:2:3:4:5:6:7:1.2.3.4]", "[12345::]", "[g::]", "[::1]x", "[A:B::C]", "[]", "[:]", "[:1]", "[1:]", "[::1%25eth0]",
   "a/b", "a?b", "a#b", "a\\b", "/a", "//a", "\\a", "a@b", "u:p@h", "@h", "a@", "u@@h", "u:@h", ":p@h", ":@h", "u:p:q@h", "ü:ö@h", "a@b@c",
   "a/b?c#d", "a?", "a#", "a?#", "a?b#c?d", "a/../b", "a/%2e%2e/x",
   "a%20b", "a%2Eb", "%41", "a%", "a%zz", "a%2", "%2f", "a%00", "%5Bx%5D", "a\tb", "a\nb", "\ta", "a\r",
   "a_b", "a~b", "a!b", "a$b", "a&b", "a'b", "a(b)", "a*b", "a+b", "a,b", "a;b", "a=b", "a\"b", "a`b", "a{b}", "a<b", "a>b", "a^b", "a|b", "a[b", "a]b",
   "bücher.example", "MÜNCHEN.de", "中文.example", "café", "😀.example", "ß.example", "Ä", "a.ü", "ü.1", "%C3%BC.example",
   "xn--bcher-kva.example", "XN--BCHER-KVA", "xn--caf-dma", "xn--", "xn--a", "axn--b", "a.xn--fiq228c",
   "-", "-a", "a-", "--", "a.-.b"]

def pathShapes : List String :=
  ["/frontpage", "frontpage", "", "/", "//", "///", "a/b/", "/a/b", "/a/../b", "/a/./b", "..", "/..", "/../..", "/a/..", "/a/../", "/.", "/./",
   "/%2e%2e/x", "/x/%2E%2e", "/x/.%2e/y", "/x/%2e./y", "/%2e/x", "/x/%2E", "/...", "/.../x", "/a b", "/a?b=c#d", "/?", "/#", "/ü", "/中",
   "\\x\\y", "/a\\..\\b", "/a\tb", "/a\nb", "/{x}", "/%", "/%zz", "/%41", "/a\"b", "/<>", "/`", "/a;b=c", "/a:b@c", "/[x]", "/^|~",
   "/a//b", "/a/b/../../../c", "/a/./././b/.", "/\u0001", "/\u007f", "//host/x", "/frontpage/", "/FrontPage", "/front page"]

def gV4 : G (List Nat) := do
  let c ← G.below 6
  match c with
  | 0 => pure [127, 0, 0, 1]
  | 1 => pure [0, 0, 0, 0]
  | 2 => pure [255, 255, 255, 255]
  | 3 => pure [10, 0, 0, 200]
  | _ => G.listOf 4 (G.oneOf [0, 1, 9, 10, 99, 100, 127, 128, 199, 200, 255, 42])

def gSeg : G Nat := G.oneOf [0, 0, 0, 0, 1, 0xffff, 0x100, 0xabc, 0x10, 0xf, 0xa00, 0x7f00, 0x8000, 0x1234]

def gV6 : G (List Nat) := do
  let c ← G.below 12
  match c with
  | 0 => pure [0, 0, 0, 0, 0, 0, 0, 0]
  | 1 => pure [0, 0, 0, 0, 0, 0, 0, 1]
  | 2 => do let v ← gV4; pure [0, 0, 0, 0, 0, 0xffff, v.getD 0 0 * 256 + v.getD 1 0, v.getD 2 0 * 256 + v.getD 3 0]
  | 3 => do let v ← gV4; pure [0, 0, 0, 0, 0, 0, v.getD 0 0 * 256 + v.getD 1 0, v.getD 2 0 * 256 + v.getD 3 0]
  | 4 => pure [0x2001, 0xdb8, 0, 0, 0, 0, 0, 1]
  | 5 => pure [1, 0, 0, 2, 0, 0, 0, 3]
  | 6 => pure [1, 0, 0, 0, 2, 0, 0, 0]
  | 7 => pure [0, 0, 1, 0, 0, 2, 0, 0]
  | 8 => pure [0xfe80, 0, 0, 0, 0, 0xffff, 0x102, 0x304]
  | _ => G.listOf 8 gSeg

def showIpArg (v6 : Bool) (l : List Nat) : String :=
  if v6 then String.intercalate ":" (l.map fun n => String.ofList (hexLower n |>.map fun b => Char.ofNat b.toNat))
  else String.intercalate "." (l.map toString)

def gPort : G Nat := do
  let c ← G.below 10
  match c with
  | 0 => pure 80
  | 1 => pure 443
  | 2 => pure 3001
  | 3 => pure 1
  | 4 => pure 65535
  | 5 => pure 0
  | 6 => pure 8080
  | _ => do let p ← G.below 65536; pure p

/-- a host name: one of the shapes, a long one, or a random string over an alphabet rich in delimiters -/
def gHost : G (Option Bytes) := do
  let c ← G.below 20
  if c < 3 then pure none
  else if c < 15 then do let s ← G.oneOf hostShapes; pure (some (utf8 s))
  else if c == 15 then do
    let n ← G.oneOf [63, 64, 253, 254, 300, 2000]
    let dotted ← G.bool
    pure (some ((List.range n).map fun i => if dotted && i % 50 == 49 then 46 else UInt8.ofNat (97 + i % 26)))
  else do
    let n ← G.oneOf [1, 2, 3, 5, 8]
    let cs ← G.listOf n (G.oneOf ([0x61, 0x62, 0x41, 0x31, 0x30, 0x2e, 0x2e, 0x3a, 0x2f, 0x3f, 0x23, 0x40, 0x5b, 0x5d, 0x25, 0x5c, 0x2d, 0x5f, 0x78, 0x58,
      0x20, 0x09, 0xfc, 0xdc, 0x4e2d, 0x32, 0x35, 0x36, 0x65] : List Nat))
    pure (some (utf8Encode cs))

def gPath : G Bytes := do
  let c ← G.below 10
  if c < 8 then do let s ← G.oneOf pathShapes; pure (utf8 s)
  else do
    let n ← G.oneOf [1, 2, 4, 7, 200]
    let cs ← G.listOf n (G.oneOf ([0x2f, 0x2f, 0x2e, 0x2e, 0x61, 0x62, 0x25, 0x32, 0x65, 0x45, 0x5c, 0x3f, 0x23, 0x20, 0x09, 0xe9, 0x7b, 0x41] : List Nat))
    pure (utf8Encode cs)

def showHostArg (h : Option Bytes) : String := match h with | some b => "x" ++ hexOf b | none => "-"

/-- `gen httpurl <seed> <n>`: `http-url` lines (no network) -/
def genHttpUrl (seed n : Nat) : List String :=
  (List.range n).map fun k =>
    G.run (do
      let v6 ← G.chance 2 5
      let ip ← if v6 then gV6 else gV4
      let port ← gPort
      -- the first cases walk through the shape lists so that every shape is seen whatever `n` is
      let host ← if k < hostShapes.length then pure (some (utf8 (hostShapes.getD k ""))) else gHost
      let path ← if k < pathShapes.length then pure (utf8 (pathShapes.getD k "")) else gPath
      pure s!"hu{seed}_{k} http-url {showIpArg v6 ip} {port} {showHostArg host} x{hexOf path}") (seed * 1000003 + k)

/-- a loopback address: 127.a.b.c, ::1, or the IPv4-mapped form of a 127.a.b.c -/
def gLoopback : G (Bool × List Nat) := do
  let a ← G.below 250
  let b ← G.below 250
  let c ← G.below 250
  let k ← G.below 6
  if k < 3 then pure (false, [127, a, b, c + 2])
  else if k < 5 then pure (true, [0, 0, 0, 0, 0, 0, 0, 1])
  else pure (true, [0, 0, 0, 0, 0, 0xffff, 127 * 256 + a, b * 256 + c + 2])

def shortTimeouts : String := "0:300000000,0:300000000,0:300000000"

/-- a valid Eco document and the response it stands for -/
def gDoc : G (Bytes × String) := do
  let st ← gEcoState
  let doc ← gDocument st
  pure (doc, showRes showEco (.ok (Eco.Spec.expected st)) ++ (if Eco.Spec.wf st then "" else " NOTWF"))

/-- `gen httpplan <seed> <n>` (C09): the request plan as the listener sees it -/
def genHttpPlan (seed n : Nat) : List String :=
  (List.range n).map fun k =>
    G.run (do
      let (v6, ip) ← gLoopback
      -- every other case walks through the shape lists; the others are what the property speaks about (no name or a
      -- plain one, a plain path), so that the oracles that do not go through the model see many of them
      let plainHost ← G.oneOf [none, none, none, some "eco.example", some "localhost", some "a-b.c_d", some "play.eco.example", some "x", some "eco-1.example.org"]
      let host ← if k % 2 == 0 && k / 2 < hostShapes.length then pure (some (utf8 (hostShapes.getD (k / 2) "")))
        else if k % 2 == 1 then pure (plainHost.map utf8) else gHost
      let plainPath ← G.oneOf ["/frontpage", "/frontpage", "/", "/a/b", "status", "/api/v1/info", "/a//b", "x/y/", "/front-page_1~"]
      let path ← if k % 4 == 0 && k / 4 < pathShapes.length then pure (utf8 (pathShapes.getD (k / 4) ""))
        else if k % 4 == 2 then gPath else pure (utf8 plainPath)
      let call ← G.oneOf ["eco", "eco", "json", "json", "raw", "fromurl"]
      -- `from_url` looks a domain up with the system resolver: only spellings of the listener's own address (or none, or
      -- text the URL parser rejects) are used as the URL's host
      let spell ← G.below 4
      let host := if call != "fromurl" then host else
        if v6 then (if spell == 0 then some (utf8 "a b") else none)
        else
          let n := ip.foldl (fun acc x => acc * 256 + x) 0
          if spell == 0 then some (natDec n) else if spell == 1 then some (asciiBytes "0X" ++ (hexLower n).map (fun b => if b ≥ 97 then b - 32 else b))
          else if spell == 2 then (if k % 3 == 0 then some (utf8 "[::1") else none) else none
      let port80 ← G.chance 1 12
      let (doc, want) ← gDoc
      let b ← G.below 10
      let beh := if b < 6 then s!"ok:x{hexOf doc}" else if b < 8 then "status:404"
        else if b == 8 then s!"redirect:302:x{hexOf (utf8 "http://elsewhere.example:81/moved?x=1")}+ok:x{hexOf doc}"
        else s!"redirect:307:x{hexOf (utf8 "http://LOCALHOST/")}+status:503"
      let hdr ← G.below 8
      let opts := if call == "eco" then "" else
        if hdr == 0 then s!" h=x{hexOf (utf8 "X-Test")}:x{hexOf (utf8 "yes")} rh=x{hexOf (utf8 "Accept")}:x{hexOf (utf8 "text/plain")}"
        else if hdr == 1 then s!" h=x{hexOf (utf8 "X-A")}:x{hexOf (utf8 "1")} h=x{hexOf (utf8 "X-A")}:x{hexOf (utf8 "2")} h=x{hexOf (utf8 "Dup")}:x{hexOf (utf8 "1")} rh=x{hexOf (utf8 "Dup")}:x{hexOf (utf8 "2")}"
        else if hdr == 2 then s!" h=x{hexOf (utf8 "Host")}:x{hexOf (utf8 "other.example")}"
        else if hdr == 3 then s!" rh=x{hexOf (utf8 "Bad Name")}:x{hexOf (utf8 "v")}"
        else if hdr == 4 then s!" h=x{hexOf (utf8 "User-Agent")}:x{hexOf (utf8 "Curl/8")} rh=x{hexOf (utf8 "accept-encoding")}:x{hexOf (utf8 "identity")}"
        else ""
      let tag := if b < 6 && call != "raw" then " ## WANT " ++ want else ""
      pure s!"hp{seed}_{k} http-plan {showIpArg v6 ip} {if port80 then 80 else 0} {showHostArg host} x{hexOf path} {shortTimeouts} {call} {beh}{opts}{tag}") (seed * 1000003 + k)

/-- `gen httperr <seed> <n>` (C12): every failure class of the transport, both families, the three calls; read timeout
150 ms, write 1.3 s, connect 0.7 s (all different: the clock tells which one bounded the wait) -/
def genHttpErr (seed n : Nat) : List String :=
  let classes (doc : Bytes) : List String :=
    ["refuse", "full", "mute", "drop", "line-stall", "line-close", "garbage", "status:400", "status:404", "status:500", "status:503",
     s!"body-stall:x{hexOf doc}:1", s!"body-stall:x{hexOf doc}:{doc.length / 2}", s!"body-stall:x{hexOf doc}:{doc.length - 1}",
     s!"body-close:x{hexOf doc}:0", s!"body-close:x{hexOf doc}:{doc.length / 2}", s!"body-close:x{hexOf doc}:{doc.length - 1}",
     s!"nolen:x{hexOf doc}", s!"badlen:x{hexOf doc}", s!"ok:x{hexOf (utf8 "not json")}", s!"ok:x{hexOf (utf8 "{\"Info\":{}}")}", "ok:x",
     s!"ok:x{hexOf doc}", s!"redirect:302:x{hexOf (utf8 "http://elsewhere.example:81/moved")}+mute",
     s!"redirect:301:x{hexOf (utf8 "http://elsewhere.example/")}+body-stall:x{hexOf doc}:{doc.length / 3}",
     s!"redirect:302:x{hexOf (utf8 "http://a/")}+redirect:302:x{hexOf (utf8 "http://b/")}+redirect:302:x{hexOf (utf8 "http://c/")}+drop",
     s!"nolen:x{hexOf (doc.take (doc.length / 2))}", "status:399", "redirect:300:x" ++ hexOf (utf8 "http://a/")]
  (List.range n).map fun k =>
    G.run (do
      let (v6, ip) ← gLoopback
      let (doc, _) ← gDoc
      let cs := classes doc
      let beh := cs.getD (k % cs.length) "mute"
      let call := ["eco", "json", "raw"].getD (k / cs.length % 3) "eco"
      let host ← G.oneOf [none, none, some (utf8 "eco.example")]
      pure s!"he{seed}_{k} http-plan {showIpArg v6 ip} 0 {showHostArg host} x{hexOf (utf8 Eco.PATH)} 0:150000000,1:300000000,0:700000000 {call} {beh}") (seed * 1000003 + k)

/-- `gen httpdur <seed> <n>` (C18): accepted durations of every magnitude against a listener that answers -/
def genHttpDur (seed n : Nat) : List String :=
  let umax := 18446744073709551615
  let durs : List String :=
    [s!"{umax}:0,{umax}:0,{umax}:0", s!"-,{umax}:0,-", s!"{umax}:0,{umax}:0,5:0", s!"{umax}:0,5:0,{umax}:999999999", s!"5:0,{umax}:999999999,{umax}:0",
     s!"{umax}:999999999,{umax}:999999999,{umax}:999999999", s!"-,{umax}:0,{umax}:0", s!"{umax / 2 + 1}:0,{umax / 2 + 1}:0,-", "-,-,-", "-",
     s!"5:0,-,-", s!"-,-,5:0", s!"{umax / 3 + 1}:0,{umax / 3 + 1}:0,{umax / 3 + 1}:0", s!"{umax - 1}:500000000,1:0,{umax}:0", "9223372036854775807:0,9223372036854775808:0,4294967296:0",
     "5:0,0:1,5:0", "5:0,5:0,5:1"]
  (List.range n).map fun k =>
    G.run (do
      let (v6, ip) ← gLoopback
      let (doc, want) ← gDoc
      let call := ["eco", "json", "raw"].getD (k % 3) "eco"
      let tag := if call != "raw" then " ## WANT " ++ want else ""
      pure s!"hd{seed}_{k} http-plan {showIpArg v6 ip} 0 - x{hexOf (utf8 Eco.PATH)} {durs.getD (k % durs.length) "-"} {call} ok:x{hexOf doc}{tag}") (seed * 1000003 + k)

def httpGen (suite : String) (seed n : Nat) : Option (List String) :=
  match suite with
  | "httpurl" => some (genHttpUrl seed n)
  | "httpplan" => some (genHttpPlan seed n)
  | "httperr" => some (genHttpErr seed n)
  | "httpdur" => some (genHttpDur seed n)
  | _ => none

end Gd.Run
