import GdVerif.Run.Common
/-
  Random generation of abstract server states (for the correspondence check and the oracle; the
  theorems do not depend on anything here).  Every choice derives from one SplitMix64 state.
-/
namespace Gd.Run
open Gd

def G (α : Type) := Rng → α × Rng

instance : Monad G where
  pure a := fun r => (a, r)
  bind g f := fun r => let (a, r') := g r; f a r'

namespace G

def u64 : G UInt64 := fun r => r.next

/-- uniform in `[0, n)` (n > 0) -/
def below (n : Nat) : G Nat := fun r => let (x, r') := r.next; (x.toNat % (max n 1), r')

def bool : G Bool := do let x ← below 2; pure (x == 1)

/-- true with probability num/den -/
def chance (num den : Nat) : G Bool := do let x ← below den; pure (x < num)

def oneOf [Inhabited α] (l : List α) : G α := do let i ← below l.length; pure (l.getD i default)

def listOf (n : Nat) (g : G α) : G (List α) :=
  match n with
  | 0 => pure []
  | k + 1 => do let x ← g; let xs ← listOf k g; pure (x :: xs)

/-- a number below `2^bits`, biased to boundaries -/
def nat (bits : Nat) : G Nat := do
  let c ← below 8
  let m := 2 ^ bits
  match c with
  | 0 => pure 0
  | 1 => pure 1
  | 2 => pure (m - 1)
  | 3 => pure (m - 2)
  | 4 => pure (m / 2)
  | 5 => pure (m / 2 - 1)
  | _ => do let x ← u64; pure (x.toNat % m)

/-- a signed number in `[-2^(bits-1), 2^(bits-1))` -/
def int (bits : Nat) : G Int := do let n ← nat bits; pure (toSigned bits n)

/-- scalar values to draw text from: ASCII, Latin-1, 2/3/4-byte UTF-8, markup, delimiters' neighbours -/
def textAlphabet : List Nat :=
  [0x41, 0x42, 0x61, 0x7a, 0x30, 0x39, 0x20, 0x5f, 0x2d, 0x2e, 0x3c, 0x26, 0x3e, 0x22, 0x27, 0x5c, 0x2f, 0x3b, 0x3a,
   0x01, 0x1b, 0x7f, 0x85, 0x9b, 0xe9, 0xff, 0x100, 0x20ac, 0x3042, 0xffff, 0x1f600, 0x10ffff, 0x5b, 0x5d, 0x28, 0x29, 0x0a, 0x09, 0xa7]

/-- a text (list of scalars) of length drawn from boundary-heavy lengths, avoiding the scalars in `avoid` -/
def text (avoid : List Nat) (maxLen : Nat := 40) : G (List Nat) := do
  let lens := [0, 0, 1, 1, 2, 3, 5, 8, 12, 25, 26, 27, 28, 31, 32, 33, 40, 63, 64, 100, 127, 128, 200, 254, 255, 256]
  let l ← oneOf (lens.filter (· ≤ maxLen))
  let alpha := textAlphabet.filter (fun c => !avoid.contains c)
  listOf l (oneOf alpha)

/-- ASCII-only identifier-like text (keys) -/
def ident (maxLen : Nat := 12) : G (List Nat) := do
  let l ← below maxLen
  listOf (l + 1) (oneOf [0x61, 0x62, 0x63, 0x73, 0x76, 0x5f, 0x31, 0x32, 0x54, 0x65, 0x74])

def run (g : G α) (seed : Nat) : α := (g ⟨UInt64.ofNat seed⟩).1

end G

/-- deduplicate key/value pairs by key, keeping the first -/
def dedupKeys (l : List (Bytes × β)) : List (Bytes × β) :=
  l.foldl (fun acc p => if acc.any (fun q => q.1 == p.1) then acc else acc ++ [p]) []

end Gd.Run
