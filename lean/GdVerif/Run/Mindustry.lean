import GdVerif.Run.Net
import GdVerif.Proto.Mindustry
namespace Gd.Run
open Gd Gd.Mindustry

def showGameMode : GameMode → String
  | .survival => "survival" | .sandbox => "sandbox" | .attack => "attack" | .pvp => "pvp" | .editor => "editor"

def showServerData (d : ServerData) : String :=
  "M{" ++ String.intercalate ";" [showStr d.host, showStr d.map, toString d.players, toString d.wave, toString d.version,
    showStr d.versionType, showGameMode d.gamemode, toString d.playerLimit, showStr d.description,
    showOpt showStr d.modeName] ++ "}"

/-- `mindustry <port> <retries> <script> [opts]` -/
def entryMindustry (args : List String) : String :=
  match args with
  | port :: r :: rest =>
    match port.toNat?, r.toNat?, parseNetArgs rest with
    | some port, some r, some na => runQ (Mindustry.query port r) na showServerData
    | _, _, _ => "bad-case"
  | _ => "bad-case"

/-- `mindustry_dp <ignored> <retries> <script> [opts]`: no port given, the game's default is used -/
def entryMindustryDp (args : List String) : String :=
  match args with
  | _ :: r :: rest =>
    match r.toNat?, parseNetArgs rest with
    | some r, some na => runQ (Mindustry.query Mindustry.DEFAULT_PORT r) na showServerData
    | _, _ => "bad-case"
  | _ => "bad-case"

def mindustryEntries : List (String × (List String → String)) :=
  [("mindustry", entryMindustry), ("mindustry_dp", entryMindustryDp)]

end Gd.Run
