import GdVerif.Run.Net
import GdVerif.Proto.Quake
namespace Gd.Run
open Gd Gd.Quake

def showQuakePlayer : Player → String
  | .one p => "(" ++ String.intercalate ";" [toString p.id, toString p.score, toString p.time, toString p.ping,
      showStr p.name, showStr p.skin, toString p.colorPrimary, toString p.colorSecondary] ++ ")"
  | .two p => "(" ++ String.intercalate ";" [toString p.score, toString p.ping, showStr p.name,
      showOpt showStr p.address] ++ ")"

def showQuakeVars (m : Vars) : String :=
  showList (fun p => showStr p.1 ++ "=" ++ showStr p.2) (sortBy (fun a b => bytesLt a.1 b.1) m)

def showQuakeResponse (r : Response) : String :=
  "Q{" ++ String.intercalate ";" [showStr r.name, showStr r.map, toString r.playersOnline, toString r.playersMaximum,
    showOpt showStr r.gameVersion] ++ "} P" ++ showList showQuakePlayer r.players ++ " U" ++ showQuakeVars r.unused

def parseQuakeVersion : String → Option Version
  | "1" => some .one | "2" => some .two | "3" => some .three | _ => none

/-- `quake <port> <1|2|3> <retries> <script> [opts]` -/
def entryQuake (args : List String) : String :=
  match args with
  | port :: v :: r :: rest =>
    match port.toNat?, parseQuakeVersion v, r.toNat?, parseNetArgs rest with
    | some port, some v, some r, some na => runQ (Quake.query port v r) na showQuakeResponse
    | _, _, _, _ => "bad-case"
  | _ => "bad-case"

def quakeEntries : List (String × (List String → String)) := [("quake", entryQuake)]

end Gd.Run
