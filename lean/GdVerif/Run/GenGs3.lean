import GdVerif.Run.GenLib
import GdVerif.Run.GenValve
import GdVerif.Run.Gs3
import GdVerif.Spec.Gs3
/-
  Generator of GameSpy 3 server states and wire layouts (mostly valid, boundary-heavy; a share of
  semantically broken states, tagged NOTWF by the SPEC's own `wfX`).  Two cases in three carry field
  sections the client has no place for (`Spec.Extra`: `kills_`, `time_on_`, `clan_`, `honor_t` … at
  random positions of the layout, values with underscores and values that are typed field names);
  one case in two is a reply whose packets END INSIDE VALUE LISTS (`Spec.ConfigC`, built with
  `Spec.cutLayout` from whole sections and cut points: after the first value, in the middle, before the
  last, several cuts in one section, typed player / team sections and extra sections alike; the next
  packet continues the field under its id with the offset of its first value; now and then the last
  packet of the reply also ends without closing its list);
  the tag `THM` says whether the case lies inside the domain of `C04_gs3_query_cut` (`wfC`), `NCUT` how
  many packets end inside a value list, `CONT` whether every such packet is continued (`Spec.continued`).
-/
namespace Gd.Run
open Gd Gd.Gs3 Gd.Gs3.Spec

/-- non-empty text -/
def gStrNE (maxLen : Nat := 24) : G Bytes := do
  let s ← gStr maxLen
  if s.isEmpty then do
    let c ← G.oneOf [0x41, 0x7a, 0x30, 0xe9, 0x3042, 0x5f, 0x20]
    pure (utf8EncodeChar c)
  else pure s

/-- pair every element with a random key and sort: a random permutation -/
def gShuffle (l : List α) : G (List α) := do
  let keyed ← l.mapM (fun x => do let k ← G.u64; pure (k.toNat, x))
  pure ((sortBy (fun a b => a.1 < b.1) keyed).map (·.2))

def gGs3Player : G Gs3.Player := do
  pure ⟨← gStrNE 16, ← G.int 32, ← G.nat 16, ← G.nat 8, ← G.nat 32, ← G.nat 32⟩

def gGs3Team : G Gs3.Team := do pure ⟨← gStrNE 12, ← G.int 32⟩

def gGs3Vars (listed : Nat) : G Vars := do
  let pw ← G.oneOf ["0", "1", "true", "false", "True", "FALSE", "2", "255", "+1", "00"]
  let maxp ← G.nat 32
  let req : Vars := [
    (asciiBytes "hostname", ← gStr 48), (asciiBytes "mapname", ← gStr 24), (asciiBytes "gametype", ← gStr 16),
    (asciiBytes "gamever", ← gStr 12), (asciiBytes "password", asciiBytes pw), (asciiBytes "maxplayers", natDec maxp)]
  let minp ← G.nat 8
  let rep ← G.oneOf [listed, listed, listed + 3, 0, listed - 1, 4294967295, 64]
  let tour ← G.oneOf ["true", "false", "True", "FALSE", "tRuE"]
  let optional : Vars ← (do
    let a ← G.bool; let b ← G.chance 2 3; let c ← G.chance 2 5
    pure ((if a then [(asciiBytes "minplayers", natDec minp)] else []) ++
          (if b then [(asciiBytes "numplayers", natDec rep)] else []) ++
          (if c then [(asciiBytes "tournament", asciiBytes tour)] else [])))
  let nx ← G.oneOf [0, 0, 1, 2, 3, 6]
  let extras ← G.listOf nx (do
    let k ← G.ident
    let v ← gStr 24
    pure (utf8Encode k, v))
  let extras := extras.filter (fun p => !typedKeys.contains p.1)
  gShuffle (dedupKeys (req ++ optional ++ extras))

/-- ranges `[start, start+len)` of at most `rows` rows covering `n` rows -/
def groupsOf (n rows : Nat) : List (Nat × Nat) :=
  let rows := max rows 1
  (List.range ((n + rows - 1) / rows)).map fun g => (g * rows, min rows (n - g * rows))

def gMarkers : G Bytes := do
  let m ← G.oneOf [[], [], [], [0], [1], [2], [0, 1], [1, 1], [0, 0, 2]]
  pure (m.map UInt8.ofNat)

/-- the slices of one table: every group of rows, every field (in random order) -/
def gTableSlices (team : Bool) (fields : List Bytes) (n : Nat) : G (List Slice) := do
  let rows ← G.oneOf [n, n, 1, 2, 5, 16, 28]
  let rows := min (max rows 1) 28
  let groups := groupsOf n rows
  let emptyHeads ← G.bool
  if n == 0 then
    if emptyHeads then fields.mapM (fun f => do pure ⟨← gMarkers, team, f, 0, 0⟩) else pure []
  else do
    let per ← groups.mapM (fun (start, len) => do
      let fs ← gShuffle fields
      fs.mapM (fun f => do pure (⟨← gMarkers, team, f, start, len⟩ : Slice)))
    pure per.flatten

/-! field sections the client has no place for -/

instance : Inhabited Extra := ⟨⟨[], [], 0, []⟩⟩

def gExtraName : G Bytes := do
  let n ← G.oneOf ["kills_", "time_on_", "clan_", "rank_", "honor_t", "k_d_ratio_", "x_", "AIBot_", "deaths2_",
    "players_", "teamname_t", "_", "pings", "skill2_t", "scoreboard_", "Score_", "pid2_"]
  pure (asciiBytes n)

def gExtraValue : G Bytes := do
  let c ← G.below 4
  if c == 0 then gStrNE 12
  else do
    let v ← G.oneOf ["7", "red_devils", "a_b_c", "x", "-1", "[TAG] name", "score", "team_rocket", "ping_", "player",
      "1_t", "_", "9_", "team_t", "score_t", "pid", "0", "deaths_x", "skill"]
    pure (asciiBytes v)

/-- an allowed extra section: any marker bytes, any row offset a byte can hold (continuations at rows
3 … 255 included), 0 … 28 values -/
def gGs3Extra (rows : Nat) : G Extra := do
  let markers ← gMarkers
  let name ← gExtraName
  let offset ← G.oneOf [0, 0, 0, 1, 2, 3, 20, 0x70, 127, 128, 200, 255]
  let nv ← G.oneOf [0, 1, 2, 4, rows]
  let values ← G.listOf (min nv 28) gExtraValue
  pure ⟨markers, name, offset, values⟩

/-- put `k` extra sections at random positions among the sections -/
def gInsertExtras (rows : Nat) : Nat → List Section → G (List Section)
  | 0, ss => pure ss
  | k + 1, ss => do
    let e ← gGs3Extra rows
    let pos ← G.below (ss.length + 1)
    gInsertExtras rows k (ss.take pos ++ [.extra e] ++ ss.drop pos)

/-- pack sections into packets greedily by size, with random extra cuts -/
def gPack (st : State) (first : Nat) (sections : List Section) : G (List (List Section)) := do
  let budget ← G.oneOf [1900, 1900, 600, 300, 120]
  let rec go (cur : List Section) (size : Nat) (acc : List (List Section)) (isFirst : Bool) : List (Section × Bool) → List (List Section)
    | [] => (acc ++ [cur])
    | (sl, cut) :: r =>
      let l := (encSection st sl).length
      if (size + l > budget || cut) && (isFirst || !cur.isEmpty) then go [sl] l (acc ++ [cur]) false r
      else go (cur ++ [sl]) (size + l) acc isFirst r
  let flagged ← sections.mapM (fun sl => do let c ← G.chance 1 12; pure (sl, c))
  pure (go [] first [] true flagged)

/-- apply `f` to every slice of the layout -/
def mapSlices (f : Slice → Slice) (cfg : ConfigX) : ConfigX :=
  { cfg with layout := cfg.layout.map fun ss => ss.map fun
      | .slice sl => .slice (f sl)
      | .extra e => .extra e }

/-! packets that end inside a value list -/

/-- cut points for a section of `n` values: after the first, in the middle, before the last, the first
and the last, three of them, after every one of the first six -/
def gCutPoints (n : Nat) : G (List Nat) := do
  let style ← G.below 6
  let raw : List Nat := match style with
    | 0 => [1]
    | 1 => [n / 2]
    | 2 => [n - 1]
    | 3 => [1, n - 1]
    | 4 => [1, n / 2, n - 1]
    | _ => (List.range (min n 7)).drop 1
  pure ((raw.filter fun c => 0 < c && c < n).eraseDups)

/-- keep at most `budget` cut points in all (every cut point is one more packet) -/
def limitCuts : Nat → List (List CutSection) → List (List CutSection)
  | _, [] => []
  | budget, run :: r =>
    let rec go (budget : Nat) : List CutSection → List CutSection × Nat
      | [] => ([], budget)
      | cs :: rest =>
        let keep := cs.cuts.take budget
        let (rest', left) := go (budget - keep.length) rest
        (⟨cs.sec, keep⟩ :: rest', left)
    let (run', left) := go budget run
    run' :: limitCuts left r

/-- the packets of `gPack` as runs of whole sections; when `cutting`, one section in three gets cut points -/
def gCutRuns (cutting : Bool) (layout : List (List Section)) : G (List (List CutSection)) := do
  let runs ← layout.mapM fun ss => ss.mapM fun s => do
    let c ← G.chance 1 3
    let cuts ← gCutPoints (sectionCount s)
    pure (⟨s, if cutting && c then cuts else []⟩ : CutSection)
  pure (limitCuts 12 runs)

/-- the sections after whose last value a packet of the reply ends -/
def openSections (cfg : ConfigC) : List Section :=
  ((List.range cfg.layout.length).zip cfg.layout).filterMap fun (i, ss) =>
    if cfg.cut.getD i false then ss.getLast? else none

/-- how many of them are player sections, team sections, extra sections -/
def openKinds (cfg : ConfigC) : String :=
  let os := openSections cfg
  let np := (os.filter fun | .slice sl => !sl.team | _ => false).length
  let nt := (os.filter fun | .slice sl => sl.team | _ => false).length
  let nx := (os.filter fun | .extra _ => true | _ => false).length
  s!"{np},{nt},{nx}"

def gChallengeInt : G Int := do
  let c ← G.below 10
  match c with
  | 0 => pure 0
  | 1 => pure 0
  | 2 => pure (-1)
  | 3 => pure 2147483647
  | 4 => pure (-2147483648)
  | 5 => do let b ← G.oneOf [0x41, 0xFF, 0x0A, 0x80, 0x7F, 0x100, 0xFF00, 0x410000]; pure (b : Int)
  | _ => G.int 32

/-- semantic damage: states outside the specification's domain (tagged NOTWF) -/
def gDamageX (cfg : ConfigX) (st : State) : G (ConfigX × State) := do
  let c ← G.below 14
  match c with
  | 0 => pure (cfg, { st with vars := st.vars.drop 1 })
  | 1 => pure (cfg, { st with vars := st.vars.map fun p => if p.1 == asciiBytes "maxplayers" then (p.1, asciiBytes "x1") else p })
  | 2 => pure (cfg, { st with players := st.players.map fun p => { p with name := [] } })
  | 3 => pure ({ cfg with layout := cfg.layout.map fun ss => ss.drop 1 }, st)
  | 4 => pure (mapSlices (fun sl => { sl with field := asciiBytes "kills" }) cfg, st)
  | 5 => pure (cfg, { st with vars := st.vars ++ [(asciiBytes "password", asciiBytes "maybe")] })
  | 6 => pure (mapSlices (fun sl => { sl with offset := sl.offset + 1 }) cfg, st)
  | 7 => pure ({ cfg with challenge := 2147483648 }, st)
  -- sections that end exactly at / run past the last row number a byte can address (255)
  | 8 => pure (mapSlices (fun sl => { sl with offset := 256 - sl.count }) cfg, st)
  | 9 => pure (mapSlices (fun sl => { sl with offset := 255 }) cfg, st)
  -- sections that are NOT allowed extra sections: a typed first segment with a foreign suffix, an empty
  -- value in the middle, a name made of a marker byte
  | 10 => do
    let bad ← G.oneOf [(⟨[], asciiBytes "score_total_", 0, [asciiBytes "7"]⟩ : Extra),
      ⟨[1], asciiBytes "clan_", 0, [asciiBytes "a", [], asciiBytes "ping_"]⟩,
      ⟨[], asciiBytes "team_name_", 1, [asciiBytes "red"]⟩,
      ⟨[], [2], 0, [asciiBytes "kills_"]⟩,
      ⟨[], asciiBytes "ping_x", 0, []⟩]
    let pk ← G.below cfg.layout.length
    pure ({ cfg with layout := (List.range cfg.layout.length).zip cfg.layout |>.map fun (i, ss) =>
      if i == pk then .extra bad :: ss else ss }, st)
  | 11 => pure ({ cfg with layout := cfg.layout.map fun ss => ss.map fun
      | .extra e => .extra { e with offset := 256 }
      | s => s }, st)
  | _ => pure ({ cfg with layout := cfg.layout ++ [[]] }, st)

/-- the damage is done to the sections; which packets end inside a value list stays -/
def gDamage (cfg : ConfigC) (st : State) : G (ConfigC × State) := do
  let (x, st') ← gDamageX cfg.closed st
  pure (⟨x.challenge, x.layout, x.unknown, cfg.cut⟩, st')

def gGs3Case : G (ConfigC × State) := do
  -- 255 / 256 rows: the largest tables a one-byte row offset can address (sections then end at row 255)
  let np ← G.oneOf [0, 1, 1, 2, 3, 5, 5, 12, 12, 33, 64, 64, 255, 256]
  let nt ← G.oneOf [0, 0, 1, 2, 3, 8]
  let players ← G.listOf np gGs3Player
  let teams ← G.listOf nt gGs3Team
  let vars ← gGs3Vars np
  let withPid ← G.chance 1 3
  let pids ← if withPid then do
      let l ← G.listOf np (do let v ← G.nat 32; pure (natDec v))
      pure (some l)
    else pure none
  let st : State := ⟨vars, players, teams, pids⟩
  let pfields := playerFields ++ (if withPid then [asciiBytes "pid"] else [])
  let ps ← gTableSlices false pfields np
  let ts ← gTableSlices true teamFields nt
  let teamsFirst ← G.chance 1 5
  let slices := if teamsFirst then ts ++ ps else ps ++ ts
  let nx ← G.oneOf [0, 0, 1, 1, 2, 3, 6]
  let sections ← gInsertExtras np nx (slices.map .slice)
  let layout ← gPack st (encVars vars).length sections
  let cutting ← G.bool
  let runs ← gCutRuns cutting layout
  let challenge ← gChallengeInt
  let cut := cutLayout challenge runs []
  let unknown ← G.listOf cut.layout.length (G.oneOf [0, 0, 1, 2, 0xFF, 0x41])
  -- now and then the last packet, too, ends without closing its value list (nothing continues it)
  let openEnd ← G.chance 1 12
  let flags := if cutting && openEnd then cut.cut.take (cut.cut.length - 1) ++ [true] else cut.cut
  let cfg : ConfigC := ⟨challenge, cut.layout, unknown, flags⟩
  let damage ← G.chance 1 10
  if damage then gDamage cfg st else pure (cfg, st)

/-- `gen gs3 <seed> <n>`: every fourth case is `query_vars` -/
def genGs3 (seed n : Nat) : List String :=
  (List.range n).map fun k =>
    let (cfg, st) := G.run gGs3Case (seed * 1000003 + k)
    let port := 29900 + k % 3
    let retries := k % 3
    let vars := k % 4 == 3
    let entry := if vars then "gs3vars" else "gs3"
    let line := s!"g{seed}_{k} {entry} {port} {retries} {showScript (Spec.scriptC cfg st)}"
    let inDomain := Spec.wfC cfg st
    let wf := if inDomain then "" else " NOTWF"
    let want := if vars then showRes showMap (.ok (Spec.expectedVars st)) else showRes showGs3Response (.ok (Spec.expected st))
    line ++ " ## WANT " ++ want ++ wf
      ++ " ## SENT " ++ String.intercalate "," ((Spec.requestsC cfg).map hexOf)
      ++ " ## SEG " ++ toString (Spec.scriptC cfg st).length
      ++ " ## NPK " ++ toString (Spec.dataPacketsC cfg st).length
      -- extra sections carried, packets that end inside a value list (and whether each is continued by the next
      -- packet), and whether the case is inside the domain of `C04_gs3_query_cut` (`wfC`)
      ++ " ## NX " ++ toString (Spec.extrasOf cfg.layout.flatten).length
      ++ " ## NCUT " ++ toString (openSections cfg).length
      ++ " ## CUTK " ++ openKinds cfg
      ++ " ## CONT " ++ (if Spec.continued cfg then "1" else "0")
      ++ " ## THM " ++ (if inDomain then "1" else "0")

end Gd.Run
