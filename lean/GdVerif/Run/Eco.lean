import GdVerif.Run.Valve
import GdVerif.Run.EcoJson
import GdVerif.Proto.Eco
namespace Gd.Run
open Gd Gd.Eco

/-- canonical text of `eco::Response`, fields in declaration order (doubles as bit patterns) -/
def showEco (r : Eco.Response) : String :=
  "E{" ++ String.intercalate ";" [
    showBool r.external, toString r.port, toString r.queryPort, showBool r.isLan, showStr r.description,
    showStr r.descriptionDetailed, showStr r.descriptionEconomy, showStr r.category,
    toString r.playersOnline, toString r.playersMaximum, showList (fun p => showStr p.name) r.players,
    showBool r.adminOnline, toString r.timeSinceStart, toString r.timeLeft, toString r.animals,
    toString r.plants, toString r.laws, showStr r.worldSize, showStr r.gameVersion,
    showStr r.skillSpecializationSetting, showStr r.language, showBool r.hasPassword, showBool r.hasMeteor,
    showStr r.distributionStationItems, showStr r.playtimes, showStr r.discordAddress, showBool r.isPaused,
    toString r.activeAndOnlinePlayers, toString r.peakActivePlayers, toString r.maxActivePlayers,
    toString r.shelfLifeMultiplier, toString r.exhaustionAfterHours, showBool r.isLimitingHours,
    showMap r.serverAchievementsDict, showStr r.relayAddress, showStr r.access, showStr r.connect] ++ "}"

/-- the document an Eco case line carries: the first delivery of the first connection; no delivery or a
silence stand for a request that got no answer (`request.call()` fails → `PacketSend`; a refused connection is told apart
by the HTTP entries: `SocketConnect`) -/
def ecoDocument (script : List ConnScript) : Option Bytes :=
  match script with
  | .opened (.data d :: _) :: _ => some d
  | _ => none

/-- what `query_with_timeout` returns once the HTTP client has the body: serde_json (a parameter, mirrored in
`EcoJson`) yields the `Info` or fails (`ProtocolFormat`), then `From<Root> for Response` -/
def ecoResult (doc : Option Bytes) : Res Eco.Response :=
  match doc with
  | none => .err .packetSend
  | some d =>
    match EcoJson.fromReader d with
    | some info => .ok (Eco.fromRoot info)
    | none => .err .protocolFormat

/-- `eco <port (unused)> <retries (unused)> <script> [opts]`: no socket is involved, the trace is empty -/
def entryEco (args : List String) : String :=
  match args with
  | port :: r :: rest =>
    match port.toNat?, r.toNat?, parseNetArgs rest with
    | some _, some _, some na =>
      let doc := ecoDocument na.script
      -- the document handed over is logged like a received delivery
      showRes showEco (ecoResult doc) ++ " ;; " ++ (match doc with | some d => s!"R0:-:{d.length}" | none => "")
    | _, _, _ => "bad-case"
  | _ => "bad-case"

/-- `eco_http` / `eco_http6 <port (unused)> <retries (unused)> <script>`: the real query against a one-shot loopback HTTP
server (127.0.0.1 / [::1], ephemeral port shown as `P`).  First connection `X` or no connection: nothing listens
(`H:-`); no data first: the server accepts and stays mute; data first: it answers `200 OK` with that body.  The trace
is the request line and the Host header the server saw: `GET /frontpage`, Host = the caller's address. -/
def entryEcoHttp (v6 : Bool) (args : List String) : String :=
  match args with
  | port :: r :: rest =>
    match port.toNat?, r.toNat?, parseNetArgs rest with
    | some _, some _, some na =>
      let host := if v6 then "[::1]" else "127.0.0.1"
      let seen := s!"H:GET_{Eco.PATH}_HTTP/1.1|Host:_{host}:P"
      match na.script with
      | .opened (.data d :: _) :: _ => showRes showEco (ecoResult (some d)) ++ " ;; " ++ seen ++ s!" R0:-:{d.length}"
      | .opened _ :: _ => showRes showEco (ecoResult none) ++ " ;; " ++ seen
      -- nothing listens: the connection is refused, which the client reports as such (`SocketConnect`)
      | _ => showRes showEco (.err .socketConnect : Res Eco.Response) ++ " ;; H:-"
    | _, _, _ => "bad-case"
  | _ => "bad-case"

def ecoEntries : List (String × (List String → String)) :=
  [("eco", entryEco), ("eco_http", entryEcoHttp false), ("eco_http6", entryEcoHttp true)]

end Gd.Run
