import GdVerif.Run.Net
import GdVerif.Proto.Valve
namespace Gd.Run
open Gd Gd.Valve

def showServerType : ServerType → String
  | .dedicated => "D" | .nonDedicated => "L" | .tv => "P"
def showEnvironment : Environment → String
  | .linux => "l" | .windows => "w" | .mac => "m"

def showNat (n : Nat) : String := toString n

def showExtra (e : ExtraData) : String :=
  "{" ++ String.intercalate ";" [showOpt showNat e.port, showOpt showNat e.steamId, showOpt showNat e.tvPort,
    showOpt showStr e.tvName, showOpt showStr e.keywords, showOpt showNat e.gameId] ++ "}"

def showMod (m : ModData) : String :=
  "{" ++ String.intercalate ";" [showStr m.link, showStr m.downloadLink, showNat m.version, showNat m.size,
    showBool m.multiplayerOnly, showBool m.hasOwnDll] ++ "}"

def showShip (t : TheShip) : String := s!"{t.mode}/{t.witnesses}/{t.duration}"

def showInfo (i : ServerInfo) : String :=
  "I{" ++ String.intercalate ";" [showNat i.protocolVersion, showStr i.name, showStr i.map, showStr i.folder,
    showStr i.gameMode, showNat i.appid, showNat i.playersOnline, showNat i.playersMaximum, showNat i.playersBots,
    showServerType i.serverType, showEnvironment i.environmentType, showBool i.hasPassword, showBool i.vacSecured,
    showOpt showShip i.theShip, showStr i.gameVersion, showOpt showExtra i.extraData, showBool i.isMod,
    showOpt showMod i.modData] ++ "}"

def showPlayer (p : ServerPlayer) : String :=
  "(" ++ String.intercalate ";" [showStr p.name, toString p.score, showNat p.duration, showOpt showNat p.deaths,
    showOpt showNat p.money] ++ ")"

def showKV (p : Bytes × Bytes) : String := showStr p.1 ++ "=" ++ showStr p.2

def showMap (m : List (Bytes × Bytes)) : String :=
  showList showKV (sortBy (fun a b => bytesLt a.1 b.1) m)

def showResponse (r : Response) : String :=
  showInfo r.info ++ " P" ++ showOpt (showList showPlayer) r.players ++ " R" ++ showOpt showMap r.rules

def parseToggle : Char → Option Toggle
  | 's' => some .skip | 't' => some .try_ | 'e' => some .enforce | _ => none

def parseGather (s : String) : Option Gather :=
  match s.toList with
  | [p, r, c] =>
    match parseToggle p, parseToggle r with
    | some p, some r => if c == 'T' then some ⟨p, r, true⟩ else if c == 'F' then some ⟨p, r, false⟩ else none
    | _, _ => none
  | _ => none

/-- `S:-` | `S:<id>` | `S:<id>:<dedicated>` | `G:0` | `G:1` -/
def parseEngine (s : String) : Option Engine :=
  match s.splitOn ":" with
  | ["S", "-"] => some (.source none)
  | ["S", a] => a.toNat?.map (fun a => .source (some (a, none)))
  | ["S", a, d] => match a.toNat?, d.toNat? with
    | some a, some d => some (.source (some (a, some d)))
    | _, _ => none
  | ["G", "0"] => some (.goldSrc false)
  | ["G", "1"] => some (.goldSrc true)
  | _ => none

def extOf (a : NetArgs) : Ext :=
  { bunzip := fun p => match a.bz.lookup p with
      | some r => r
      | none => none
    crc32 := crc32 }

/-- `valve <port> <engine> <gather> <retries> <script> [opts]` -/
def entryValve (args : List String) : String :=
  match args with
  | port :: eng :: g :: r :: rest =>
    match port.toNat?, parseEngine eng, parseGather g, r.toNat?, parseNetArgs rest with
    | some port, some eng, some g, some r, some na =>
      runQ (Valve.query (extOf na) port eng g r) na showResponse
    | _, _, _, _, _ => "bad-case"
  | _ => "bad-case"

def valveEntries : List (String × (List String → String)) := [("valve", entryValve)]

end Gd.Run
