import GdVerif.Run.GenValve
import GdVerif.Run.Faults
import GdVerif.Spec.ValveFaults
/-
  Driver entry `valveplan`: the SPEC's faulty script for one fault vector of the C10 check.

  `props/c10.py` injects per-attempt outcome vectors over {S silent, F send fault, M malformed, V valid} into the
  exchanges printed by `gen valve`.  This entry rebuilds the same exchange from its seed, reads the vector as a PLAN
  of `Spec/ValveFaults.lean` (the attempts up to the one that ends the unit; what the vector holds beyond that — the
  attempts the client must never make — and the later units' exchanges become the arbitrary continuation `restQ` /
  `restF` of the theorems) and prints the case line built by `Spec.faultyScript` / `Spec.faultyFaults`, the outcome
  `Spec.faultyExpected` and the sends `Spec.faultySends`, with `THM 1` when the hypotheses of
  `C10_valve_query_faulty` hold.  The check compares its own script with this line, so the cases it runs against the
  Rust are inside the theorem's domain, on exactly the theorem's scripts.

  Units 0-2: the fault hits the initial request of info / players / rules; 3-5: the last exchange of an attempt, after
  every challenge round was answered; 6-8 (units whose reply travels as two or more fragments): after the challenge rounds
  the reply STOPS HALF WAY — a silent attempt still receives some of the fragments before the silence (`valveGot`: by
  position in the vector all but the last / only the first / all but the first in reverse order), a malformed datagram
  arrives after such a selection, a send fault hits the last request of the attempt.
-/
namespace Gd.Run
open Gd Gd.Valve Gd.Valve.Spec

/-- what the attempt at position `i` of the vector still receives of the reply `pool` before the silence / the malformed
datagram, for the units 6-8 (nothing for the others) -/
def valveGot (unit i : Nat) (pool : List Bytes) : List Bytes :=
  if unit < 6 then []
  else if i % 3 == 0 then pool.take (pool.length - 1)
  else if i % 3 == 1 then pool.take 1
  else (pool.drop 1).reverse

/-- read a vector as (failed attempts, ending, left-over letters) for retry count `r`, faults after `j` challenge
rounds -/
def planOfVector (r j unit : Nat) (pool : List Bytes) : List Char → List Attempt → UnitPlan × List Char
  | [], fails => (⟨fails, .gaveUp⟩, [])
  | c :: rest, fails =>
    if fails.length == r + 1 then (⟨fails, .gaveUp⟩, c :: rest)
    else if c == 'S' then planOfVector r j unit pool rest (fails ++ [⟨j, false, valveGot unit fails.length pool⟩])
    else if c == 'F' then planOfVector r j unit pool rest (fails ++ [⟨j, true, []⟩])
    else if c == 'M' then (⟨fails, .malformed j (valveGot unit fails.length pool) malformedDatagram⟩, rest)
    else (⟨fails, .valid⟩, rest)

/-- deliveries / flags of the letters the client never gets to (positions `i`, `i + 1`, … of the vector) -/
def leftover (x : Exchange) (arrival : List Bytes) (j unit : Nat) : Nat → List Char → List Delivery × List Bool
  | _, [] => ([], [])
  | i, c :: rest =>
    let (d, f) :=
      if c == 'S' then ((Attempt.mk j false (valveGot unit i arrival)).deliveries x, (Attempt.mk j false []).faults x)
      else if c == 'F' then ((Attempt.mk j true []).deliveries x, (Attempt.mk j true []).faults x)
      else if c == 'M' then ((Ending.malformed j (valveGot unit i arrival) malformedDatagram).deliveries x arrival,
        (Ending.malformed j [] malformedDatagram).faults x)
      else (Ending.valid.deliveries x arrival, Ending.valid.faults x)
    let (d', f') := leftover x arrival j unit (i + 1) rest
    (d ++ d', f ++ f')

/-- `valveplan <seed> <k> <retries> <unit 0-8> <vector>` → the case line of the plan, with tags -/
def entryValvePlan (args : List String) : String :=
  match args with
  | [seed, k, r, unit, vec] =>
    match seed.toNat?, k.toNat?, r.toNat?, unit.toNat? with
    | some seed, some k, some r, some unit =>
      let (cfg0, st) := G.run (gValveCaseWith none) (seed * 1000003 + k)
      -- the check gathers both sections with Enforce
      let cfg : Config := { cfg0 with gather := ⟨.enforce, .enforce, cfg0.gather.checkAppId⟩ }
      let port := 27015 + k % 3
      let u : Request := if unit % 3 == 0 then .info else if unit % 3 == 1 then .players else .rules
      let x := exchangeOf cfg u
      let j := if unit ≥ 3 then x.challenges.length else 0
      let arrival := match u with
        | .info => infoDatagrams cfg st | .players => playersDatagrams cfg st | .rules => rulesDatagrams cfg st
      let (p, left) := planOfVector r j unit arrival vec.toList []
      let ok : UnitPlan := ⟨[], .valid⟩
      let none' : UnitPlan := ⟨[], .gaveUp⟩
      -- units before `u` are answered at once; units after it only run when `u` is answered
      let after := if p.ending == .valid then ok else none'
      let plan : Plan := match u with
        | .info => ⟨p, after, after⟩
        | .players => ⟨ok, p, after⟩
        | .rules => ⟨ok, ok, p⟩
      let (lq, lf) := leftover x arrival j unit (vec.length - left.length) left
      -- what the script still holds behind a unit that ends the query: the later units' exchanges
      let laterQ : List Delivery := if p.ending == .valid then [] else
        (later u).flatMap fun v => Ending.valid.deliveries (exchangeOf cfg v)
          (match v with | .info => infoDatagrams cfg st | .players => playersDatagrams cfg st | .rules => rulesDatagrams cfg st)
      let laterF : List Bool := if p.ending == .valid then [] else
        (later u).flatMap fun v => Ending.valid.faults (exchangeOf cfg v)
      let script := faultyScript cfg plan (infoDatagrams cfg st) (playersDatagrams cfg st) (rulesDatagrams cfg st)
        ++ (lq ++ laterQ)
      let faults := faultyFaults cfg plan ++ (lf ++ laterF)
      let thm := Spec.wf cfg st && Spec.wfExchanges cfg && Spec.uncompressed cfg && Spec.fits (Spec.script cfg st)
        && wfPlanReached r cfg st plan
      s!"valve {port} {showEngineArg cfg.engine} {showGatherArg cfg.gather} {r} {showDeliveries script} f={showFaults faults}"
        ++ " ## WANT " ++ showRes showResponse (faultyExpected cfg st plan)
        ++ " ## SENT " ++ showSent (faultySends cfg st plan)
        ++ " ## ATT " ++ toString (p.attempts)
        ++ " ## THM " ++ (if thm then "1" else "0")
    | _, _, _, _ => "bad-case"
  | _ => "bad-case"

def valveFaultEntries : List (String × (List String → String)) := [("valveplan", entryValvePlan)]

end Gd.Run
