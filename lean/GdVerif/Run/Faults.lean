import GdVerif.Run.Net
import GdVerif.Spec.Faults
/-
  Driver pieces shared by the `<family>plan` entries: the C10 check's outcome vectors over {S silent, F send fault,
  M malformed, V valid} read as plans of `Spec/Faults.lean`, and the printing of plan scripts.
-/
namespace Gd.Run
open Gd Gd.Faults

/-- the datagram the check uses as a malformed reply -/
def malformedDatagram : Bytes := [0xFF, 0xFF]

def showDeliveries (ds : List Delivery) : String :=
  if ds.isEmpty then "." else String.intercalate "," (ds.map fun
    | .data d => if d.isEmpty then "-" else hexOf d
    | .silence => "~")

def showFaults (fs : List Bool) : String := String.join (fs.map fun b => if b then "1" else "0")

def showSent (l : List (Bytes × Bool)) : String :=
  String.intercalate "," (l.map fun (d, f) => hexOf d ++ (if f then "!" else ""))

/-- read a vector as a one-exchange plan for retry count `r` (the attempts up to the one that ends the unit) and the
letters left over (attempts the client must never make) -/
def plan1OfVector (r : Nat) (reply bad : Bytes) : List Char → List Bool → Plan1 × List Char
  | [], fails => (⟨fails, none⟩, [])
  | c :: rest, fails =>
    if fails.length == r + 1 then (⟨fails, none⟩, c :: rest)
    else if c == 'S' then plan1OfVector r reply bad rest (fails ++ [false])
    else if c == 'F' then plan1OfVector r reply bad rest (fails ++ [true])
    else if c == 'M' then (⟨fails, some bad⟩, rest)
    else (⟨fails, some reply⟩, rest)

/-- deliveries / flags of the left-over letters: the arbitrary continuation of the theorems -/
def leftover1 (reply bad : Bytes) (cs : List Char) : List Delivery × List Bool :=
  cs.foldl (fun (acc : List Delivery × List Bool) c =>
    let p : Plan1 :=
      if c == 'S' then ⟨[false], none⟩ else if c == 'F' then ⟨[true], none⟩
      else if c == 'M' then ⟨[], some bad⟩ else ⟨[], some reply⟩
    (acc.1 ++ p.deliveries, acc.2 ++ p.faults)) ([], [])

end Gd.Run
