import GdVerif.Run.GenLib
import GdVerif.Run.Gs1
import GdVerif.Spec.Gs1
namespace Gd.Run
open Gd Gd.Gs Gd.Gs1 Gd.Gs1.Spec

/-- text without NUL and backslash -/
def gGsText (maxLen : Nat := 40) : G Bytes := do let t ← G.text [0, 0x5c] maxLen; pure (utf8Encode t)

def gGsOpt (g : G α) : G (Option α) := do if (← G.bool) then pure none else do let x ← g; pure (some x)

def gGs1Player : G Gs1.Player := do
  pure { name := ← gGsText 24, team := ← gGsOpt (G.nat 8), ping := ← G.nat 16, face := ← gGsOpt (gGsText 12),
         skin := ← gGsOpt (gGsText 12), mesh := ← gGsOpt (gGsText 12), score := ← G.int 32,
         deaths := ← gGsOpt (G.nat 32), health := ← gGsOpt (G.nat 32), secret := ← gGsOpt G.bool }

def gs1ExtraKeys : List String :=
  ["gamename", "numplayers", "hostport", "listenserver", "wantworldlog", "worldlog", "mutators", "Mutator_1", "x_y_1",
   "team_x", "player", "", "ping_", "frags_-1", "timelimit", "goalteamscore", "changelevels", "balanceteams", "é",
   "location", "sv_punkbuster", "player_1_2", "health_1.5", "AdminName2", "Password", "Final"]

def gGs1Extras : G (List (Bytes × Bytes)) := do
  let n ← G.oneOf [0, 0, 1, 2, 3, 6, 12, 30]
  let kvs ← G.listOf n (do
    let c ← G.below 3
    let k ← if c == 0 then do let i ← G.ident; pure (utf8Encode i)
            else do let s ← G.oneOf gs1ExtraKeys; pure (utf8Encode (s.toList.map Char.toNat))
    let v ← gGsText 24
    pure (k, v))
  pure ((dedupKeys kvs).filter wfExtra)

/-- cut points that keep every datagram under `budget` bytes (the trailer needs up to ~50) -/
def gs1Cuts (budget : Nat) (ps : List (Bytes × Bytes)) : List Nat :=
  let (cuts, cur, _) := ps.foldl (fun (acc : List Nat × Nat × Nat) p =>
    let (cuts, cur, size) := acc
    let sz := (encPair p).length
    if cur > 0 && size + sz > budget then (cuts ++ [cur], 1, sz) else (cuts, cur + 1, size + sz)) ([], 0, 0)
  let _ := cur
  cuts

def gGs1Case : G (Style × Spec.State) := do
  let np ← G.oneOf [0, 0, 1, 2, 3, 5, 8, 16, 32, 64]
  let players ← G.listOf np gGs1Player
  let st : Spec.State :=
    { name := ← gGsText 64, map := ← gGsText, mapTitle := ← gGsOpt gGsText, adminContact := ← gGsOpt gGsText,
      adminName := ← gGsOpt gGsText, hasPassword := ← G.bool, gameMode := ← gGsText 16, gameVersion := ← gGsText 8,
      playersMaximum := ← G.nat 32, playersMinimum := ← gGsOpt (G.nat 8), players,
      tournament := ← gGsOpt G.bool, extras := ← gGs1Extras }
  let y0 : Style :=
    { queryId := ← G.oneOf [1, 5, 0, 77, 4294967295, 18446744073709551615, 12], cuts := [], finalFirst := ← G.bool,
      pwStyle := ← G.below 3, adminShort := ← G.bool, nameLong := ← G.bool, boolUpper := ← G.bool,
      pad := ← G.oneOf [0, 1, 1, 2] }
  let budget ← G.oneOf [120, 300, 500, 900, 960, 1350, 1900, 1980, 2100]
  let cuts := gs1Cuts budget (allPairs y0 st)
  -- now and then: cuts at random places instead (empty parts, one big part)
  let c ← G.below 8
  let cuts ← if c == 0 && np ≤ 3 then do
      let k ← G.below 6
      G.listOf k (G.below 6)
    else pure cuts
  pure ({ y0 with cuts }, st)

def gsShowScript (dgs : List Bytes) : String :=
  if dgs.isEmpty then "." else String.intercalate "," (dgs.map (fun d => if d.isEmpty then "-" else hexOf d))

/-- `gen gs1 <seed> <n>`: three `gs1` (query) cases out of four, one `gs1vars` (query_vars) -/
def genGs1 (seed n : Nat) : List String :=
  (List.range n).map fun k =>
    let (y, st) := G.run gGs1Case (seed * 1000003 + k)
    let port := 7777 + k % 3
    let retries := k % 3
    let sc := Spec.script y st
    let vars := k % 4 == 3
    let entry := if vars then "gs1vars" else "gs1"
    let line := s!"ga{seed}_{k} {entry} {port} {retries} {gsShowScript sc}"
    let wf := if Spec.wf y st then "" else " NOTWF"
    let want := if vars then showRes showGs1Vars (.ok (Spec.expectedVars y st))
      else showRes showGs1Response (.ok (Spec.expected st))
    line ++ " ## WANT " ++ want ++ wf
      ++ " ## SENT " ++ String.intercalate "," (Spec.requests.map hexOf)
      ++ " ## SEG " ++ toString sc.length

end Gd.Run
