import GdVerif.Run.GenGs2
import GdVerif.Run.Faults
import GdVerif.Spec.Gs2Faults
/-
  Driver entry `gs2plan`: the SPEC's plan script for one fault vector of the C10 check (see `Run/ValveFaults.lean`).
  `THM 1` = the hypotheses of the corollary of `C10_gs2_query_faulty` that applies hold.
-/
namespace Gd.Run
open Gd Gd.Gs2 Gd.Gs2.Spec Gd.Faults

/-- the datagram the GameSpy 2 check uses as a malformed reply: a wrong first byte -/
def gs2Malformed : Bytes := [0x09, 0x00, 0x00, 0x00, 0x01]

/-- `gs2plan <seed> <k> <retries> <vector>` -/
def entryGs2Plan (args : List String) : String :=
  match args with
  | [seed, k, r, vec] =>
    match seed.toNat?, k.toNat?, r.toNat? with
    | some seed, some k, some r =>
      let (y, st) := G.run gGs2Case (seed * 1000003 + k)
      let port := 2302 + k % 3
      let (p, left) := plan1OfVector r (reply y st) gs2Malformed vec.toList []
      let (lq, lf) := leftover1 (reply y st) gs2Malformed left
      let thm := p.wf r 2048 && (match p.answer with
        | none => true
        | some d => if d == reply y st then Spec.wf y st else malformed d)
      s!"gs2 {port} {r} {showDeliveries (p.deliveries ++ lq)} f={showFaults (p.faults ++ lf)}"
        ++ " ## WANT " ++ showRes showGs2Response
            (match p.answer with
             | some d => if d == reply y st then .ok (Spec.expected st) else .err (malformedError d)
             | none => .err (lastError attemptError p.fails))
        ++ " ## SENT " ++ showSent (p.sends Gs2.request)
        ++ " ## ATT " ++ toString p.attempts
        ++ " ## THM " ++ (if thm then "1" else "0")
    | _, _, _ => "bad-case"
  | _ => "bad-case"

def gs2FaultEntries : List (String × (List String → String)) := [("gs2plan", entryGs2Plan)]

end Gd.Run
