import GdVerif.Run.GenLib
import GdVerif.Run.Quake
import GdVerif.Spec.Quake
namespace Gd.Run
open Gd Gd.Quake Gd.Quake.Spec

deriving instance Inhabited for Gd.Quake.Version

/-- text over the boundary alphabet without the given scalars; now and then nothing is avoided (such states
are outside the SPEC's domain and only exercise the correspondence) -/
def gQText (wild : Bool) (avoid : List Nat) (maxLen : Nat := 40) : G Bytes := do
  let wild ← if wild then G.chance 1 6 else pure false
  let t ← G.text (if wild then [] else avoid) maxLen
  pure (utf8Encode t)

def gVarText (wild : Bool) : G Bytes := gQText wild [0x5C, 0x0A] 40

/-- insert `x` at a random position -/
def gInsert (x : α) (l : List α) : G (List α) := do
  let i ← G.below (l.length + 1)
  pure (l.take i ++ [x] ++ l.drop i)

/-- which of a pair of alternate spellings the server lists: first, second, both, (rarely) none -/
def gSpellings (k1 k2 : Bytes) (value : G Bytes) (allowNone : Bool) : G Vars := do
  let c ← G.below (if allowNone then 8 else 7)
  let v1 ← value
  let v2 ← value
  let order ← G.bool
  if c < 3 then pure [(k1, v1)]
  else if c < 5 then pure [(k2, v2)]
  else if c < 7 then pure (if order then [(k1, v1), (k2, v2)] else [(k2, v2), (k1, v1)])
  else pure []

def gMaxClients (wild : Bool) : G Bytes := do
  let c ← G.below (if wild then 16 else 100)
  if c == 0 then pure (asciiBytes "256")
  else if c == 1 then pure (asciiBytes "")
  else if c == 2 then pure (asciiBytes "+8")
  else if c == 3 then pure (asciiBytes "016")
  else if c == 4 then pure (asciiBytes "-1")
  else do let n ← G.nat 8; pure (dec n)

def gVars (wild : Bool) : G Vars := do
  let gVarText := gVarText wild
  let host ← gSpellings hostnameKey hostnameAlt gVarText (wild && (← G.chance 1 6))
  let map ← gSpellings mapKey mapAlt gVarText (wild && (← G.chance 1 6))
  let mx ← gSpellings maxKey maxAlt (gMaxClients wild) (wild && (← G.chance 1 6))
  let ver ← gSpellings versionKey versionAlt gVarText true
  let n ← G.oneOf [0, 0, 1, 2, 3, 8, 20]
  let others ← G.listOf n (do
    let k ← G.ident
    let wildKey ← G.chance 1 6
    let k' ← gVarText
    let v ← gVarText
    pure (if wildKey then k' else utf8Encode k, v))
  let mut all := others
  for kv in host ++ map ++ mx ++ ver do
    all ← gInsert kv all
  -- now and then a repeated key (the later value wins in the code; outside the SPEC's domain)
  let dup ← if wild then G.chance 1 4 else pure false
  pure (if dup then all else dedupKeys all)

def gField (wild quoted : Bool) : G Bytes :=
  gQText wild (if quoted then [0x22, 0x0A] else [0x22, 0x0A, 0x20]) 32

def gLine (wild : Bool) (v : Version) : G Line := do
  let gField := gField wild
  let qn ← G.chance 5 6
  let qe ← G.chance 5 6
  let wide ← if wild then G.chance 1 8 else pure false
  match v with
  | .one =>
    let p : PlayerOne := ⟨← G.nat (if wide then 9 else 8), ← G.nat (if wide then 17 else 16), ← G.nat 16, ← G.nat 16,
      ← gField qn, ← gField qe, ← G.nat 8, ← G.nat 8⟩
    pure ⟨.one p, qn, qe⟩
  | _ =>
    let hasAddr ← if v == .two then G.chance 2 3 else G.chance 1 6
    let addr ← if hasAddr then do
        let a ← G.oneOf ["127.0.0.1:27901", "10.0.0.200:1", "[::1]:27910", "loopback", ""]
        let t ← gField qe
        let custom ← G.chance 1 4
        pure (some (if custom then t else asciiBytes a))
      else pure none
    let addr := if qe then addr else addr.map (·.filter (· != 0x20))
    let p : PlayerTwo := ⟨← G.int (if wide then 33 else 32), ← G.nat 16, ← gField qn, addr⟩
    pure ⟨.two p, qn, qe⟩

def gQuakeCase : G (Config × Spec.State) := do
  let v ← G.oneOf [Version.one, .two, .three]
  let wild ← G.chance 1 6
  let vars ← gVars wild
  let np ← G.oneOf [0, 0, 1, 1, 2, 3, 5, 12, 32, 64, 65]
  let lines ← G.listOf np (gLine wild v)
  let nul ← if v == .one then G.chance 3 4 else G.chance 1 8
  pure (⟨v, nul⟩, ⟨vars, lines⟩)

def showVersionArg : Version → String
  | .one => "1" | .two => "2" | .three => "3"

def showQuakeScript (dgs : List Bytes) : String :=
  if dgs.isEmpty then "." else String.intercalate "," (dgs.map hexOf)

/-- `gen quake <seed> <n>` -/
def genQuake (seed n : Nat) : List String :=
  (List.range n).map fun k =>
    let (cfg, st) := G.run gQuakeCase (seed * 1000003 + k)
    let port := 27500 + k % 3
    let retries := k % 3
    let line := s!"q{seed}_{k} quake {port} {showVersionArg cfg.version} {retries} {showQuakeScript (Spec.script cfg st)}"
    let wf := if Spec.wf cfg st then "" else " NOTWF"
    line ++ " ## WANT " ++ showRes showQuakeResponse (Spec.expected cfg st) ++ wf
      ++ " ## SENT " ++ String.intercalate "," ((Spec.requests cfg st).map hexOf)
      ++ " ## SEG " ++ toString (Spec.script cfg st).length

end Gd.Run
