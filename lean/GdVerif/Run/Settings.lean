import GdVerif.Run.Common
import GdVerif.Proto.Settings
namespace Gd.Run
open Gd Gd.Settings

/-- `-` = None, `<secs>:<nanos>` -/
def parseDurArg (s : String) : Option (Option Duration) :=
  if s == "-" then some none
  else match s.splitOn ":" with
    | [a, b] => match a.toNat?, b.toNat? with
      | some a, some b => some (some ⟨a, b⟩)
      | _, _ => none
    | _ => none

def showDur (d : Duration) : String := s!"{d.secs}:{d.nanos}"

def showTimeout (t : Timeout) : String :=
  s!"c{showOpt showDur t.connect} r{showOpt showDur t.read} w{showOpt showDur t.write} n{t.retries}"

/-- outcome of constructing settings and then using them on sockets -/
def showConstructed (r : Res Timeout) : String :=
  match r with
  | .ok t => "OK " ++ showTimeout t ++ " SOCK " ++ showRes (fun _ => "") (applyTimeout (some t))
  | .err k => "ERR " ++ k.name
  | .crash => "CRASH"

/-- `settings-new <read> <write> <connect> <retries>` -/
def entrySettingsNew (args : List String) : String :=
  match args with
  | [r, w, c, n] => match parseDurArg r, parseDurArg w, parseDurArg c, n.toNat? with
    | some r, some w, some c, some n => showConstructed (Settings.new r w c n)
    | _, _, _, _ => "bad-case"
  | _ => "bad-case"

/-- `settings-serde <connect> <read> <write> <retries>` -/
def entrySettingsSerde (args : List String) : String :=
  match args with
  | [c, r, w, n] => match parseDurArg c, parseDurArg r, parseDurArg w, n.toNat? with
    | some c, some r, some w, some n => showConstructed (Settings.fromSerde c r w n)
    | _, _, _, _ => "bad-case"
  | _ => "bad-case"

/-- `_` = flag omitted, else hex of the flag value -/
def parseFlagArg (s : String) : Option (Option Bytes) := if s == "_" then some none else (parseHex s).map some

/-- `settings-clap <connect> <read> <write> <retries>` -/
def entrySettingsClap (args : List String) : String :=
  match args with
  | [c, r, w, n] => match parseFlagArg c, parseFlagArg r, parseFlagArg w, parseFlagArg n with
    | some c, some r, some w, some n => showConstructed (Settings.fromClap c r w n)
    | _, _, _, _ => "bad-case"
  | _ => "bad-case"

/-- `settings-default` -/
def entrySettingsDefault (_ : List String) : String := showConstructed (.ok Settings.default)

def settingsEntries : List (String × (List String → String)) :=
  [("settings-new", entrySettingsNew), ("settings-serde", entrySettingsSerde), ("settings-clap", entrySettingsClap),
   ("settings-default", entrySettingsDefault)]

end Gd.Run
