import GdVerif.Run.Common
import GdVerif.Proto.Settings
namespace Gd.Run
open Gd Gd.Settings

/-- `-` = None, `<secs>:<nanos>` -/
def parseDurArg (s : String) : Option (Option Duration) :=
  if s == "-" then some none
  else match s.splitOn ":" with
    | [a, b] => match a.toNat?, b.toNat? with
      | some a, some b => some (some ⟨a, b⟩)
      | _, _ => none
    | _ => none

def showDur (d : Duration) : String := s!"{d.secs}:{d.nanos}"

def showTimeout (t : Timeout) : String :=
  s!"c{showOpt showDur t.connect} r{showOpt showDur t.read} w{showOpt showDur t.write} n{t.retries}"

/-- outcome of constructing settings and then using them on sockets -/
def showConstructed (r : Res Timeout) : String :=
  match r with
  | .ok t => "OK " ++ showTimeout t ++ " SOCK " ++ showRes (fun _ => "") (applyTimeout (some t))
  | .err k => "ERR " ++ k.name
  | .crash => "CRASH"

/-- `settings-new <read> <write> <connect> <retries>` -/
def entrySettingsNew (args : List String) : String :=
  match args with
  | [r, w, c, n] => match parseDurArg r, parseDurArg w, parseDurArg c, n.toNat? with
    | some r, some w, some c, some n => showConstructed (Settings.new r w c n)
    | _, _, _, _ => "bad-case"
  | _ => "bad-case"

/-- `settings-serde <connect> <read> <write> <retries>` -/
def entrySettingsSerde (args : List String) : String :=
  match args with
  | [c, r, w, n] => match parseDurArg c, parseDurArg r, parseDurArg w, n.toNat? with
    | some c, some r, some w, some n => showConstructed (Settings.fromSerde c r w n)
    | _, _, _, _ => "bad-case"
  | _ => "bad-case"

/-- `_` = flag omitted, else hex of the flag value -/
def parseFlagArg (s : String) : Option (Option Bytes) := if s == "_" then some none else (parseHex s).map some

/-- `settings-clap <connect> <read> <write> <retries>` -/
def entrySettingsClap (args : List String) : String :=
  match args with
  | [c, r, w, n] => match parseFlagArg c, parseFlagArg r, parseFlagArg w, parseFlagArg n with
    | some c, some r, some w, some n => showConstructed (Settings.fromClap c r w n)
    | _, _, _, _ => "bad-case"
  | _ => "bad-case"

/-- `settings-default` -/
def entrySettingsDefault (_ : List String) : String := showConstructed (.ok Settings.default)

/-- `settings-eff <read> <write> <connect> <retries>` / `settings-eff none`: what the sockets and the retry loops are
handed — the values of the three `*_or_default(s)` helpers -/
def entrySettingsEff (args : List String) : String :=
  let show_ (t : Option Timeout) : String :=
    let rw := readAndWriteOrDefaults t
    s!"EFF r{showOpt showDur rw.1} w{showOpt showDur rw.2} c{showOpt showDur (connectOrDefault t)} n{retriesOrDefault t}"
  match args with
  | ["none"] => show_ none
  | [r, w, c, n] => match parseDurArg r, parseDurArg w, parseDurArg c, n.toNat? with
    | some r, some w, some c, some n =>
      match Settings.new r w c n with
      | .ok t => show_ (some t)
      | .err k => "ERR " ++ k.name
      | .crash => "CRASH"
    | _, _, _, _ => "bad-case"
  | _ => "bad-case"

def allErrKinds : List ErrKind :=
  [.packetOverflow, .packetUnderflow, .packetBad, .packetSend, .packetReceive, .decompress, .socketConnect, .socketBind,
   .invalidInput, .badGame, .autoQuery, .protocolFormat, .unknownEnumCast, .jsonParse, .typeParse, .hostLookup]

/-- `gather <s|t|e> <ok|ErrorKindName>`: `maybeGather` on a section whose gathering function returned that outcome -/
def entryGather (args : List String) : String :=
  match args with
  | [t, o] =>
    let toggle : Option Toggle := if t == "s" then some .skip else if t == "t" then some .try_ else if t == "e" then some .enforce else none
    let outcome : Option (Res Nat) :=
      if o == "ok" then some (.ok 7) else (allErrKinds.find? (fun k => k.name == o)).map .err
    match toggle, outcome with
    | some toggle, some outcome =>
      let (r, _) := maybeGather toggle (Q.lift outcome) (Net.init [] [])
      showRes (showOpt toString) r
    | _, _ => "bad-case"
  | _ => "bad-case"

def settingsEntries : List (String × (List String → String)) :=
  [("settings-new", entrySettingsNew), ("settings-serde", entrySettingsSerde), ("settings-clap", entrySettingsClap),
   ("settings-default", entrySettingsDefault), ("settings-eff", entrySettingsEff), ("gather", entryGather)]

end Gd.Run
