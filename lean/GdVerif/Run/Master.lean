import GdVerif.Run.Net
import GdVerif.Proto.Master
import GdVerif.Spec.Master
namespace Gd.Run
open Gd Gd.Master

def parseBoolArg (s : String) : Option Bool := if s == "1" then some true else if s == "0" then some false else none

def parseTagsArg (s : String) : Option (List Bytes) :=
  if s == "_" then some [] else (s.splitOn ".").mapM parseHex

def mkFilter (kind : Nat) (arg : String) : Option Filter :=
  match kind with
  | 0 => (parseBoolArg arg).map .isSecured | 1 => (parseHex arg).map .runsMap
  | 2 => (parseBoolArg arg).map .canHavePassword | 3 => (parseBoolArg arg).map .canBeEmpty
  | 4 => (parseBoolArg arg).map .isEmpty | 5 => (parseBoolArg arg).map .canBeFull
  | 6 => arg.toNat?.map .runsAppID | 7 => arg.toNat?.map .notAppID
  | 8 => (parseTagsArg arg).map .hasTags | 9 => (parseHex arg).map .matchName
  | 10 => (parseHex arg).map .matchVersion | 11 => (parseBoolArg arg).map .restrictUniqueIP
  | 12 => (parseHex arg).map .onAddress | 13 => (parseBoolArg arg).map .whitelisted
  | 14 => (parseBoolArg arg).map .spectatorProxy | 15 => (parseBoolArg arg).map .isDedicated
  | 16 => (parseBoolArg arg).map .runsLinux | 17 => (parseHex arg).map .hasGameDir
  | _ => none

/-- `-` = None, `+` = Some(empty), else `<g><kind>:<arg>,…` with g ∈ {p,a,o} -/
def parseFiltersArg (s : String) : Option (Option SearchFilters) :=
  if s == "-" then some none
  else if s == "+" then some (some SearchFilters.new)
  else
    (s.splitOn ",").foldl (fun acc op =>
      acc.bind fun (sf : Option SearchFilters) =>
        let sf := sf.getD SearchFilters.new
        match op.toList with
        | g :: rest =>
          match (String.ofList rest).splitOn ":" with
          | [k, a] =>
            match k.toNat?.bind (fun k => mkFilter k a) with
            | some f =>
              if g == 'p' then some (some (sf.insert f))
              else if g == 'a' then some (some (sf.insertNand f))
              else if g == 'o' then some (some (sf.insertNor f))
              else none
            | none => none
          | _ => none
        | [] => none) (some none)

def showKVs (l : List Spec.KV) : String :=
  showList (fun p => showStr p.1 ++ "=" ++ showStr p.2) (sortBy (fun a b => bytesLt a.1 b.1 || (a.1 == b.1 && bytesLt a.2 b.2)) l)

/-- canonical text of a request datagram: parsed by the reference grammar, groups sorted (the
implementation iterates hash maps in arbitrary order) -/
def showMasterRequest (d : Bytes) : String :=
  match Spec.parse d with
  | some r => s!"M{r.region}|{showStr r.seed}|P{showKVs r.plain}|A{showKVs r.nand}|O{showKVs r.nor}"
  | none => "RAW" ++ hexOf d

def showMasterEv : Ev → String
  | .send c port d failed => s!"S{c}>{port}:{showMasterRequest d}{if failed then "!" else ""}"
  | e => showEv e

def showAddr (a : Addr) : String :=
  s!"{a.1.1}.{a.1.2.1}.{a.1.2.2.1}.{a.1.2.2.2}:{a.2}"

/-- `master <q|s> <region> <filters> <script> [opts]` -/
def entryMaster (args : List String) : String :=
  match args with
  | mode :: region :: fl :: rest =>
    match region.toNat?, parseFiltersArg fl, parseNetArgs rest with
    | some region, some fs, some na =>
      let q := if mode == "s" then Master.querySingular region fs else Master.query region fs
      let (r, w) := q (Net.init na.script na.faults)
      showRes (showList showAddr) r ++ " ;; " ++ String.intercalate " " (w.log.map showMasterEv)
    | _, _, _ => "bad-case"
  | _ => "bad-case"

def masterEntries : List (String × (List String → String)) := [("master", entryMaster)]

end Gd.Run
