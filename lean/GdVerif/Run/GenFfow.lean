import GdVerif.Run.GenLib
import GdVerif.Run.GenValve
import GdVerif.Run.Ffow
import GdVerif.Spec.Ffow
namespace Gd.Run
open Gd Gd.Ffow Gd.Ffow.Spec

def gFfowState : G Spec.State := do
  pure { protocol := ← G.nat 8, name := ← gStr 64, map := ← gStr, mod := ← gStr 12, gameMode := ← gStr 12,
         description := ← gStr 64, version := ← gStr 12, gamePort := ← G.nat 16, numPlayers := ← G.nat 8,
         maxPlayers := ← G.nat 8, listenType := ← G.oneOf [.dedicated, .nonDedicated, .tv],
         environment := ← G.oneOf [.linux, .windows, .mac], password := ← G.bool, secure := ← G.bool,
         averageFps := ← G.nat 8, round := ← G.nat 8, maxRounds := ← G.nat 8,
         timeLeft := ← G.oneOf [0, 1, 255, 256, 300, 0x0102, 0xFF00, 0x00FF, 65535, 32768] }

/-- `gen ffow <seed> <n>` -/
def genFfow (seed n : Nat) : List String :=
  (List.range n).map fun k =>
    let (st, upper) := G.run (do let s ← gFfowState; let u ← G.bool; pure (s, u)) (seed * 1000003 + k)
    let dp := k % 5 == 4
    let port := if dp then Spec.defaultPort else 5478 + k % 3
    let entry := if dp then "ffow_dp" else "ffow"
    let line := s!"ff{seed}_{k} {entry} {port} {k % 3} {showScript (Spec.script upper st)}"
    let wf := if Spec.wf st then "" else " NOTWF"
    line ++ " ## WANT " ++ showRes showFfow (.ok (Spec.expected st)) ++ wf
      ++ " ## SENT " ++ String.intercalate "," ((Spec.requests st).map hexOf)
      ++ " ## SEG 1 ## CH 0"

end Gd.Run
