import GdVerif.Run.GenValve
import GdVerif.Run.TheShip
import GdVerif.Spec.TheShip
namespace Gd.Run
open Gd Gd.Valve Gd.Valve.Spec

/-- a Valve server state for a given engine with the app id mostly the engine's own -/
def gGameState (engine : Engine) (own : Nat) (extraRules : G Rules) : G (Config × Valve.Spec.State) := do
  let info ← gSourceInfo engine
  -- mostly the game's own id (the check is on): in the 16-bit field when there is no GameID, else in its low 24 bits
  let ownId ← G.chance 5 6
  let info := if !ownId then info
    else if own < 65536 then
      { info with appid := own,
                  extraData := info.extraData.map fun e => { e with gameId := e.gameId.map fun g => g / 2 ^ 24 * 2 ^ 24 + own } }
    else
      -- an id that does not fit the 16-bit field travels in the GameID
      let e := info.extraData.getD ⟨none, none, none, none, none, none⟩
      { info with appid := own, extraData := some { e with gameId := some ((e.gameId.getD 0) / 2 ^ 24 * 2 ^ 24 + own) } }
  let np ← G.oneOf [0, 1, 2, 3, 5, 12, 40]
  let players ← G.listOf np (gPlayer (engine == Engine.new 2400))
  let rules ← gRules engine
  let extra ← extraRules
  let rules := dedupKeys (extra ++ rules)
  let st : Valve.Spec.State := ⟨info, players, rules⟩
  let cfg0 : Config := ⟨engine, Gather.default, ← G.bool, [], ⟨[], .single⟩, ⟨[], .single⟩, ⟨[], .single⟩⟩
  let simple ← G.chance 1 3
  if simple then pure (cfg0, st) else do
    let xi ← gExchange engine (infoPacket cfg0 st).length
    let xp ← gExchange engine (encPlayers players).length
    let xr ← gExchange engine (encRules rules).length
    let base := match xi.transport with
      | .sourceSplit id _ => id
      | .goldSplit id _ => id
      | .sourceSplitBz id _ _ _ => id
      | .single => 7
    -- the three replies carry three different ids
    let rebase (x : Exchange) (k : Nat) : Exchange := match x.transport with
      | .sourceSplit _ sizes => { x with transport := .sourceSplit ((base + k) % 2 ^ 31) sizes }
      | .goldSplit _ sizes => { x with transport := .goldSplit ((base + k) % 2 ^ 31) sizes }
      | .sourceSplitBz _ _ _ _ => x
      | .single => x
    pure ({ cfg0 with info := xi, players := rebase xp 1, rules := rebase xr 2 }, st)

def valveTags (cfg : Config) (st : Valve.Spec.State) : String :=
  let nch := fun (x : Exchange) => toString x.challenges.length
  " ## SENT " ++ String.intercalate "," ((Spec.requests cfg st).map hexOf)
    ++ " ## SEG " ++ String.intercalate "," ((Spec.segments cfg st).map toString)
    ++ " ## CH " ++ String.intercalate "," [nch cfg.info, nch cfg.players, nch cfg.rules]

/-- `gen theship <seed> <n>` -/
def genTheShip (seed n : Nat) : List String :=
  (List.range n).map fun k =>
    let (cfg, st) := G.run (gGameState TheShip.Spec.shipEngine 2400 (pure [])) (seed * 1000003 + k)
    let dp := k % 5 == 4
    let port := if dp then TheShip.Spec.defaultPort else 27015 + k % 3
    let entry := if dp then "theship_dp" else "theship"
    let line := s!"ts{seed}_{k} {entry} {port} {k % 3} {showScript (Spec.script cfg st)}"
    let wf := if TheShip.Spec.wf cfg st then "" else " NOTWF"
    line ++ " ## WANT " ++ showRes showTheShip (TheShip.Spec.expected st) ++ wf ++ valveTags cfg st

end Gd.Run
