import GdVerif.Run.Common
import GdVerif.Lemmas.Socket
/-
  Model side of `sock` (harness/src/sock.rs): the same case line; the loopback peer it describes is turned into the
  behaviour of the system (`Os`) that peer stands for, the model of socket.rs (`SockRs.session`) runs on top of it, and
  what an outside observer sees is printed: the results, what the peer received (from which family), what went anywhere
  else, and — instead of wall-clock numbers — which duration bounds the wait of each step (read off the model's own
  `set_*_timeout` / `connect_timeout` calls).
-/
namespace Gd.Run.SockDrv
open Gd Gd.SockRs Gd.Settings

def clientPattern (n k : Nat) : Bytes := (List.range n).map fun i => UInt8.ofNat ((i * 31 + 7 + 13 * k) % 256)
def peerPattern (n k : Nat) : Bytes := (List.range n).map fun i => UInt8.ofNat ((i * 17 + 3 + 29 * k) % 256)

def fnv (d : Bytes) : UInt32 := d.foldl (fun h b => (h ^^^ b.toUInt32) * 16777619) 0x811c9dc5

def hex8 (n : Nat) : String :=
  String.ofList ((List.range 8).reverse.map fun i => hexDigit ((n / 16 ^ i) % 16))

def digest (d : Bytes) : String := s!"{d.length}/{hex8 (fnv d).toNat}"

def parseDur (s : String) : Option (Option Duration) :=
  if s == "-" then some none
  else match s.splitOn ":" with
    | [a, b] => match a.toNat?, b.toNat? with
      | some a, some b => some (some ⟨a, b⟩)
      | _, _ => none
    | _ => none

/-- `-` = no settings; otherwise what `TimeoutSettings::new(read, write, connect, 0)` makes of the three -/
def parseSettings (s : String) : Option (Option Timeout) :=
  if s == "-" then some none
  else match s.splitOn "," with
    | [r, w, c] => match parseDur r, parseDur w, parseDur c with
      | some r, some w, some c => match Settings.new r w c 0 with
        | .ok t => some (some t)
        | _ => none
      | _, _, _ => none
    | _ => none

def remoteOf (fam : String) : Option Addr :=
  if fam == "v4" then some (.v4 127 0 0 1 0)
  else if fam == "v6" then some (.v6 0 0 0 0 0 0 0 1 0 0 0)
  else if fam == "v4m" then some (.v6 0 0 0 0 0 0xffff 0x7f00 1 0 0 0)
  else none

inductive DOp | send (n : Nat) | recv (size : Option Nat) | sleep (ms : Nat)

def parseOps (s : String) : Option (List DOp) :=
  if s == "-" then some []
  else (s.splitOn "/").mapM fun o =>
    let t := (o.drop 1).toString
    if o.startsWith "s" then t.toNat?.map .send
    else if o.startsWith "r" then (if t == "-" then some (.recv none) else t.toNat?.map fun n => .recv (some n))
    else if o.startsWith "z" then t.toNat?.map .sleep
    else none

def setter (d : Option Duration) : IoRes Unit := if zeroOpt d then .error .invalidInput else .ok ()

/-! ### a UDP peer as a system -/

/-- per received datagram: the sizes of the datagrams sent back (the flag "from another socket" does not matter to the
code and is dropped here) -/
def parseUdpPeer (s : String) : Option (List (List Nat)) :=
  if s == "none" then some []
  else if s.startsWith "u:" then
    ((s.drop 2).toString.splitOn "/").mapM fun a =>
      if a == "~" || a == "" then some []
      else
        let a := if a.endsWith "o" then (a.dropEnd 1).toString else a
        (a.splitOn "+").mapM String.toNat?
  else none

structure UdpSt where
  loc : Option Addr := none
  /-- datagrams that reached the peer -/
  sent : Nat := 0
  /-- reply datagrams the client has taken -/
  taken : Nat := 0

/-- a wildcard socket reaches a remote of its own family; an IPv6 one also an IPv4-mapped remote (dual stack) -/
def reaches (loc : Option Addr) (remote : Addr) : Bool :=
  match loc with
  | some l => l.isV6 == remote.isV6
  | none => false

def udpReplay (listening : Bool) (replies : List (List Nat)) (remote : Addr) : List Call → UdpSt → UdpSt
  | [], st => st
  | c :: rest, st =>
    let avail := ((replies.take st.sent).flatten).length
    let st' := match c with
      | .bindUdp l => { st with loc := some l }
      | .sendTo _ r => if listening && reaches st.loc r && r == remote then { st with sent := st.sent + 1 } else st
      | .recvFrom _ => if st.taken < avail then { st with taken := st.taken + 1 } else st
      | _ => st
    udpReplay listening replies remote rest st'

def udpOs (listening : Bool) (replies : List (List Nat)) (remote : Addr) : Os where
  bind := fun _ _ => .ok ()
  connect := fun _ _ _ => .error .other
  setRead := fun _ d => setter d
  setWrite := fun _ d => setter d
  sendTo := fun h d r => if reaches (udpReplay listening replies remote h {}).loc r then .ok d.length else .error .invalidInput
  recvFrom := fun h _ =>
    let st := udpReplay listening replies remote h {}
    match ((replies.take st.sent).flatten).drop st.taken with
    | sz :: _ => .ok (peerPattern sz st.taken, remote)
    | [] => .error .wouldBlock
  write := fun _ _ => .error .notConnected
  reads := fun _ => .closed
  bufPolicy := fun _ _ => 31

/-! ### a TCP peer as a system -/

inductive Act | write (n : Nat) | pause (ms : Nat) | read (n : Nat) | close | hold | reset

inductive TcpPeer | refuse | full | noread | acts (l : List Act)

def parseTcpPeer (s : String) : Option TcpPeer :=
  if s == "refuse" then some .refuse
  else if s == "full" then some .full
  else if s == "noread" then some .noread
  else if s.startsWith "t:" then
    (((s.drop 2).toString.splitOn "/").filter (· != "")).mapM (fun (a : String) =>
      let t := (a.drop 1).toString
      if a.startsWith "w" then t.toNat?.map Act.write
      else if a.startsWith "p" then t.toNat?.map Act.pause
      else if a.startsWith "r" then t.toNat?.map Act.read
      else if a == "c" then some Act.close
      else if a == "h" then some Act.hold
      else if a == "x" then some Act.reset
      else none) |>.map .acts
  else none

/-- what the peer's script makes the client's first `read_to_end` see -/
def streamOf : List Act → Nat → Stream
  | [], _ => .closed
  -- (a write of no bytes puts nothing on the wire)
  | .write n :: rest, k => if n == 0 then streamOf rest (k + 1) else .data (peerPattern n k) (streamOf rest (k + 1))
  | .pause _ :: rest, k => streamOf rest k
  | .read _ :: rest, k => streamOf rest k
  | .close :: _, _ => .closed
  | .hold :: _, _ => .fail .wouldBlock .closed
  | .reset :: _, _ => .fail .connectionReset .closed

def hasReset (l : List Act) : Bool := l.any fun a => match a with | .reset => true | _ => false
def endsHolding (l : List Act) : Bool :=
  match l.find? (fun a => match a with | .close | .hold | .reset => true | _ => false) with
  | some .hold => true
  | _ => false

def nWrites (h : List Call) : Nat := (h.filter fun c => match c with | .write _ => true | _ => false).length
def anyRead (h : List Call) : Bool := h.any fun c => match c with | .read _ => true | _ => false

/-- from this size on a write to a peer that never reads cannot be taken whole by the socket buffers -/
def BIG : Nat := 2097152

def tcpOs (peer : TcpPeer) : Os where
  bind := fun _ _ => .error .other
  connect := fun _ _ _ => match peer with
    | .refuse => .error .connectionRefused
    | .full => .error .timedOut
    | _ => .ok ()
  setRead := fun _ d => setter d
  setWrite := fun _ d => setter d
  sendTo := fun _ _ _ => .error .other
  recvFrom := fun _ _ => .error .other
  write := fun h d => match peer with
    | .noread => if BIG ≤ d.length then .ok (d.length / 2) else .ok d.length
    | .acts l => if hasReset l && 0 < nWrites h then .error .connectionReset else .ok d.length
    | _ => .error .notConnected
  reads := fun h => match peer with
    | .acts l => if anyRead h then (if endsHolding l then .fail .wouldBlock .closed else .closed) else streamOf l 0
    | .noread => .fail .wouldBlock .closed
    | _ => .closed
  bufPolicy := fun _ _ => 31

/-! ### what is observed -/

def showOpRes (isSend : Bool) (r : Res Bytes) : String :=
  match r with
  | .ok d => if isSend then "S=OK" else "R=" ++ digest d
  | .err k => (if isSend then "S=" else "R=") ++ k.name
  | .crash => "CRASH"

def msOf (b : Bound) : String :=
  match b with
  | .set (some d) => toString (d.secs * 1000 + d.nanos / 1000000)
  | _ => "inf"

/-- does the stream run into a read that times out before it ends? -/
def stalls : Stream → Bool
  | .closed => false
  | .data d rest => if d.isEmpty then false else stalls rest
  | .fail k rest => if k == .interrupted then stalls rest else (k == .wouldBlock || k == .timedOut)

def pausesOf (l : List Act) : Nat := l.foldl (fun s a => match a with | .pause ms => s + ms | _ => s) 0

/-- `sock <udp|tcp> <fam> <settings> <peer> <ops>` -/
def entrySock (args : List String) : String :=
  match args with
  | [kind, fam, st, peer, ops] =>
    match remoteOf fam, parseSettings st, parseOps ops with
    | some remote, some t, some dops =>
      let isTcp := kind == "tcp"
      let k : Kind := if isTcp then .tcp else .udp
      let udpPeer := parseUdpPeer peer
      let tcpPeer := parseTcpPeer peer
      if (isTcp && tcpPeer.isNone) || (!isTcp && udpPeer.isNone) || (kind != "tcp" && kind != "udp") then "bad-case" else
      let listening := peer != "none"
      let os : Os := if isTcp then tcpOs (tcpPeer.getD .refuse) else udpOs listening (udpPeer.getD []) remote
      -- the operations of the model (sleeps are the observer's), the k-th send carries the k-th pattern
      let mops : List Op := (dops.foldl (fun (acc : List Op × Nat) o => match o with
        | .send n => (acc.1 ++ [Op.send (clientPattern n acc.2)], acc.2 + 1)
        | .recv size => (acc.1 ++ [Op.receive size], acc.2)
        | .sleep _ => acc) ([], 0)).1
      let (rnew, rs, hist) := session k os remote t mops
      let newTxt := match rnew with
        | .ok () => "OK"
        | .err e => "ERR " ++ e.name
        | .crash => "CRASH"
      -- results, with the sleeps put back
      let opTxt := (dops.foldl (fun (acc : List String × List (Res Bytes)) o => match o with
        | .sleep _ => (acc.1 ++ ["Z"], acc.2)
        | .send _ => (match acc.2 with | r :: rest => (acc.1 ++ [showOpRes true r], rest) | [] => acc)
        | .recv _ => (match acc.2 with | r :: rest => (acc.1 ++ [showOpRes false r], rest) | [] => acc)) ([], rs)).1
      let opTxt := if rnew == .ok () then opTxt else []
      -- what the peer saw: every `send_to` that names it (UDP) / every byte its script reads (TCP)
      let famSeen := if remote.isV6 && !remote.isMapped then "6" else "4"
      let peerTxt :=
        if isTcp then
          match tcpPeer with
          | some (.acts l) =>
            if rnew == .ok () then
              let want := l.foldl (fun s a => match a with | .read n => s + n | _ => s) 0
              let sent := (dataSent hist).flatten
              famSeen ++ ":" ++ digest (sent.take want)
            else "-"
          | some .noread => if rnew == .ok () then famSeen ++ ":" ++ digest [] else "-"
          | _ => "-"
        else
          let st := udpReplay listening (udpPeer.getD []) remote hist {}
          let seen := hist.filterMap fun c => match c with
            | .sendTo d r => if listening && reaches st.loc r && r == remote then some (famSeen ++ ":" ++ digest d) else none
            | _ => none
          if seen.isEmpty then "-" else String.intercalate "," seen
      let decoys := ((destinations hist).filter (· != remote)).length
      -- which duration bounds the wait of each step, per the calls the model made
      let newB := match hist.head? with
        | some (.connectTimeout _ d) => if (match tcpPeer with | some .full => true | _ => false) && isTcp then "c" ++ msOf (.set (some d)) else "-"
        | some (.connect _) => if (match tcpPeer with | some .full => true | _ => false) && isTcp then "cinf" else "-"
        | _ => "-"
      let opB := if rnew == .ok () then
        (dops.foldl (fun (acc : List String × List Call × Nat) o =>
          let (out, h, nsend) := acc
          let b := boundsAfter (.unset, .unset) h
          match o with
          | .sleep ms => (out ++ [s!"z{ms}"], h, nsend)
          | .send n =>
            let data := clientPattern n nsend
            let h' := (step k os remote (.send data) h).2
            let blocked := isTcp && (match tcpPeer with | some .noread => BIG ≤ n | _ => false)
            (out ++ [if blocked then "w" ++ msOf b.2 else "-"], h', nsend + 1)
          | .recv size =>
            let h' := (step k os remote (.receive size) h).2
            let blocked := if isTcp then stalls (os.reads h) else (match os.recvFrom h 0 with | .error .wouldBlock => true | _ => false)
            let pauses := if isTcp && !anyRead h then (match tcpPeer with | some (.acts l) => pausesOf l | _ => 0) else 0
            (out ++ [(if blocked then "r" ++ msOf b.1 else "-") ++ (if pauses > 0 then s!"+{pauses}" else "")], h', nsend)) ([], (sockNew k os remote t []).2, 0)).1
        else []
      newTxt ++ " ;; " ++ (if opTxt.isEmpty then "-" else String.intercalate " " opTxt) ++ " ;; P" ++ peerTxt ++ s!"|D{decoys}"
        ++ " ;; B" ++ String.intercalate "," (newB :: opB)
    | _, _, _ => "bad-case"
  | _ => "bad-case"

def sockEntries : List (String × (List String → String)) := [("sock", entrySock)]

end Gd.Run.SockDrv
