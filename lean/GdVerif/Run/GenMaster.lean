import GdVerif.Run.GenLib
import GdVerif.Run.Master
/-
  Generator for the `master` family: well-formed histories of reply pages of the Master Server Query Protocol
  (written from the protocol page, not from the model): every reply is `FF FF FF FF 66 0A` followed by 6-byte
  entries (4 address bytes, port big-endian); the list ends with `0.0.0.0:0`; a client pages by repeating the request
  seeded with the last address received.  The expected result (WANT) and the expected requests in canonical form
  (SENT: region, seed text, filters per group, groups sorted — the implementation iterates hash maps) are computed
  here from the history and from literal key/value tables, without running the model.
-/
namespace Gd.Run
open Gd Gd.Master

/-- a reply datagram holding the given entries -/
def masterPage (es : List Addr) : Bytes :=
  [0xFF, 0xFF, 0xFF, 0xFF, 0x66, 0x0A] ++ es.flatMap fun a =>
    [UInt8.ofNat a.1.1, UInt8.ofNat a.1.2.1, UInt8.ofNat a.1.2.2.1, UInt8.ofNat a.1.2.2.2,
     UInt8.ofNat (a.2 / 256), UInt8.ofNat (a.2 % 256)]

/-- the text a request is seeded with -/
def seedText (a : Addr) : Bytes := asciiBytes (showAddr a)

/-- filter sets in the `master` entry's argument syntax with the key/value pairs they denote per group (plain, NAND,
NOR), from the protocol's filter table; the sixth set inserts `map` twice (the later one replaces the earlier) -/
def masterFilterSets : List (String × List (String × String) × List (String × String) × List (String × String)) := [
  ("-", [], [], []),
  ("+", [], [], []),
  ("p1:64655f6475737432", [("map", "de_dust2")], [], []),
  ("p0:1,p15:1,a6:730", [("secure", "1"), ("dedicated", "1")], [("appid", "730")], []),
  ("o8:61.62,p5:0", [("full", "0")], [], [("gametype", "a,b")]),
  ("a0:1,a16:0,o17:6373676f,p9:2a,p1:63705f61,p1:64655f61",
    [("name_match", "*"), ("map", "de_a")], [("secure", "1"), ("linux", "0")], [("gamedir", "csgo")]),
  ("p7:440,o3:1,o4:0", [("napp", "440")], [], [("empty", "1"), ("noplayers", "0")])]

def kvBytes (l : List (String × String)) : List Spec.KV := l.map fun p => (asciiBytes p.1, asciiBytes p.2)

/-- canonical text of the request with the given region, seed and filter denotation (same form as
`showMasterRequest`) -/
def canonRequest (region : Nat) (seed : Bytes) (p a o : List (String × String)) : String :=
  s!"M{region}|{showStr seed}|P{showKVs (kvBytes p)}|A{showKVs (kvBytes a)}|O{showKVs (kvBytes o)}"

/-- an address that is never the terminator; `tag` keeps the pages of one history apart -/
def gMasterAddr (tag : Nat) : G Addr := do
  let a ← G.below 254
  let c ← G.nat 8
  let d ← G.below 254
  let portChoice ← G.oneOf [1, 80, 27015, 65535, 0, 256, 255]
  let portRandom ← G.below 65536
  let pick ← G.below 3
  pure ((a + 1, tag, c, d + 1), if pick == 0 then portRandom else portChoice)

structure MasterHistory where
  pages : List (List Addr)
  final : List Addr
  terminated : Bool

def gMasterHistory : G MasterHistory := do
  let npages ← G.oneOf [1, 1, 2, 3, 4, 6]
  let sizes ← G.listOf (npages - 1) (G.oneOf [1, 2, 5, 40, 230])
  let pages ← (sizes.zipIdx).mapM fun (n, i) => G.listOf n (gMasterAddr i)
  let nfinal ← G.oneOf [0, 0, 1, 2, 5, 40, 229, 230]
  let final ← G.listOf nfinal (gMasterAddr npages)
  let bare ← G.bool
  pure ⟨pages, final, !(nfinal == 0 && bare)⟩

def MasterHistory.finalPage (h : MasterHistory) : List Addr :=
  if h.terminated then h.final ++ [((0, 0, 0, 0), 0)] else []

/-- `gen master <seed> <n>`: `<id> master <q|s> <region> <filters> <script> ## WANT … ## SENT …` -/
def genMaster (seed n : Nat) : List String :=
  (List.range n).map fun k =>
    let (h, trailing) := G.run (do
      let h ← gMasterHistory
      let t : List Bytes ← G.oneOf [[], [], [], [[0xFF, 0xFF, 0xFF, 0xFF, 0x66, 0x0A, 7, 7, 7, 7, 0, 7]], [[1, 2, 3]]]
      pure (h, t)) (seed * 1000003 + k)
    let singular := k % 5 == 4
    let region := [0, 1, 2, 3, 4, 5, 6, 7, 255].getD (k % 9) 0
    let (fspec, fp, fa, fo) := masterFilterSets.getD (k % 7) ("-", [], [], [])
    let allPages := h.pages ++ [h.finalPage]
    let script := String.intercalate "," ((allPages.map masterPage ++ trailing).map hexOf)
    -- what a conforming client returns and sends
    let listed := if singular then
        (match h.pages with
         | p :: _ => p
         | [] => h.final)
      else h.pages.flatten ++ h.final
    let zero : Bytes := asciiBytes "0.0.0.0:0"
    let seeds := if singular then [zero]
      else zero :: h.pages.filterMap fun p => p.getLast?.map seedText
    let line := s!"ms{seed}_{k} master {if singular then "s" else "q"} {region} {fspec} {script}"
    line ++ " ## WANT " ++ showRes (showList showAddr) (.ok listed)
      ++ " ## SENT " ++ String.intercalate ";" (seeds.map fun s => canonRequest region s fp fa fo)

end Gd.Run
