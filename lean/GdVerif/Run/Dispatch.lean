import GdVerif.Run.Games
import GdVerif.Run.Gs1
import GdVerif.Run.Gs2
import GdVerif.Run.Gs3
import GdVerif.Run.Jc2m
import GdVerif.Run.Quake
import GdVerif.Run.Unreal2
import GdVerif.Run.Minecraft
import GdVerif.Run.Small
import GdVerif.Proto.Dispatch
/-
  Line-protocol entries of the dispatch model (`Proto/Dispatch.lean`):
    dispatch        <id> <port|-> <retries|-> <extra|-> <script> [opts]
    dispatch-module <module row id> <port|-> <script> [opts]
  `<retries>` `-` = no timeout settings; `<extra>` `-` = no extra settings, otherwise
  `E<host name hex|->:<protocol version|->:<players s|t|e|->:<rules s|t|e|->:<check app id T|F|->`.
  The game / module is looked up in the generated tables and converted by `Game.ofRow` / `Module.ofRow`.
-/
namespace Gd.Run
open Gd Gd.Dispatch

/-- same text as harness/src/dispatch.rs `show_generic` / `canon_game` -/
def showDispatchResponse : Dispatch.Response → String
  | .valve r => "valve:" ++ showResponse r
  | .valveGame r => "game:" ++ showGameResponse r
  | .gs1 r => "gs1:" ++ showGs1Response r
  | .gs2 r => "gs2:" ++ showGs2Response r
  | .gs3 r => "gs3:" ++ showGs3Response r
  | .quake r => "quake:" ++ showQuakeResponse r
  | .unreal2 r => "unreal2:" ++ U2.showResponse r
  | .savage2 r => "savage2:" ++ showSavage2 r
  | .theShip r => "theship:" ++ showTheShip r
  | .ffow r => "ffow:" ++ showFfow r
  | .jc2m r => "jc2m:" ++ showJc2mResponse r
  | .mindustry r => "mindustry:" ++ showServerData r
  | .mcJava r => "mcjava:" ++ McDrv.showJavaResponse r
  | .mcBedrock r => "mcbedrock:" ++ McDrv.showBedrockResponse r
  | .eco r => "eco:" ++ showEco r

def parseOptField (f : String → Option α) (s : String) : Option (Option α) :=
  if s == "-" then some none else (f s).map some

def parseToggleStr : String → Option Toggle
  | "s" => some .skip | "t" => some .try_ | "e" => some .enforce | _ => none

def parseBoolStr : String → Option Bool
  | "T" => some true | "F" => some false | _ => none

def parseExtra (s : String) : Option (Option Extra) :=
  if s == "-" then some none
  else if s.startsWith "E" then
    match (s.drop 1).toString.splitOn ":" with
    | [h, pv, gp, gr, ca] =>
      match parseOptField parseHex h, parseOptField parseInt? pv, parseOptField parseToggleStr gp,
          parseOptField parseToggleStr gr, parseOptField parseBoolStr ca with
      | some h, some pv, some gp, some gr, some ca => some (some ⟨h, pv, gp, gr, ca⟩)
      | _, _, _, _, _ => none
    | _ => none
  else none

/-- durations play no part under a scripted transport -/
def timeoutOf (retries : Option Nat) : Option Settings.Timeout :=
  retries.map fun r => ⟨some ⟨1, 0⟩, some ⟨1, 0⟩, some ⟨1, 0⟩, r⟩

/-- the driver's instance of the parameters; Eco's HTTP client is not scripted (the entries refuse Eco) -/
def dispatchExt (na : NetArgs) : Dispatch.Ext :=
  { valve := extOf na, mc := McJson.ext, ecoFetch := fun _ _ _ => Q.fail .socketConnect }

def entryDispatch (args : List String) : String :=
  match args with
  | id :: port :: r :: extra :: rest =>
    match Gd.Gen.gameDefs.find? (·.id == id) with
    | none => "no-such-game"
    | some row =>
      match Game.ofRow row with
      | none => "no-model"
      | some game =>
        if game.protocol == .proprietary .eco then "not-scripted"
        else
          match parsePortArg port, parseOptField String.toNat? r, parseExtra extra, parseNetArgs rest with
          | some port, some r, some extra, some na =>
            runQ (generic (dispatchExt na) game port (timeoutOf r) extra) na showDispatchResponse
          | _, _, _, _ => "bad-case"
  | _ => "bad-case"

def entryDispatchModule (args : List String) : String :=
  match args with
  | id :: port :: rest =>
    match Gd.Gen.gameMods.find? (·.id == id) with
    | none => "no-such-module"
    | some row =>
      match Module.ofRow row with
      | none => "no-model"
      | some m =>
        if m == .eco then "not-scripted"
        else
          match parsePortArg port, parseNetArgs rest with
          | some port, some na => runQ (moduleQuery (dispatchExt na) m port) na showDispatchResponse
          | _, _ => "bad-case"
  | _ => "bad-case"

/-- what the Valve entries of the three-path check print: the game response (the documented conversion of a protocol
response; what a Valve game module returns) -/
def showAsGame : Dispatch.Response → String
  | .valve r => showGameResponse (Games.gameView r)
  | .valveGame r => showGameResponse r
  | r => showDispatchResponse r

def isValveRow (row : Gd.Gen.GameRow) : Bool :=
  match row.tag with
  | .valve _ _ _ _ => true
  | _ => false

/-- `game-generic <id> <port|-> <retries> <script>`: the generic path of a Valve game through the dispatch model, result
shown through the documented conversion -/
def entryGameGenericD (args : List String) : String :=
  match args with
  | id :: port :: r :: rest =>
    match ((Gd.Gen.gameDefs.find? (·.id == id)).filter isValveRow).bind Game.ofRow, parsePortArg port, r.toNat?,
        parseNetArgs rest with
    | some game, some port, some r, some na =>
      runQ (generic (dispatchExt na) game port (timeoutOf (some r)) none) na showAsGame
    | none, _, _, _ => "no-such-valve-game"
    | _, _, _, _ => "bad-case"
  | _ => "bad-case"

/-- `game-module <module> <port|-> <script>`: a Valve game module (`game_query_fn!`) through the dispatch model -/
def entryGameModuleD (args : List String) : String :=
  match args with
  | id :: port :: rest =>
    match ((Gd.Gen.gameMods.find? (·.id == id)).filter fun row => isValveRow row && !row.hand).bind Module.ofRow,
        parsePortArg port, parseNetArgs rest with
    | some m, some port, some na => runQ (moduleQuery (dispatchExt na) m port) na showAsGame
    | none, _, _ => "no-such-valve-game"
    | _, _, _ => "bad-case"
  | _ => "bad-case"

def showToggleD : Toggle → String
  | .skip => "s" | .try_ => "t" | .enforce => "e"

def showExtraReq (e : Dispatch.Extra) : String :=
  let o {α} (f : α → String) (x : Option α) : String := match x with | some a => f a | none => "-"
  s!"{o showStr e.hostname}:{o (fun (v : Int) => toString v) e.protocolVersion}:{o showToggleD e.gatherPlayers}:{o showToggleD e.gatherRules}:{o (fun b => if b then "T" else "F") e.checkAppId}"

/-- `extra-conv <E…|->`: the settings as given (the setters store what they are given), each protocol's conversion,
and `into_extra` of the converted settings -/
def entryExtraConv (args : List String) : String :=
  match args with
  | [x] =>
    match parseExtra x with
    | some given =>
      let e : Dispatch.Extra := given.getD ⟨none, none, none, none, none⟩
      let v := e.toValve
      let u := e.toUnreal2
      let m := e.toMinecraft
      s!"X {showExtraReq e} | valve {showToggleD v.players}{showToggleD v.rules}{if v.checkAppId then "T" else "F"} u2 {showToggleD u.mutatorsAndRules}{showToggleD u.players} mc {showStr m.hostname}/{m.protocolVersion} | vx {showExtraReq (Dispatch.valveIntoExtra v)} ux {showExtraReq (Dispatch.unreal2IntoExtra u)}"
    | none => "bad-case"
  | _ => "bad-case"

def dispatchEntries : List (String × (List String → String)) :=
  [("dispatch", entryDispatch), ("dispatch-module", entryDispatchModule), ("extra-conv", entryExtraConv),
   ("game-generic", entryGameGenericD), ("game-module", entryGameModuleD)]

end Gd.Run
