import GdVerif.Run.GenMindustry
import GdVerif.Run.Faults
import GdVerif.Spec.MindustryFaults
/-
  Driver entry `mindustryplan`: the SPEC's plan script for one fault vector of the C10 check (see
  `Run/ValveFaults.lean`).  Every letter of the vector is a socket of its own: S — a socket on which a silence is
  scripted, F — a socket with an empty script whose ping cannot be sent, M — the malformed datagram, V — the reply.
  `THM 1` = the hypotheses of `C10_mindustry_query_faulty` hold.
-/
namespace Gd.Run
open Gd Gd.Mindustry Gd.Mindustry.Spec Gd.Faults

def showConnScripts (cs : List ConnScript) : String :=
  if cs.isEmpty then "_" else String.intercalate "/" (cs.map fun
    | .refused => "X"
    | .opened ds => showDeliveries ds)

def mdPlanOfVector (r : Nat) : List Char → List Attempt → Plan × List Char
  | [], fails => (⟨fails, .gaveUp⟩, [])
  | c :: rest, fails =>
    if fails.length == r + 1 then (⟨fails, .gaveUp⟩, c :: rest)
    else if c == 'S' then mdPlanOfVector r rest (fails ++ [⟨false, [.silence]⟩])
    else if c == 'F' then mdPlanOfVector r rest (fails ++ [⟨true, []⟩])
    else if c == 'M' then (⟨fails, .malformed malformedDatagram []⟩, rest)
    else (⟨fails, .valid []⟩, rest)

/-- connection scripts / flags of the left-over letters: the arbitrary continuation of the theorems -/
def mdLeftover (st : State) (cs : List Char) : List ConnScript × List Bool :=
  cs.foldl (fun (acc : List ConnScript × List Bool) c =>
    let p : Plan :=
      if c == 'S' then ⟨[⟨false, [.silence]⟩], .gaveUp⟩ else if c == 'F' then ⟨[⟨true, []⟩], .gaveUp⟩
      else if c == 'M' then ⟨[], .malformed malformedDatagram []⟩ else ⟨[], .valid []⟩
    (acc.1 ++ faultyScript st p, acc.2 ++ faultyFaults p)) ([], [])

/-- `mindustryplan <seed> <k> <retries> <vector>` -/
def entryMindustryPlan (args : List String) : String :=
  match args with
  | [seed, k, r, vec] =>
    match seed.toNat?, k.toNat?, r.toNat? with
    | some seed, some k, some r =>
      let st := G.run gMindustryState (seed * 1000003 + k)
      let dp := k % 5 == 4
      let port := if dp then Spec.defaultPort else 6567 + k % 3
      let entry := if dp then "mindustry_dp" else "mindustry"
      let (plan, left) := mdPlanOfVector r vec.toList []
      let (lc, lf) := mdLeftover st left
      let thm := Spec.wf st && wfPlan r plan
      s!"{entry} {port} {r} {showConnScripts (faultyScript st plan ++ lc)} f={showFaults (faultyFaults plan ++ lf)}"
        ++ " ## WANT " ++ showRes showServerData (faultyExpected st plan)
        ++ " ## SENT " ++ showSent (faultySends plan)
        ++ " ## ATT " ++ toString plan.attempts
        ++ " ## THM " ++ (if thm then "1" else "0")
    | _, _, _ => "bad-case"
  | _ => "bad-case"

def mindustryFaultEntries : List (String × (List String → String)) := [("mindustryplan", entryMindustryPlan)]

end Gd.Run
