import GdVerif.Run.Gs1
import GdVerif.Proto.Gs2
namespace Gd.Run
open Gd Gd.Gs Gd.Gs2

def showGs2Player (p : Gs2.Player) : String :=
  "(" ++ String.intercalate ";" [showStr p.name, gsShowNat p.score, gsShowNat p.ping, gsShowNat p.teamIndex] ++ ")"

def showGs2Team (t : Gs2.Team) : String := "(" ++ showStr t.name ++ ";" ++ gsShowNat t.score ++ ")"

def showGs2Response (r : Gs2.Response) : String :=
  "G2{" ++ String.intercalate ";" [showStr r.name, showStr r.map, showBool r.hasPassword, gsShowNat r.playersMaximum,
    gsShowNat r.playersOnline, showOpt gsShowNat r.playersMinimum] ++ "} T" ++ showList showGs2Team r.teams
    ++ " P" ++ showList showGs2Player r.players ++ " U" ++ gsShowMap r.unusedEntries

/-- `gs2 <port> <retries> <script> [opts]` -/
def entryGs2 (args : List String) : String :=
  match args with
  | port :: r :: rest =>
    match port.toNat?, r.toNat?, parseNetArgs rest with
    | some port, some r, some na => runQ (Gs2.query port r) na showGs2Response
    | _, _, _ => "bad-case"
  | _ => "bad-case"

def gs2Entries : List (String × (List String → String)) := [("gs2", entryGs2)]

end Gd.Run
