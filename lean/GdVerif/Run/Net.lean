import GdVerif.Run.Common
import GdVerif.Net
/-
  Line-protocol pieces shared by every network entry: script parsing, trace printing.
-/
namespace Gd.Run
open Gd

def parseDelivery (s : String) : Option Delivery :=
  if s == "~" then some .silence else (parseHex s).map .data

def parseConn (s : String) : Option ConnScript :=
  if s == "X" then some .refused
  else if s == "." then some (.opened [])
  else ((s.splitOn ",").mapM parseDelivery).map .opened

/-- `conn/conn/…`, `_` = no scripted socket at all -/
def parseScript (s : String) : Option (List ConnScript) :=
  if s == "_" then some [] else (s.splitOn "/").mapM parseConn

def parseFaults (s : String) : List Bool := s.toList.map (· == '1')

structure NetArgs where
  script : List ConnScript
  faults : List Bool
  /-- bzip2 oracle table: compressed ↦ decompressed (none = decoder error) -/
  bz : List (Bytes × Option Bytes)

/-- trailing tokens: `<script> [f=0101] [bz=<in>:<out|!>]* [td=<r>,<w>,<c>] [ip=4|6]` -/
def parseNetArgs (toks : List String) : Option NetArgs :=
  match toks with
  | [] => none
  | sc :: opts =>
    match parseScript sc with
    | none => none
    | some script =>
      let init : Option NetArgs := some ⟨script, [], []⟩
      opts.foldl (fun acc t =>
        acc.bind fun a =>
          if t.startsWith "f=" then some { a with faults := parseFaults (t.drop 2).toString }
          else if t.startsWith "bz=" then
            match (t.drop 3).toString.splitOn ":" with
            | [i, o] =>
              match parseHex i, (if o == "!" then some none else (parseHex o).map some) with
              | some ib, some ob => some { a with bz := (ib, ob) :: a.bz }
              | _, _ => none
            | _ => none
          -- `td=<read>,<write>,<connect>`: the timeout durations the harness constructs its settings with; the model has
          -- no clock, accepted durations do not change what a query does
          else if t.startsWith "td=" then some a
          -- `ip=6`: the harness addresses the query to an IPv6 address; the model's transport has ports only (the harness
          -- flags any socket operation on another IP than the case's)
          else if t == "ip=6" || t == "ip=4" then some a
          else none) init

def showEv : Ev → String
  | .opened c tcp port refused => s!"O{c}{if tcp then "t" else "u"}{port}{if refused then "!" else ""}"
  | .send c port d failed => s!"S{c}>{port}:{hexOf d}{if failed then "!" else ""}"
  | .recv c size got =>
    let sz := match size with | some n => toString n | none => "-"
    let g := match got with | some n => toString n | none => "T"
    s!"R{c}:{sz}:{g}"

def showTrace (t : List Ev) : String := String.intercalate " " (t.map showEv)

/-- result and trace of a query run from a script -/
def runQ (q : Q α) (a : NetArgs) (f : α → String) : String :=
  let (r, w) := q (Net.init a.script a.faults)
  showRes f r ++ " ;; " ++ showTrace w.log

/-! CRC-32 (IEEE, reflected) as `crc32fast::hash` computes it -/

def crcStep (c : UInt32) : UInt32 := if c &&& 1 == 1 then (c >>> 1) ^^^ 0xEDB88320 else c >>> 1

def crcByte (c : UInt32) (b : UInt8) : UInt32 :=
  let c := c ^^^ b.toUInt32
  crcStep (crcStep (crcStep (crcStep (crcStep (crcStep (crcStep (crcStep c)))))))

def crc32 (bs : Bytes) : Nat := ((bs.foldl crcByte 0xFFFFFFFF) ^^^ 0xFFFFFFFF).toNat

end Gd.Run
