import GdVerif.Run.Mindustry
import GdVerif.Run.GenMindustry
/-
  Registration of the single-game families (C07): entries and generators.
-/
namespace Gd.Run

def smallEntries : List (String × (List String → String)) := mindustryEntries

def smallGen (suite : String) (seed n : Nat) : Option (List String) :=
  match suite with
  | "mindustry" => some (genMindustry seed n)
  | _ => none

end Gd.Run
