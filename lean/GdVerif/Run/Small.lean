import GdVerif.Run.Mindustry
import GdVerif.Run.GenMindustry
import GdVerif.Run.Savage2
import GdVerif.Run.GenSavage2
import GdVerif.Run.Ffow
import GdVerif.Run.GenFfow
import GdVerif.Run.TheShip
import GdVerif.Run.GenTheShip
import GdVerif.Run.Battalion
import GdVerif.Run.GenBattalion
import GdVerif.Run.Eco
import GdVerif.Run.GenEco
/-
  Registration of the single-game families (C07): entries and generators.
-/
namespace Gd.Run

def smallEntries : List (String × (List String → String)) := mindustryEntries ++ savage2Entries ++ ffowEntries ++ theShipEntries ++ battalionEntries ++ ecoEntries

def smallGen (suite : String) (seed n : Nat) : Option (List String) :=
  match suite with
  | "mindustry" => some (genMindustry seed n)
  | "savage2" => some (genSavage2 seed n)
  | "ffow" => some (genFfow seed n)
  | "theship" => some (genTheShip seed n)
  | "battalion" => some (genBattalion seed n)
  | "eco" => some (genEco seed n)
  | _ => none

end Gd.Run
