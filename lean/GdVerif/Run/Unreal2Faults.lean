import GdVerif.Run.GenUnreal2
import GdVerif.Run.Faults
import GdVerif.Spec.Unreal2Faults
/-
  Driver entry `unreal2plan`: the SPEC's plan script for one fault vector of the C10 check (see `Run/ValveFaults.lean`).
  The check gathers both sections with Enforce and injects the vector at the first exchange of one unit; the units
  before it are answered at once, the units after it only run when it is answered (their exchanges stay in the script
  otherwise: the arbitrary continuation of the theorems).  `THM 1` = the hypotheses of `C10_unreal2_query_faulty` hold.
-/
namespace Gd.Run
open Gd Gd.Unreal2 Gd.Unreal2.Spec Gd.Faults

/-- read a vector as the plan of one unit for retry count `r`, and the letters left over -/
def u2PlanOfVector (r : Nat) : List Char → List Bool → UnitPlan × List Char
  | [], fails => (⟨fails, .gaveUp⟩, [])
  | c :: rest, fails =>
    if fails.length == r + 1 then (⟨fails, .gaveUp⟩, c :: rest)
    else if c == 'S' then u2PlanOfVector r rest (fails ++ [false])
    else if c == 'F' then u2PlanOfVector r rest (fails ++ [true])
    else if c == 'M' then (⟨fails, .malformed Spec.malformedDatagram⟩, rest)
    else (⟨fails, .valid⟩, rest)

/-- deliveries / flags of the left-over letters -/
def u2Leftover (dgs : List Bytes) (listens : Bool) (cs : List Char) : List Delivery × List Bool :=
  cs.foldl (fun (acc : List Delivery × List Bool) c =>
    let u : UnitPlan :=
      if c == 'S' then ⟨[false], .gaveUp⟩ else if c == 'F' then ⟨[true], .gaveUp⟩
      else if c == 'M' then ⟨[], .malformed Spec.malformedDatagram⟩ else ⟨[], .valid⟩
    (acc.1 ++ unitScript u dgs listens, acc.2 ++ unitFaults u)) ([], [])

/-- `unreal2plan <seed> <k> <retries> <unit 0-2> <vector>` -/
def entryUnreal2Plan (args : List String) : String :=
  match args with
  | [seed, k, r, unit, vec] =>
    match seed.toNat?, k.toNat?, r.toNat?, unit.toNat? with
    | some seed, some k, some r, some unit =>
      let (cfg0, st) := G.run (U2.gCase (k % 3)) (seed * 1000003 + k)
      -- the check gathers both sections with Enforce, with its own retry count
      let cfg : Config := { cfg0 with gather := ⟨.enforce, .enforce⟩, retries := r }
      let port := 7777 + k % 3
      let sec : Section := if unit == 0 then .info else if unit == 1 then .rules else .players
      let dgsOf : Section → List Bytes × Bool
        | .info => ([infoDatagram st], false)
        | .rules => (rulesDatagrams cfg st, true)
        | .players => (playersDatagrams cfg st, false)
      let (p, left) := u2PlanOfVector r vec.toList []
      let ok : UnitPlan := ⟨[], .valid⟩
      let plan : Plan := match sec with
        | .info => ⟨p, ok, ok⟩
        | .rules => ⟨ok, p, ok⟩
        | .players => ⟨ok, ok, p⟩
      let (lq, lf) := u2Leftover (dgsOf sec).1 (dgsOf sec).2 left
      -- behind a unit that ends the query: the later units' exchanges
      let laterSecs : List Section := if p.ending == .valid then [] else
        match sec with | .info => [.rules, .players] | .rules => [.players] | .players => []
      let laterQ := laterSecs.flatMap fun v => unitScript ok (dgsOf v).1 (dgsOf v).2
      let laterF := laterSecs.flatMap fun _ => unitFaults ok
      let restQ := lq ++ laterQ
      let thm := Spec.wf cfg st && wfPlan cfg plan && (!stillListening cfg st plan || quiet restQ)
      s!"unreal2 {port} {U2.showGatherArg cfg.gather} {r} {showDeliveries (faultyScript cfg st plan ++ restQ)} f={showFaults (faultyFaults cfg plan ++ (lf ++ laterF))}"
        ++ " ## WANT " ++ showRes U2.showResponse (faultyExpected cfg st plan)
        ++ " ## SENT " ++ showSent (faultySends cfg plan)
        ++ " ## ATT " ++ toString p.attempts
        ++ " ## THM " ++ (if thm then "1" else "0")
    | _, _, _, _ => "bad-case"
  | _ => "bad-case"

def unreal2FaultEntries : List (String × (List String → String)) := [("unreal2plan", entryUnreal2Plan)]

end Gd.Run
