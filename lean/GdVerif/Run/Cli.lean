import GdVerif.Run.Common
import GdVerif.Proto.Cli
/-
  Driver entry for C19: `xml-of <tokens>` renders the XML document the CLI must print for a JSON value.
  Tokens: `N`, `T`, `F`, `#<hex of the number's text>`, `S<hex>`, `A<n>` + n values, `O<n>` + n × (`<hexkey>` value);
  object members must come in the order serde_json's `to_value` holds them (sorted keys).
-/
namespace Gd.Run
open Gd Gd.Cli

mutual
  partial def parseJ : List String → Option (J × List String)
    | [] => none
    | t :: rest =>
      if t == "N" then some (.null, rest)
      else if t == "T" then some (.bool true, rest)
      else if t == "F" then some (.bool false, rest)
      else if t.startsWith "#" then (parseHex (t.drop 1).toString).map fun s => (.num s, rest)
      else if t.startsWith "S" then (parseHex (t.drop 1).toString).map fun s => (.str s, rest)
      else if t.startsWith "A" then
        match (t.drop 1).toString.toNat? with
        | some n => (parseJList n rest).map fun (l, r) => (.arr l, r)
        | none => none
      else if t.startsWith "O" then
        match (t.drop 1).toString.toNat? with
        | some n => (parseJMembers n rest).map fun (m, r) => (.obj m, r)
        | none => none
      else none
  partial def parseJList : Nat → List String → Option (JList × List String)
    | 0, toks => some (.nil, toks)
    | n + 1, toks =>
      match parseJ toks with
      | some (v, r) => (parseJList n r).map fun (l, r2) => (.cons v l, r2)
      | none => none
  partial def parseJMembers : Nat → List String → Option (JMembers × List String)
    | 0, toks => some (.nil, toks)
    | n + 1, toks =>
      match toks with
      | k :: r =>
        match parseHex k, parseJ r with
        | some kb, some (v, r2) => (parseJMembers n r2).map fun (m, r3) => (.cons kb v m, r3)
        | _, _ => none
      | [] => none
end

/-- `xml-of <tokens…>` → hex of the document -/
def entryXmlOf (args : List String) : String :=
  match parseJ args with
  | some (j, []) => hexOf (renderDocument j)
  | _ => "bad-case"

def cliEntries : List (String × (List String → String)) := [("xml-of", entryXmlOf)]

end Gd.Run
