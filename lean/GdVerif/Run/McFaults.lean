import GdVerif.Run.GenMinecraft
import GdVerif.Run.Faults
import GdVerif.Spec.McFaults
/-
  Driver entries `mcbedrockplan`, `mcjavaplan`, `mclegacyplan`: the SPEC's plan script for one fault vector of the C10
  check (see `Run/ValveFaults.lean`).  The check (`props/mc_c10.py`) injects a send fault at the FIRST request of an
  attempt.  `THM 1` = the hypotheses of the corollary of `C10_mc…_query_faulty` that applies hold.
-/
namespace Gd.Run.McGen
open Gd Gd.Mc Gd.Mc.Spec Gd.Run Gd.Run.McDrv Gd.Faults

/-- read a vector as a plan of a unit of `n` requests for retry count `r`, and the letters left over -/
def planNOfVector (r n : Nat) (reply bad : Bytes) : List Char → List AttemptN → PlanN × List Char
  | [], fails => (⟨fails, none⟩, [])
  | c :: rest, fails =>
    if fails.length == r + 1 then (⟨fails, none⟩, c :: rest)
    else if c == 'S' then planNOfVector r n reply bad rest (fails ++ [⟨n, false⟩])
    else if c == 'F' then planNOfVector r n reply bad rest (fails ++ [⟨0, true⟩])
    else if c == 'M' then (⟨fails, some bad⟩, rest)
    else (⟨fails, some reply⟩, rest)

/-- deliveries / flags of the left-over letters: the arbitrary continuation of the theorems -/
def leftoverN (n : Nat) (reply bad : Bytes) (cs : List Char) : List Delivery × List Bool :=
  cs.foldl (fun (acc : List Delivery × List Bool) c =>
    let p : PlanN :=
      if c == 'S' then ⟨[⟨n, false⟩], none⟩ else if c == 'F' then ⟨[⟨0, true⟩], none⟩
      else if c == 'M' then ⟨[], some bad⟩ else ⟨[], some reply⟩
    (acc.1 ++ p.deliveries, acc.2 ++ p.faults n)) ([], [])

/-- the line of a plan: `head` = entry and arguments up to the retry count -/
def planLine {α : Type} (head : String) (r n : Nat) (tcp : Bool) (reqs : List Bytes) (reply bad : Bytes) (vec : String)
    (domain : Bool) (badIn : Bool) (want : Res α) (badErr : ErrKind) (shw : α → String) : String :=
  let (p, left) := planNOfVector r n reply bad vec.toList []
  let (lq, lf) := leftoverN n reply bad left
  let thm := p.wf r n (fun d => tcp || decide (d.length ≤ 1024)) && (match p.answer with
    | none => true
    | some d => if d == reply then domain else badIn)
  let res : Res α := match p.answer with
    | some d => if d == reply then want else .err badErr
    | none => .err (lastError AttemptN.error p.fails)
  s!"{head} {r} {showDeliveries (p.deliveries ++ lq)} f={showFaults (p.faults n ++ lf)}"
    ++ " ## WANT " ++ showRes shw res
    ++ " ## SENT " ++ showSent (p.sends reqs)
    ++ " ## ATT " ++ toString p.attempts
    ++ " ## THM " ++ (if thm then "1" else "0")

/-- `mcbedrockplan <seed> <k> <retries> <vector>` -/
def entryMcBedrockPlan (args : List String) : String :=
  match args with
  | [seed, k, r, vec] =>
    match seed.toNat?, k.toNat?, r.toNat? with
    | some seed, some k, some r =>
      let st := G.run gBedrockStatus (seed * 1000003 + k)
      let port := 19132 + k % 3
      planLine s!"mcbedrock {port}" r 1 false [bedrockRequest] (unconnectedPong clientTime st) malformedDatagram vec
        (wfBedrock st) (malformedBedrock malformedDatagram) (.ok (expectedBedrock st))
        (malformedBedrockError malformedDatagram) showBedrockResponse
    | _, _, _ => "bad-case"
  | _ => "bad-case"

/-- `mcjavaplan <seed> <k> <retries> <vector>` -/
def entryMcJavaPlan (args : List String) : String :=
  match args with
  | [seed, k, r, vec] =>
    match seed.toNat?, k.toNat?, r.toNat? with
    | some seed, some k, some r =>
      let ((st, text), settings, trailing) := G.run (do
        let c ← gJavaCase; let s ← gSettings; let t ← gTrailing; pure (c, s, t)) (seed * 1000003 + k)
      let port := 25565 + k % 3
      let (want, wf) := javaWant st text
      planLine s!"mcjava {port} {settings.protocolVersion} {hexArg settings.hostname}" r 3 true
        (javaRequests settings port) (statusResponse text trailing) malformedDatagram vec
        (wf && decide (settings.hostname.length < 2 ^ 31)) (malformedJava malformedDatagram) want .packetUnderflow
        showJavaResponse
    | _, _, _ => "bad-case"
  | _ => "bad-case"

/-- `mclegacyplan <seed> <k> <retries> <vector>` (the single-version cases of `gen mclegacy`) -/
def entryMcLegacyPlan (args : List String) : String :=
  match args with
  | [seed, k, r, vec] =>
    match seed.toNat?, k.toNat?, r.toNat? with
    | some seed, some k, some r =>
      let port := 25565 + k % 3
      let go (g : LegacyGroup) (tag : String) (reply : Bytes) (want : JavaResponse) (wf : Bool) : String :=
        planLine s!"mclegacy {port} {tag}" r 1 true [legacyRequest g] reply malformedDatagram vec wf
          (malformedLegacy malformedDatagram) (.ok want) (malformedLegacyError malformedDatagram) showJavaResponse
      match k % 6 with
      | 0 => let st := G.run gLegacy16 (seed * 1000003 + k); go .v1_6 "16" (kick16 st) (expected16 st) (wf16 st)
      | 1 => let st := G.run gLegacyOld (seed * 1000003 + k); go .v1_4 "14" (kickOld st) (expectedOld .v1_4 st) (wfOld st)
      | 2 => let st := G.run gLegacyOld (seed * 1000003 + k); go .vb1_8 "b18" (kickOld st) (expectedOld .vb1_8 st) (wfOld st)
      | 3 => let st := G.run gLegacy16 (seed * 1000003 + k); go .v1_4 "14" (kick16 st) (expected16 st) (wf16 st)
      | 4 => let st := G.run gLegacy16 (seed * 1000003 + k); go .v1_6 "16" (kick16 st) (expected16 st) (wf16 st)
      | _ => "bad-case"
    | _, _, _ => "bad-case"
  | _ => "bad-case"

def mcFaultEntries : List (String × (List String → String)) :=
  [("mcbedrockplan", entryMcBedrockPlan), ("mcjavaplan", entryMcJavaPlan), ("mclegacyplan", entryMcLegacyPlan)]

end Gd.Run.McGen
