import GdVerif.Run.GenQuake
import GdVerif.Run.Faults
import GdVerif.Spec.QuakeFaults
/-
  Driver entry `quakeplan`: the SPEC's plan script for one fault vector of the C10 check (see `Run/ValveFaults.lean`).
  `THM 1` = the hypotheses of `C10_quake_query_faulty` hold (through the corollary that applies: the state is in the
  SPEC's domain when the answer is the server's reply; the answer is `Spec.malformed` when it is not).
-/
namespace Gd.Run
open Gd Gd.Quake Gd.Quake.Spec Gd.Faults

/-- `quakeplan <seed> <k> <retries> <vector>` -/
def entryQuakePlan (args : List String) : String :=
  match args with
  | [seed, k, r, vec] =>
    match seed.toNat?, k.toNat?, r.toNat? with
    | some seed, some k, some r =>
      let (cfg, st) := G.run gQuakeCase (seed * 1000003 + k)
      let port := 27500 + k % 3
      let (p, left) := plan1OfVector r (reply cfg st) malformedDatagram vec.toList []
      let (lq, lf) := leftover1 (reply cfg st) malformedDatagram left
      let thm := p.wf r 65535 && (match p.answer with
        | none => true
        | some d => if d == reply cfg st then Spec.wf cfg st else malformed cfg.version d)
      s!"quake {port} {showVersionArg cfg.version} {r} {showDeliveries (p.deliveries ++ lq)} f={showFaults (p.faults ++ lf)}"
        ++ " ## WANT " ++ showRes showQuakeResponse
            (match p.answer with
             | some d => if d == reply cfg st then Spec.expected cfg st else .err (malformedError d)
             | none => .err (lastError attemptError p.fails))
        ++ " ## SENT " ++ showSent (p.sends (Spec.request cfg.version))
        ++ " ## ATT " ++ toString p.attempts
        ++ " ## THM " ++ (if thm then "1" else "0")
    | _, _, _ => "bad-case"
  | _ => "bad-case"

def quakeFaultEntries : List (String × (List String → String)) := [("quakeplan", entryQuakePlan)]

end Gd.Run
