import GdVerif.Run.Valve
import GdVerif.Proto.TheShip
namespace Gd.Run
open Gd Gd.TheShip

def showShipPlayer (p : TheShip.Player) : String :=
  "(" ++ String.intercalate ";" [showStr p.name, toString p.score, toString p.duration, toString p.deaths,
    toString p.money] ++ ")"

def showTheShip (r : TheShip.Response) : String :=
  "TS{" ++ String.intercalate ";" [toString r.protocolVersion, showStr r.name, showStr r.map, showStr r.gameMode,
    showStr r.gameVersion, showList showShipPlayer r.players, toString r.playersOnline, toString r.playersMaximum,
    toString r.playersBots, showServerType r.serverType, showBool r.hasPassword, showBool r.vacSecured,
    showOpt showNat r.port, showOpt showNat r.steamId, showOpt showNat r.tvPort, showOpt showStr r.tvName,
    showOpt showStr r.keywords, showMap r.rules, toString r.mode, toString r.witnesses, toString r.duration] ++ "}"

/-- `theship <port> <retries> <script> [opts]` -/
def entryTheShip (args : List String) : String :=
  match args with
  | port :: r :: rest =>
    match port.toNat?, r.toNat?, parseNetArgs rest with
    | some port, some r, some na => runQ (TheShip.query (extOf na) port r) na showTheShip
    | _, _, _ => "bad-case"
  | _ => "bad-case"

/-- `theship_dp <ignored> <retries> <script>`: no port given -/
def entryTheShipDp (args : List String) : String :=
  match args with
  | _ :: r :: rest =>
    match r.toNat?, parseNetArgs rest with
    | some r, some na => runQ (TheShip.query (extOf na) TheShip.DEFAULT_PORT r) na showTheShip
    | _, _ => "bad-case"
  | _ => "bad-case"

def theShipEntries : List (String × (List String → String)) :=
  [("theship", entryTheShip), ("theship_dp", entryTheShipDp)]

end Gd.Run
