import GdVerif.Run.Net
import GdVerif.Proto.Gs1
namespace Gd.Run
open Gd Gd.Gs Gd.Gs1

def gsShowKV (p : Bytes × Bytes) : String := showStr p.1 ++ "=" ++ showStr p.2

/-- maps are printed sorted by key bytes, like the harness does -/
def gsShowMap (m : List (Bytes × Bytes)) : String :=
  showList gsShowKV (sortBy (fun a b => bytesLt a.1 b.1) m)

def gsShowNat (n : Nat) : String := toString n

def showGs1Player (p : Gs1.Player) : String :=
  "(" ++ String.intercalate ";" [showStr p.name, showOpt gsShowNat p.team, gsShowNat p.ping, showOpt showStr p.face,
    showOpt showStr p.skin, showOpt showStr p.mesh, toString p.score, showOpt gsShowNat p.deaths,
    showOpt gsShowNat p.health, showOpt showBool p.secret] ++ ")"

def showGs1Response (r : Gs1.Response) : String :=
  "G1{" ++ String.intercalate ";" [showStr r.name, showStr r.map, showOpt showStr r.mapTitle,
    showOpt showStr r.adminContact, showOpt showStr r.adminName, showBool r.hasPassword, showStr r.gameMode,
    showStr r.gameVersion, gsShowNat r.playersMaximum, gsShowNat r.playersOnline, showOpt gsShowNat r.playersMinimum,
    showBool r.tournament] ++ "} P" ++ showList showGs1Player r.players ++ " U" ++ gsShowMap r.unusedEntries

def showGs1Vars (m : Map Bytes) : String := "V" ++ gsShowMap m

/-- `gs1 <port> <retries> <script> [opts]` -/
def entryGs1 (args : List String) : String :=
  match args with
  | port :: r :: rest =>
    match port.toNat?, r.toNat?, parseNetArgs rest with
    | some port, some r, some na => runQ (Gs1.query port r) na showGs1Response
    | _, _, _ => "bad-case"
  | _ => "bad-case"

/-- `gs1vars <port> <retries> <script> [opts]` -/
def entryGs1Vars (args : List String) : String :=
  match args with
  | port :: r :: rest =>
    match port.toNat?, r.toNat?, parseNetArgs rest with
    | some port, some r, some na => runQ (Gs1.queryVars port r) na showGs1Vars
    | _, _, _ => "bad-case"
  | _ => "bad-case"

def gs1Entries : List (String × (List String → String)) := [("gs1", entryGs1), ("gs1vars", entryGs1Vars)]

end Gd.Run
