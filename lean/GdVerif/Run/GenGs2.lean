import GdVerif.Run.GenGs1
import GdVerif.Run.Gs2
import GdVerif.Spec.Gs2
namespace Gd.Run
open Gd Gd.Gs Gd.Gs2 Gd.Gs2.Spec

/-- text without NUL -/
def gGs2Text (maxLen : Nat := 40) : G Bytes := do let t ← G.text [0] maxLen; pure (utf8Encode t)

def gGs2Player (nameLen : Nat) : G Gs2.Player := do
  pure ⟨← gGs2Text nameLen, ← G.nat 16, ← G.nat 16, ← G.nat 16⟩

def gGs2Team : G Gs2.Team := do pure ⟨← gGs2Text 12, ← G.nat 16⟩

def gs2ExtraKeys : List String :=
  ["gamename", "gamever", "hostport", "gametype", "gamemode", "timelimit", "fraglimit", "teamplay", "Hostname", "password2",
   "numteams", "player_", "team_t", "é", "maxplayers ", "bf2_dedicated", "sv_punkbuster", "final", "queryid"]

def gGs2Extras : G (List (Bytes × Bytes)) := do
  let n ← G.oneOf [0, 0, 1, 2, 3, 6, 12, 20]
  let kvs ← G.listOf n (do
    let c ← G.below 3
    let k ← if c == 0 then do let i ← G.ident; pure (utf8Encode i)
            else do let s ← G.oneOf gs2ExtraKeys; pure (utf8Encode (s.toList.map Char.toNat))
    let v ← gGs2Text 24
    pure (k, v))
  pure ((dedupKeys kvs).filter Spec.wfExtra)

def gGs2Cols (std : List Bytes) : G (List (Bytes × Bytes)) := do
  let n ← G.oneOf [0, 0, 0, 1, 2]
  let cols ← G.listOf n (do
    let h ← G.oneOf ["deaths_", "skill_", "pid_", "AIBot_", "kills_t", "x", "player_x"]
    let v ← gGs2Text 5
    pure (utf8Encode (h.toList.map Char.toNat), v))
  pure (cols.filter (Spec.wfCol std))

def gGs2Case : G (Spec.Style × Spec.State) := do
  let np ← G.oneOf [0, 0, 1, 2, 3, 5, 8, 16, 32, 64]
  let nameLen := if np ≥ 32 then 12 else 24
  let players ← G.listOf np (gGs2Player nameLen)
  let nt ← G.oneOf [0, 0, 1, 2, 2, 4, 8]
  let teams ← G.listOf nt gGs2Team
  let reported ← gGsOpt (do
    let c ← G.below 4
    if c == 0 then G.nat 32 else if c == 1 then pure np else if c == 2 then pure (np + 1) else pure (np - 1))
  let st : Spec.State :=
    { name := ← gGs2Text 64, map := ← gGs2Text, hasPassword := ← G.bool, teams, playersMaximum := ← G.nat 32,
      reportedPlayers := reported, playersMinimum := ← gGsOpt (G.nat 32), players, extras := ← gGs2Extras }
  let y : Spec.Style := ⟨← gGs2Cols [bs "player_", bs "score_", bs "ping_", bs "team_"], ← gGs2Cols [bs "team_t", bs "score_t"]⟩
  pure (y, st)

/-- `gen gs2 <seed> <n>` -/
def genGs2 (seed n : Nat) : List String :=
  (List.range n).map fun k =>
    let (y, st) := G.run gGs2Case (seed * 1000003 + k)
    let port := 2302 + k % 3
    let retries := k % 3
    let sc := Spec.script y st
    let line := s!"gb{seed}_{k} gs2 {port} {retries} {gsShowScript sc}"
    let wf := if Spec.wf y st then "" else " NOTWF"
    line ++ " ## WANT " ++ showRes showGs2Response (.ok (Spec.expected st)) ++ wf
      ++ " ## SENT " ++ String.intercalate "," (Spec.requests.map hexOf)
      ++ " ## SEG " ++ toString sc.length

end Gd.Run
