import GdVerif.Run.GenLib
import GdVerif.Run.Minecraft
import GdVerif.Spec.Minecraft
/-
  Generators for the Minecraft family (suites `mcjava`, `mcbedrock`, `mclegacy`, `mcauto`): mostly
  well-formed abstract states over boundary-heavy values, encoded by the SPEC; the JSON text of a Java
  status is written by a deliberately varied printer (member order, unknown members, `null` vs. absent,
  white space, every escape form) so that the correspondence check exercises the JSON parameter.
-/
namespace Gd.Run.McGen
open Gd Gd.Mc Gd.Mc.Spec Gd.Run Gd.Run.McDrv

instance [Inhabited α] : Inhabited (G α) := ⟨fun r => (default, r)⟩
instance : Inhabited Json := ⟨.null⟩

def gUtf8 (avoid : List Nat) (maxLen : Nat := 40) : G Bytes := do let t ← G.text avoid maxLen; pure (utf8Encode t)

def gOptOf (g : G α) : G (Option α) := do if (← G.chance 1 3) then pure none else do let x ← g; pure (some x)

/-- counts: mostly `u32` boundaries, sometimes just outside -/
def gCount : G Nat := do
  let c ← G.below 40
  if c == 0 then pure (2 ^ 32) else if c == 1 then pure (2 ^ 32 + 5) else if c < 20 then G.oneOf [0, 1, 20, 100, 2024] else G.nat 32

/-! ### JSON: varied printing -/

def hexOfNat4 (upper : Bool) (n : Nat) : Bytes :=
  let dig (d : Nat) : UInt8 := UInt8.ofNat (if d < 10 then 48 + d else (if upper then 55 else 87) + d)
  [dig (n / 4096 % 16), dig (n / 256 % 16), dig (n / 16 % 16), dig (n % 16)]

def uEscape (upper : Bool) (n : Nat) : Bytes := [0x5C, 0x75] ++ hexOfNat4 upper n

/-- one scalar of a JSON string, in one of the forms the grammar allows -/
def gJsonChar (c : Nat) : G Bytes := do
  let upper ← G.bool
  let asU : Bytes :=
    if c < 0x10000 then uEscape upper c
    else uEscape upper (0xD800 + (c - 0x10000) / 1024) ++ uEscape (!upper) (0xDC00 + (c - 0x10000) % 1024)
  let short : Option Bytes :=
    if c == 0x22 then some [0x5C, 0x22] else if c == 0x5C then some [0x5C, 0x5C] else if c == 0x2F then some [0x5C, 0x2F]
    else if c == 8 then some [0x5C, 0x62] else if c == 12 then some [0x5C, 0x66] else if c == 10 then some [0x5C, 0x6E]
    else if c == 13 then some [0x5C, 0x72] else if c == 9 then some [0x5C, 0x74] else none
  let mustEscape := c < 0x20 || c == 0x22 || c == 0x5C
  let k ← G.below 10
  match short with
  | some s => if mustEscape then (if k < 7 then pure s else pure asU) else (if k < 7 then pure (utf8EncodeChar c) else if k < 9 then pure s else pure asU)
  | none => if mustEscape then pure asU else (if k < 8 then pure (utf8EncodeChar c) else pure asU)

def gJsonString (s : Bytes) : G Bytes := do
  let parts ← (utf8Decode s).mapM gJsonChar
  pure ([0x22] ++ parts.flatten ++ [0x22])

def gWs : G Bytes := do
  let k ← G.below 12
  if k < 8 then pure [] else if k == 8 then pure [0x20] else if k == 9 then pure [0x0A] else if k == 10 then pure [0x09, 0x20] else pure [0x0D, 0x0A]

def joinG (sep : Bytes) : List Bytes → Bytes
  | [] => []
  | [x] => x
  | x :: r => x ++ sep ++ joinG sep r

/-- JSON text of a value: members in the order given, random white space and escapes -/
partial def gJsonText : Json → G Bytes
  | .null => pure (asciiBytes "null")
  | .bool true => pure (asciiBytes "true")
  | .bool false => pure (asciiBytes "false")
  | .num (.int i) => pure (intDec i)
  | .num (.float t) => pure t
  | .str s => gJsonString s
  | .arr xs => do
    let items ← xs.mapM fun x => do
      let a ← gWs; let t ← gJsonText x; let b ← gWs
      pure (a ++ t ++ b)
    let inner ← if items.isEmpty then gWs else pure (joinG [0x2C] items)
    pure ([0x5B] ++ inner ++ [0x5D])
  | .obj kvs => do
    let items ← kvs.mapM fun (k, v) => do
      let a ← gWs; let ks ← gJsonString k; let b ← gWs; let c ← gWs; let t ← gJsonText v; let d ← gWs
      pure (a ++ ks ++ b ++ [0x3A] ++ c ++ t ++ d)
    let inner ← if items.isEmpty then gWs else pure (joinG [0x2C] items)
    pure ([0x7B] ++ inner ++ [0x7D])

def gShuffle (l : List α) : G (List α) := do
  let keyed ← l.mapM fun x => do let k ← G.u64; pure (k.toNat, x)
  pure ((sortBy (fun a b => a.1 < b.1) keyed).map (·.2))

/-! ### Java status -/

def gColor : G Bytes := do let c ← G.oneOf ["red", "dark_aqua", "#ff00aa", "gold"]; pure (asciiBytes c)

/-- a chat component in the parser's normal form (member names sorted) -/
partial def gChat (depth : Nat) : G Json := do
  let k ← G.below 10
  if depth == 0 || k < 3 then
    pure (.str (← gUtf8 [] 40))
  else do
    let bold ← gOptOf G.bool
    let color ← gOptOf gColor
    let nExtra ← G.oneOf [0, 0, 1, 2, 3]
    let extra ← G.listOf nExtra (gChat (depth - 1))
    let text ← gUtf8 [] 24
    pure (.obj (optMember "bold" .bool bold ++ optMember "color" .str color
      ++ (if nExtra == 0 then [] else [(key "extra", .arr extra)]) ++ [(key "text", .str text)]))

/-- `n` nested arrays around a string: the parser's recursion limit is 128 containers -/
def nestArr : Nat → Json → Json
  | 0, j => j
  | n + 1, j => .arr [nestArr n j]

def gDescription : G Json := do
  let k ← G.below 40
  if k == 0 then pure .null
  else if k == 1 then pure (.arr [.str (asciiBytes "a"), .bool true, .null])
  else if k == 2 then do
    -- one container (the status object) is already open around the description
    let d ← G.oneOf [120, 125, 126, 127, 128]
    pure (nestArr d (.str (asciiBytes "deep")))
  else gChat 3

def gPlayer : G Player := do
  let name ← gUtf8 [] 16
  let id ← G.oneOf ["069a79f4-44e9-4726-a5be-fca90e38aaf5", "00000000-0000-0000-0000-000000000000", "", "x"]
  pure ⟨name, asciiBytes id⟩

def gJavaStatus : G JavaStatus := do
  let versionName ← gUtf8 [] 24
  let protocol ← (do
    let c ← G.below 40
    if c == 0 then pure (2 ^ 31 : Int) else if c == 1 then pure (-(2 ^ 31) - 1 : Int) else if c < 20 then G.oneOf [760, 47, -1, 0, 4] else G.int 32)
  let max ← gCount
  let online ← gCount
  let sample ← gOptOf (do let n ← G.oneOf [0, 1, 2, 5, 12]; G.listOf n gPlayer)
  let description ← gDescription
  let favicon ← gOptOf (do let t ← gUtf8 [0] 64; pure (asciiBytes "data:image/png;base64," ++ t))
  let previewsChat ← gOptOf G.bool
  let enforcesSecureChat ← gOptOf G.bool
  pure ⟨versionName, protocol, max, online, sample, description, favicon, previewsChat, enforcesSecureChat⟩

/-- numbers in every form of the grammar, for members the client does not look at -/
def gOddNumber : G Json := do
  let t ← G.oneOf ["-0", "1e5", "123.456E-7", "18446744073709551616", "-9223372036854775809", "0.0", "1E+308", "2.5e-400",
    "18446744073709551615", "-9223372036854775808", "0", "-1", "1.7976931348623157e308", "0e999999999999"]
  pure (.num (.float (asciiBytes t)))

def gExtraMembers : G (List (Bytes × Json)) := do
  let n ← G.oneOf [0, 0, 1, 2]
  G.listOf n (do
    let k ← G.oneOf ["modinfo", "forgeData", "ping", "preventsChatReports", "zzz", "a"]
    let v ← (do
      let c ← G.below 4
      if c == 0 then gOddNumber
      else if c == 1 then pure (.obj [(key "type", .str (asciiBytes "FML")), (key "modList", .arr [])])
      else if c == 2 then pure (.bool true) else pure .null)
    pure (key k, v))

def optM (k : String) (f : α → Json) (o : Option α) : G (List (Bytes × Json)) :=
  match o with
  | some a => pure [(key k, f a)]
  | none => do if (← G.bool) then pure [] else pure [(key k, .null)]

/-- the document a server sends for a status: members in any order, optional members absent or `null`,
unknown members, sample players with their members in either order -/
def gJavaDoc (st : JavaStatus) : G Json := do
  let pj (p : Player) : G Json := do
    let ms ← gShuffle ([(key "name", Json.str p.name), (key "id", Json.str p.id)])
    let extra ← if (← G.chance 1 6) then pure [(key "uuid", Json.null)] else pure []
    pure (.obj (ms ++ extra))
  let sampleM ← match st.sample with
    | some ps => do let js ← ps.mapM pj; pure [(key "sample", Json.arr js)]
    | none => do if (← G.bool) then pure [] else pure [(key "sample", Json.null)]
  let playersM ← gShuffle ([(key "max", Json.num (.int st.max)), (key "online", Json.num (.int st.online))] ++ sampleM)
  let versionM ← gShuffle [(key "name", Json.str st.versionName), (key "protocol", Json.num (.int st.protocol))]
  let descM : List (Bytes × Json) :=
    match st.description with
    | .null => []
    | d => [(key "description", d)]
  let fav ← optM "favicon" Json.str st.favicon
  let pc ← optM "previewsChat" Json.bool st.previewsChat
  let esc ← optM "enforcesSecureChat" Json.bool st.enforcesSecureChat
  let extra ← gExtraMembers
  let ms ← gShuffle (descM ++ fav ++ pc ++ esc ++ extra ++ [(key "players", Json.obj playersM), (key "version", Json.obj versionM)])
  pure (.obj ms)

def gSettings : G RequestSettings := do
  -- host names: the default, a usual one, arbitrary text, and plain names whose length (or the length of the
  -- handshake frame they end up in: 10 bytes more with the default version) sits on a VarInt group boundary
  let host ← (do
    let c ← G.below 8
    if c < 3 then pure (asciiBytes "gamedig") else if c == 3 then pure (asciiBytes "mc.hypixel.net")
    else if c < 6 then gUtf8 [] 255
    else do
      let l ← G.oneOf [0, 1, 116, 117, 118, 119, 126, 127, 128, 129, 255, 256, 300]
      pure (List.replicate l (97 : UInt8)))
  let pv ← (do
    let c ← G.below 6
    if c < 2 then pure (-1 : Int) else if c == 2 then G.oneOf [760, 47, 0]
    else if c == 3 then G.oneOf [127, 128, 129, 16383, 16384, 16385, 2097151, 2097152, 2097153, 268435455, 268435456, 2147483647, -2147483648, -128, -129]
    else G.int 32)
  pure ⟨host, pv⟩

def gTrailing : G Bytes := do
  let c ← G.below 4
  if c < 2 then pure [] else if c == 2 then pure ([0x09, 0x01] ++ clientTime) else G.listOf 3 (do let b ← G.below 256; pure (UInt8.ofNat b))

def gJavaCase : G (JavaStatus × Bytes) := do
  let st ← gJavaStatus
  let doc ← gJavaDoc st
  let text ← gJsonText doc
  pure (st, text)

/-- the description as the parser presents it (a too deeply nested document does not parse at all) -/
def javaWant (st : JavaStatus) (text : Bytes) : Res JavaResponse × Bool :=
  match McJson.parseJson text with
  | none => (.err .jsonParse, false)
  | some _ => (.ok (expectedJava McJson.ext st), wfJava st text)

/-! ### Bedrock -/

def gBedrockStatus : G BedrockStatus := do
  let bad ← G.chance 1 25
  let avoid := if bad then [0] else [0x3B, 0]
  let edition ← G.oneOf ["MCPE", "MCPE", "MCEE", ""]
  let name ← (do if (← G.chance 1 30) then gUtf8 avoid 1000 else gUtf8 avoid 40)
  let protocol ← G.oneOf ["527", "390", "", "1"]
  let version ← G.oneOf ["1.19.1", "1.20.0", "v1"]
  let online ← gCount
  let max ← gCount
  let nf ← G.oneOf [6, 6, 7, 8, 9, 9, 10, 12, 13]
  let serverId ← if nf ≥ 7 then do let s ← G.oneOf ["13253860892328930865", "", "0", "-42"]; pure (some (asciiBytes s)) else pure none
  let levelName ← if nf ≥ 8 then do let s ← gUtf8 avoid 24; pure (some s) else pure none
  let gameMode ← if nf ≥ 9 then do let g ← G.oneOf [GameMode.survival, .creative, .hardcore, .spectator, .adventure]; pure (some g) else pure none
  let more ← G.listOf (nf - 9) (do let s ← G.oneOf ["1", "19132", "19133", "", "0"]; pure (asciiBytes s))
  let guid ← G.listOf 8 (do let b ← G.below 256; pure (UInt8.ofNat b))
  pure ⟨asciiBytes edition, name, asciiBytes protocol, asciiBytes version, online, max, serverId, levelName, gameMode, more, guid⟩

/-! ### legacy -/

def gScalars (avoid : List Nat) (maxLen : Nat := 40) : G (List Nat) := G.text avoid maxLen

def gLegacy16 : G Legacy16Status := do
  let protocol ← (do
    let c ← G.below 30
    if c == 0 then pure (2 ^ 31 : Int) else if c < 15 then G.oneOf [127, 78, 74, -1, 0] else G.int 32)
  let bad ← G.chance 1 30
  let version ← gScalars (if bad then [] else [0]) 16
  let motd ← gScalars [0] 64
  pure ⟨protocol, version, motd, ← gCount, ← gCount⟩

def gLegacyOld : G LegacyOldStatus := do
  let bad ← G.chance 1 25
  let motd ← gScalars (if bad then [0] else [0, 0xA7]) 64
  pure ⟨motd, ← gCount, ← gCount⟩

/-! ### case lines -/

def showConn : ConnScript → String
  | .refused => "X"
  | .opened [] => "."
  | .opened ds => String.intercalate "," (ds.map fun
      | .data d => if d.isEmpty then "-" else hexOf d
      | .silence => "~")

def showScriptMc (cs : List ConnScript) : String :=
  if cs.isEmpty then "_" else String.intercalate "/" (cs.map showConn)

def hexArg (b : Bytes) : String := if b.isEmpty then "-" else hexOf b

def wantTag (r : Res α) (f : α → String) (wf : Bool) : String :=
  " ## WANT " ++ showRes f r ++ (if wf then "" else " NOTWF")

def sentTag (l : List Bytes) : String := " ## SENT " ++ String.intercalate "," (l.map hexOf)

def genMcJava (seed n : Nat) : List String :=
  (List.range n).map fun k =>
    let ((st, text), settings, trailing) := G.run (do
      let c ← gJavaCase; let s ← gSettings; let t ← gTrailing; pure (c, s, t)) (seed * 1000003 + k)
    let port := 25565 + k % 3
    let retries := k % 3
    let (want, wf) := javaWant st text
    s!"mj{seed}_{k} mcjava {port} {settings.protocolVersion} {hexArg settings.hostname} {retries} "
      ++ showScriptMc [.opened [.data (statusResponse text trailing)]]
      ++ wantTag want showJavaResponse wf ++ sentTag (javaRequests settings port)

def genMcBedrock (seed n : Nat) : List String :=
  (List.range n).map fun k =>
    let st := G.run gBedrockStatus (seed * 1000003 + k)
    let port := 19132 + k % 3
    let retries := k % 3
    s!"mb{seed}_{k} mcbedrock {port} {retries} " ++ showScriptMc [.opened [.data (unconnectedPong clientTime st)]]
      ++ wantTag (.ok (expectedBedrock st)) showBedrockResponse (wfBedrock st) ++ sentTag bedrockRequests

def gMute : G Mute := do
  let c ← G.below 5
  if c < 2 then pure .refused else pure (.silent (c - 2))

def pickBit (mask bit : Nat) (g : G α) : G (Option α) :=
  if mask / bit % 2 == 1 then do let x ← g; pure (some x) else pure none

def gWorld (mask : Nat) : G World := do
  let pick {α : Type} (bit : Nat) (g : G α) : G (Option α) := pickBit mask bit g
  pure { java := ← pick 1 gJavaCase, bedrock := ← pick 2 gBedrockStatus, v16 := ← pick 4 gLegacy16,
         v14 := ← pick 8 gLegacyOld, vb18 := ← pick 16 gLegacyOld,
         muteJava := ← gMute, muteBedrock := ← gMute, mute16 := ← gMute, mute14 := ← gMute, muteB18 := ← gMute }

/-- a world whose Java text the JSON instance cannot parse is outside the SPEC's domain -/
def worldWant (w : World) : Res JavaResponse × Bool :=
  match w.java with
  | some (st, text) => javaWant st text
  | none => (w.expected McJson.ext, w.wf)

def genMcLegacy (seed n : Nat) : List String :=
  (List.range n).map fun k =>
    let port := 25565 + k % 3
    let retries := k % 3
    let id := s!"ml{seed}_{k}"
    match k % 6 with
    | 0 =>
      let st := G.run gLegacy16 (seed * 1000003 + k)
      s!"{id} mclegacy {port} 16 {retries} " ++ showScriptMc [.opened [.data (kick16 st)]]
        ++ wantTag (.ok (expected16 st)) showJavaResponse (wf16 st) ++ sentTag legacy16Requests
    | 1 =>
      let st := G.run gLegacyOld (seed * 1000003 + k)
      s!"{id} mclegacy {port} 14 {retries} " ++ showScriptMc [.opened [.data (kickOld st)]]
        ++ wantTag (.ok (expectedOld .v1_4 st)) showJavaResponse (wfOld st) ++ sentTag legacy14Requests
    | 2 =>
      let st := G.run gLegacyOld (seed * 1000003 + k)
      s!"{id} mclegacy {port} b18 {retries} " ++ showScriptMc [.opened [.data (kickOld st)]]
        ++ wantTag (.ok (expectedOld .vb1_8 st)) showJavaResponse (wfOld st) ++ sentTag legacyB18Requests
    | 3 =>
      -- a 1.6 server answers the 1.4 ping in the 1.6 format
      let st := G.run gLegacy16 (seed * 1000003 + k)
      s!"{id} mclegacy {port} 14 {retries} " ++ showScriptMc [.opened [.data (kick16 st)]]
        ++ wantTag (.ok (expected16 st)) showJavaResponse (wf16 st) ++ sentTag legacy14Requests
    | 4 =>
      let st := G.run gLegacy16 (seed * 1000003 + k)
      s!"{id} mclegacy {port} 16 {retries} " ++ showScriptMc [.opened [.data (kick16 st)]]
        ++ wantTag (.ok (expected16 st)) showJavaResponse (wf16 st) ++ sentTag legacy16Requests
    | _ =>
      -- `query_legacy`: the three legacy variants in order
      let w0 := G.run (gWorld ((k / 6 % 8) * 4)) (seed * 1000003 + k)
      let w := { w0 with java := none, bedrock := none, muteJava := .refused, muteBedrock := .refused }
      s!"{id} mclegacy {port} any {retries} " ++ showScriptMc (w.script.drop 2)
        ++ wantTag (w.expected McJson.ext) showJavaResponse w.wf
        ++ sentTag (w.requests RequestSettings.default port retries)

def genMcAuto (seed n : Nat) : List String :=
  (List.range n).map fun k =>
    let (w, settings) := G.run (do let w ← gWorld (k % 32); let s ← gSettings; pure (w, s)) (seed * 1000003 + k)
    let port := 25565 + k % 3
    let retries := k / 32 % 3
    let (want, wf) := worldWant w
    s!"ma{seed}_{k} mcauto {port} {settings.protocolVersion} {hexArg settings.hostname} {retries} " ++ showScriptMc w.script
      ++ wantTag want showJavaResponse wf ++ sentTag (w.requests settings port retries)
      ++ " ## OPENED " ++ String.intercalate "," (w.opened.map fun t => if t then "t" else "u")

def genMinecraft (suite : String) (seed n : Nat) : List String :=
  match suite with
  | "mcjava" => genMcJava seed n
  | "mcbedrock" => genMcBedrock seed n
  | "mclegacy" => genMcLegacy seed n
  | "mcauto" => genMcAuto seed n
  | _ => []

end Gd.Run.McGen
