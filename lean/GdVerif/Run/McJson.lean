import GdVerif.Run.Common
import GdVerif.Proto.Minecraft
/-
  DRIVER-side instance of the `serde_json` parameter of the Minecraft model: a JSON parser and compact
  printer that follow serde_json 1.0 (default features) — `from_str::<Value>` and `Value::to_string()`:

  * strict RFC 8259 grammar, whitespace = space / LF / CR / TAB, trailing characters rejected;
  * recursion limit 128 (entering the 128th nested container is an error);
  * objects keep the order of first insertion (`preserve_order`, see `objInsert`), a repeated key keeps the last value;
  * numbers: an integer literal that fits becomes `PosInt(u64)` / `NegInt(i64)`; `-0`, integers out of range
    and anything with a fraction or exponent become `f64` (never interpreted here; only whether the
    conversion overflows to infinity — an error — is mirrored, exactly, from `f64_from_parts`);
  * strings: the escapes `\" \\ \/ \b \f \n \r \t \uXXXX` (surrogate pairs combined, lone surrogates rejected), raw
    control characters rejected; output escapes `"` `\` and U+0000..U+001F (`\b \f \n \r \t`, else `\u00xx`).

  Nothing here is used by a theorem: the theorems take `Ext` as a parameter.  This file is what the
  correspondence check compares with the real crate.
-/
namespace Gd.Run.McJson
open Gd Gd.Mc

def isWs (b : UInt8) : Bool := b == 0x20 || b == 0x0A || b == 0x09 || b == 0x0D

def skipWs : Bytes → Bytes
  | [] => []
  | b :: r => if isWs b then skipWs r else b :: r

def hexDigitVal (b : UInt8) : Option Nat :=
  if 48 ≤ b.toNat ∧ b.toNat ≤ 57 then some (b.toNat - 48)
  else if 97 ≤ b.toNat ∧ b.toNat ≤ 102 then some (b.toNat - 87)
  else if 65 ≤ b.toNat ∧ b.toNat ≤ 70 then some (b.toNat - 55)
  else none

def hex4 : Bytes → Option (Nat × Bytes)
  | a :: b :: c :: d :: r =>
    match hexDigitVal a, hexDigitVal b, hexDigitVal c, hexDigitVal d with
    | some a, some b, some c, some d => some (((a * 16 + b) * 16 + c) * 16 + d, r)
    | _, _, _, _ => none
  | _ => none

/-- after `\`: one escape; returns the decoded bytes (UTF-8) -/
def parseEscape : Bytes → Option (Bytes × Bytes)
  | 0x22 :: r => some ([0x22], r)
  | 0x5C :: r => some ([0x5C], r)
  | 0x2F :: r => some ([0x2F], r)
  | 0x62 :: r => some ([0x08], r)
  | 0x66 :: r => some ([0x0C], r)
  | 0x6E :: r => some ([0x0A], r)
  | 0x72 :: r => some ([0x0D], r)
  | 0x74 :: r => some ([0x09], r)
  | 0x75 :: r =>
    match hex4 r with
    | none => none
    | some (n, r) =>
      if 0xDC00 ≤ n ∧ n ≤ 0xDFFF then none
      else if n < 0xD800 ∨ n > 0xDBFF then some (utf8EncodeChar n, r)
      else match r with
        | 0x5C :: 0x75 :: r =>
          match hex4 r with
          | none => none
          | some (n2, r) =>
            if n2 < 0xDC00 ∨ n2 > 0xDFFF then none
            else some (utf8EncodeChar (0x10000 + (n - 0xD800) * 1024 + (n2 - 0xDC00)), r)
        | _ => none
  | _ => none

/-- after the opening quote -/
partial def parseStrBody (acc : Bytes) : Bytes → Option (Bytes × Bytes)
  | [] => none
  | 0x22 :: r => some (acc.reverse, r)
  | 0x5C :: r =>
    match parseEscape r with
    | none => none
    | some (bs, r) => parseStrBody (bs.reverse ++ acc) r
  | b :: r => if b.toNat < 0x20 then none else parseStrBody (b :: acc) r

/-! numbers -/

def u64Max : Nat := 2 ^ 64 - 1

/-- round a positive integer to 53 significant bits, ties to even: the value of `n as f64` / of the
literal `1eN` -/
def round53 (n : Nat) : Nat :=
  let bits := if n == 0 then 0 else n.log2 + 1
  if bits ≤ 53 then n
  else
    let sh := bits - 53
    let q := n >>> sh
    let r := n % 2 ^ sh
    let half := 2 ^ (sh - 1)
    let q := if r > half || (r == half && q % 2 == 1) then q + 1 else q
    q <<< sh

/-- `f64_from_parts` succeeds (the product is finite) -/
def f64Ok (sig : Nat) (exp : Int) : Bool :=
  if sig == 0 then true
  else if exp > 308 then false
  else if exp ≥ 0 then round53 sig * round53 (10 ^ exp.toNat) < 2 ^ 1024 - 2 ^ 970
  else true

def spanDigits : Bytes → Bytes × Bytes
  | [] => ([], [])
  | b :: r => if isDigit b then let (d, t) := spanDigits r; (b :: d, t) else ([], b :: r)

/-- accumulate digits into a `u64` significand; once the next digit would overflow, the remaining digits of
this part are dropped: before the decimal point each adds 1 to the exponent, after it they are ignored
(the decimal part starts afresh: `parse_decimal` tests the overflow again) -/
def accDigits (intPart : Bool) : Bytes → Nat → Int → Bool → Nat × Int × Bool
  | [], sig, e, ov => (sig, e, ov)
  | d :: r, sig, e, ov =>
    let dv := d.toNat - 48
    if ov || sig * 10 + dv > u64Max then accDigits intPart r sig (if intPart then e + 1 else e) true
    else accDigits intPart r (sig * 10 + dv) (if intPart then e else e - 1) false

def i32Max : Nat := 2 ^ 31 - 1

/-- exponent digits with `i32` overflow detection -/
def accExp : Bytes → Nat → Option Nat
  | [], e => some e
  | d :: r, e => let dv := d.toNat - 48; if e * 10 + dv > i32Max then none else accExp r (e * 10 + dv)

def clampI32 (i : Int) : Int := if i > 2147483647 then 2147483647 else if i < -2147483648 then -2147483648 else i

/-- at `e`/`E` -/
def parseExponent (sig : Nat) (startExp : Int) (bs : Bytes) : Option Bytes :=
  let (posExp, bs) := match bs with
    | 0x2B :: r => (true, r)
    | 0x2D :: r => (false, r)
    | bs => (true, bs)
  let (ds, rest) := spanDigits bs
  if ds.isEmpty then none
  else match accExp ds 0 with
    | none => if sig != 0 && posExp then none else some rest
    | some e =>
      let fin := clampI32 (if posExp then startExp + e else startExp - e)
      if f64Ok sig fin then some rest else none

/-- a number; the input starts with `-` or a digit.  Returns the value and the rest. -/
def parseNumber (bs : Bytes) : Option (JNum × Bytes) :=
  let (positive, body) := match bs with
    | 0x2D :: r => (false, r)
    | bs => (true, bs)
  let (ds, rest) := spanDigits body
  match ds with
  | [] => none
  | d0 :: more =>
    if d0 == 48 && !more.isEmpty then none
    else
      let (sig, e, long) := accDigits true ds 0 0 false
      let floatTail (rest' : Bytes) : Option (JNum × Bytes) :=
        some (.float (bs.take (bs.length - rest'.length)), rest')
      match rest with
      | 0x2E :: r =>
        let (fs, r) := spanDigits r
        if fs.isEmpty then none
        else
          let (sig, e, _) := accDigits false fs sig e false
          match r with
          | 0x65 :: r' | 0x45 :: r' => (parseExponent sig e r').bind floatTail
          | _ => if f64Ok sig e then floatTail r else none
      | 0x65 :: r | 0x45 :: r => (parseExponent sig e r).bind floatTail
      | _ =>
        if long then (if f64Ok sig e then floatTail rest else none)
        else if positive then some (.int sig, rest)
        else if sig == 0 || sig > 2 ^ 63 then floatTail rest
        else some (.int (-(sig : Int)), rest)

def expectIdent (ident : String) (bs : Bytes) : Option Bytes :=
  let i := asciiBytes ident
  if i.isPrefixOf bs then some (bs.drop i.length) else none

/-- `Map::insert`.  In the harness build serde_json's `Map` is an `IndexMap` (the `bson` crate, linked for the BSON codec entries,
turns on serde_json's `preserve_order` feature for the whole build — as it does for the CLI binary): members keep the position of
their FIRST insertion, a repeated key replaces the value in place.  (Without that feature the map is a `BTreeMap`, sorted by key
bytes; the two agree whenever the members arrive in sorted order, as the SPEC's documents do.) -/
def objInsert (k : Bytes) (v : Json) : List (Bytes × Json) → List (Bytes × Json)
  | [] => [(k, v)]
  | (k', v') :: r =>
    if k == k' then (k, v) :: r
    else (k', v') :: objInsert k v r

mutual
  partial def parseValue (depth : Nat) (bs : Bytes) : Option (Json × Bytes) :=
    match skipWs bs with
    | [] => none
    | 0x6E :: r => (expectIdent "ull" r).map (fun r => (.null, r))
    | 0x74 :: r => (expectIdent "rue" r).map (fun r => (.bool true, r))
    | 0x66 :: r => (expectIdent "alse" r).map (fun r => (.bool false, r))
    | 0x22 :: r => (parseStrBody [] r).map (fun (s, r) => (.str s, r))
    | 0x5B :: r => if depth ≤ 1 then none else parseElems (depth - 1) true [] r
    | 0x7B :: r => if depth ≤ 1 then none else parseMembers (depth - 1) true [] r
    | b :: r =>
      if b == 0x2D || isDigit b then (parseNumber (b :: r)).map (fun (n, r) => (.num n, r))
      else none

  partial def parseElems (depth : Nat) (first : Bool) (acc : List Json) (bs : Bytes) : Option (Json × Bytes) :=
    match skipWs bs with
    | [] => none
    | 0x5D :: r => some (.arr acc.reverse, r)
    | b :: r =>
      if first then
        match parseValue depth (b :: r) with
        | none => none
        | some (v, r) => parseElems depth false (v :: acc) r
      else if b == 0x2C then
        match skipWs r with
        | [] => none
        | 0x5D :: _ => none
        | r =>
          match parseValue depth r with
          | none => none
          | some (v, r) => parseElems depth false (v :: acc) r
      else none

  partial def parseMembers (depth : Nat) (first : Bool) (acc : List (Bytes × Json)) (bs : Bytes) : Option (Json × Bytes) :=
    let member (bs : Bytes) : Option (Json × Bytes) :=
      match bs with
      | 0x22 :: r =>
        match parseStrBody [] r with
        | none => none
        | some (k, r) =>
          match skipWs r with
          | 0x3A :: r =>
            match parseValue depth r with
            | none => none
            | some (v, r) => parseMembers depth false (objInsert k v acc) r
          | _ => none
      | _ => none
    match skipWs bs with
    | [] => none
    | 0x7D :: r => some (.obj acc, r)
    | b :: r =>
      if first then member (b :: r)
      else if b == 0x2C then member (skipWs r)
      else none
end

/-- `serde_json::from_str::<Value>` -/
def parseJson (bs : Bytes) : Option Json :=
  match parseValue 128 bs with
  | none => none
  | some (j, r) => if (skipWs r).isEmpty then some j else none

/-! compact printing -/

def hexLower (n : Nat) : UInt8 := UInt8.ofNat (if n < 10 then 48 + n else 87 + n)

def escapeByte (b : UInt8) : Bytes :=
  if b == 0x22 then [0x5C, 0x22]
  else if b == 0x5C then [0x5C, 0x5C]
  else if b == 0x08 then [0x5C, 0x62]
  else if b == 0x0C then [0x5C, 0x66]
  else if b == 0x0A then [0x5C, 0x6E]
  else if b == 0x0D then [0x5C, 0x72]
  else if b == 0x09 then [0x5C, 0x74]
  else if b.toNat < 0x20 then [0x5C, 0x75, 0x30, 0x30, hexLower (b.toNat / 16), hexLower (b.toNat % 16)]
  else [b]

def quote (s : Bytes) : Bytes := [0x22] ++ s.flatMap escapeByte ++ [0x22]

def joinWith (sep : Bytes) : List Bytes → Bytes
  | [] => []
  | [x] => x
  | x :: r => x ++ sep ++ joinWith sep r

/-- sorted, last-wins form of a member list -/
def normMembers (kvs : List (Bytes × Json)) : List (Bytes × Json) :=
  kvs.foldl (fun acc p => objInsert p.1 p.2 acc) []

/-- `Value::to_string()` -/
partial def renderCompact : Json → Bytes
  | .null => asciiBytes "null"
  | .bool true => asciiBytes "true"
  | .bool false => asciiBytes "false"
  | .num (.int i) => intDec i
  | .num (.float t) => t
  | .str s => quote s
  | .arr xs => [0x5B] ++ joinWith [0x2C] (xs.map renderCompact) ++ [0x5D]
  | .obj kvs =>
    [0x7B] ++ joinWith [0x2C] ((normMembers kvs).map fun (k, v) => quote k ++ [0x3A] ++ renderCompact v) ++ [0x7D]

/-- the driver's instance of the external crate -/
def ext : Ext := ⟨parseJson, renderCompact⟩

end Gd.Run.McJson
