import GdVerif.Run.Net
import GdVerif.Run.Valve
import GdVerif.Proto.Gs3
namespace Gd.Run
open Gd Gd.Gs3

def showGs3Player (p : Gs3.Player) : String :=
  "(" ++ String.intercalate ";" [showStr p.name, toString p.score, toString p.ping, toString p.team,
    toString p.deaths, toString p.skill] ++ ")"

def showGs3Team (t : Gs3.Team) : String := "(" ++ showStr t.name ++ ";" ++ toString t.score ++ ")"

def showGs3Response (r : Gs3.Response) : String :=
  "G3{" ++ String.intercalate ";" [showStr r.name, showStr r.map, showBool r.hasPassword, showStr r.gameMode,
    showStr r.gameVersion, toString r.playersMaximum, toString r.playersOnline,
    showOpt (fun (n : Nat) => toString n) r.playersMinimum, showBool r.tournament] ++ "}"
  ++ " P" ++ showList showGs3Player r.players ++ " T" ++ showList showGs3Team r.teams
  ++ " U" ++ showMap r.unusedEntries

/-- `gs3 <port> <retries> <script> [opts]` -/
def entryGs3 (args : List String) : String :=
  match args with
  | port :: r :: rest =>
    match port.toNat?, r.toNat?, parseNetArgs rest with
    | some port, some r, some na => runQ (Gs3.query port r) na showGs3Response
    | _, _, _ => "bad-case"
  | _ => "bad-case"

/-- `gs3vars <port> <retries> <script> [opts]` -/
def entryGs3Vars (args : List String) : String :=
  match args with
  | port :: r :: rest =>
    match port.toNat?, r.toNat?, parseNetArgs rest with
    | some port, some r, some na => runQ (Gs3.queryVars port r) na showMap
    | _, _, _ => "bad-case"
  | _ => "bad-case"

def gs3Entries : List (String × (List String → String)) := [("gs3", entryGs3), ("gs3vars", entryGs3Vars)]

end Gd.Run
