import GdVerif.Run.Games
import GdVerif.Proto.Battalion
namespace Gd.Run
open Gd Gd.Battalion

/-- `battalion <port> <retries (the entry point has no timeout settings: unused)> <script> [opts]` -/
def entryBattalion (args : List String) : String :=
  match args with
  | port :: r :: rest =>
    match port.toNat?, r.toNat?, parseNetArgs rest with
    | some port, some _, some na => runQ (Battalion.query (extOf na) port) na showGameResponse
    | _, _, _ => "bad-case"
  | _ => "bad-case"

/-- `battalion_dp <ignored> <retries> <script>`: no port given -/
def entryBattalionDp (args : List String) : String :=
  match args with
  | _ :: r :: rest =>
    match r.toNat?, parseNetArgs rest with
    | some _, some na => runQ (Battalion.query (extOf na) Battalion.DEFAULT_PORT) na showGameResponse
    | _, _ => "bad-case"
  | _ => "bad-case"

def battalionEntries : List (String × (List String → String)) :=
  [("battalion", entryBattalion), ("battalion_dp", entryBattalionDp)]

end Gd.Run
