import GdVerif.Run.Valve
import GdVerif.Proto.Battalion
namespace Gd.Run
open Gd Gd.Battalion

def showGamePlayer (p : Battalion.Player) : String :=
  "(" ++ String.intercalate ";" [showStr p.name, toString p.score, toString p.duration] ++ ")"

def showGameResponse (r : Battalion.GameResponse) : String :=
  "G{" ++ String.intercalate ";" [toString r.protocol, showStr r.name, showStr r.map, showStr r.game, toString r.appid,
    toString r.playersOnline, showList showGamePlayer r.playersDetails, toString r.playersMaximum,
    toString r.playersBots, showServerType r.serverType, showBool r.hasPassword, showBool r.vacSecured,
    showStr r.version, showOpt showNat r.port, showOpt showNat r.steamId, showOpt showNat r.tvPort,
    showOpt showStr r.tvName, showOpt showStr r.keywords, showMap r.rules] ++ "}"

/-- `battalion <port> <retries (the entry point has no timeout settings: unused)> <script> [opts]` -/
def entryBattalion (args : List String) : String :=
  match args with
  | port :: r :: rest =>
    match port.toNat?, r.toNat?, parseNetArgs rest with
    | some port, some _, some na => runQ (Battalion.query (extOf na) port) na showGameResponse
    | _, _, _ => "bad-case"
  | _ => "bad-case"

/-- `battalion_dp <ignored> <retries> <script>`: no port given -/
def entryBattalionDp (args : List String) : String :=
  match args with
  | _ :: r :: rest =>
    match r.toNat?, parseNetArgs rest with
    | some _, some na => runQ (Battalion.query (extOf na) Battalion.DEFAULT_PORT) na showGameResponse
    | _, _ => "bad-case"
  | _ => "bad-case"

def battalionEntries : List (String × (List String → String)) :=
  [("battalion", entryBattalion), ("battalion_dp", entryBattalionDp)]

end Gd.Run
