import GdVerif.Run.Common
import GdVerif.Proto.IdCheck
namespace Gd.Run
open Gd Gd.IdCheck

def ruleIndex : Rule → Nat
  | .lowerCase => 0 | .numbersOwnWord => 1 | .firstWordNumber => 2 | .lastWordNumber => 3 | .roman => 4
  | .twoWords => 5 | .acronym => 6 | .dupYear => 7 | .dupProtocol => 8 | .dupNoAcronym => 9 | .modOnly => 10
  | .noDuplicates => 11

def showFail (f : Fail) : String :=
  showStr f.gameId ++ ">" ++ showStr f.expectedId ++ "/" ++ String.intercalate "." (f.rules.map fun r => toString (ruleIndex r))

/-- `n2w=<n>:<hex>;<n>:<hex>` -/
def parseN2w (s : String) : List (Nat × Bytes) :=
  (s.splitOn ";").filterMap fun e => match e.splitOn ":" with
    | [n, h] => match n.toNat?, parseHex h with
      | some n, some b => some (n, b)
      | _, _ => none
    | _ => none

/-- `idcheck <n2w=…|-> <idhex:namehex>,…` -/
def entryIdCheck (args : List String) : String :=
  match args with
  | [tbl, pairs] =>
    let table := if tbl.startsWith "n2w=" then parseN2w (tbl.drop 4).toString else []
    let ext : Ext := ⟨fun n => (table.lookup n).getD (asciiBytes "?")⟩
    match (pairs.splitOn ",").mapM (fun p => match p.splitOn ":" with
        | [a, b] => match parseHex a, parseHex b with
          | some a, some b => some (a, b)
          | _, _ => none
        | _ => none) with
    | some games => showRes (showList showFail) (checkAll ext games)
    | none => "bad-case"
  | _ => "bad-case"

def idCheckEntries : List (String × (List String → String)) := [("idcheck", entryIdCheck)]

end Gd.Run
