import GdVerif.Run.GenFfow
import GdVerif.Run.Faults
import GdVerif.Spec.Faults
/-
  Driver entry `ffowplan`: the SPEC's plan script for one fault vector of the C10 check (see `Run/ValveFaults.lean`).
  `THM 1` = the hypotheses of the theorem of `Props/C10_ffow_whole.lean` that applies hold.
-/
namespace Gd.Run
open Gd Gd.Ffow Gd.Ffow.Spec Gd.Faults

/-- `ffowplan <seed> <k> <retries> <vector>` -/
def entryFfowPlan (args : List String) : String :=
  match args with
  | [seed, k, r, vec] =>
    match seed.toNat?, k.toNat?, r.toNat? with
    | some seed, some k, some r =>
      let (st, upper) := G.run (do let s ← gFfowState; let u ← G.bool; pure (s, u)) (seed * 1000003 + k)
      let dp := k % 5 == 4
      let port := if dp then Spec.defaultPort else 5478 + k % 3
      let entry := if dp then "ffow_dp" else "ffow"
      let reply := replyPacket upper st
      let (p, left) := plan1OfVector r reply malformedDatagram vec.toList []
      let (lq, lf) := leftover1 reply malformedDatagram left
      let thm := p.wf r 6144 && (match p.answer with
        | none => true
        | some d => if d == reply then Spec.wf st else d.length < 5)
      s!"{entry} {port} {r} {showDeliveries (p.deliveries ++ lq)} f={showFaults (p.faults ++ lf)}"
        ++ " ## WANT " ++ showRes showFfow
            (match p.answer with
             | some d => if d == reply then .ok (Spec.expected st) else .err .packetUnderflow
             | none => .err (lastError attemptError p.fails))
        ++ " ## SENT " ++ showSent (p.sends lsqRequest)
        ++ " ## ATT " ++ toString p.attempts
        ++ " ## THM " ++ (if thm then "1" else "0")
    | _, _, _ => "bad-case"
  | _ => "bad-case"

def ffowFaultEntries : List (String × (List String → String)) := [("ffowplan", entryFfowPlan)]

end Gd.Run
