import GdVerif.Buffer
/-
  Helpers for the line-protocol driver: canonical text for outcomes and values.
-/
namespace Gd.Run

def showRes (f : α → String) : Res α → String
  | .ok a => "OK " ++ f a
  | .err k => "ERR " ++ k.name
  | .crash => "CRASH"

/-- strings are printed as hex of their UTF-8 bytes, prefixed so that the empty
string is visible -/
def showStr (b : Bytes) : String := "x" ++ hexOf b

def showOpt (f : α → String) : Option α → String
  | none => "-"
  | some a => "+" ++ f a

def showList (f : α → String) (l : List α) : String :=
  "[" ++ String.intercalate "," (l.map f) ++ "]"

def showBool : Bool → String
  | true => "T"
  | false => "F"

def parseInt? (s : String) : Option Int :=
  match s.toList with
  | '-' :: r => (String.ofList r).toNat?.map (fun n => -(n : Int))
  | _ => s.toNat?.map (fun n => (n : Int))

/-- insertion sort of key/value pairs by key bytes (canonical order for maps) -/
def bytesLt : Bytes → Bytes → Bool
  | [], [] => false
  | [], _ :: _ => true
  | _ :: _, [] => false
  | a :: r, b :: s => a < b || (a == b && bytesLt r s)

def insertSorted (lt : α → α → Bool) (x : α) : List α → List α
  | [] => [x]
  | y :: r => if lt x y then x :: y :: r else y :: insertSorted lt x r

def sortBy (lt : α → α → Bool) (l : List α) : List α := l.foldr (insertSorted lt) []

end Gd.Run
