import GdVerif.Run.Net
import GdVerif.Proto.Eco
import GdVerif.Spec.Eco
/-
  Driver for the Eco entry.  The model (`Proto/Eco.lean`) starts at the `Info` value; what turns the JSON text into
  that value in the real code is serde_json + the serde derive of `Root` / `Info`, which are parameters of the
  model.  For the correspondence check the driver needs a concrete instance of that parameter: this file is a
  mirror of `serde_json::from_reader::<Root>` (serde_json 1.0.x with `float_roundtrip`: typed, single pass —
  strict strings at typed positions, lenient skipping of unknown members, its number grammar, correctly rounded
  doubles = `Spec.nearestDouble`).  No theorem depends on anything here; it is validated by the tie on every run.
  `none` = any serde_json error (the real code maps them all to `ProtocolFormat`).
-/
namespace Gd.Run.EcoJson
open Gd

def isWs (c : UInt8) : Bool := c == 32 || c == 10 || c == 9 || c == 13
def skipWs : Bytes → Bytes
  | c :: r => if isWs c then skipWs r else c :: r
  | [] => []
def isDig (c : UInt8) : Bool := 48 ≤ c.toNat && c.toNat ≤ 57
def dig (c : UInt8) : Nat := c.toNat - 48

def hexv (c : UInt8) : Option Nat :=
  if isDig c then some (dig c)
  else if 65 ≤ c.toNat && c.toNat ≤ 70 then some (c.toNat - 55)
  else if 97 ≤ c.toNat && c.toNat ≤ 102 then some (c.toNat - 87)
  else none

/-- `decode_hex_escape` -/
def hex4 : Bytes → Option (Nat × Bytes)
  | a :: b :: c :: d :: r =>
    match hexv a, hexv b, hexv c, hexv d with
    | some a, some b, some c, some d => some (a * 4096 + b * 256 + c * 16 + d, r)
    | _, _, _, _ => none
  | _ => none

/-- `parse_str` (after the opening quote): validate = true, UTF-8 checked at the end -/
partial def strStrict (acc : Bytes) : Bytes → Option (Bytes × Bytes)
  | [] => none
  | c :: r =>
    if c == 34 then (if validUtf8 acc.reverse then some (acc.reverse, r) else none)
    else if c == 92 then
      match r with
      | [] => none
      | e :: r =>
        if e == 34 then strStrict (34 :: acc) r
        else if e == 92 then strStrict (92 :: acc) r
        else if e == 47 then strStrict (47 :: acc) r
        else if e == 98 then strStrict (8 :: acc) r
        else if e == 102 then strStrict (12 :: acc) r
        else if e == 110 then strStrict (10 :: acc) r
        else if e == 114 then strStrict (13 :: acc) r
        else if e == 116 then strStrict (9 :: acc) r
        else if e == 117 then
          match hex4 r with
          | none => none
          | some (n, r) =>
            if 0xDC00 ≤ n && n ≤ 0xDFFF then none
            else if n < 0xD800 || n > 0xDBFF then strStrict ((utf8EncodeChar n).reverse ++ acc) r
            else
              match r with
              | 92 :: 117 :: r =>
                match hex4 r with
                | none => none
                | some (n2, r) =>
                  if n2 < 0xDC00 || n2 > 0xDFFF then none
                  else strStrict ((utf8EncodeChar (((n - 0xD800) * 1024 + (n2 - 0xDC00)) + 0x10000)).reverse ++ acc) r
              | _ => none
        else none
    else if c.toNat < 0x20 then none
    else strStrict (c :: acc) r

/-- `ignore_str` -/
partial def strIgnore : Bytes → Option Bytes
  | [] => none
  | c :: r =>
    if c == 34 then some r
    else if c == 92 then
      match r with
      | [] => none
      | e :: r =>
        if e == 34 || e == 92 || e == 47 || e == 98 || e == 102 || e == 110 || e == 114 || e == 116 then strIgnore r
        else if e == 117 then (hex4 r).bind fun (_, r) => strIgnore r
        else none
    else if c.toNat < 0x20 then none
    else strIgnore r

/-! ### numbers

serde_json with `float_roundtrip`: the grammar of RFC 8259; an integer literal that fits `u64` (or `i64` when
negative) is an integer, everything else is the correctly rounded double of the exact decimal value; a value that
rounds to infinity is an error; an exponent of more than 31 bits is an error for a positive exponent on a non-zero
mantissa and denotes zero otherwise. -/

def U64MAX : Nat := 2 ^ 64 - 1
def I32MAX : Nat := 2 ^ 31 - 1

def skipDigits : Bytes → Bytes
  | c :: r => if isDig c then skipDigits r else c :: r
  | [] => []

/-- leading digits: their value and how many there are -/
def digits (acc n : Nat) : Bytes → Nat × Nat × Bytes
  | c :: r => if isDig c then digits (acc * 10 + dig c) (n + 1) r else (acc, n, c :: r)
  | [] => (acc, n, [])

def isE (c : UInt8) : Bool := c == 101 || c == 69

structure NumLit where
  positive : Bool
  /-- all digits of the integer and fraction parts -/
  m : Nat
  /-- power of ten -/
  e : Int
  /-- no fraction and no exponent -/
  plain : Bool
  /-- the exponent did not fit 31 bits; the flag is its sign -/
  expOverflow : Option Bool

/-- the exponent digits after the first: `none` = overflow of `i32` -/
def expDigits (exp : Nat) : Bytes → Option Nat × Bytes
  | c :: r =>
    if isDig c then
      if exp * 10 + dig c > I32MAX then (none, skipDigits r) else expDigits (exp * 10 + dig c) r
    else (some exp, c :: r)
  | [] => (some exp, [])

/-- a number literal (after white space): `-`? int frac? exp? -/
def scanNumber (inp : Bytes) : Option (NumLit × Bytes) :=
  let (positive, r) := match inp with
    | 45 :: r => (false, r)
    | r => (true, r)
  match r with
  | [] => none
  | c :: r' =>
    if !isDig c then none
    else
      -- integer part: a single 0, or digits not starting with 0
      let intPart : Option (Nat × Bytes) :=
        if c == 48 then
          match r' with
          | d :: _ => if isDig d then none else some (0, r')
          | [] => some (0, r')
        else let (v, _, r'') := digits 0 0 r; some (v, r'')
      match intPart with
      | none => none
      | some (iv, r) =>
        -- fraction
        let frac : Option (Nat × Nat × Bytes × Bool) :=
          match r with
          | 46 :: r' =>
            let (v, n, r'') := digits iv 0 r'
            if n == 0 then none else some (v, n, r'', true)
          | _ => some (iv, 0, r, false)
        match frac with
        | none => none
        | some (m, nfrac, r, hasFrac) =>
          match r with
          | c :: r' =>
            if isE c then
              let (positiveExp, r') := match r' with
                | 43 :: r' => (true, r')
                | 45 :: r' => (false, r')
                | r' => (true, r')
              match r' with
              | d :: r'' =>
                if !isDig d then none
                else
                  match expDigits (dig d) r'' with
                  | (some exp, rest) =>
                    some (⟨positive, m, (if positiveExp then (exp : Int) else -(exp : Int)) - nfrac, false, none⟩, rest)
                  | (none, rest) => some (⟨positive, m, 0, false, some positiveExp⟩, rest)
              | [] => none
            else some (⟨positive, m, -(nfrac : Int), !hasFrac, none⟩, r)
          | [] => some (⟨positive, m, -(nfrac : Int), !hasFrac, none⟩, r)

def decLen (n : Nat) : Nat := (toString n).length

/-- the double a literal denotes, as its bit pattern; `none` = `NumberOutOfRange` -/
def litBits (l : NumLit) : Option Nat :=
  let sign := if l.positive then 0 else 2 ^ 63
  match l.expOverflow with
  | some positiveExp => if l.m != 0 && positiveExp then none else some sign
  | none =>
    if l.m == 0 then some sign
    else
      -- far outside the range of doubles: decided without building the power of ten
      let mag : Int := (decLen l.m : Int) + l.e
      if mag > 320 then none
      else if mag < -340 then some sign
      else
        let v := if l.e ≥ 0 then Eco.Spec.nearestDouble (l.m * 10 ^ l.e.toNat) 1
                 else Eco.Spec.nearestDouble l.m (10 ^ (-l.e).toNat)
        v.map (sign + ·)

/-! ### skipping a value of an unknown member (`ignore_value`) -/

def ident (s : String) (r : Bytes) : Option Bytes :=
  let w := asciiBytes s
  if r.take w.length == w then some (r.drop w.length) else none

def ignoreExponent (inp : Bytes) : Option Bytes :=
  match inp with
  | _ :: r =>
    let r := match r with
      | 43 :: r => r
      | 45 :: r => r
      | r => r
    match r with
    | c :: r => if isDig c then some (skipDigits r) else none
    | [] => none
  | [] => none

def ignoreDecimal (inp : Bytes) : Option Bytes :=
  let r := inp.drop 1
  let r' := skipDigits r
  if r'.length == r.length then none
  else match r' with
    | e :: _ => if isE e then ignoreExponent r' else some r'
    | [] => some r'

def ignoreInteger : Bytes → Option Bytes
  | [] => none
  | c :: r =>
    let after (r : Bytes) : Option Bytes :=
      match r with
      | d :: _ => if d == 46 then ignoreDecimal r else if isE d then ignoreExponent r else some r
      | [] => some r
    if c == 48 then
      match r with
      | d :: _ => if isDig d then none else after r
      | [] => after r
    else if isDig c then after (skipDigits r)
    else none

mutual
partial def ignoreValue (inp : Bytes) : Option Bytes :=
  match skipWs inp with
  | [] => none
  | c :: r =>
    if c == 110 then ident "ull" r
    else if c == 116 then ident "rue" r
    else if c == 102 then ident "alse" r
    else if c == 45 then ignoreInteger r
    else if isDig c then ignoreInteger (c :: r)
    else if c == 34 then strIgnore r
    else if c == 91 then
      match skipWs r with
      | 93 :: r => some r
      | r => (ignoreValue r).bind ignoreArrTail
    else if c == 123 then
      match skipWs r with
      | 125 :: r => some r
      | r => (ignoreMember r).bind ignoreObjTail
    else none
partial def ignoreArrTail (inp : Bytes) : Option Bytes :=
  match skipWs inp with
  | 44 :: r => (ignoreValue r).bind ignoreArrTail
  | 93 :: r => some r
  | _ => none
partial def ignoreMember (inp : Bytes) : Option Bytes :=
  match skipWs inp with
  | 34 :: r =>
    (strIgnore r).bind fun r =>
      match skipWs r with
      | 58 :: r => ignoreValue r
      | _ => none
  | _ => none
partial def ignoreObjTail (inp : Bytes) : Option Bytes :=
  match skipWs inp with
  | 44 :: r => (ignoreMember r).bind ignoreObjTail
  | 125 :: r => some r
  | _ => none
end

/-! ### typed positions -/

inductive Ty | bool | u32 | f64 | str | strs | map
  deriving DecidableEq

inductive Val
  | b (v : Bool) | n (v : Nat) | s (v : Bytes) | l (v : List Bytes) | m (v : List (Bytes × Bytes))

def deBool (inp : Bytes) : Option (Bool × Bytes) :=
  match skipWs inp with
  | 116 :: r => (ident "rue" r).map fun r => (true, r)
  | 102 :: r => (ident "alse" r).map fun r => (false, r)
  | _ => none

/-- `u32`: only an integer literal that fits (a negative one, `-0` included, or any fraction / exponent is an
invalid type) -/
def deU32 (inp : Bytes) : Option (Nat × Bytes) :=
  match scanNumber (skipWs inp) with
  | some (l, r) => if l.positive && l.plain && l.m < 2 ^ 32 then some (l.m, r) else none
  | none => none

/-- `f64`: any number; integers are converted (`as f64`, the same rounding) -/
def deF64 (inp : Bytes) : Option (Nat × Bytes) :=
  match scanNumber (skipWs inp) with
  | some (l, r) => (litBits l).map fun b => (b, r)
  | none => none

def deString (inp : Bytes) : Option (Bytes × Bytes) :=
  match skipWs inp with
  | 34 :: r => strStrict [] r
  | _ => none

/-- `Vec<String>`: `SeqAccess::next_element` until `]`, then `end_seq` -/
partial def deStrs (inp : Bytes) : Option (List Bytes × Bytes) :=
  match skipWs inp with
  | 91 :: r =>
    let rec loop (first : Bool) (acc : List Bytes) (r : Bytes) : Option (List Bytes × Bytes) :=
      match skipWs r with
      | [] => none
      | 93 :: r => some (acc.reverse, r)
      | c :: r' =>
        if first then (deString (c :: r')).bind fun (s, r) => loop false (s :: acc) r
        else if c == 44 then
          match skipWs r' with
          | [] => none
          | 93 :: _ => none
          | r'' => (deString r'').bind fun (s, r) => loop false (s :: acc) r
        else none
    loop true [] r
  | _ => none

def mapPut (m : List (Bytes × Bytes)) (k v : Bytes) : List (Bytes × Bytes) :=
  match m with
  | [] => [(k, v)]
  | (k', v') :: r => if k' == k then (k, v) :: r else (k', v') :: mapPut r k v

/-- the key position of `MapAccess::next_key`: `some none` = the closing brace is next -/
def nextKey (first : Bool) (r : Bytes) : Option (Option (Bytes × Bytes)) :=
  match skipWs r with
  | [] => none
  | 125 :: _ => some none
  | c :: r' =>
    if first then (if c == 34 then (strStrict [] r').map some else none)
    else if c == 44 then
      match skipWs r' with
      | 34 :: r'' => (strStrict [] r'').map some
      | _ => none
    else none

def colon (r : Bytes) : Option Bytes :=
  match skipWs r with
  | 58 :: r => some r
  | _ => none

def endMap (r : Bytes) : Option Bytes :=
  match skipWs r with
  | 125 :: r => some r
  | _ => none

def endSeq (r : Bytes) : Option Bytes :=
  match skipWs r with
  | 93 :: r => some r
  | _ => none

/-- `HashMap<String, String>` (a later duplicate key replaces the earlier one) -/
partial def deMap (inp : Bytes) : Option (List (Bytes × Bytes) × Bytes) :=
  match skipWs inp with
  | 123 :: r =>
    let rec loop (first : Bool) (acc : List (Bytes × Bytes)) (r : Bytes) : Option (List (Bytes × Bytes) × Bytes) :=
      match nextKey first r with
      | none => none
      | some none => (endMap r).map fun r => (acc, r)
      | some (some (k, r)) =>
        (colon r).bind fun r => (deString r).bind fun (v, r) => loop false (mapPut acc k v) r
    loop true [] r
  | _ => none

def deTy (t : Ty) (inp : Bytes) : Option (Val × Bytes) :=
  match t with
  | .bool => (deBool inp).map fun (v, r) => (.b v, r)
  | .u32 => (deU32 inp).map fun (v, r) => (.n v, r)
  | .f64 => (deF64 inp).map fun (v, r) => (.n v, r)
  | .str => (deString inp).map fun (v, r) => (.s v, r)
  | .strs => (deStrs inp).map fun (v, r) => (.l v, r)
  | .map => (deMap inp).map fun (v, r) => (.m v, r)

/-- a struct deserialised by a serde derive: from an object (members in any order, unknown ones skipped,
duplicates and missing ones rejected) or from an array (all fields, in declaration order) -/
partial def deStruct (fields : List (String × Ty)) (inp : Bytes) : Option (List (String × Val) × Bytes) :=
  match skipWs inp with
  | 123 :: r =>
    let rec loop (first : Bool) (acc : List (String × Val)) (r : Bytes) : Option (List (String × Val) × Bytes) :=
      match nextKey first r with
      | none => none
      | some none =>
        if fields.all (fun f => (acc.lookup f.1).isSome) then (endMap r).map fun r => (acc, r) else none
      | some (some (k, r)) =>
        (colon r).bind fun r =>
          match fields.find? (fun f => asciiBytes f.1 == k) with
          | some (name, ty) =>
            if (acc.lookup name).isSome then none
            else (deTy ty r).bind fun (v, r) => loop false ((name, v) :: acc) r
          | none => (ignoreValue r).bind fun r => loop false acc r
    loop true [] r
  | 91 :: r =>
    let rec seq (first : Bool) (todo : List (String × Ty)) (acc : List (String × Val)) (r : Bytes) :
        Option (List (String × Val) × Bytes) :=
      match todo with
      | [] => (endSeq r).map fun r => (acc, r)
      | (name, ty) :: todo =>
        match skipWs r with
        | [] => none
        | 93 :: _ => none
        | c :: r' =>
          if first then (deTy ty (c :: r')).bind fun (v, r) => seq false todo ((name, v) :: acc) r
          else if c == 44 then
            match skipWs r' with
            | [] => none
            | 93 :: _ => none
            | r'' => (deTy ty r'').bind fun (v, r) => seq false todo ((name, v) :: acc) r
          else none
    seq true fields [] r
  | _ => none

/-- `Info`: JSON member names and types, in declaration order -/
def infoFields : List (String × Ty) :=
  [
   ("External", .bool),
   ("GamePort", .u32),
   ("WebPort", .u32),
   ("IsLAN", .bool),
   ("Description", .str),
   ("DetailedDescription", .str),
   ("Category", .str),
   ("OnlinePlayers", .u32),
   ("TotalPlayers", .u32),
   ("OnlinePlayersNames", .strs),
   ("AdminOnline", .bool),
   ("TimeSinceStart", .f64),
   ("TimeLeft", .f64),
   ("Animals", .u32),
   ("Plants", .u32),
   ("Laws", .u32),
   ("WorldSize", .str),
   ("Version", .str),
   ("EconomyDesc", .str),
   ("SkillSpecializationSetting", .str),
   ("Language", .str),
   ("HasPassword", .bool),
   ("HasMeteor", .bool),
   ("DistributionStationItems", .str),
   ("Playtimes", .str),
   ("DiscordAddress", .str),
   ("IsPaused", .bool),
   ("ActiveAndOnlinePlayers", .u32),
   ("PeakActivePlayers", .u32),
   ("MaxActivePlayers", .u32),
   ("ShelfLifeMultiplier", .f64),
   ("ExhaustionAfterHours", .f64),
   ("IsLimitingHours", .bool),
   ("ServerAchievementsDict", .map),
   ("RelayAddress", .str),
   ("Access", .str),
   ("JoinUrl", .str)]

def getB (a : List (String × Val)) (k : String) : Bool := match a.lookup k with | some (.b v) => v | _ => false
def getN (a : List (String × Val)) (k : String) : Nat := match a.lookup k with | some (.n v) => v | _ => 0
def getS (a : List (String × Val)) (k : String) : Bytes := match a.lookup k with | some (.s v) => v | _ => []
def getL (a : List (String × Val)) (k : String) : List Bytes := match a.lookup k with | some (.l v) => v | _ => []
def getM (a : List (String × Val)) (k : String) : List (Bytes × Bytes) := match a.lookup k with | some (.m v) => v | _ => []

def infoOf (a : List (String × Val)) : Eco.Info :=
  {
    external := getB a "External",
    gamePort := getN a "GamePort",
    webPort := getN a "WebPort",
    isLan := getB a "IsLAN",
    description := getS a "Description",
    detailedDescription := getS a "DetailedDescription",
    category := getS a "Category",
    onlinePlayers := getN a "OnlinePlayers",
    totalPlayers := getN a "TotalPlayers",
    onlinePlayersNames := getL a "OnlinePlayersNames",
    adminOnline := getB a "AdminOnline",
    timeSinceStart := getN a "TimeSinceStart",
    timeLeft := getN a "TimeLeft",
    animals := getN a "Animals",
    plants := getN a "Plants",
    laws := getN a "Laws",
    worldSize := getS a "WorldSize",
    version := getS a "Version",
    economyDesc := getS a "EconomyDesc",
    skillSpecializationSetting := getS a "SkillSpecializationSetting",
    language := getS a "Language",
    hasPassword := getB a "HasPassword",
    hasMeteor := getB a "HasMeteor",
    distributionStationItems := getS a "DistributionStationItems",
    playtimes := getS a "Playtimes",
    discordAddress := getS a "DiscordAddress",
    isPaused := getB a "IsPaused",
    activeAndOnlinePlayers := getN a "ActiveAndOnlinePlayers",
    peakActivePlayers := getN a "PeakActivePlayers",
    maxActivePlayers := getN a "MaxActivePlayers",
    shelfLifeMultiplier := getN a "ShelfLifeMultiplier",
    exhaustionAfterHours := getN a "ExhaustionAfterHours",
    isLimitingHours := getB a "IsLimitingHours",
    serverAchievementsDict := getM a "ServerAchievementsDict",
    relayAddress := getS a "RelayAddress",
    access := getS a "Access",
    joinUrl := getS a "JoinUrl" }

/-- `Root`: one member, `Info`; object or one-element array -/
partial def deRoot (inp : Bytes) : Option (Eco.Info × Bytes) :=
  match skipWs inp with
  | 123 :: r =>
    let rec loop (first : Bool) (acc : Option Eco.Info) (r : Bytes) : Option (Eco.Info × Bytes) :=
      match nextKey first r with
      | none => none
      | some none => acc.bind fun i => (endMap r).map fun r => (i, r)
      | some (some (k, r)) =>
        (colon r).bind fun r =>
          if k == asciiBytes "Info" then
            if acc.isSome then none
            else (deStruct infoFields r).bind fun (a, r) => loop false (some (infoOf a)) r
          else (ignoreValue r).bind fun r => loop false acc r
    loop true none r
  | 91 :: r =>
    match skipWs r with
    | [] => none
    | 93 :: _ => none
    | r' => (deStruct infoFields r').bind fun (a, r) => (endSeq r).map fun r => (infoOf a, r)
  | _ => none

/-- `serde_json::from_reader::<Root>`: the value, then only white space -/
def fromReader (doc : Bytes) : Option Eco.Info :=
  (deRoot doc).bind fun (i, r) => if (skipWs r).isEmpty then some i else none

end Gd.Run.EcoJson
