import GdVerif.Net
/-
  MODEL of `games/mindustry/{protocol,types,mod}.rs` (repaired tree).
-/
namespace Gd.Mindustry

/-- `types.rs: GameMode` -/
inductive GameMode | survival | sandbox | attack | pvp | editor
  deriving Repr, DecidableEq, Inhabited

/-- `types.rs: ServerData` (the three `i32`s are `Int`s) -/
structure ServerData where
  host : Bytes
  map : Bytes
  players : Int
  wave : Int
  version : Int
  versionType : Bytes
  gamemode : GameMode
  playerLimit : Int
  description : Bytes
  modeName : Option Bytes
  deriving Repr, DecidableEq

/-- `impl TryFrom<u8> for GameMode` -/
def gameModeOf (n : Nat) : Res GameMode :=
  match n with
  | 0 => .ok .survival
  | 1 => .ok .sandbox
  | 2 => .ok .attack
  | 3 => .ok .pvp
  | 4 => .ok .editor
  | _ => .err .typeParse

/-- `p(buffer).ok()`: an error becomes `None`; the string decoders move the cursor only on success -/
def optional (p : Par α) : Par (Option α) := fun b =>
  match p b with
  | .ok (a, b') => .ok (some a, b')
  | .err _ => .ok (none, b)
  | .crash => .crash

/-- `parse_server_data::<BigEndian, Utf8LengthPrefixedDecoder>` (struct fields are evaluated in the
order they are written) -/
def parseServerData : Par ServerData := do
  let host ← readLenStr
  let map ← readLenStr
  let players ← readSigned .big 4
  let wave ← readSigned .big 4
  let version ← readSigned .big 4
  let versionType ← readLenStr
  let gm ← readU8
  let gamemode ← Par.lift (gameModeOf gm)
  let playerLimit ← readSigned .big 4
  let description ← readLenStr
  let modeName ← optional readLenStr
  pure ⟨host, map, players, wave, version, versionType, gamemode, playerLimit, description, modeName⟩

def MAX_BUFFER_SIZE : Nat := 500

/-- `send_ping`: `[-2i8 as u8, 1i8 as u8]` -/
def ping : Bytes := [0xFE, 0x01]

/-- `protocol::query`: a fresh socket, the ping, one datagram -/
def attempt (port : Nat) : Q ServerData := do
  let s ← openSock false port
  send s ping
  let data ← recv s (some MAX_BUFFER_SIZE)
  parse parseServerData data

/-- `protocol::query_with_retries` = `mindustry::query` (the port defaulting is the caller's) -/
def query (port retries : Nat) : Q ServerData := retryOnTimeout retries (attempt port)

def DEFAULT_PORT : Nat := 6567

end Gd.Mindustry
