import GdVerif.Base
/-
  MODEL of the command-line tool's own logic (`crates/cli/src/main.rs`, repaired tree):
  the JSON → XML converter of `output_result_xml` and `main`'s control flow.
  serde_json, quick-xml's writer, bson, clap and the resolver are parameters: JSON values arrive
  already built (numbers as the text serde_json prints for them); the writer is mirrored by `render`.
-/
namespace Gd.Cli

mutual
  /-- a `serde_json::Value` (object members in `BTreeMap` order, as `to_value` builds them) -/
  inductive J
    | null
    | bool (b : Bool)
    /-- a number, as the text `Value::to_string()` gives for it -/
    | num (text : Bytes)
    | str (s : Bytes)
    | arr (items : JList)
    | obj (members : JMembers)
  inductive JList
    | nil
    | cons (head : J) (tail : JList)
  inductive JMembers
    | nil
    | cons (key : Bytes) (value : J) (tail : JMembers)
end

/-- quick-xml events the converter writes -/
inductive XmlEv
  | start (name : Bytes) (keyAttr : Option Bytes)
  | «end» (name : Bytes)
  | empty (name : Bytes) (keyAttr : Option Bytes)
  /-- already escaped text -/
  | text (escaped : Bytes)
  deriving Repr, DecidableEq

def isAsciiAlpha (b : UInt8) : Bool := inRange b 65 90 || inRange b 97 122

/-- `is_xml_name` -/
def isXmlName (key : Bytes) : Bool :=
  match key with
  | [] => false
  | c :: r => (isAsciiAlpha c || c == 95) && r.all (fun b => isAsciiAlpha b || isDigit b || b == 95 || b == 45 || b == 46)

def hexUpperDigit (n : Nat) : UInt8 := if n < 10 then UInt8.ofNat (48 + n) else UInt8.ofNat (55 + n)

/-- upper-case hex without leading zeros (`{:X}`), for scalars below 0x100 -/
def hexUpper (n : Nat) : Bytes := if n < 16 then [hexUpperDigit n] else [hexUpperDigit (n / 16), hexUpperDigit (n % 16)]

/-- Rust `char::is_control` (general category Cc) -/
def isControl (c : Nat) : Bool := c < 32 || (127 ≤ c && c < 160)

/-- `xml_escape` on one scalar value (U+0000 and the noncharacters U+FFFE / U+FFFF are not XML characters: U+FFFD) -/
def escapeScalar (isAttr : Bool) (c : Nat) : Bytes :=
  if c == 38 then asciiBytes "&amp;"
  else if c == 60 then asciiBytes "&lt;"
  else if c == 62 then asciiBytes "&gt;"
  else if c == 34 then asciiBytes "&quot;"
  else if c == 39 then asciiBytes "&apos;"
  else if c == 0 || c == 0xFFFE || c == 0xFFFF then utf8EncodeChar 0xFFFD
  else if (c == 9 || c == 10) && !isAttr then utf8EncodeChar c
  else if isControl c then asciiBytes "&#x" ++ hexUpper c ++ asciiBytes ";"
  else utf8EncodeChar c

/-- XML 1.1 `Char` minus `RestrictedChar`: the characters that may stand literally in a document -/
def xmlLiteralOk (c : Nat) : Bool :=
  c == 9 || c == 10 || c == 13 || (0x20 ≤ c && c ≤ 0x7E) || c == 0x85 || (0xA0 ≤ c && c ≤ 0xD7FF) || (0xE000 ≤ c && c ≤ 0xFFFD)
    || (0x10000 ≤ c && c ≤ 0x10FFFF)

/-- XML 1.1 `Char`: the characters a character reference may name -/
def xmlCharOk (c : Nat) : Bool := (1 ≤ c && c ≤ 0xD7FF) || (0xE000 ≤ c && c ≤ 0xFFFD) || (0x10000 ≤ c && c ≤ 0x10FFFF)

/-- `xml_escape(text, attribute)` -/
def xmlEscape (isAttr : Bool) (text : Bytes) : Bytes := (utf8Decode text).flatMap (escapeScalar isAttr)

/-- `start_of` / `end_of`: element name and optional `key` attribute (escaped) for a JSON key -/
def elemOf (key : Bytes) : Bytes × Option Bytes :=
  if isXmlName key then (key, none) else (asciiBytes "entry", some (xmlEscape true key))

def itemKey : Bytes := asciiBytes "item"

mutual
  /-- `json_to_xml(writer, key, value)` -/
  def jsonToXml (key : Option Bytes) : J → List XmlEv
    | .obj ms =>
      match key with
      | some k => [XmlEv.start (elemOf k).1 (elemOf k).2] ++ membersToXml ms ++ [XmlEv.end (elemOf k).1]
      | none => membersToXml ms
    | .arr items => itemsToXml (some (key.getD itemKey)) items
    | .null =>
      match key with
      | some k => [XmlEv.empty (elemOf k).1 (elemOf k).2]
      | none => []
    | .bool b => leaf key (if b then asciiBytes "true" else asciiBytes "false")
    | .num t => leaf key t
    | .str s => leaf key s
  def itemsToXml (key : Option Bytes) : JList → List XmlEv
    | .nil => []
    | .cons h t => jsonToXml key h ++ itemsToXml key t
  def membersToXml : JMembers → List XmlEv
    | .nil => []
    | .cons k v t => jsonToXml (some k) v ++ membersToXml t
  /-- a scalar: optional element around an escaped text node -/
  def leaf (key : Option Bytes) (text : Bytes) : List XmlEv :=
    match key with
    | some k => [XmlEv.start (elemOf k).1 (elemOf k).2, XmlEv.text (xmlEscape false text), XmlEv.end (elemOf k).1]
    | none => [XmlEv.text (xmlEscape false text)]
end

def dataName : Bytes := asciiBytes "data"

/-- the whole document's events: `<data>` … `</data>` -/
def documentEvents (j : J) : List XmlEv := [XmlEv.start dataName none] ++ jsonToXml none j ++ [XmlEv.end dataName]

/-- quick-xml's `Writer` (no indentation): how each event is written -/
def renderEv : XmlEv → Bytes
  | .start n none => [60] ++ n ++ [62]
  | .start n (some k) => [60] ++ n ++ asciiBytes " key=\"" ++ k ++ asciiBytes "\"" ++ [62]
  | .end n => [60, 47] ++ n ++ [62]
  | .empty n none => [60] ++ n ++ [47, 62]
  | .empty n (some k) => [60] ++ n ++ asciiBytes " key=\"" ++ k ++ asciiBytes "\"" ++ [47, 62]
  | .text t => t

def xmlDecl : Bytes := asciiBytes "<?xml version=\"1.1\" encoding=\"utf-8\"?>"

/-- what `output_result_xml` prints (before the final newline) -/
def renderDocument (j : J) : Bytes := xmlDecl ++ (documentEvents j).flatMap renderEv

/-! ### `main`'s control flow -/

inductive Failure
  | invalidFlag | unknownGame | invalidHostname | queryError | serialiserError
  deriving Repr, DecidableEq

structure Outcome where
  exitCode : Nat
  /-- a document was printed on stdout -/
  document : Bool
  /-- an error message was printed on stderr -/
  message : Bool
  deriving Repr, DecidableEq

/-- `main`: clap rejects bad flags itself (exit 2); every later failure is returned as `Err` from `main`
(message on stderr, exit 1); the document is printed only when every step succeeded -/
def mainOutcome (flagsOk gameKnown hostResolves queryOk serialisesOk : Bool) : Outcome :=
  if !flagsOk then ⟨2, false, true⟩
  else if !gameKnown then ⟨1, false, true⟩
  else if !hostResolves then ⟨1, false, true⟩
  else if !queryOk then ⟨1, false, true⟩
  else if !serialisesOk then ⟨1, false, true⟩
  else ⟨0, true, false⟩

end Gd.Cli
