import GdVerif.Net
import GdVerif.Proto.Valve
/-
  MODEL of `protocols/quake/{client,one,two,three,types}.rs` (repaired tree): the Quake 1 / 2 / 3
  status query.  One exchange: `FFFFFFFF <send header> 00` out, one datagram back.
-/
namespace Gd.Quake
open Gd

inductive Version | one | two | three
  deriving Repr, DecidableEq

/-- `QuakeClient::get_send_header` -/
def Version.sendHeader : Version → Bytes
  | .one => asciiBytes "status"
  | .two => asciiBytes "status"
  | .three => asciiBytes "getstatus"

/-- `QuakeClient::get_response_header` -/
def Version.responseHeader : Version → Bytes
  | .one => asciiBytes "n"
  | .two => asciiBytes "print\n"
  | .three => asciiBytes "statusResponse\n"

/-- `one::Player` -/
structure PlayerOne where
  id : Nat
  score : Nat
  time : Nat
  ping : Nat
  name : Bytes
  skin : Bytes
  colorPrimary : Nat
  colorSecondary : Nat
  deriving Repr, DecidableEq

/-- `two::Player` (also Quake 3's) -/
structure PlayerTwo where
  score : Int
  ping : Nat
  name : Bytes
  address : Option Bytes
  deriving Repr, DecidableEq

inductive Player
  | one (p : PlayerOne)
  | two (p : PlayerTwo)
  deriving Repr, DecidableEq

/-- `HashMap<String, String>` as an association list (insert replaces) -/
abbrev Vars := List (Bytes × Bytes)

/-- `types::Response<P>` -/
structure Response where
  name : Bytes
  map : Bytes
  players : List Player
  playersOnline : Nat
  playersMaximum : Nat
  gameVersion : Option Bytes
  unused : Vars
  deriving Repr, DecidableEq

/-! ### `get_data` / `get_data_impl` -/

def PACKET_SIZE : Nat := 65535

/-- the request of `get_data_impl`: `[FF FF FF FF, send header, 00].concat()` -/
def request (v : Version) : Bytes := [0xFF, 0xFF, 0xFF, 0xFF] ++ v.sendHeader ++ [0x00]

/-- `get_data_impl` after the receive: header checks, the rest of the packet -/
def stripHeader (v : Version) : Par Bytes := do
  let h ← readUnsigned .little 4
  if h != 0xFFFFFFFF then Par.fail .packetBad
  else do
    let rest ← remainingBytes
    if !(v.responseHeader.isPrefixOf rest) then Par.fail .packetBad
    else do
      moveCursor (v.responseHeader.length : Int)
      remainingBytes

/-- `get_data_impl` -/
def getDataImpl (s : Sock) (v : Version) : Q Bytes := do
  send s (request v)
  let data ← recv s (some PACKET_SIZE)
  parse (stripHeader v) data

/-- `get_data`: the whole exchange is the retried unit -/
def getDataOn (s : Sock) (retries : Nat) (v : Version) : Q Bytes :=
  retryOnTimeout retries (getDataImpl s v)

def getData (port retries : Nat) (v : Version) : Q Bytes := do
  let s ← openSock false port
  getDataOn s retries v

/-! ### `get_server_values` -/

/-- `chunks(2)` keeping only the complete pairs -/
def pairs : List Bytes → List (Bytes × Bytes)
  | k :: v :: r => (k, v) :: pairs r
  | _ => []

/-- `if first == "" { remove(0) }` -/
def dropEmptyFirst : List Bytes → List Bytes
  | [] :: r => r
  | l => l

def insertAll (kvs : List (Bytes × Bytes)) : Vars := kvs.foldl (fun m p => Valve.mapInsert m p.1 p.2) []

/-- `get_server_values` -/
def getServerValues : Par Vars := do
  let data ← readStrUntil 0x0A
  pure (insertAll (pairs (dropEmptyFirst (splitOn 0x5C data))))

/-! ### player lines -/

def consHead (b : UInt8) : List Bytes → List Bytes
  | [] => [[b]]
  | p :: ps => (b :: p) :: ps

/-- `split_player_fields`: split on the spaces outside double quotes, quotes kept -/
def splitFields (inQuotes : Bool) : Bytes → List Bytes
  | [] => [[]]
  | b :: r =>
    if b == 0x22 then consHead b (splitFields (!inQuotes) r)
    else if b == 0x20 && !inQuotes then [] :: splitFields inQuotes r
    else consHead b (splitFields inQuotes r)

/-- `&string[1 .. string.len() - 1]` (a slice with start > end panics) -/
def sliceInner (s : Bytes) : Res Bytes :=
  if s.length < 2 then .crash else .ok (s.drop 1).dropLast

/-- `remove_wrapping_quotes` -/
def removeWrappingQuotes (s : Bytes) : Res Bytes :=
  if decide (2 ≤ s.length) && s.head? == some 0x22 && s.getLast? == some 0x22 then sliceInner s else .ok s

/-- `match data.next() { None => Err(PacketBad), Some(v) => v.parse().map_err(TypeParse) }` -/
def fieldUnsigned (bits : Nat) (tok : Option Bytes) : Res Nat :=
  match tok with
  | none => .err .packetBad
  | some t => okOr (parseUnsigned bits t) .typeParse

def fieldSigned (bits : Nat) (tok : Option Bytes) : Res Int :=
  match tok with
  | none => .err .packetBad
  | some t => okOr (parseSigned bits t) .typeParse

/-- `match data.next() { None => Err(PacketBad), Some(v) => remove_wrapping_quotes(v).to_string() }` -/
def fieldText (tok : Option Bytes) : Res Bytes :=
  match tok with
  | none => .err .packetBad
  | some t => removeWrappingQuotes t

/-- `data.next().map(|v| remove_wrapping_quotes(v).to_string())` -/
def fieldOptText (tok : Option Bytes) : Res (Option Bytes) :=
  match tok with
  | none => .ok none
  | some t => do let s ← removeWrappingQuotes t; pure (some s)

/-- `QuakeOne::parse_player_string` -/
def parsePlayerOne (t : List Bytes) : Res PlayerOne := do
  let id ← fieldUnsigned 8 t[0]?
  let score ← fieldUnsigned 16 t[1]?
  let time ← fieldUnsigned 16 t[2]?
  let ping ← fieldUnsigned 16 t[3]?
  let name ← fieldText t[4]?
  let skin ← fieldText t[5]?
  let c1 ← fieldUnsigned 8 t[6]?
  let c2 ← fieldUnsigned 8 t[7]?
  pure ⟨id, score, time, ping, name, skin, c1, c2⟩

/-- `QuakeTwo::parse_player_string` (Quake 3 delegates to it) -/
def parsePlayerTwo (t : List Bytes) : Res PlayerTwo := do
  let score ← fieldSigned 32 t[0]?
  let ping ← fieldUnsigned 16 t[1]?
  let name ← fieldText t[2]?
  let address ← fieldOptText t[3]?
  pure ⟨score, ping, name, address⟩

def parsePlayer (v : Version) (t : List Bytes) : Res Player :=
  match v with
  | .one => do let p ← parsePlayerOne t; pure (.one p)
  | _ => do let p ← parsePlayerTwo t; pure (.two p)

/-- the body of the loop of `get_players` -/
def playerLine (v : Version) : Par Player := do
  let data ← readStrUntil 0x0A
  Par.lift (parsePlayer v (splitFields false data))

/-- `while remaining_length() > 0 && remaining_bytes() != [0x00] { players.push(line?) }`;
every round consumes at least one byte, so `remaining + 1` rounds of fuel suffice (proved) -/
def getPlayersLoop (v : Version) : Nat → Par (List Player)
  | 0 => Par.crash
  | fuel + 1 => do
    let rest ← remainingBytes
    if rest.isEmpty || rest == [0x00] then pure []
    else do
      let p ← playerLine v
      let ps ← getPlayersLoop v fuel
      pure (p :: ps)

/-- `get_players` -/
def getPlayers (v : Version) : Par (List Player) := fun b => getPlayersLoop v (b.remaining + 1) b

/-! ### `client_query` -/

def kHostname : Bytes := asciiBytes "hostname"
def kSvHostname : Bytes := asciiBytes "sv_hostname"
def kMapname : Bytes := asciiBytes "mapname"
def kMap : Bytes := asciiBytes "map"
def kMaxclients : Bytes := asciiBytes "maxclients"
def kSvMaxclients : Bytes := asciiBytes "sv_maxclients"
def kVersion : Bytes := asciiBytes "version"
def kStarVersion : Bytes := asciiBytes "*version"

/-- `vars.remove(k1).or_else(|| vars.remove(k2))` -/
def takeVar (m : Vars) (k1 k2 : Bytes) : Option Bytes × Vars :=
  match m.lookup k1 with
  | some v => (some v, Valve.mapRemove m k1)
  | none =>
    match m.lookup k2 with
    | some v => (some v, Valve.mapRemove m k2)
    | none => (none, m)

/-- the `Response { … }` expression of `client_query`, fields evaluated in source order -/
def buildResponse (vars : Vars) (players : List Player) : Res Response := do
  let (name, vars) := takeVar vars kHostname kSvHostname
  let name ← okOr name .packetBad
  let (map, vars) := takeVar vars kMapname kMap
  let map ← okOr map .packetBad
  let (mx, vars) := takeVar vars kMaxclients kSvMaxclients
  let mx ← okOr mx .packetBad
  let mx ← okOr (parseUnsigned 8 mx) .typeParse
  let (version, vars) := takeVar vars kVersion kStarVersion
  -- `players.len() as u8`
  pure ⟨name, map, players, players.length % 256, mx, version, vars⟩

/-- `client_query` after `get_data` -/
def parseBody (v : Version) : Par Response := do
  let vars ← getServerValues
  let players ← getPlayers v
  Par.lift (buildResponse vars players)

/-- `quake::{one,two,three}::query` -/
def query (port : Nat) (v : Version) (retries : Nat) : Q Response := do
  let data ← getData port retries v
  parse (parseBody v) data

end Gd.Quake
