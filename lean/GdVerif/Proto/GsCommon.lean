import GdVerif.Net
/-
  Pieces shared by the GameSpy 1 and GameSpy 2 models: `HashMap<String, String>` as an association
  list, its canonical form, the text helpers of `str` the two parsers use, and
  `protocols/gamespy/common.rs` (`has_password`).
-/
namespace Gd.Gs

/-- `HashMap<String, V>` while it is being filled: association list, insert replaces -/
abbrev Map (β : Type) := List (Bytes × β)

def mapInsert (m : Map β) (k : Bytes) (v : β) : Map β :=
  match m with
  | [] => [(k, v)]
  | (k', v') :: r => if k' == k then (k, v) :: r else (k', v') :: mapInsert r k v

def mapRemove (m : Map β) (k : Bytes) : Map β := m.filter (fun p => p.1 != k)

def mapGet (m : Map β) (k : Bytes) : Option β :=
  match m with
  | [] => none
  | (k', v) :: r => if k' == k then some v else mapGet r k

/-- An injective numbering of byte strings (base 257, digits 1..256): the order a finished map is
kept in.  Any injective key would do: a `HashMap` has no order, printing sorts again. -/
def keyNat : Bytes → Nat
  | [] => 0
  | b :: r => (b.toNat + 1) + 257 * keyNat r

def insertKey (p : Bytes × β) : Map β → Map β
  | [] => [p]
  | q :: r => if keyNat p.1 ≤ keyNat q.1 then p :: q :: r else q :: insertKey p r

/-- canonical representative of a finished `HashMap`: sorted by `keyNat` (insertion sort) -/
def canon (m : Map β) : Map β := m.foldr insertKey []

/-- deliveries still queued for a socket -/
def queued (s : Sock) (w : Net) : Nat := (w.conns.getD s.id []).length

/-! ### `str` helpers -/

/-- `String::remove(0)` on a non-empty string: the first `char` goes (a lead byte and its
continuation bytes) -/
def dropFirstChar : Bytes → Bytes
  | [] => []
  | _ :: r => r.dropWhile isCont

/-- `for i in 0 .. v.len() / 2 { (v[2 i], v[2 i + 1]) }` -/
def pairsOf : List Bytes → List (Bytes × Bytes)
  | k :: v :: r => (k, v) :: pairsOf r
  | _ => []

/-- `s.to_lowercase().parse::<bool>()`.
`to_lowercase` is Unicode lower-casing; the only non-ASCII characters whose lower case contains an
ASCII letter are U+212A (→ `k`) and U+0130 (→ `i` + U+0307), neither letter occurs in `true` /
`false`, so the result is `true`/`false` exactly when ASCII lower-casing gives it. -/
def parseBoolLower (s : Bytes) : Option Bool :=
  let l := asciiLower s
  if l == asciiBytes "true" then some true
  else if l == asciiBytes "false" then some false
  else none

/-- `common.rs: has_password` on the value of `password` (lower-cased: `true` / `false`, else a `u8`,
non-zero = password; lower-casing never produces a digit or `+` from anything else) -/
def passwordValue (v : Bytes) : Res Bool :=
  match parseBoolLower v with
  | some b => .ok b
  | none =>
    match parseUnsigned 8 (asciiLower v) with
    | some n => .ok (n != 0)
    | none => .err .typeParse

/-- `has_password(&mut server_vars)`: removes `password` -/
def hasPassword (m : Map Bytes) : Res (Bool × Map Bytes) :=
  match mapGet m (asciiBytes "password") with
  | none => .err .packetBad
  | some v =>
    match passwordValue v with
    | .ok b => .ok (b, mapRemove m (asciiBytes "password"))
    | .err k => .err k
    | .crash => .crash

end Gd.Gs
