import GdVerif.Proto.Valve
/-
  MODEL of `games/theship/{protocol,types}.rs`: a Valve query with engine app 2400 and default gathering
  settings, then `Response::new_from_valve_response`.
-/
namespace Gd.TheShip
open Gd.Valve (ServerType Rules)

/-- `types.rs: TheShipPlayer` -/
structure Player where
  name : Bytes
  score : Int
  /-- bit pattern of the `f32` -/
  duration : Nat
  deaths : Nat
  money : Nat
  deriving Repr, DecidableEq

/-- `types.rs: Response` -/
structure Response where
  protocolVersion : Nat
  name : Bytes
  map : Bytes
  gameMode : Bytes
  gameVersion : Bytes
  players : List Player
  playersOnline : Nat
  playersMaximum : Nat
  playersBots : Nat
  serverType : ServerType
  hasPassword : Bool
  vacSecured : Bool
  port : Option Nat
  steamId : Option Nat
  tvPort : Option Nat
  tvName : Option Bytes
  keywords : Option Bytes
  rules : Rules
  mode : Nat
  witnesses : Nat
  duration : Nat
  deriving Repr, DecidableEq

/-- `TheShipPlayer::new_from_valve_player` -/
def playerOf (p : Valve.ServerPlayer) : Res Player := do
  let deaths ← okOr p.deaths .packetBad
  let money ← okOr p.money .packetBad
  pure ⟨p.name, p.score, p.duration, deaths, money⟩

/-- `.iter().map(new_from_valve_player).collect::<GDResult<Vec<_>>>()`: stops at the first error -/
def playersOf : List Valve.ServerPlayer → Res (List Player)
  | [] => .ok []
  | p :: r => do
    let x ← playerOf p
    let xs ← playersOf r
    pure (x :: xs)

/-- `Response::new_from_valve_response` (fields are evaluated in the order they are written) -/
def convert (r : Valve.Response) : Res Response := do
  let ship ← okOr r.info.theShip .packetBad
  let ps ← okOr r.players .packetBad
  let players ← playersOf ps
  let rules ← okOr r.rules .packetBad
  pure { protocolVersion := r.info.protocolVersion, name := r.info.name, map := r.info.map,
         gameMode := r.info.gameMode, gameVersion := r.info.gameVersion, players,
         playersOnline := r.info.playersOnline, playersMaximum := r.info.playersMaximum,
         playersBots := r.info.playersBots, serverType := r.info.serverType, hasPassword := r.info.hasPassword,
         vacSecured := r.info.vacSecured,
         port := r.info.extraData.bind (·.port), steamId := r.info.extraData.bind (·.steamId),
         tvPort := r.info.extraData.bind (·.tvPort), tvName := r.info.extraData.bind (·.tvName),
         keywords := r.info.extraData.bind (·.keywords),
         rules, mode := ship.mode, witnesses := ship.witnesses, duration := ship.duration }

def ENGINE : Valve.Engine := Valve.Engine.new 2400
def DEFAULT_PORT : Nat := 27015

/-- `theship::query_with_timeout` -/
def query (ext : Valve.Ext) (port retries : Nat) : Q Response := do
  let r ← Valve.query ext port ENGINE Valve.Gather.default retries
  Q.lift (convert r)

end Gd.TheShip
