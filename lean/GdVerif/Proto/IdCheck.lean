import GdVerif.Base
/-
  MODEL of the id-naming checker (`crates/id-tests/src/{lib,utils}.rs`, repaired tree), over ASCII
  names (the documented name grammar is ASCII; Rust's Unicode `is_alphabetic` / `to_lowercase` agree
  with the ASCII versions there).  `roman_numeral` is mirrored (`romanFromString`); `number_to_words`
  is a parameter (`n2w`).
-/
namespace Gd.IdCheck

def cSpace : UInt8 := 32
def cDash : UInt8 := 45
def cOpen : UInt8 := 40
def cClose : UInt8 := 41

def isWs (b : UInt8) : Bool := b == 32 || (9 ≤ b.toNat && b.toNat ≤ 13)
def isAlpha (b : UInt8) : Bool := inRange b 65 90 || inRange b 97 122
def isAlnum (b : UInt8) : Bool := isAlpha b || isDigit b

/-- `str::trim` -/
def trim (s : Bytes) : Bytes := ((s.dropWhile isWs).reverse.dropWhile isWs).reverse

/-- `str::trim_matches('-')` -/
def trimDash (s : Bytes) : Bytes := ((s.dropWhile (· == cDash)).reverse.dropWhile (· == cDash)).reverse

/-- `str::to_lowercase` (ASCII) -/
def lower (s : Bytes) : Bytes := asciiLower s

/-- `str::split_inclusive(&[' ', '-'])` -/
def splitInclusive : Bytes → List Bytes
  | [] => []
  | b :: r =>
    if b == cSpace || b == cDash then [b] :: splitInclusive r
    else match splitInclusive r with
      | [] => [[b]]
      | p :: ps => (b :: p) :: ps

/-- position-based `rsplit_once('(')`: text before the last '(' and text after it -/
def rsplitOnceOpen (s : Bytes) : Option (Bytes × Bytes) :=
  let rev := s.reverse
  let after := rev.takeWhile (· != cOpen)
  if after.length == rev.length then none
  else some ((rev.drop (after.length + 1)).reverse, after.reverse)

/-- `extract_bracketed_suffix` -/
def extractBracketedSuffix (s : Bytes) : Bytes × Option Bytes :=
  if s.getLast? == some cClose then
    match rsplitOnceOpen s.dropLast with
    | some (text, extra) => (text, some extra)
    | none => (s, none)
  else (s, none)

/-- `split_on_switch_between_alpha_numeric` -/
def splitAlphaNum : Bytes → List Bytes
  | [] => []
  | b :: r =>
    match splitAlphaNum r with
    | [] => [[b]]
    | p :: ps =>
      match p with
      | [] => [b] :: ps
      | c :: _ => if isDigit b == isDigit c then (b :: p) :: ps else [b] :: p :: ps

/-! ### `roman_numeral::RomanNumeral::from_string` -/

def romanSymbolValue (b : UInt8) : Option Nat :=
  match b.toNat with
  | 77 => some 1000 | 68 => some 500 | 67 => some 100 | 76 => some 50 | 88 => some 10 | 86 => some 5 | 73 => some 1
  | _ => none

def romanDigit (one five ten : UInt8) (d : Nat) : Bytes :=
  match d with
  | 1 => [one] | 2 => [one, one] | 3 => [one, one, one] | 4 => [one, five] | 5 => [five]
  | 6 => [five, one] | 7 => [five, one, one] | 8 => [five, one, one, one] | 9 => [one, ten]
  | _ => []

/-- canonical numeral of 1..3999 -/
def toRoman (n : Nat) : Bytes :=
  romanDigit 77 77 77 (n / 1000 % 10) ++ romanDigit 67 68 77 (n / 100 % 10) ++ romanDigit 88 76 67 (n / 10 % 10)
    ++ romanDigit 73 86 88 (n % 10)

def romanTotal : List Nat → Nat → Nat → Nat
  | [], total, _ => total
  | [v], total, minus => total + (v - minus)
  | v :: w :: r, total, minus => if v ≥ w then romanTotal (w :: r) (total + (v - minus)) 0 else romanTotal (w :: r) total v

def romanFromString (s : Bytes) : Option Nat :=
  match s.mapM romanSymbolValue with
  | none => none
  | some vs =>
    let total := romanTotal vs 0 0
    if total == 0 || total > 3999 then none
    else if toRoman total == s then some total else none

/-! ### `extract_game_parts_from_name` -/

structure Parsed where
  name : Bytes
  words : List Bytes
  optionalParts : List Bytes
  year : Option Nat
  deriving Repr, DecidableEq

def allDigits (s : Bytes) : Bool := s.all isDigit

def stripDashSuffix (w : Bytes) : Option Bytes := if w.getLast? == some cDash then some w.dropLast else none

/-- the number-combining pass (`44-` `45` → `4445`); state = the pending number -/
def combineNumbers : List Bytes → Option Bytes → List Bytes
  | [], _ => []
  | w :: r, some acc =>
    match stripDashSuffix w with
    | some num => if allDigits num then combineNumbers r (some (acc ++ num)) else acc :: w :: combineNumbers r none
    | none => if allDigits w then (acc ++ w) :: combineNumbers r none else acc :: w :: combineNumbers r none
  | w :: r, none =>
    match stripDashSuffix w with
    | some num => if allDigits num then combineNumbers r (some num) else w :: combineNumbers r none
    | none => w :: combineNumbers r none

def isBracketed (w : Bytes) : Bool := w.head? == some cOpen && w.getLast? == some cClose

def yearOf : List Bytes → Option Nat
  | [] => none
  | p :: r =>
    if p.head? == some cOpen && p.getLast? == some cClose && p.length ≥ 2 then
      match parseUnsigned 16 (p.drop 1).dropLast with
      | some y => some y
      | none => yearOf r
    else match parseUnsigned 16 p with
      | some y => some y
      | none => yearOf r

def extractParts (game : Bytes) : Parsed :=
  let (game, paren) := extractBracketedSuffix game
  let pieces := (splitInclusive game).map trim
  let bracketed := pieces.filter isBracketed
  let optional := paren.toList ++ bracketed
  let plain := pieces.filter (fun w => !isBracketed w)
  let cleaned := plain.map (fun w => w.filter (fun c => isDigit c || isAlpha c || c == cDash))
  let nonEmpty := cleaned.filter (fun w => !(trimDash w).isEmpty)
  { name := game, words := combineNumbers nonEmpty none, optionalParts := optional, year := yearOf optional }

/-! ### `test_game_name_rule` -/

inductive Rule
  | lowerCase | numbersOwnWord | firstWordNumber | lastWordNumber | roman | twoWords | acronym
  | dupYear | dupProtocol | dupNoAcronym | modOnly | noDuplicates
  deriving Repr, DecidableEq

structure Fail where
  gameId : Bytes
  gameName : Bytes
  expectedId : Bytes
  rules : List Rule
  deriving Repr, DecidableEq

/-- `seen_ids: HashMap<String, Vec<String>>` -/
abbrev Seen := List (Bytes × List Bytes)

def seenGet (s : Seen) (k : Bytes) : Option (List Bytes) := s.lookup k
def seenInsert (s : Seen) (k : Bytes) (v : List Bytes) : Seen × Bool :=
  match s.lookup k with
  | some _ => (s.map (fun p => if p.1 == k then (k, v) else p), true)
  | none => (s ++ [(k, v)], false)

structure Ext where
  /-- `number_to_words(n as f64, false)` -/
  n2w : Nat → Bytes

def joinFull (words : List Bytes) : Bytes := (words.map trimDash).flatten

/-- words after the roman / number-splitting / first-number / last-number passes, the suffix, the rule stack so far -/
structure Prepared where
  words : List Bytes
  suffix : Bytes
  rules : List Rule
  deriving Repr, DecidableEq

def romanPass : List Bytes → List Bytes × List Rule
  | [] => ([], [])
  | first :: rest =>
    let conv := rest.map fun w => match romanFromString w with
      | some n => (natDec n, true)
      | none => (w, false)
    (first :: conv.map (·.1), (conv.filter (·.2)).map fun _ => Rule.roman)

/-- if the first word is a number, spell it out (`words[0].chars().next().unwrap()`: an empty first
word would panic) -/
def firstNumberPass (ext : Ext) (w2 : List Bytes) : Res (List Bytes × List Rule) :=
  match w2 with
  | [] => .ok ([], [])
  | [] :: _ => .crash
  | (c :: cs) :: rest =>
    if isDigit c then .ok (ext.n2w (digitsVal (c :: cs)) :: rest, [Rule.firstWordNumber]) else .ok ((c :: cs) :: rest, [])

/-- if the last word is a number it becomes the suffix -/
def lastNumberPass (w3 : List Bytes) : List Bytes × Bytes × List Rule :=
  match w3.getLast? with
  | some last => if allDigits last then (w3.dropLast, last, [Rule.lastWordNumber]) else (w3, [], [])
  | none => (w3, [], [])

def prepare (ext : Ext) (words : List Bytes) (isMod : Bool) : Res Prepared :=
  let rules0 : List Rule := if isMod then [.modOnly] else []
  let rp := romanPass words
  let split := rp.1.map splitAlphaNum
  let r2 := (split.filter (fun n => n.length > 1)).map fun _ => Rule.numbersOwnWord
  match firstNumberPass ext split.flatten with
  | .crash => .crash
  | .err k => .err k
  | .ok (w3, r3) =>
    let lp := lastNumberPass w3
    .ok ⟨lp.1, lp.2.1, rules0 ++ rp.2 ++ r2 ++ r3 ++ lp.2.2⟩

def mainPart (words : List Bytes) : Res (Bytes × Rule) :=
  if words.length ≤ 2 then .ok (joinFull words, .twoWords)
  else
    match words.mapM (fun w => w.head?) with
    | none => .crash        -- `chars().next().unwrap()` on an empty word
    | some firsts => .ok (firsts.filter isAlnum, .acronym)

def sameWords (a b : List Bytes) : Bool := a.length == b.length && (List.zip a b).all fun p => lower p.1 == lower p.2

/-- the expected id given what has been seen so far -/
def expectedWith (seen : Seen) (p : Prepared) (g : Parsed) (main : Bytes) : Bytes × List Rule :=
  let e0 := lower (main ++ p.suffix)
  let (e1, r1) : Bytes × List Rule :=
    match seenGet seen e0 with
    | some other =>
      if sameWords p.words other then
        match g.year with
        | some y => (lower (e0 ++ natDec y), [.dupYear])
        | none =>
          match g.optionalParts.head? with
          | some proto => (e0 ++ ((extractParts proto).words).flatten, [.dupProtocol])
          | none => (e0, [])
      else (e0, [])
    | none => (e0, [])
  if (seenGet seen e1).isSome then (lower (joinFull p.words ++ p.suffix), r1 ++ [.dupNoAcronym]) else (e1, r1)

/-- text after the first '-' of a name (`split_once('-')`) -/
def afterDash : Bytes → Option Bytes
  | [] => none
  | b :: r => if b == cDash then some r else afterDash r

/-- `test_game_name_rule` for a name without further recursion (`is_mod_name = true`, or no mod part) -/
def checkFlat (ext : Ext) (seen : Seen) (id : Bytes) (g : Parsed) (isMod : Bool) : Res (List Fail × Seen × Bytes) :=
  match prepare ext g.words isMod with
  | .crash => .crash
  | .err k => .err k
  | .ok p =>
    match mainPart p.words with
    | .crash => .crash
    | .err k => .err k
    | .ok (main, mainRule) =>
      let (expected, r) := expectedWith seen p g main
      let lowerFail := if lower id != id then [Fail.mk id g.name (lower id) [.lowerCase]] else []
      let (seen', dup) := seenInsert seen expected p.words
      let rules := p.rules ++ [mainRule] ++ r ++ (if dup then [.noDuplicates] else [])
      .ok (lowerFail ++ (if id != expected || dup then [Fail.mk id g.name expected rules] else []), seen', expected)

/-- rule 8: when the id is not the expected one and the name has a `-`, the part after the first `-`
is checked as a mod name; `none` = not attempted -/
def modAttempt (ext : Ext) (seen : Seen) (id : Bytes) (g : Parsed) (expected : Bytes) : Res (Option (List Fail × Seen)) :=
  if id != expected then
    match afterDash g.name with
    | some modName =>
      match checkFlat ext seen id (extractParts modName) true with
      | .ok (fails, seen', _) => .ok (some (fails, seen'))
      | .err k => .err k
      | .crash => .crash
    | none => .ok none
  else .ok none

/-- the tail of `test_game_name_rule` once the mod attempt is known -/
def finishRule (seen : Seen) (id : Bytes) (g : Parsed) (p : Prepared) (mainRule : Rule) (expected : Bytes) (r : List Rule)
    (modRes : Option (List Fail × Seen)) : List Fail × Seen :=
  match modRes with
  | some ([], seen') => ([], seen')
  | _ =>
    let lowerFail := if lower id != id then [Fail.mk id g.name (lower id) [.lowerCase]] else []
    let (modFails, seen1) := match modRes with
      | some (f, s) => (f, s)
      | none => ([], seen)
    let (seen2, dup) := seenInsert seen1 expected p.words
    let rules := p.rules ++ [mainRule] ++ r ++ (if dup then [.noDuplicates] else [])
    (lowerFail ++ modFails ++ (if id != expected || dup then [Fail.mk id g.name expected rules] else []), seen2)

/-- `test_game_name_rule(seen, id, game, false)` -/
def checkRule (ext : Ext) (seen : Seen) (id : Bytes) (g : Parsed) : Res (List Fail × Seen) :=
  match prepare ext g.words false with
  | .crash => .crash
  | .err k => .err k
  | .ok p =>
    match mainPart p.words with
    | .crash => .crash
    | .err k => .err k
    | .ok (main, mainRule) =>
      let er := expectedWith seen p g main
      match modAttempt ext seen id g er.1 with
      | .crash => .crash
      | .err k => .err k
      | .ok modRes => .ok (finishRule seen id g p mainRule er.1 er.2 modRes)

/-- insertion sort by (year, name length), stable — `sort_by(year.cmp().then(name.len().cmp()))` -/
def gameLe (a b : Bytes × Parsed) : Bool :=
  match a.2.year, b.2.year with
  | none, some _ => true
  | some _, none => false
  | none, none => a.2.name.length ≤ b.2.name.length
  | some x, some y => x < y || (x == y && a.2.name.length ≤ b.2.name.length)

def insertGame (x : Bytes × Parsed) : List (Bytes × Parsed) → List (Bytes × Parsed)
  | [] => [x]
  | y :: r => if gameLe y x then y :: insertGame x r else x :: y :: r

def sortGames (l : List (Bytes × Parsed)) : List (Bytes × Parsed) := l.foldl (fun acc x => insertGame x acc) []

def checkAllFrom (ext : Ext) : List (Bytes × Parsed) → Seen → Res (List Fail)
  | [], _ => .ok []
  | (id, g) :: r, seen =>
    match checkRule ext seen id g with
    | .crash => .crash
    | .err k => .err k
    | .ok (fails, seen') =>
      match checkAllFrom ext r seen' with
      | .ok more => .ok (fails ++ more)
      | e => e

/-- `test_game_name_rules` -/
def checkAll (ext : Ext) (games : List (Bytes × Bytes)) : Res (List Fail) :=
  checkAllFrom ext (sortGames (games.map fun (id, name) => (id, extractParts name))) []

/-- `test_single_game_rule` -/
def checkOne (ext : Ext) (id name : Bytes) : Res (List Fail) := checkAll ext [(id, name)]

end Gd.IdCheck
