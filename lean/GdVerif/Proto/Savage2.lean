import GdVerif.Net
/-
  MODEL of `games/savage2/{protocol,types}.rs`.
-/
namespace Gd.Savage2

/-- `types.rs: Response` -/
structure Response where
  name : Bytes
  playersOnline : Nat
  playersMaximum : Nat
  playersMinimum : Nat
  time : Bytes
  map : Bytes
  nextMap : Bytes
  location : Bytes
  gameMode : Bytes
  protocolVersion : Bytes
  levelMinimum : Nat
  deriving Repr, DecidableEq

/-- the reads of `query_with_timeout` (struct fields are evaluated in the order they are written) -/
def parseResponse : Par Response := do
  moveCursor 12
  let name ← readCStr
  let playersOnline ← readU8
  let playersMaximum ← readU8
  let time ← readCStr
  let map ← readCStr
  let nextMap ← readCStr
  let location ← readCStr
  let playersMinimum ← readU8
  let gameMode ← readCStr
  let protocolVersion ← readCStr
  let levelMinimum ← readU8
  pure { name, playersOnline, playersMaximum, playersMinimum, time, map, nextMap, location, gameMode,
         protocolVersion, levelMinimum }

def request : Bytes := [0x01]

def DEFAULT_PORT : Nat := 11235

/-- `savage2::query_with_timeout` (no retry: the retry count of the settings is not used) -/
def query (port : Nat) : Q Response := do
  let s ← openSock false port
  send s request
  let data ← recv s none
  parse parseResponse data

end Gd.Savage2
