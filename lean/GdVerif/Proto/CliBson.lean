import GdVerif.Base
/-
  MODEL of the BSON document the command-line tool prints for `bson-hex` / `bson-base64`
  (`crates/cli/src/main.rs`: `bson::to_vec(&result)`, the `bson` crate's raw serialiser,
  `bson-2.15.0/src/ser/raw/{mod,document_serializer}.rs`, `ser/mod.rs::write_string / write_cstring`)
  over the value serde hands to the serialiser, and a DECODER written from the BSON specification
  (bsonspec.org, version 1.1) for the element types the serialiser can produce from such a value.

  The crate is external: `encV` mirrors, byte for byte, what its raw serialiser writes
  (document = int32 total length, elements `type byte, cstring key, value`, terminating 0x00; arrays as
  documents whose keys are the decimal indices; string = int32 length including the NUL, bytes, NUL;
  i8 / i16 / i32 / u8 / u16 → int32, u32 / i64 → int64, u64 → int64 or the error
  `UnsignedIntegerExceededRange` above i64::MAX; f32 arrives already widened; a key containing NUL → the error
  `InvalidCString`; lengths are written with `as i32`, i.e. modulo 2^32).  The correspondence check runs
  `encode` / `decode` against the real crate (driver entries `bson-enc` / `bson-dec`).
-/
namespace Gd.Cli

/-- the Rust integer types serde distinguishes (`serialize_i8` … `serialize_u64`) -/
inductive IntKind
  | i8 | i16 | i32 | i64 | u8 | u16 | u32 | u64
  deriving Repr, DecidableEq

/-- smallest value of the type -/
def IntKind.lo : IntKind → Int
  | .i8 => -128 | .i16 => -32768 | .i32 => -2147483648 | .i64 => -9223372036854775808
  | _ => 0

/-- largest value of the type -/
def IntKind.hi : IntKind → Int
  | .i8 => 127 | .i16 => 32767 | .i32 => 2147483647 | .i64 => 9223372036854775807
  | .u8 => 255 | .u16 => 65535 | .u32 => 4294967295 | .u64 => 18446744073709551615

/-- the serialiser writes the BSON int64 for this type (`serialize_u32`, `serialize_i64`, `serialize_u64`); the others go
through `serialize_i32` -/
def IntKind.wide : IntKind → Bool
  | .i64 | .u32 | .u64 => true
  | _ => false

/-- a number as serde hands it over -/
inductive Num
  | int (k : IntKind) (v : Int)
  /-- `serialize_f64` (and `serialize_f32` after `f64::from`): the IEEE-754 bit pattern -/
  | f64 (bits : Nat)
  deriving Repr, DecidableEq

/-- the value is a value of its Rust type -/
def Num.typed : Num → Bool
  | .int k v => decide (k.lo ≤ v) && decide (v ≤ k.hi)
  | .f64 bits => decide (bits < 2 ^ 64)

def i64Max : Int := 9223372036854775807

/-- `i64::try_from(v)` fails: the one number the serialiser refuses -/
def Num.refused : Num → Bool
  | .int .u64 v => decide (i64Max < v)
  | _ => false

mutual
  /-- the serde data model, as far as the tool's responses use it (structs and maps are both `doc`, sequences and tuples
  `arr`, `None` and unit `null`, unit variants `str`, newtype variants a one-member `doc`) -/
  inductive V
    | null
    | bool (b : Bool)
    | num (n : Num)
    | str (s : Bytes)
    | arr (items : VList)
    | doc (members : VMembers)
  inductive VList
    | nil
    | cons (head : V) (tail : VList)
  inductive VMembers
    | nil
    | cons (key : Bytes) (value : V) (tail : VMembers)
end

/-! ### the serialiser -/

inductive BsonErr
  /-- `Error::UnsignedIntegerExceededRange` -/
  | unsignedRange
  /-- `Error::InvalidCString`: a key with a NUL in it -/
  | nulKey
  /-- "attempted to encode a non-document type at the top level" -/
  | notDocument
  deriving Repr, DecidableEq

/-- `ElementType` of a number -/
def Num.tag : Num → UInt8
  | .int k _ => if k.wide then 0x12 else 0x10
  | .f64 _ => 0x01

/-- `write_i32` / `write_i64` / `write_f64`: little endian, two's complement -/
def encNum : Num → Bytes
  | .int k v => if k.wide then natLE 8 (ofSigned 64 v) else natLE 4 (ofSigned 32 v)
  | .f64 bits => natLE 8 bits

/-- the element type byte (`update_element_type`) -/
def V.tag : V → UInt8
  | .null => 0x0A
  | .bool _ => 0x08
  | .num n => n.tag
  | .str _ => 0x02
  | .arr _ => 0x04
  | .doc _ => 0x03

mutual
  /-- the bytes of a value after its key (`DocumentSerializer::start` writes a placeholder length, `end_doc` the
  terminator and then the length `(bytes.len() - start) as i32`: `natLE 4` takes it modulo 2^32 likewise) -/
  def encV : V → Bytes
    | .null => []
    | .bool b => [if b then 1 else 0]
    | .num n => encNum n
    | .str s => natLE 4 (s.length + 1) ++ s ++ [0]
    | .arr items => natLE 4 ((encItems 0 items).length + 5) ++ encItems 0 items ++ [0]
    | .doc ms => natLE 4 ((encMembers ms).length + 5) ++ encMembers ms ++ [0]
  /-- `SerializeSeq::serialize_element`: the key is `write!("{}", index)` -/
  def encItems (i : Nat) : VList → Bytes
    | .nil => []
    | .cons h t => h.tag :: (natDec i ++ [0] ++ encV h ++ encItems (i + 1) t)
  /-- `SerializeMap::serialize_entry` / `SerializeStruct::serialize_field` -/
  def encMembers : VMembers → Bytes
    | .nil => []
    | .cons k v t => v.tag :: (k ++ [0] ++ encV v ++ encMembers t)
end

mutual
  /-- the first error the serialiser meets, in the order it walks the value (key before value, members in order) -/
  def V.firstErr : V → Option BsonErr
    | .num n => if n.refused then some .unsignedRange else none
    | .arr items => VList.firstErr items
    | .doc ms => VMembers.firstErr ms
    | _ => none
  def VList.firstErr : VList → Option BsonErr
    | .nil => none
    | .cons h t => match V.firstErr h with
      | some e => some e
      | none => VList.firstErr t
  def VMembers.firstErr : VMembers → Option BsonErr
    | .nil => none
    | .cons k v t =>
      if (0 : UInt8) ∈ k then some .nulKey
      else match V.firstErr v with
        | some e => some e
        | none => VMembers.firstErr t
end

/-- `bson::to_vec(&value)` -/
def bsonEncode (v : V) : Except BsonErr Bytes :=
  match v with
  | .doc ms =>
    match VMembers.firstErr ms with
    | some e => .error e
    | none => .ok (encV (.doc ms))
  | .arr items =>
    -- the element type is set when the sequence starts: the items are never looked at
    .error .notDocument
  | .num n => if n.refused then .error .unsignedRange else .error .notDocument
  | _ => .error .notDocument

/-! ### what the decoder gives back: the BSON types, not the Rust ones -/

/-- the number as BSON holds it -/
def Num.canon : Num → Num
  | .int k v => if k.wide then .int .i64 v else .int .i32 v
  | .f64 bits => .f64 bits

mutual
  def V.canon : V → V
    | .num n => .num n.canon
    | .arr items => .arr (VList.canon items)
    | .doc ms => .doc (VMembers.canon ms)
    | v => v
  def VList.canon : VList → VList
    | .nil => .nil
    | .cons h t => .cons (V.canon h) (VList.canon t)
  def VMembers.canon : VMembers → VMembers
    | .nil => .nil
    | .cons k v t => .cons k (V.canon v) (VMembers.canon t)
end

/-! ### the reader (bsonspec.org) -/

/-- `cstring ::= (byte*) "\x00"` -/
def readCStr : Bytes → Option (Bytes × Bytes)
  | [] => none
  | b :: r => if b = 0 then some ([], r) else (readCStr r).map fun (s, rest) => (b :: s, rest)

/-- four bytes, little endian -/
def split4 : Bytes → Option (Nat × Bytes)
  | a :: b :: c :: d :: r => some (leNat [a, b, c, d], r)
  | _ => none

/-- eight bytes, little endian -/
def split8 : Bytes → Option (Nat × Bytes)
  | a :: b :: c :: d :: e :: f :: g :: h :: r => some (leNat [a, b, c, d, e, f, g, h], r)
  | _ => none

mutual
  /-- the value of an element of type `t`.  Fuel: one unit per value and per element of a document -/
  def readBVal : Nat → UInt8 → Bytes → Option (V × Bytes)
    | 0, _, _ => none
    | f + 1, t, inp =>
      if t = 0x0A then some (.null, inp)
      else if t = 0x08 then
        match inp with
        | [] => none
        | b :: r => if b = 0 then some (.bool false, r) else if b = 1 then some (.bool true, r) else none
      else if t = 0x10 then
        match split4 inp with
        | none => none
        | some (n, r) => some (.num (.int .i32 (toSigned 32 n)), r)
      else if t = 0x12 then
        match split8 inp with
        | none => none
        | some (n, r) => some (.num (.int .i64 (toSigned 64 n)), r)
      else if t = 0x01 then
        match split8 inp with
        | none => none
        | some (n, r) => some (.num (.f64 n), r)
      else if t = 0x02 then
        -- string ::= int32 (byte*) "\x00", the int32 counting the bytes and the NUL
        match split4 inp with
        | none => none
        | some (n, r) =>
          if n = 0 ∨ 2 ^ 31 ≤ n ∨ r.length < n then none
          else
            match r.drop (n - 1) with
            | [] => none
            | z :: rest => if z = 0 ∧ validUtf8 (r.take (n - 1)) = true then some (.str (r.take (n - 1)), rest) else none
      else if t = 0x03 then
        -- document ::= int32 e_list "\x00", the int32 counting every byte of the document, itself included
        match split4 inp with
        | none => none
        | some (n, r) =>
          match readBElems f r with
          | none => none
          | some (ms, rest) => if rest.length + n = r.length + 4 then some (.doc ms, rest) else none
      else if t = 0x04 then
        match split4 inp with
        | none => none
        | some (n, r) =>
          match readBItems f r with
          | none => none
          | some (items, rest) => if rest.length + n = r.length + 4 then some (.arr items, rest) else none
      else none
  /-- `e_list` and the terminator of its document -/
  def readBElems : Nat → Bytes → Option (VMembers × Bytes)
    | 0, _ => none
    | _ + 1, [] => none
    | f + 1, t :: r =>
      if t = 0 then some (.nil, r)
      else
        match readCStr r with
        | none => none
        | some (k, r2) =>
          if validUtf8 k = true then
            match readBVal f t r2 with
            | none => none
            | some (v, r3) =>
              match readBElems f r3 with
              | none => none
              | some (ms, rest) => some (.cons k v ms, rest)
          else none
  /-- the same for an array: the keys are read and dropped (the specification asks writers for "0", "1", …; readers go by
  position) -/
  def readBItems : Nat → Bytes → Option (VList × Bytes)
    | 0, _ => none
    | _ + 1, [] => none
    | f + 1, t :: r =>
      if t = 0 then some (.nil, r)
      else
        match readCStr r with
        | none => none
        | some (k, r2) =>
          if validUtf8 k = true then
            match readBVal f t r2 with
            | none => none
            | some (v, r3) =>
              match readBItems f r3 with
              | none => none
              | some (items, rest) => some (.cons v items, rest)
          else none
end

/-- a whole document and nothing after it (fuel: the length of the text; a value has no more nodes than its encoding
has bytes, so the bound rejects nothing) -/
def bsonDecode (doc : Bytes) : Option V :=
  match readBVal (doc.length + 1) 0x03 doc with
  | some (v, rest) => if rest.isEmpty then some v else none
  | none => none

/-! ### side conditions of the theorems -/

mutual
  /-- every number is a value of its Rust type, every string and key is UTF-8 (Rust `String`s are) -/
  def V.typed : V → Bool
    | .num n => n.typed
    | .str s => validUtf8 s
    | .arr items => VList.typed items
    | .doc ms => VMembers.typed ms
    | _ => true
  def VList.typed : VList → Bool
    | .nil => true
    | .cons h t => V.typed h && VList.typed t
  def VMembers.typed : VMembers → Bool
    | .nil => true
    | .cons k v t => validUtf8 k && V.typed v && VMembers.typed t
end

mutual
  /-- every length the serialiser writes fits BSON's int32 (the crate does not check: it writes the length modulo 2^32) -/
  def V.small : V → Bool
    | .str s => decide (s.length + 1 < 2 ^ 31)
    | .arr items => decide ((encItems 0 items).length + 5 < 2 ^ 31) && VList.small items
    | .doc ms => decide ((encMembers ms).length + 5 < 2 ^ 31) && VMembers.small ms
    | _ => true
  def VList.small : VList → Bool
    | .nil => true
    | .cons h t => V.small h && VList.small t
  def VMembers.small : VMembers → Bool
    | .nil => true
    | .cons _ v t => V.small v && VMembers.small t
end

mutual
  /-- what the serialiser can write: no `u64` above `i64::MAX`, no NUL in a key -/
  def V.encodable : V → Bool
    | .num n => !n.refused
    | .arr items => VList.encodable items
    | .doc ms => VMembers.encodable ms
    | _ => true
  def VList.encodable : VList → Bool
    | .nil => true
    | .cons h t => V.encodable h && VList.encodable t
  def VMembers.encodable : VMembers → Bool
    | .nil => true
    | .cons k v t => !decide ((0 : UInt8) ∈ k) && V.encodable v && VMembers.encodable t
end

/-- the number is held in one of BSON's own types -/
def Num.isBson : Num → Bool
  | .int .i32 _ => true
  | .int .i64 _ => true
  | .f64 _ => true
  | _ => false

mutual
  /-- a value as a BSON reader gives it: int32 / int64 / double are the only numbers -/
  def V.isBson : V → Bool
    | .num n => n.isBson
    | .arr items => VList.isBson items
    | .doc ms => VMembers.isBson ms
    | _ => true
  def VList.isBson : VList → Bool
    | .nil => true
    | .cons h t => V.isBson h && VList.isBson t
  def VMembers.isBson : VMembers → Bool
    | .nil => true
    | .cons _ v t => V.isBson v && VMembers.isBson t
end

/-! ### the layout, as the specification words it -/

mutual
  /-- `payload` is the value part of an element of type `t` (bsonspec.org): every int32 length field holds exactly the
  number of bytes it is defined to span, documents and arrays end with 0x00 and hold well-formed element lists -/
  inductive WfVal : UInt8 → Bytes → Prop
    | null : WfVal 0x0A []
    | bool (b : UInt8) : b = 0 ∨ b = 1 → WfVal 0x08 [b]
    | int32 (bs : Bytes) : bs.length = 4 → WfVal 0x10 bs
    | int64 (bs : Bytes) : bs.length = 8 → WfVal 0x12 bs
    | double (bs : Bytes) : bs.length = 8 → WfVal 0x01 bs
    /-- `string ::= int32 (byte*) "\x00"`, the int32 = number of bytes + 1 -/
    | str (s : Bytes) : s.length + 1 < 2 ^ 31 → WfVal 0x02 (natLE 4 (s.length + 1) ++ s ++ [0])
    /-- `document ::= int32 e_list "\x00"`, the int32 = the number of bytes of the whole document -/
    | doc (body : Bytes) : WfElems body → body.length + 5 < 2 ^ 31 → WfVal 0x03 (natLE 4 (4 + body.length + 1) ++ body ++ [0])
    | arr (body : Bytes) : WfElems body → body.length + 5 < 2 ^ 31 → WfVal 0x04 (natLE 4 (4 + body.length + 1) ++ body ++ [0])
  /-- `e_list ::= element e_list | ""`, `element ::= type e_name value`, `e_name ::= cstring` -/
  inductive WfElems : Bytes → Prop
    | nil : WfElems []
    | cons (t : UInt8) (k payload rest : Bytes) : (0 : UInt8) ∉ k → WfVal t payload → WfElems rest →
        WfElems (t :: (k ++ [0] ++ payload ++ rest))
end

mutual
  /-- the fuel the reader needs -/
  def V.cost : V → Nat
    | .arr items => 1 + VList.cost items
    | .doc ms => 1 + VMembers.cost ms
    | _ => 1
  def VList.cost : VList → Nat
    | .nil => 1
    | .cons h t => 1 + V.cost h + VList.cost t
  def VMembers.cost : VMembers → Nat
    | .nil => 1
    | .cons _ v t => 1 + V.cost v + VMembers.cost t
end

end Gd.Cli
