import GdVerif.Base
/-
  MODEL of `games/eco/types.rs`: the `Info` document (what serde deserialises from the `Info` member of the
  `/frontpage` JSON) and `impl From<Root> for Response`.  Only this pure part is modelled; `ureq` (HTTP) and the
  serde / serde_json derive machinery (JSON text → `Info`, member names) are parameters: the driver mirrors
  serde_json for the correspondence check, no theorem depends on that mirror.
  `f64` values are carried as their bit patterns.
-/
namespace Gd.Eco

/-- `types.rs: Info` (fields in declaration order; the JSON member name is in the comment) -/
structure Info where
  /-- `External` -/
  external : Bool
  /-- `GamePort` -/
  gamePort : Nat
  /-- `WebPort` -/
  webPort : Nat
  /-- `IsLAN` -/
  isLan : Bool
  /-- `Description` -/
  description : Bytes
  /-- `DetailedDescription` -/
  detailedDescription : Bytes
  /-- `Category` -/
  category : Bytes
  /-- `OnlinePlayers` -/
  onlinePlayers : Nat
  /-- `TotalPlayers` -/
  totalPlayers : Nat
  /-- `OnlinePlayersNames` -/
  onlinePlayersNames : List Bytes
  /-- `AdminOnline` -/
  adminOnline : Bool
  /-- `TimeSinceStart` -/
  timeSinceStart : Nat
  /-- `TimeLeft` -/
  timeLeft : Nat
  /-- `Animals` -/
  animals : Nat
  /-- `Plants` -/
  plants : Nat
  /-- `Laws` -/
  laws : Nat
  /-- `WorldSize` -/
  worldSize : Bytes
  /-- `Version` -/
  version : Bytes
  /-- `EconomyDesc` -/
  economyDesc : Bytes
  /-- `SkillSpecializationSetting` -/
  skillSpecializationSetting : Bytes
  /-- `Language` -/
  language : Bytes
  /-- `HasPassword` -/
  hasPassword : Bool
  /-- `HasMeteor` -/
  hasMeteor : Bool
  /-- `DistributionStationItems` -/
  distributionStationItems : Bytes
  /-- `Playtimes` -/
  playtimes : Bytes
  /-- `DiscordAddress` -/
  discordAddress : Bytes
  /-- `IsPaused` -/
  isPaused : Bool
  /-- `ActiveAndOnlinePlayers` -/
  activeAndOnlinePlayers : Nat
  /-- `PeakActivePlayers` -/
  peakActivePlayers : Nat
  /-- `MaxActivePlayers` -/
  maxActivePlayers : Nat
  /-- `ShelfLifeMultiplier` -/
  shelfLifeMultiplier : Nat
  /-- `ExhaustionAfterHours` -/
  exhaustionAfterHours : Nat
  /-- `IsLimitingHours` -/
  isLimitingHours : Bool
  /-- `ServerAchievementsDict` -/
  serverAchievementsDict : List (Bytes × Bytes)
  /-- `RelayAddress` -/
  relayAddress : Bytes
  /-- `Access` -/
  access : Bytes
  /-- `JoinUrl` -/
  joinUrl : Bytes
  deriving Repr, DecidableEq

/-- `types.rs: Player` -/
structure Player where
  name : Bytes
  deriving Repr, DecidableEq

/-- `types.rs: Response` (fields in declaration order) -/
structure Response where
  external : Bool
  port : Nat
  queryPort : Nat
  isLan : Bool
  description : Bytes
  descriptionDetailed : Bytes
  descriptionEconomy : Bytes
  category : Bytes
  playersOnline : Nat
  playersMaximum : Nat
  players : List Player
  adminOnline : Bool
  timeSinceStart : Nat
  timeLeft : Nat
  animals : Nat
  plants : Nat
  laws : Nat
  worldSize : Bytes
  gameVersion : Bytes
  skillSpecializationSetting : Bytes
  language : Bytes
  hasPassword : Bool
  hasMeteor : Bool
  distributionStationItems : Bytes
  playtimes : Bytes
  discordAddress : Bytes
  isPaused : Bool
  activeAndOnlinePlayers : Nat
  peakActivePlayers : Nat
  maxActivePlayers : Nat
  shelfLifeMultiplier : Nat
  exhaustionAfterHours : Nat
  isLimitingHours : Bool
  serverAchievementsDict : List (Bytes × Bytes)
  relayAddress : Bytes
  access : Bytes
  connect : Bytes
  deriving Repr, DecidableEq

/-- `impl From<Root> for Response` (`value = root.info`) -/
def fromRoot (value : Info) : Response :=
  {
    external := value.external,
    port := value.gamePort,
    queryPort := value.webPort,
    isLan := value.isLan,
    description := value.description,
    descriptionDetailed := value.detailedDescription,
    descriptionEconomy := value.economyDesc,
    category := value.category,
    playersOnline := value.onlinePlayers,
    playersMaximum := value.totalPlayers,
    players := value.onlinePlayersNames.map fun player => ⟨player⟩,
    adminOnline := value.adminOnline,
    timeSinceStart := value.timeSinceStart,
    timeLeft := value.timeLeft,
    animals := value.animals,
    plants := value.plants,
    laws := value.laws,
    worldSize := value.worldSize,
    gameVersion := value.version,
    skillSpecializationSetting := value.skillSpecializationSetting,
    language := value.language,
    hasPassword := value.hasPassword,
    hasMeteor := value.hasMeteor,
    distributionStationItems := value.distributionStationItems,
    playtimes := value.playtimes,
    discordAddress := value.discordAddress,
    isPaused := value.isPaused,
    activeAndOnlinePlayers := value.activeAndOnlinePlayers,
    peakActivePlayers := value.peakActivePlayers,
    maxActivePlayers := value.maxActivePlayers,
    shelfLifeMultiplier := value.shelfLifeMultiplier,
    exhaustionAfterHours := value.exhaustionAfterHours,
    isLimitingHours := value.isLimitingHours,
    serverAchievementsDict := value.serverAchievementsDict,
    relayAddress := value.relayAddress,
    access := value.access,
    connect := value.joinUrl }

/-- the path of the document and the default port of `eco::query` -/
def PATH : String := "/frontpage"
def DEFAULT_PORT : Nat := 3001

end Gd.Eco
