import GdVerif.Net
/-
  MODEL of `protocols/unreal2/{protocol,types}.rs` (repaired tree: the Latin-1 branch of the string
  decoder honours the length byte, both branches are bounds-checked and decode without BOM sniffing,
  a colour escape is ESC + 3 characters whatever they are, `query_players` reports the failure of its
  first request, no debug print).

  Statement for statement; every Rust line that could panic is either a checked operation in the
  repaired code (`data.get(..)`, `Buffer::read`, `move_cursor`) and an `err` here, or — the loops — a
  fuel-0 `crash` branch that `Lemmas/Unreal2Safe.lean` proves unreachable.
-/
namespace Gd.Unreal2

/-- `PACKET_SIZE` -/
def PACKET_SIZE : Nat := 1024

/-! ### `Unreal2StringDecoder::decode_string` -/

/-- The colour filter: `char_skip` characters still to drop; ESC starts an escape of ESC + 3. -/
def colourFilter : Nat → List Nat → List Nat
  | _, [] => []
  | skip, c :: r =>
    if skip > 0 then colourFilter (skip - 1) r
    else if c == 0x1b then colourFilter 3 r
    else c :: colourFilter 0 r

/-- `c > '\x00' && c <= '\x1a'` -/
def isCtl (c : Nat) : Bool := 0 < c && c ≤ 0x1a

/-- `trim_matches('\0')` -/
def trimNul (cs : List Nat) : List Nat :=
  ((cs.dropWhile (· == 0)).reverse.dropWhile (· == 0)).reverse

/-- everything after the bytes have become characters: colour strip, control strip, NUL trim; the
result is a Rust `String`, i.e. UTF-8 -/
def cleanText (cs : List Nat) : Bytes :=
  utf8Encode (trimNul ((colourFilter 0 cs).filter (fun c => !isCtl c)))

/-- the optional stray `0x01` after a UCS-2 length byte: `data[start ..].first() == Some(&1)` -/
def strayOf (body : Bytes) : Nat := if body.head? == some 1 then 1 else 0

/-- the UCS-2 branch on the bytes after the length byte and the stray byte: `length` bytes of
UTF-16LE; ill-formed UTF-16 (`had_errors`) is `PacketBad` -/
def ucs2Part (length stray : Nat) (body : Bytes) : Res (Bytes × Nat) :=
  if body.length < length then .err .packetBad
  else
    match utf16Decode (unitsOf .little (body.take length)) with
    | none => .err .packetBad
    | some cs => .ok (cleanText cs, 1 + stray + length)

/-- the Latin-1 branch on the bytes after the length byte (windows-1252 as encoding_rs decodes it:
never an error) -/
def latin1Part (length : Nat) (body : Bytes) : Res (Bytes × Nat) :=
  if body.length < length then .err .packetBad
  else .ok (cleanText (cp1252Decode (body.take length)), 1 + length)

/-- `decode_string(data, cursor, _)`: the text and `start + length`, the bytes consumed.
`data.get(a .. b)` is `none` (→ `PacketBad`) exactly when `b > data.len()`. -/
def u2Dec (sl : Bytes) : Res (Bytes × Nat) :=
  match sl with
  | [] => .err .packetBad
  | l :: body =>
    if l.toNat ≥ 0x80 then ucs2Part ((l.toNat % 0x80) * 2) (strayOf body) (body.drop (strayOf body))
    else latin1Part l.toNat body

/-- `buffer.read_string::<Unreal2StringDecoder>(None)` -/
def readU2Str : Par Bytes := readStringWith u2Dec

/-! ### types -/

inductive PacketKind | serverInfo | mutatorsAndRules | players
  deriving Repr, DecidableEq

def PacketKind.code : PacketKind → Nat
  | .serverInfo => 0 | .mutatorsAndRules => 1 | .players => 2

/-- `PacketKind::try_from(u8)` -/
def packetKindOf (n : Nat) : Res PacketKind :=
  match n with
  | 0 => .ok .serverInfo
  | 1 => .ok .mutatorsAndRules
  | 2 => .ok .players
  | _ => .err .packetBad

structure ServerInfo where
  serverId : Nat
  ip : Bytes
  gamePort : Nat
  queryPort : Nat
  name : Bytes
  map : Bytes
  gameType : Bytes
  numPlayers : Nat
  maxPlayers : Nat
  password : Bool
  deriving Repr, DecidableEq

structure Player where
  id : Nat
  name : Bytes
  ping : Nat
  score : Int
  statsId : Nat
  deriving Repr, DecidableEq

/-- `HashMap<String, Vec<String>>` as an association list in order of first insertion -/
abbrev RuleMap := List (Bytes × List Bytes)

structure MutatorsAndRules where
  /-- `HashSet<String>` as a duplicate-free list in order of first insertion -/
  mutators : List Bytes
  rules : RuleMap
  deriving Repr, DecidableEq

/-- `MutatorsAndRules::default()` -/
def MutatorsAndRules.empty : MutatorsAndRules := ⟨[], []⟩

structure Players where
  players : List Player
  bots : List Player
  deriving Repr, DecidableEq

/-- `Players::with_capacity(_)`: the capacity (at most 50 + 25 entries, `MAXIMUM_PLAYER_PREALLOCATION`)
is not observable -/
def Players.empty : Players := ⟨[], []⟩

def Players.totalLen (p : Players) : Nat := p.players.length + p.bots.length

structure Response where
  serverInfo : ServerInfo
  mutatorsAndRules : MutatorsAndRules
  players : Players
  deriving Repr, DecidableEq

structure Gather where
  players : Toggle
  mutatorsAndRules : Toggle
  deriving Repr, DecidableEq

/-- `GatheringSettings::default()` -/
def Gather.default : Gather := ⟨.try_, .enforce⟩

/-! ### parsers -/

/-- `consume_response_headers(buffer, expected)` -/
def consumeHeaders (expected : PacketKind) : Par Unit := do
  moveCursor 4
  let t ← readU8
  let kind ← Par.lift (packetKindOf t)
  (if kind != expected then Par.fail .packetBad else pure () : Par Unit)

/-- `ServerInfo::parse` -/
def parseServerInfo : Par ServerInfo := do
  let serverId ← readUnsigned .little 4
  let ip ← readU2Str
  let gamePort ← readUnsigned .little 4
  let queryPort ← readUnsigned .little 4
  let name ← readU2Str
  let map ← readU2Str
  let gameType ← readU2Str
  let numPlayers ← readUnsigned .little 4
  let maxPlayers ← readUnsigned .little 4
  pure ⟨serverId, ip, gamePort, queryPort, name, map, gameType, numPlayers, maxPlayers, false⟩

/-- `p(buffer).ok()`: an error leaves the buffer where it was -/
def tryRead (p : Par α) : Par (Option α) := fun b =>
  match p b with
  | .ok (a, b') => .ok (some a, b')
  | .err _ => .ok (none, b)
  | .crash => .crash

/-- `HashSet::insert` -/
def setInsert (s : List Bytes) (x : Bytes) : List Bytes := if s.contains x then s else s ++ [x]

/-- the rule branch of the loop body: create the key's vector if absent, push the value if any -/
def rulesAdd (m : RuleMap) (k : Bytes) (v : Option Bytes) : RuleMap :=
  match m with
  | [] => [(k, v.toList)]
  | (k', vs) :: r => if k' == k then (k', vs ++ v.toList) :: r else (k', vs) :: rulesAdd r k v

def mutatorKey : Bytes := asciiBytes "mutator"

/-- what one key/value pair does to the accumulator -/
def MutatorsAndRules.add (st : MutatorsAndRules) (key : Bytes) (value : Option Bytes) : MutatorsAndRules :=
  if asciiLower key == mutatorKey then
    match value with
    | some v => { st with mutators := setInsert st.mutators v }
    | none => st
  else { st with rules := rulesAdd st.rules key value }

/-- body of the `while` of `MutatorsAndRules::parse` -/
def rulesStep (st : MutatorsAndRules) : Par MutatorsAndRules := do
  let key ← readU2Str
  let value ← tryRead readU2Str
  pure (st.add key value)

/-- `MutatorsAndRules::parse` (fuel: every round consumes at least one byte) -/
def parseRules (st : MutatorsAndRules) : Par MutatorsAndRules := fun b =>
  whileRemaining rulesStep (b.remaining + 1) st b

def Players.push (st : Players) (p : Player) : Players :=
  if p.ping == 0 then { st with bots := st.bots ++ [p] } else { st with players := st.players ++ [p] }

/-- body of the `while` of `Players::parse` -/
def playerStep (st : Players) : Par Players := do
  let id ← readUnsigned .little 4
  let name ← readU2Str
  let ping ← readUnsigned .little 4
  let score ← readSigned .little 4
  let statsId ← readUnsigned .little 4
  pure (st.push ⟨id, name, ping, score, statsId⟩)

/-- `Players::parse` -/
def parsePlayers (st : Players) : Par Players := fun b =>
  whileRemaining playerStep (b.remaining + 1) st b

/-! ### the exchange -/

/-- `[0x79, 0, 0, 0, packet_type as u8]` -/
def requestBytes (kind : PacketKind) : Bytes := [0x79, 0, 0, 0, UInt8.ofNat kind.code]

/-- `get_request_data_impl` -/
def requestImpl (s : Sock) (kind : PacketKind) : Q Bytes := do
  send s (requestBytes kind)
  recv s (some PACKET_SIZE)

/-- `get_request_data` -/
def requestData (s : Sock) (retries : Nat) (kind : PacketKind) : Q Bytes :=
  retryOnTimeout retries (requestImpl s kind)

/-- deliveries still queued for a socket -/
def queued (s : Sock) (w : Net) : Nat := (w.conns.getD s.id []).length

/-- `while let Ok(data) = self.socket.receive(..) { … }`: `body` returns the new accumulator and
whether to go on (`false` = `break`); an error of `body` is the `?`; any receive error ends the
loop.  Fuel: every round consumes a queued delivery. -/
def recvWhile (s : Sock) (body : σ → Bytes → Res (σ × Bool)) : Nat → σ → Q σ
  | 0, _ => fun w => (.crash, w)
  | fuel + 1, st => fun w =>
    match recv s (some PACKET_SIZE) w with
    | (.ok data, w1) =>
      match body st data with
      | .ok (st', true) => recvWhile s body fuel st' w1
      | .ok (st', false) => (.ok st', w1)
      | .err k => (.err k, w1)
      | .crash => (.crash, w1)
    | (.err _, w1) => (.ok st, w1)
    | (.crash, w1) => (.crash, w1)

/-- `query_server_info` -/
def queryServerInfo (s : Sock) (retries : Nat) : Q ServerInfo := do
  let data ← requestData s retries .serverInfo
  parse (consumeHeaders .serverInfo >>= fun _ => parseServerInfo) data

/-- one further packet of the rules answer: a packet whose headers do not check ends the loop -/
def rulesRound (st : MutatorsAndRules) (data : Bytes) : Res (MutatorsAndRules × Bool) :=
  match consumeHeaders .mutatorsAndRules (Buf.new data) with
  | .err _ => .ok (st, false)
  | .crash => .crash
  | .ok (_, b) =>
    match parseRules st b with
    | .ok (st', _) => .ok (st', true)
    | .err k => .err k
    | .crash => .crash

/-- `query_mutators_and_rules` -/
def queryRules (s : Sock) (retries : Nat) : Q MutatorsAndRules := do
  let data ← requestData s retries .mutatorsAndRules
  let st ← parse (consumeHeaders .mutatorsAndRules >>= fun _ => parseRules .empty) data
  fun w => recvWhile s rulesRound (queued s w + 1) st w

/-- one packet of the players answer; go on while fewer than `numPlayers` entries have been read -/
def playersRound (numPlayers : Nat) (st : Players) (data : Bytes) : Res (Players × Bool) :=
  match (consumeHeaders .players >>= fun _ => parsePlayers st).run data with
  | .ok st' => .ok (st', decide (st'.totalLen < numPlayers))
  | .err k => .err k
  | .crash => .crash

/-- `query_players(Some(&server_info))` -/
def queryPlayers (s : Sock) (retries : Nat) (numPlayers : Nat) : Q Players := do
  let data ← requestData s retries .players
  let (st, more) ← Q.lift (playersRound numPlayers .empty data)
  if more then fun w => recvWhile s (playersRound numPlayers) (queued s w + 1) st w else pure st

def gamePasswordKey : Bytes := asciiBytes "GamePassword"

/-- `rules.get("GamePassword")` then `password.concat().to_lowercase() == "true"` (the comparison is
with an ASCII literal, and no non-ASCII character lower-cases to one of `t r u e`, so ASCII
lower-casing is exact here) -/
def applyPassword (info : ServerInfo) (mr : MutatorsAndRules) : ServerInfo :=
  match mr.rules.lookup gamePasswordKey with
  | some vs => { info with password := asciiLower vs.flatten == asciiBytes "true" }
  | none => info

/-- everything after the socket exists: `Unreal2Protocol::query` -/
def queryBody (s : Sock) (g : Gather) (retries : Nat) : Q Response := do
  let info ← queryServerInfo s retries
  let mr ← maybeGather g.mutatorsAndRules (queryRules s retries)
  let mr := mr.getD .empty
  let info := applyPassword info mr
  let players ← maybeGather g.players (queryPlayers s retries info.numPlayers)
  pure ⟨info, mr, players.getD .empty⟩

/-- `unreal2::query(address, gather_settings, timeout_settings)` -/
def query (port : Nat) (g : Gather) (retries : Nat) : Q Response := do
  let s ← openSock false port
  queryBody s g retries

end Gd.Unreal2
