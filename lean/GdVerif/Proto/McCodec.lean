import GdVerif.Buffer
/-
  MODEL of `games/minecraft/types.rs`: `get_varint`, `as_varint`,
  `get_string`, `as_string`.  32-bit integers are carried as their unsigned
  bit pattern (`Nat < 2^32`); `toSigned 32` gives the `i32` the code returns.
-/
namespace Gd.Mc

/-- loop body of `get_varint`, rounds `i .. 4` -/
def getVarintFrom : Nat → Nat → Nat → Par Nat
  | 0, _, result => pure result
  | fuel + 1, i, result => do
    let byte ← readU8
    let result := (result ||| ((byte &&& 0x7f) <<< (7 * i))) % 2 ^ 32
    if i == 4 && (byte &&& 0xf0 != 0) then Par.fail .packetBad
    else if byte &&& 0x80 == 0 then pure result
    else getVarintFrom fuel (i + 1) result

/-- `get_varint` (bit pattern of the `i32` result) -/
def getVarint : Par Nat := getVarintFrom 5 0 0

/-- `as_varint` on the bit pattern of `value` -/
def asVarintFrom : Nat → Nat → Bytes
  | 0, _ => []
  | fuel + 1, v =>
    let tmp := v % 128
    let v' := v / 128
    if v' == 0 then [UInt8.ofNat tmp] else UInt8.ofNat (tmp + 128) :: asVarintFrom fuel v'

def asVarint (v : Nat) : Bytes := asVarintFrom 5 v

/-- `get_string` -/
def getString : Par Bytes := do
  let n ← getVarint
  let length := toSigned 32 n
  if length < 0 then Par.fail .packetBad
  else do
    let rem ← remainingLength
    if length.toNat > rem then Par.fail .packetUnderflow
    else do
      let text ← repeatN readByte length.toNat
      if validUtf8 text then pure text else Par.fail .packetBad

/-- `as_string` -/
def asString (s : Bytes) : Res Bytes :=
  if s.length < 2 ^ 31 then .ok (asVarint s.length ++ s) else .err .invalidInput

end Gd.Mc
