import GdVerif.Proto.Gs3
/-
  MODEL of `games/jc2m/{protocol,types}.rs` (Just Cause 2: Multiplayer): GameSpy 3 with the request
  payload `FF FF FF 02` and in single-packet mode, the key/values followed by a `u16` count and
  `name\0 steamid\0 ping16` per player.
-/
namespace Gd.Jc2m
open Gd Gd.Gs3

structure Player where
  name : Bytes
  steamId : Bytes
  ping : Nat
  deriving Repr, DecidableEq

structure Response where
  gameVersion : Bytes
  description : Bytes
  name : Bytes
  hasPassword : Bool
  players : List Player
  playersMaximum : Nat
  playersOnline : Nat
  deriving Repr, DecidableEq

def PAYLOAD : Bytes := [0xFF, 0xFF, 0xFF, 0x02]
def DEFAULT_PORT : Nat := 7777

/-- `players.push(Player { name, steam_id, ping })` -/
def playerStep (acc : List Player) : Par (List Player) := do
  let name ← readCStr
  let steamId ← readCStr
  let ping ← readUnsigned .big 2
  pure (acc ++ [⟨name, steamId, ping⟩])

/-- `parse_players_and_teams(packet)`: the count only sizes the vector
(`Vec::with_capacity(count as usize)`, at most 65535 entries) -/
def parsePlayers : Par (List Player) := do
  let _count ← readUnsigned .big 2
  let rem ← remainingLength
  whileRemaining playerStep (rem + 1) []

/-- everything `query_with_timeout` does with the packets -/
def buildResponse (packets : List Bytes) : Res Response := do
  let first ← okOr packets.head? .packetBad
  let (vars, remaining) ← dataToMap first
  let players ← parsePlayers.run remaining
  let (maxText, vars) ← takeReq vars "maxplayers"
  let playersMaximum ← parseU 32 maxText
  let (playersOnline, vars) ← takeOnline vars players.length
  let (gameVersion, vars) ← takeReq vars "version"
  let (description, vars) ← takeReq vars "description"
  let (name, vars) ← takeReq vars "hostname"
  let (hasPassword, _) ← hasPassword vars
  pure { gameVersion, description, name, hasPassword, players, playersMaximum, playersOnline }

/-- `jc2m::query_with_timeout(address, port, timeout_settings)` -/
def query (port : Option Nat) (retries : Nat) : Q Response := do
  let s ← openSock false (port.getD DEFAULT_PORT)
  let packets ← getServerPackets s retries PAYLOAD true
  Q.lift (buildResponse packets)

end Gd.Jc2m
