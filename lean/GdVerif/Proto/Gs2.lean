import GdVerif.Proto.GsCommon
/-
  MODEL of `protocols/gamespy/protocols/two/{protocol,types}.rs` (repaired tree: the column heads
  of a table are read whatever its row count).
-/
namespace Gd.Gs2
open Gd Gd.Gs

structure Team where
  name : Bytes
  score : Nat
  deriving Repr, DecidableEq

structure Player where
  name : Bytes
  score : Nat
  ping : Nat
  teamIndex : Nat
  deriving Repr, DecidableEq

structure Response where
  name : Bytes
  map : Bytes
  hasPassword : Bool
  teams : List Team
  playersMaximum : Nat
  playersOnline : Nat
  playersMinimum : Option Nat
  players : List Player
  unusedEntries : Map Bytes
  deriving Repr, DecidableEq

/-- `[0xFE, 0xFD, 0x00, 0x00, 0x00, 0x00, 0x01, 0xFF, 0xFF, 0xFF]` -/
def request : Bytes := [0xFE, 0xFD, 0x00, 0x00, 0x00, 0x00, 0x01, 0xFF, 0xFF, 0xFF]

/-- `PACKET_SIZE` -/
def PACKET_SIZE : Nat := 2048

/-- the header check of `request_data_impl`: `read::<u8>()? != 0 || read::<u32>()? != 1`, then
`current_position()` -/
def checkHeader : Par Nat := do
  let h ← readUnsigned .big 1
  if h != 0 then Par.fail .packetBad
  else do
    let id ← readUnsigned .big 4
    if id != 1 then Par.fail .packetBad else currentPosition

/-- `request_data_impl` -/
def requestDataImpl (s : Sock) : Q (Bytes × Nat) := do
  send s request
  let received ← recv s (some PACKET_SIZE)
  let idx ← parse checkHeader received
  pure (received, idx)

/-- `request_data` -/
def requestData (s : Sock) (retries : Nat) : Q (Bytes × Nat) := retryOnTimeout retries (requestDataImpl s)

/-! ### `get_server_vars` -/

/-- one round of the `while` loop: the map and `done_processing_vars` -/
def serverVarsStep (m : Map Bytes) : Par (Map Bytes × Bool) := do
  let key ← readCStr
  let value ← readCStr
  if key.isEmpty then
    (if value.isEmpty then do
      moveCursor (-1)
      pure (m, true)
    else pure (m, false) : Par _)
  else pure (mapInsert m key value, false)

/-- `while !done_processing_vars && remaining_length() != 0`; every round that goes on consumed a
byte, fuel = remaining + 1 suffices -/
def serverVarsLoop : Nat → Map Bytes → Par (Map Bytes)
  | 0, _ => Par.crash
  | fuel + 1, m => fun b =>
    if b.remaining == 0 then .ok (m, b)
    else match serverVarsStep m b with
      | .ok ((m', done), b') => if done then .ok (m', b') else serverVarsLoop fuel m' b'
      | .err k => .err k
      | .crash => .crash

/-- `get_server_vars` (the map is returned in canonical order) -/
def getServerVars : Par (Map Bytes) := fun b =>
  match serverVarsLoop (b.remaining + 1) [] b with
  | .ok (m, b') => .ok (canon m, b')
  | .err k => .err k
  | .crash => .crash

/-! ### `data_as_table` -/

/-- `while !current_column.is_empty() { push; read }` after the first read; a non-empty head
consumed a byte -/
def headsLoop : Nat → List Bytes → Bytes → Par (List Bytes)
  | 0, _, _ => Par.crash
  | fuel + 1, acc, cur =>
    if cur.isEmpty then pure acc
    else do
      let next ← readCStr
      headsLoop fuel (acc ++ [cur]) next

def readHeads : Par (List Bytes) := fun b =>
  match readCStr b with
  | .ok (first, b') => headsLoop (b.remaining + 1) [] first b'
  | .err k => .err k
  | .crash => .crash

abbrev Table := Map (List Bytes)

/-- `table.get_mut(column).ok_or(PacketBad)?.push(value)` -/
def tablePush (t : Table) (column value : Bytes) : Res Table :=
  match mapGet t column with
  | none => .err .packetBad
  | some col => .ok (mapInsert t column (col ++ [value]))

/-- `for column in &column_heads { … }`: one row -/
def readRow : List Bytes → Table → Par Table
  | [], t => pure t
  | column :: rest, t => do
    let value ← readCStr
    let t' ← Par.lift (tablePush t column value)
    readRow rest t'

/-- `for _ in 0 .. rows` -/
def readRows (heads : List Bytes) : Nat → Table → Par Table
  | 0, t => pure t
  | n + 1, t => do
    let t' ← readRow heads t
    readRows heads n t'

/-- `data_as_table` -/
def dataAsTable : Par (Table × Nat) := do
  let z ← readUnsigned .big 1
  if z != 0 then Par.fail .packetBad
  else do
    let rows ← readUnsigned .big 1
    let heads ← readHeads
    let table := heads.foldl (fun t h => mapInsert t h []) ([] : Table)
    let table ← readRows heads rows table
    pure (table, rows)

/-- `table_extract!` -/
def tableExtract (t : Table) (name : String) (index : Nat) : Res Bytes :=
  match mapGet t (asciiBytes name) with
  | none => .err .packetBad
  | some col =>
    match col[index]? with
    | none => .err .packetBad
    | some v => .ok v

/-- `table_extract_parse!` into a `u16` -/
def tableExtractU16 (t : Table) (name : String) (index : Nat) : Res Nat :=
  match tableExtract t name index with
  | .ok v => okOr (parseUnsigned 16 v) .packetBad
  | .err k => .err k
  | .crash => .crash

def teamAt (t : Table) (index : Nat) : Res Team := do
  let name ← tableExtract t "team_t" index
  let score ← tableExtractU16 t "score_t" index
  pure ⟨name, score⟩

def playerAt (t : Table) (index : Nat) : Res Player := do
  let name ← tableExtract t "player_" index
  let score ← tableExtractU16 t "score_" index
  let ping ← tableExtractU16 t "ping_" index
  let team ← tableExtractU16 t "team_" index
  pure ⟨name, score, ping, team⟩

/-- `for index in 0 .. entries { v.push(f(index)?) }` -/
def collect (f : Nat → Res α) : Nat → Nat → Res (List α)
  | _, 0 => .ok []
  | i, n + 1 => do
    let x ← f i
    let xs ← collect f (i + 1) n
    pure (x :: xs)

def getTeams : Par (List Team) := do
  let (table, entries) ← dataAsTable
  Par.lift (collect (teamAt table) 0 entries)

def getPlayers : Par (List Player) := do
  let (table, entries) ← dataAsTable
  Par.lift (collect (playerAt table) 0 entries)

/-! ### `query` -/

def take (m : Map Bytes) (key : String) : Option Bytes × Map Bytes :=
  (mapGet m (asciiBytes key), mapRemove m (asciiBytes key))

def optParse (o : Option Bytes) (bits : Nat) : Res (Option Nat) :=
  match o with
  | none => .ok none
  | some v =>
    match parseUnsigned bits v with
    | some n => .ok (some n)
    | none => .err .typeParse

/-- `players_online`: the reported number unless more players are listed; `as u32` -/
def playersOnline (reported : Option Nat) (listed : Nat) : Nat :=
  (match reported with
   | none => listed
   | some r => if r < listed then listed else r) % 2 ^ 32

/-- everything `query` does with the packet after the header -/
def parseBody : Par Response := do
  let vars ← getServerVars
  let players ← getPlayers
  let (numText, vars) := take vars "numplayers"
  let reported ← Par.lift (optParse numText 64)
  let (minText, vars) := take vars "minplayers"
  let playersMinimum ← Par.lift (optParse minText 32)
  let (name, vars) := take vars "hostname"
  let name ← Par.lift (okOr name .packetBad)
  let (map, vars) := take vars "mapname"
  let map ← Par.lift (okOr map .packetBad)
  let (pw, vars) := take vars "password"
  let pw ← Par.lift (okOr pw .packetBad)
  let teams ← getTeams
  let (maxText, vars) := take vars "maxplayers"
  let maxText ← Par.lift (okOr maxText .packetBad)
  let playersMaximum ← Par.lift (okOr (parseUnsigned 32 maxText) .typeParse)
  pure { name, map, hasPassword := pw == asciiBytes "1", teams, playersMaximum,
         playersOnline := playersOnline reported players.length, playersMinimum, players, unusedEntries := vars }

/-- `two::query` -/
def query (port : Nat) (retries : Nat) : Q Response := do
  let s ← openSock false port
  let (data, idx) ← requestData s retries
  parse (do moveCursor (idx : Int); parseBody) data

end Gd.Gs2
