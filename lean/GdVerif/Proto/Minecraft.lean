import GdVerif.Net
import GdVerif.Proto.McCodec
/-
  MODEL of `crates/lib/src/games/minecraft/{types.rs, protocol/*.rs}` as they are in the repaired
  tree (handshake port big-endian; legacy length arithmetic widened to `usize`).

  * `serde_json` is a PARAMETER (`Ext.parseJson`, `Ext.renderCompact`), not modelled: a JSON value is
    the inductive `Json`, `javaExtract` mirrors the field extraction of `Java::get_info_impl`.
  * Strings are UTF-8 byte strings.  `i32`/`i64` values are `Int`, `u32`/`u64` values are `Nat`.
  * VarInt / string codecs: `Proto/McCodec.lean` (proved in `Lemmas/VarInt.lean`, C17).
-/
namespace Gd.Mc
open Gd

/-! ### types.rs -/

inductive LegacyGroup | v1_6 | v1_4 | vb1_8
  deriving Repr, DecidableEq, Inhabited

inductive Server
  | java
  | legacy (g : LegacyGroup)
  | bedrock
  deriving Repr, DecidableEq, Inhabited

structure Player where
  name : Bytes
  id : Bytes
  deriving Repr, DecidableEq

structure JavaResponse where
  gameVersion : Bytes
  /-- `i32` -/
  protocolVersion : Int
  /-- `u32` -/
  playersMaximum : Nat
  /-- `u32` -/
  playersOnline : Nat
  players : Option (List Player)
  description : Bytes
  favicon : Option Bytes
  previewsChat : Option Bool
  enforcesSecureChat : Option Bool
  serverType : Server
  deriving Repr, DecidableEq

inductive GameMode | survival | creative | hardcore | spectator | adventure
  deriving Repr, DecidableEq, Inhabited

structure BedrockResponse where
  edition : Bytes
  name : Bytes
  versionName : Bytes
  protocolVersion : Bytes
  playersMaximum : Nat
  playersOnline : Nat
  id : Option Bytes
  map : Option Bytes
  gameMode : Option GameMode
  serverType : Server
  deriving Repr, DecidableEq

/-- Java-only request settings (`hostname`, `protocol_version : i32`) -/
structure RequestSettings where
  hostname : Bytes
  protocolVersion : Int
  deriving Repr, DecidableEq

/-- `RequestSettings::default()` -/
def RequestSettings.default : RequestSettings := ⟨asciiBytes "gamedig", -1⟩

/-- `JavaResponse::from_bedrock_response` -/
def JavaResponse.fromBedrock (r : BedrockResponse) : JavaResponse :=
  { gameVersion := r.versionName, protocolVersion := 0, playersMaximum := r.playersMaximum,
    playersOnline := r.playersOnline, players := none, description := r.name, favicon := none,
    previewsChat := none, enforcesSecureChat := none, serverType := .bedrock }

/-- `GameMode::from_bedrock` -/
def GameMode.fromBedrock (v : Bytes) : Res GameMode :=
  if v == asciiBytes "Survival" then .ok .survival
  else if v == asciiBytes "Creative" then .ok .creative
  else if v == asciiBytes "Hardcore" then .ok .hardcore
  else if v == asciiBytes "Spectator" then .ok .spectator
  else if v == asciiBytes "Adventure" then .ok .adventure
  else .err .unknownEnumCast

/-! ### JSON values (`serde_json::Value`), the external crate's data type -/

inductive JNum
  /-- `PosInt(u64)` / `NegInt(i64)`: an integer in `[-2^63, 2^64)` -/
  | int (i : Int)
  /-- `Float(f64)`: never interpreted; carried as the text it is printed as -/
  | float (text : Bytes)
  deriving Repr, DecidableEq

inductive Json
  | null
  | bool (b : Bool)
  | num (n : JNum)
  | str (s : Bytes)
  | arr (xs : List Json)
  /-- `Map<String, Value>` (a `BTreeMap`): key/value pairs; lookups take the first match -/
  | obj (kvs : List (Bytes × Json))
  deriving Repr

/-- the external crate: `serde_json::from_str::<Value>` and `Value::to_string()` -/
structure Ext where
  parseJson : Bytes → Option Json
  renderCompact : Json → Bytes

namespace Json

/-- `value[key]` (`Index<&str> for Value`): `Null` when not an object or the key is absent -/
def get (j : Json) (k : Bytes) : Json :=
  match j with
  | .obj kvs =>
    match kvs.lookup k with
    | some v => v
    | none => .null
  | _ => .null

/-- `Value::as_str` -/
def asStr : Json → Option Bytes
  | .str s => some s
  | _ => none

/-- `Value::as_i64`: integers representable as `i64` -/
def asI64 : Json → Option Int
  | .num (.int i) => if -(2 ^ 63 : Int) ≤ i ∧ i < 2 ^ 63 then some i else none
  | _ => none

/-- `Value::as_u64`: non-negative integers (`PosInt`) -/
def asU64 : Json → Option Nat
  | .num (.int i) => if 0 ≤ i ∧ i < 2 ^ 64 then some i.toNat else none
  | _ => none

/-- `Value::as_bool` -/
def asBool : Json → Option Bool
  | .bool b => some b
  | _ => none

/-- `Value::as_array` -/
def asArray : Json → Option (List Json)
  | .arr xs => some xs
  | _ => none

/-- `Value::is_null` -/
def isNull : Json → Bool
  | .null => true
  | _ => false

end Json

def key (s : String) : Bytes := asciiBytes s

/-! ### protocol/java.rs -/

/-- one element of `players.sample` -/
def extractPlayer (p : Json) : Res Player := do
  let name ← okOr (p.get (key "name")).asStr .packetBad
  let id ← okOr (p.get (key "id")).asStr .packetBad
  pure ⟨name, id⟩

/-- `for player in players_values { players.push(Player { … }) }` -/
def extractPlayers : List Json → Res (List Player)
  | [] => pure []
  | p :: r => do
    let x ← extractPlayer p
    let xs ← extractPlayers r
    pure (x :: xs)

/-- `as i32` of an `i64` -/
def castI32 (i : Int) : Int := toSigned 32 (ofSigned 32 i)
/-- `as u32` of a `u64` -/
def castU32 (n : Nat) : Nat := n % 2 ^ 32

/-- the `players.sample` member: absent / `null` → `None`, an array → its players -/
def extractSample (sample : Json) : Res (Option (List Player)) :=
  if sample.isNull then pure none
  else do
    let playersValues ← okOr sample.asArray .packetBad
    let players ← extractPlayers playersValues
    pure (some players)

/-- the field extraction of `Java::get_info_impl` (java.rs, after `serde_json::from_str`) -/
def javaExtract (ext : Ext) (v : Json) : Res JavaResponse := do
  let gameVersion ← okOr ((v.get (key "version")).get (key "name")).asStr .packetBad
  let protocol ← okOr ((v.get (key "version")).get (key "protocol")).asI64 .packetBad
  let maxPlayers ← okOr ((v.get (key "players")).get (key "max")).asU64 .packetBad
  let onlinePlayers ← okOr ((v.get (key "players")).get (key "online")).asU64 .packetBad
  let players ← extractSample ((v.get (key "players")).get (key "sample"))
  pure { gameVersion, protocolVersion := castI32 protocol, playersMaximum := castU32 maxPlayers,
         playersOnline := castU32 onlinePlayers, players,
         description := ext.renderCompact (v.get (key "description")),
         favicon := (v.get (key "favicon")).asStr,
         previewsChat := (v.get (key "previewsChat")).asBool,
         enforcesSecureChat := (v.get (key "enforcesSecureChat")).asBool,
         serverType := .java }

/-- `Java::send`: VarInt length prefix (`data.len() as i32`) then the data -/
def javaSend (s : Sock) (data : Bytes) : Q Unit :=
  send s (asVarint (data.length % 2 ^ 32) ++ data)

/-- the handshake packet body; `as_string(hostname)?` can fail (`InvalidInput`) -/
def javaHandshakePayload (st : RequestSettings) (port : Nat) : Res Bytes := do
  let host ← asString st.hostname
  pure ([0x00] ++ asVarint (ofSigned 32 st.protocolVersion) ++ host ++ natBE 2 port ++ [0x01])

def javaSendHandshake (s : Sock) (st : RequestSettings) : Q Unit := do
  let payload ← Q.lift (javaHandshakePayload st s.port)
  javaSend s payload

def javaSendStatusRequest (s : Sock) : Q Unit := javaSend s [0x00]
def javaSendPingRequest (s : Sock) : Q Unit := javaSend s [0x01]

/-- what `Java::receive` does with the stream: drop the declared packet length -/
def javaUnframe : Par Bytes := do
  let _packetLength ← getVarint
  remainingBytes

/-- `Java::receive` -/
def javaReceive (s : Sock) : Q Bytes := do
  let data ← recv s none
  parse javaUnframe data

/-- the packet id check of `get_info_impl` followed by the JSON string -/
def javaStatusText : Par Bytes := do
  let id ← getVarint
  if id != 0 then Par.fail .packetBad
  else getString

/-- `serde_json::from_str(&json_response).map_err(JsonParse)` then the extraction -/
def javaDecode (ext : Ext) (text : Bytes) : Res JavaResponse :=
  match ext.parseJson text with
  | none => .err .jsonParse
  | some v => javaExtract ext v

/-- everything `get_info_impl` does with the unframed packet -/
def javaParse (ext : Ext) : Par JavaResponse := do
  let text ← javaStatusText
  Par.lift (javaDecode ext text)

/-- `Java::get_info_impl` -/
def javaGetInfoImpl (ext : Ext) (s : Sock) (st : RequestSettings) : Q JavaResponse := do
  javaSendHandshake s st
  javaSendStatusRequest s
  javaSendPingRequest s
  let socketData ← javaReceive s
  parse (javaParse ext) socketData

/-- `Java::query` = `minecraft::protocol::query_java` -/
def queryJava (ext : Ext) (port : Nat) (st : RequestSettings) (retries : Nat) : Q JavaResponse := do
  let s ← openSock true port
  retryOnTimeout retries (javaGetInfoImpl ext s st)

/-! ### protocol/bedrock.rs -/

/-- the unconnected ping `send_status_request` writes -/
def bedrockRequest : Bytes :=
  [0x01,
   0x11, 0x22, 0x33, 0x44, 0x55, 0x66, 0x77, 0x88,
   0x00, 0xff, 0xff, 0x00, 0xfe, 0xfe, 0xfe, 0xfe, 0xfd, 0xfd, 0xfd, 0xfd, 0x12, 0x34,
   0x56, 0x78, 0x00, 0x00, 0x00, 0x00, 0x00, 0x00, 0x00, 0x00]

/-- `status.get(8)` mapped through `GameMode::from_bedrock` -/
def bedrockGameMode : Option Bytes → Res (Option GameMode)
  | none => pure none
  | some v => do
    let g ← GameMode.fromBedrock v
    pure (some g)

/-- the `;`-separated status string → response (`status.len() < 6` → `PacketBad`) -/
def bedrockStatus (binding : Bytes) : Res BedrockResponse :=
  match splitOn 59 binding with
  | edition :: name :: protocol :: version :: online :: max :: more => do
    let playersMaximum ← okOr (parseUnsigned 32 max) .typeParse
    let playersOnline ← okOr (parseUnsigned 32 online) .typeParse
    let gameMode ← bedrockGameMode more[2]?
    pure { edition, name, versionName := version, protocolVersion := protocol, playersMaximum, playersOnline,
           id := more[0]?, map := more[1]?, gameMode, serverType := .bedrock }
  | _ => .err .packetBad

/-- the declared length must be what is left; the rest is the status string -/
def bedrockBody (remainingLen : Nat) : Par BedrockResponse := do
  let rem ← remainingLength
  Par.lift (errorByExpectedSize remainingLen rem)
  let binding ← readCStr
  Par.lift (bedrockStatus binding)

/-- the big-endian length in front of the status string (`switch_endian_chunk(2)?.read::<u16>()`) -/
def bedrockLength : Par Nat := do
  let chunk ← switchEndianChunk 2
  Par.lift ((readUnsigned .big 2).run chunk)

/-- the body of `Bedrock::get_info_impl` after the receive -/
def bedrockParse : Par BedrockResponse := do
  let t ← readU8
  if t != 0x1c then Par.fail .packetBad
  else do
    let nonce ← readUnsigned .little 8
    if nonce != 9833440827789222417 then Par.fail .packetBad
    else do
      moveCursor 8
      let m1 ← readUnsigned .little 8
      if m1 != 18374403896610127616 then Par.fail .packetBad
      else do
        let m2 ← readUnsigned .little 8
        if m2 != 8671175388723805693 then Par.fail .packetBad
        else do
          let remainingLen ← bedrockLength
          bedrockBody remainingLen

/-- `Bedrock::get_info_impl` -/
def bedrockGetInfoImpl (s : Sock) : Q BedrockResponse := do
  send s bedrockRequest
  let received ← recv s none
  parse bedrockParse received

/-- `Bedrock::query` = `minecraft::protocol::query_bedrock` -/
def queryBedrock (port : Nat) (retries : Nat) : Q BedrockResponse := do
  let s ← openSock false port
  retryOnTimeout retries (bedrockGetInfoImpl s)

/-! ### protocol/legacy_*.rs -/

def legacy16Request : Bytes :=
  [0xfe, 0x01, 0xfa, 0x00, 0x07,
   0x00, 0x47, 0x00, 0x61, 0x00, 0x6D, 0x00, 0x65, 0x00, 0x44, 0x00, 0x69, 0x00, 0x67]
def legacy14Request : Bytes := [0xFE, 0x01]
def legacyB18Request : Bytes := [0xFE]

/-- packet id `FF`, then the length in UTF-16 code units, which must account for the whole stream:
`error_by_expected_size(length * 2 + 3, data.len())` (in `usize` since the repair) -/
def legacyHeader (dataLen : Nat) : Par Unit := do
  let t ← readU8
  if t != 0xFF then Par.fail .protocolFormat
  else do
    let l ← readUnsigned .big 2
    let length := l * 2
    Par.lift (errorByExpectedSize (length + 3) dataLen)

/-- `§1\0` in UTF-16BE -/
def marker16 : Bytes := [0x00, 0xA7, 0x00, 0x31, 0x00, 0x00]

/-- `LegacyV1_6::is_protocol` -/
def isProtocol16 : Par Bool := do
  let rest ← remainingBytes
  let state := marker16.isPrefixOf rest
  if state then do
    moveCursor 6
    pure true
  else pure false

/-- `LegacyV1_6::get_response` -/
def legacy16Response : Par JavaResponse := do
  let pv ← readUtf16 .big
  let protocolVersion ← Par.lift (okOr (parseSigned 32 pv) .packetBad)
  let gameVersion ← readUtf16 .big
  let description ← readUtf16 .big
  let online ← readUtf16 .big
  let onlinePlayers ← Par.lift (okOr (parseUnsigned 32 online) .packetBad)
  let max ← readUtf16 .big
  let maxPlayers ← Par.lift (okOr (parseUnsigned 32 max) .packetBad)
  pure { gameVersion, protocolVersion, playersMaximum := maxPlayers, playersOnline := onlinePlayers,
         players := none, description, favicon := none, previewsChat := none, enforcesSecureChat := none,
         serverType := .legacy .v1_6 }

/-- split a list of scalar values on one scalar, like `str::split(char)`: at least one piece -/
def splitScalars (d : Nat) : List Nat → List (List Nat)
  | [] => [[]]
  | c :: r =>
    if c == d then [] :: splitScalars d r
    else match splitScalars d r with
      | [] => [[c]]
      | p :: ps => (c :: p) :: ps

/-- `s.split(ch)` on a (valid UTF-8) string for an arbitrary `char` -/
def splitChar (d : Nat) (s : Bytes) : List Bytes := (splitScalars d (utf8Decode s)).map utf8Encode

/-- the `§`-separated kick message of 1.4 / beta 1.8: `description§online§max` -/
def legacySplitResponse (g : LegacyGroup) (versionName : Bytes) : Par JavaResponse := do
  let packetString ← readUtf16 .big
  let split := splitChar 0xA7 packetString
  Par.lift (errorByExpectedSize 3 split.length)
  match split with
  | [description, online, max] => do
    let onlinePlayers ← Par.lift (okOr (parseUnsigned 32 online) .packetBad)
    let maxPlayers ← Par.lift (okOr (parseUnsigned 32 max) .packetBad)
    pure { gameVersion := versionName, protocolVersion := -1, playersMaximum := maxPlayers,
           playersOnline := onlinePlayers, players := none, description, favicon := none, previewsChat := none,
           enforcesSecureChat := none, serverType := .legacy g }
  | _ => Par.crash  -- `split[i]` out of bounds: excluded by the size check (proved in C01)

/-- `LegacyV1_6::get_info_impl` after the receive -/
def legacy16Parse (dataLen : Nat) : Par JavaResponse := do
  legacyHeader dataLen
  let is16 ← isProtocol16
  if !is16 then Par.fail .protocolFormat
  else legacy16Response

/-- `LegacyV1_4::get_info_impl` after the receive -/
def legacy14Parse (dataLen : Nat) : Par JavaResponse := do
  legacyHeader dataLen
  let is16 ← isProtocol16
  if is16 then legacy16Response
  else legacySplitResponse .v1_4 (asciiBytes "1.4+")

/-- `LegacyVB1_8::get_info_impl` after the receive -/
def legacyB18Parse (dataLen : Nat) : Par JavaResponse := do
  legacyHeader dataLen
  legacySplitResponse .vb1_8 (asciiBytes "Beta 1.8+")

def legacyRequest : LegacyGroup → Bytes
  | .v1_6 => legacy16Request
  | .v1_4 => legacy14Request
  | .vb1_8 => legacyB18Request

def legacyParse : LegacyGroup → Nat → Par JavaResponse
  | .v1_6 => legacy16Parse
  | .v1_4 => legacy14Parse
  | .vb1_8 => legacyB18Parse

/-- `get_info_impl` of the three legacy clients -/
def legacyGetInfoImpl (g : LegacyGroup) (s : Sock) : Q JavaResponse := do
  send s (legacyRequest g)
  let data ← recv s none
  parse (legacyParse g data.length) data

/-- `minecraft::protocol::query_legacy_specific` -/
def queryLegacySpecific (g : LegacyGroup) (port : Nat) (retries : Nat) : Q JavaResponse := do
  let s ← openSock true port
  retryOnTimeout retries (legacyGetInfoImpl g s)

/-! ### protocol/mod.rs: the fall-through queries -/

/-- `if let Ok(r) = first { return Ok(f(r)) }; rest` — an error of `first` is dropped, a panic is not -/
def orElse (first : Q α) (f : α → β) (rest : Q β) : Q β := fun w =>
  match first w with
  | (.ok a, w') => (.ok (f a), w')
  | (.err _, w') => rest w'
  | (.crash, w') => (.crash, w')

/-- `minecraft::protocol::query_legacy`: 1.6, then 1.4, then beta 1.8 -/
def queryLegacy (port : Nat) (retries : Nat) : Q JavaResponse :=
  orElse (queryLegacySpecific .v1_6 port retries) id <|
  orElse (queryLegacySpecific .v1_4 port retries) id <|
  orElse (queryLegacySpecific .vb1_8 port retries) id <|
  Q.fail .autoQuery

/-- `minecraft::protocol::query`: Java, then Bedrock, then the legacy variants -/
def queryAuto (ext : Ext) (port : Nat) (st : RequestSettings) (retries : Nat) : Q JavaResponse :=
  orElse (queryJava ext port st retries) id <|
  orElse (queryBedrock port retries) JavaResponse.fromBedrock <|
  orElse (queryLegacy port retries) id <|
  Q.fail .autoQuery

end Gd.Mc
