import GdVerif.Proto.McCodec
import GdVerif.Proto.Unreal2
/-
  The operations of the packet reader as one datatype, so that "every
  sequence of operations" is a `List ROp`.

  `su2` is the fourth `StringDecoder` of the crate, `Unreal2StringDecoder`
  (protocols/unreal2/protocol.rs), read through the same `Buffer::read_string`.
-/
namespace Gd

inductive ROp
  | u (w : Nat) | i (w : Nat) | mv (off : Int)
  | s8 (d : UInt8) | sl (d : UInt8) | s16 (e : Endian) (d0 d1 : UInt8)
  | sw (n : Nat) | vi | vs | su2
  deriving Repr

inductive RVal
  | nat (n : Nat) | int (i : Int) | str (s : Bytes) | unit
  deriving Repr, DecidableEq

def ROp.exec (e : Endian) : ROp → Par RVal
  | .u w => do let v ← readUnsigned e w; pure (.nat v)
  | .i w => do let v ← readSigned e w; pure (.int v)
  | .mv off => do moveCursor off; pure .unit
  | .s8 d => do let s ← readStringWith (utf8Dec d); pure (.str s)
  | .sl d => do let s ← readStringWith (utf8LenDec d); pure (.str s)
  | .s16 en d0 d1 => do let s ← readStringWith (utf16Dec en d0 d1); pure (.str s)
  | .sw n => do let s ← switchEndianChunk n; pure (.str s)
  | .vi => do let n ← Mc.getVarint; pure (.int (toSigned 32 n))
  | .vs => do let s ← Mc.getString; pure (.str s)
  | .su2 => do let s ← Unreal2.readU2Str; pure (.str s)

/-- The reader after one operation: a failed operation leaves it where it was
(the model's `Par` returns no buffer on failure; that the real reader's
position is unchanged too is what the correspondence check compares).
`none` = the operation crashed. -/
def ROp.after (e : Endian) (op : ROp) (b : Buf) : Option Buf :=
  match op.exec e b with
  | .ok (_, b') => some b'
  | .err _ => some b
  | .crash => none

/-- the reader after a sequence of operations (`none` as soon as one crashes) -/
def ROp.afterAll (e : Endian) : List ROp → Buf → Option Buf
  | [], b => some b
  | op :: r, b =>
    match op.after e b with
    | some b' => ROp.afterAll e r b'
    | none => none

end Gd
