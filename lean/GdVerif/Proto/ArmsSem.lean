import GdVerif.Proto.Dispatch
import GdVerif.Gen.Arms
/-
  SEMANTICS of the translated glue (`Gen/Arms.lean`, vocabulary `Proto/ArmsTm.lean`): an evaluator of the term language
  over the model's value types, the semantics of `Option::{map, or, or_else, unwrap_or, unwrap_or_default}`, of struct
  literals / struct update, and of each conversion impl AS TRANSLATED (the evaluator looks the conversions, the defaults
  and the `into_extra` helpers up in the generated tables — nothing about them is written here by hand).

  An evaluated arm is a `Call`: which entry point of the model, with which port / optional port, engine, settings value and
  timeout settings.  `Call.run` hands the call to the wrappers of `Proto/Dispatch.lean`.  `Props/C14_arms.lean` proves that
  evaluating the translated arm of a game's protocol gives, for every argument value, exactly the call the hand-written
  `Dispatch.generic` makes.

  Evaluation is partial (`Option`): a term that is ill-formed for this semantics (a field of something that is not a
  struct, `map` on something that is not an `Option`, a callee given arguments of the wrong kind …) evaluates to `none`;
  nothing is defaulted.
-/
namespace Gd.Arms
open Gd Gd.Dispatch

/-! ### values -/

mutual
inductive Val
  /-- the caller's `IpAddr` (one address: the model's transport is keyed by port) -/
  | addr
  /-- `SocketAddr::new(address, port)` -/
  | sock (port : Nat)
  /-- a `u16` -/
  | num (n : Nat)
  | int (i : Int)
  | bool (b : Bool)
  | tog (t : Toggle)
  | str (b : Bytes)
  | none_
  | some_ (v : Val)
  | record (ty : Ty) (fields : Fields)
  | timeout (t : Settings.Timeout)
  | engine (e : Valve.Engine)
  | group (g : Mc.LegacyGroup)
  /-- enum values -/
  | ctor0 (c : Ctor)
  | ctor1 (c : Ctor) (v : Val)

inductive Fields
  | nil
  | cons (f : Field) (v : Val) (rest : Fields)
end

def Fields.get : Fields → Field → Option Val
  | .nil, _ => none
  | .cons f v rest, g => if f = g then some v else rest.get g

/-- `fs` with the field `g` replaced (only a field that is there) -/
def Fields.set : Fields → Field → Val → Fields
  | .nil, _, _ => .nil
  | .cons f v rest, g, w => if f = g then .cons f w rest else .cons f v (rest.set g w)

/-- struct update: every field of `upd` replaces the field of that name in `base` -/
def Fields.override (base : Fields) : Fields → Fields
  | .nil => base
  | .cons f v rest => (base.set f v).override rest

abbrev Env := Var → Option Val

def Env.empty : Env := fun _ => none

def Env.extend (env : Env) (x : Var) (v : Val) : Env := fun y => if y = x then some v else env y

/-- what the evaluator takes from the tables: `T::default()` and `From<ExtraRequestSettings> for T` -/
structure Sem where
  dflt : Ty → Option Val
  conv : Ty → Val → Option Val

/-! ### the evaluator -/

mutual
def evalTm (cx : Sem) (env : Env) : Tm → Option Val
  | .var v => env v
  | .field e f =>
    match evalTm cx env e with
    | some (.record _ fs) => fs.get f
    | _ => none
  | .some_ e =>
    match evalTm cx env e with
    | some v => some (.some_ v)
    | none => none
  | .none_ => some .none_
  -- Option::map with a conversion
  | .mapInto e ty =>
    match evalTm cx env e with
    | some .none_ => some .none_
    | some (.some_ v) =>
      match cx.conv ty v with
      | some r => some (.some_ r)
      | none => none
    | _ => none
  -- Option::map with a closure
  | .mapFn e x body =>
    match evalTm cx env e with
    | some .none_ => some .none_
    | some (.some_ v) =>
      match evalTm cx (env.extend (.bound x) v) body with
      | some r => some (.some_ r)
      | none => none
    | _ => none
  | .into e ty =>
    match evalTm cx env e with
    | some v => cx.conv ty v
    | none => none
  -- Option::or / Option::or_else (no effects: eager and lazy agree)
  | .or_ e d =>
    match evalTm cx env e with
    | some (.some_ v) => some (.some_ v)
    | some .none_ => evalTm cx env d
    | _ => none
  | .orElse e d =>
    match evalTm cx env e with
    | some (.some_ v) => some (.some_ v)
    | some .none_ => evalTm cx env d
    | _ => none
  | .unwrapOr e d =>
    match evalTm cx env e with
    | some (.some_ v) => some v
    | some .none_ => evalTm cx env d
    | _ => none
  | .unwrapOrDefault e ty =>
    match evalTm cx env e with
    | some (.some_ v) => some v
    | some .none_ => cx.dflt ty
    | _ => none
  | .defaultOf ty => cx.dflt ty
  | .sockAddr ip p =>
    match evalTm cx env ip, evalTm cx env p with
    | some .addr, some (.num n) => some (.sock n)
    | _, _ => none
  | .struct ty fs =>
    match evalFields cx env fs with
    | some vs => some (.record ty vs)
    | none => none
  | .update ty fs base =>
    match evalFields cx env fs, evalTm cx env base with
    | some vs, some (.record ty' b) => if ty = ty' then some (.record ty (b.override vs)) else none
    | _, _ => none
  | .tog t => some (.tog t)
  | .bool b => some (.bool b)
  | .int i => some (.int i)
  | .str b => some (.str b)
  | .letIn x e body =>
    match evalTm cx env e with
    | some v => evalTm cx (env.extend x v) body
    | none => none

def evalFields (cx : Sem) (env : Env) : TmFields → Option Fields
  | .nil => some .nil
  | .cons f e rest =>
    match evalTm cx env e, evalFields cx env rest with
    | some v, some vs => some (.cons f v vs)
    | _, _ => none
end

/-! ### the generated tables as the evaluator's context -/

def lookup (tbl : List (Ty × Tm)) (ty : Ty) : Option Tm :=
  match tbl.find? (fun p => p.1 = ty) with
  | some p => some p.2
  | none => none

def sem0 : Sem := ⟨fun _ => none, fun _ _ => none⟩

/-- `T::default()` as translated (closed struct literals) -/
def dfltOf (ty : Ty) : Option Val :=
  match lookup Gen.Arms.defaults ty with
  | some t => evalTm sem0 Env.empty t
  | none => none

def sem1 : Sem := ⟨dfltOf, fun _ _ => none⟩

/-- `<T as From<ExtraRequestSettings>>::from(value)` as translated -/
def convOf (ty : Ty) (value : Val) : Option Val :=
  match lookup Gen.Arms.convs ty with
  | some t => evalTm sem1 (Env.empty.extend .value value) t
  | none => none

/-- `T::into_extra(self)` as translated -/
def intoExtraOf (ty : Ty) (self_ : Val) : Option Val :=
  match lookup Gen.Arms.intoExtras ty with
  | some t => evalTm sem1 (Env.empty.extend .self_ self_) t
  | none => none

/-- the context the arms are evaluated in -/
def sem : Sem := ⟨dfltOf, convOf⟩

/-! ### model values ↔ evaluator values -/

def encOpt (f : α → Val) : Option α → Val
  | none => .none_
  | some a => .some_ (f a)

def decOpt (f : Val → Option α) : Val → Option (Option α)
  | .none_ => some none
  | .some_ v =>
    match f v with
    | some a => some (some a)
    | none => none
  | _ => none

def encExtra (e : Extra) : Val :=
  .record .extra (.cons .hostname (encOpt .str e.hostname) (.cons .protocolVersion (encOpt .int e.protocolVersion)
    (.cons .gatherPlayers (encOpt .tog e.gatherPlayers) (.cons .gatherRules (encOpt .tog e.gatherRules)
    (.cons .checkAppId (encOpt .bool e.checkAppId) .nil)))))

def decStr : Val → Option Bytes
  | .str b => some b
  | _ => none

def decInt : Val → Option Int
  | .int i => some i
  | _ => none

def decTog : Val → Option Toggle
  | .tog t => some t
  | _ => none

def decBool : Val → Option Bool
  | .bool b => some b
  | _ => none

def decNum : Val → Option Nat
  | .num n => some n
  | _ => none

def decTimeout : Val → Option Settings.Timeout
  | .timeout t => some t
  | _ => none

def decExtra : Val → Option Extra
  | .record .extra fs =>
    match fs.get .hostname, fs.get .protocolVersion, fs.get .gatherPlayers, fs.get .gatherRules, fs.get .checkAppId with
    | some h, some pv, some gp, some gr, some ca =>
      match decOpt decStr h, decOpt decInt pv, decOpt decTog gp, decOpt decTog gr, decOpt decBool ca with
      | some h, some pv, some gp, some gr, some ca => some ⟨h, pv, gp, gr, ca⟩
      | _, _, _, _, _ => none
    | _, _, _, _, _ => none
  | _ => none

def encValveGather (g : Valve.Gather) : Val :=
  .record .valveGather (.cons .players (.tog g.players) (.cons .rules (.tog g.rules) (.cons .checkAppId (.bool g.checkAppId) .nil)))

def decValveGather : Val → Option Valve.Gather
  | .record .valveGather fs =>
    match fs.get .players, fs.get .rules, fs.get .checkAppId with
    | some (.tog p), some (.tog r), some (.bool c) => some ⟨p, r, c⟩
    | _, _, _ => none
  | _ => none

def encUnreal2Gather (g : Unreal2.Gather) : Val :=
  .record .unreal2Gather (.cons .players (.tog g.players) (.cons .mutatorsAndRules (.tog g.mutatorsAndRules) .nil))

def decUnreal2Gather : Val → Option Unreal2.Gather
  | .record .unreal2Gather fs =>
    match fs.get .players, fs.get .mutatorsAndRules with
    | some (.tog p), some (.tog r) => some ⟨p, r⟩
    | _, _ => none
  | _ => none

def decMcSettings : Val → Option Mc.RequestSettings
  | .record .mcRequestSettings fs =>
    match fs.get .hostname, fs.get .protocolVersion with
    | some (.str h), some (.int pv) => some ⟨h, pv⟩
    | _, _ => none
  | _ => none

def encMcSettings (st : Mc.RequestSettings) : Val :=
  .record .mcRequestSettings (.cons .hostname (.str st.hostname) (.cons .protocolVersion (.int st.protocolVersion) .nil))

def encEcoSettings (st : EcoSettings) : Val :=
  .record .ecoRequestSettings (.cons .hostname (encOpt .str st.hostname) .nil)

def decEcoSettings : Val → Option EcoSettings
  | .record .ecoRequestSettings fs =>
    match fs.get .hostname with
    | some h =>
      match decOpt decStr h with
      | some h => some ⟨h⟩
      | none => none
    | none => none
  | _ => none

def encQuakeVersion : Quake.Version → Val
  | .one => .ctor0 .quakeOne | .two => .ctor0 .quakeTwo | .three => .ctor0 .quakeThree

def encGameSpyVersion : GameSpyVersion → Val
  | .one => .ctor0 .gsOne | .two => .ctor0 .gsTwo | .three => .ctor0 .gsThree

def encMcServer : Mc.Server → Val
  | .java => .ctor0 .mcJava
  | .bedrock => .ctor0 .mcBedrock
  | .legacy g => .ctor1 .mcLegacy (.group g)

def encOptServer : Option Mc.Server → Val
  | none => .ctor0 .optNone
  | some s => .ctor1 .optSome (encMcServer s)

def encProprietary : Proprietary → Val
  | .savage2 => .ctor0 .propSavage2
  | .theShip => .ctor0 .propTheShip
  | .ffow => .ctor0 .propFfow
  | .jc2m => .ctor0 .propJc2m
  | .mindustry => .ctor0 .propMindustry
  | .minecraft v => .ctor1 .propMinecraft (encOptServer v)
  | .eco => .ctor0 .propEco

/-- a `Protocol` value as the constructor tree the patterns are matched against -/
def encProtocol : Protocol → Val
  | .valve e => .ctor1 .protocolValve (.engine e)
  | .gamespy v => .ctor1 .protocolGamespy (encGameSpyVersion v)
  | .quake v => .ctor1 .protocolQuake (encQuakeVersion v)
  | .unreal2 => .ctor0 .protocolUnreal2
  | .proprietary p => .ctor1 .protocolProprietary (encProprietary p)

def encGame (g : Game) : Val :=
  .record .game (.cons .defaultPort (.num g.defaultPort) (.cons .protocol (encProtocol g.protocol)
    (.cons .requestSettings (encExtra g.requestSettings) .nil)))

/-! ### patterns -/

/-- matching: the variables the pattern binds, `none` when it does not match -/
def Pat.matches : Pat → Val → Option (List (Var × Val))
  | .wild, _ => some []
  | .bind x, v => some [(x, v)]
  | .ctor0 c, .ctor0 c' => if c = c' then some [] else none
  | .ctor1 c p, .ctor1 c' v => if c = c' then p.matches v else none
  | _, _ => none

/-- `match`: the FIRST arm whose pattern matches -/
def selectArm : List Arm → Val → Option (Arm × List (Var × Val))
  | [], _ => none
  | a :: rest, v =>
    match a.pat.matches v with
    | some binds => some (a, binds)
    | none => selectArm rest v

/-- how many arms match a value -/
def countArms (arms : List Arm) (v : Val) : Nat := (arms.filter fun a => (a.pat.matches v).isSome).length

/-! ### calls -/

/-- an entry point of the model with its arguments (the wrappers of `Proto/Dispatch.lean`) -/
inductive Call
  | valveQuery (port : Nat) (engine : Valve.Engine) (gather : Option Valve.Gather) (t : Option Settings.Timeout)
  | gs1Query (port : Nat) (t : Option Settings.Timeout)
  | gs2Query (port : Nat) (t : Option Settings.Timeout)
  | gs3Query (port : Nat) (t : Option Settings.Timeout)
  | quakeQuery (v : Quake.Version) (port : Nat) (t : Option Settings.Timeout)
  | unreal2Query (port : Nat) (g : Unreal2.Gather) (t : Option Settings.Timeout)
  | savage2QueryWithTimeout (port : Option Nat) (t : Option Settings.Timeout)
  | theShipQueryWithTimeout (port : Option Nat) (t : Option Settings.Timeout)
  | ffowQueryWithTimeout (port : Option Nat) (t : Option Settings.Timeout)
  | jc2mQueryWithTimeout (port : Option Nat) (t : Option Settings.Timeout)
  | mindustryQuery (port : Option Nat) (t : Option Settings.Timeout)
  | mcQueryJava (port : Nat) (t : Option Settings.Timeout) (st : Option Mc.RequestSettings)
  | mcQueryBedrock (port : Nat) (t : Option Settings.Timeout)
  | mcQueryLegacySpecific (g : Mc.LegacyGroup) (port : Nat) (t : Option Settings.Timeout)
  | mcQueryAuto (port : Nat) (t : Option Settings.Timeout) (st : Option Mc.RequestSettings)
  | ecoQuery (port : Option Nat) (t : Option Settings.Timeout) (st : Option EcoSettings)
  deriving Repr, DecidableEq

/-- the call, made (`.map(Box::new)?` included) -/
def Call.run (ext : Ext) : Call → Q Response
  | .valveQuery port engine gather t => boxed .valve (Dispatch.valveQuery ext.valve port engine gather t)
  | .gs1Query port t => boxed .gs1 (Dispatch.gs1Query port t)
  | .gs2Query port t => boxed .gs2 (Dispatch.gs2Query port t)
  | .gs3Query port t => boxed .gs3 (Dispatch.gs3Query port t)
  | .quakeQuery v port t => boxed .quake (Dispatch.quakeQuery v port t)
  | .unreal2Query port g t => boxed .unreal2 (Dispatch.unreal2Query port g t)
  | .savage2QueryWithTimeout port t => boxed .savage2 (Dispatch.savage2QueryWithTimeout port t)
  | .theShipQueryWithTimeout port t => boxed .theShip (Dispatch.theShipQueryWithTimeout ext.valve port t)
  | .ffowQueryWithTimeout port t => boxed .ffow (Dispatch.ffowQueryWithTimeout ext.valve port t)
  | .jc2mQueryWithTimeout port t => boxed .jc2m (Dispatch.jc2mQueryWithTimeout port t)
  | .mindustryQuery port t => boxed .mindustry (Dispatch.mindustryQuery port t)
  | .mcQueryJava port t st => boxed .mcJava (Dispatch.mcQueryJava ext.mc port t st)
  | .mcQueryBedrock port t => boxed .mcBedrock (Dispatch.mcQueryBedrock port t)
  | .mcQueryLegacySpecific g port t => boxed .mcJava (Dispatch.mcQueryLegacySpecific g port t)
  | .mcQueryAuto port t st => boxed .mcJava (Dispatch.mcQueryAuto ext.mc port t st)
  | .ecoQuery port t st => boxed .eco (Dispatch.ecoQuery ext port t st)

/-- callee + evaluated arguments ↦ call: every argument must be a value of the kind the callee's parameter has -/
def Call.decode : Callee → List Val → Option Call
  | .valveQuery, [.sock p, .engine e, g, t] =>
    match decOpt decValveGather g, decOpt decTimeout t with
    | some g, some t => some (.valveQuery p e g t)
    | _, _ => none
  | .gs1Query, [.sock p, t] => (decOpt decTimeout t).map (.gs1Query p)
  | .gs2Query, [.sock p, t] => (decOpt decTimeout t).map (.gs2Query p)
  | .gs3Query, [.sock p, t] => (decOpt decTimeout t).map (.gs3Query p)
  | .quake1Query, [.sock p, t] => (decOpt decTimeout t).map (.quakeQuery .one p)
  | .quake2Query, [.sock p, t] => (decOpt decTimeout t).map (.quakeQuery .two p)
  | .quake3Query, [.sock p, t] => (decOpt decTimeout t).map (.quakeQuery .three p)
  | .unreal2Query, [.sock p, g, t] =>
    match decUnreal2Gather g, decOpt decTimeout t with
    | some g, some t => some (.unreal2Query p g t)
    | _, _ => none
  | .savage2QueryWithTimeout, [.addr, p, t] =>
    match decOpt decNum p, decOpt decTimeout t with
    | some p, some t => some (.savage2QueryWithTimeout p t)
    | _, _ => none
  | .theShipQueryWithTimeout, [.addr, p, t] =>
    match decOpt decNum p, decOpt decTimeout t with
    | some p, some t => some (.theShipQueryWithTimeout p t)
    | _, _ => none
  | .ffowQueryWithTimeout, [.addr, p, t] =>
    match decOpt decNum p, decOpt decTimeout t with
    | some p, some t => some (.ffowQueryWithTimeout p t)
    | _, _ => none
  | .jc2mQueryWithTimeout, [.addr, p, t] =>
    match decOpt decNum p, decOpt decTimeout t with
    | some p, some t => some (.jc2mQueryWithTimeout p t)
    | _, _ => none
  | .mindustryQuery, [.addr, p, t] =>
    match decOpt decNum p, decOpt decTimeout t with
    | some p, some t => some (.mindustryQuery p t)
    | _, _ => none
  | .mcQueryJava, [.sock p, t, st] =>
    match decOpt decTimeout t, decOpt decMcSettings st with
    | some t, some st => some (.mcQueryJava p t st)
    | _, _ => none
  | .mcQueryBedrock, [.sock p, t] => (decOpt decTimeout t).map (.mcQueryBedrock p)
  | .mcQueryLegacySpecific, [.group g, .sock p, t] => (decOpt decTimeout t).map (.mcQueryLegacySpecific g p)
  | .mcQueryAuto, [.sock p, t, st] =>
    match decOpt decTimeout t, decOpt decMcSettings st with
    | some t, some st => some (.mcQueryAuto p t st)
    | _, _ => none
  | .ecoQuery, [.addr, p, t, st] =>
    match decOpt decNum p, decOpt decTimeout t, decOpt decEcoSettings st with
    | some p, some t, some st => some (.ecoQuery p t st)
    | _, _, _ => none
  | _, _ => none

/-- the timeout settings a call carries -/
def Call.timeout : Call → Option Settings.Timeout
  | .valveQuery _ _ _ t | .gs1Query _ t | .gs2Query _ t | .gs3Query _ t | .quakeQuery _ _ t | .unreal2Query _ _ t
  | .savage2QueryWithTimeout _ t | .theShipQueryWithTimeout _ t | .ffowQueryWithTimeout _ t | .jc2mQueryWithTimeout _ t
  | .mindustryQuery _ t | .mcQueryJava _ t _ | .mcQueryBedrock _ t | .mcQueryLegacySpecific _ _ t | .mcQueryAuto _ t _
  | .ecoQuery _ t _ => t

/-- the port argument of a call: `inl p` = a socket address with port `p`; `inr p` = the optional port handed on (the callee
applies its own default) -/
def Call.portArg : Call → Nat ⊕ Option Nat
  | .valveQuery p _ _ _ | .gs1Query p _ | .gs2Query p _ | .gs3Query p _ | .quakeQuery _ p _ | .unreal2Query p _ _
  | .mcQueryJava p _ _ | .mcQueryBedrock p _ | .mcQueryLegacySpecific _ p _ | .mcQueryAuto p _ _ => .inl p
  | .savage2QueryWithTimeout p _ | .theShipQueryWithTimeout p _ | .ffowQueryWithTimeout p _ | .jc2mQueryWithTimeout p _
  | .mindustryQuery p _ | .ecoQuery p _ _ => .inr p

/-! ### evaluating an arm -/

/-- the parameters of `query_with_timeout_and_extra_settings` -/
def baseEnv (game : Game) (port : Option Nat) (timeout : Option Settings.Timeout) (extra : Option Extra) : Env :=
  ((((Env.empty.extend .game (encGame game)).extend .address .addr).extend .port (encOpt .num port)).extend
    .timeoutSettings (encOpt .timeout timeout)).extend .extraSettings (encOpt encExtra extra)

def bindAll (env : Env) : List (Var × Val) → Env
  | [] => env
  | (x, v) :: rest => bindAll (env.extend x v) rest

/-- the `let`s in scope of the call, in order -/
def evalLets (cx : Sem) (env : Env) : List (Var × Tm) → Option Env
  | [] => some env
  | (x, t) :: rest =>
    match evalTm cx env t with
    | some v => evalLets cx (env.extend x v) rest
    | none => none

def evalArgs (cx : Sem) (env : Env) : List Tm → Option (List Val)
  | [] => some []
  | t :: rest =>
    match evalTm cx env t, evalArgs cx env rest with
    | some v, some vs => some (v :: vs)
    | _, _ => none

def evalArm (env : Env) (a : Arm) : Option Call :=
  match evalLets sem env a.lets with
  | some env' =>
    match evalArgs sem env' a.args with
    | some vs => Call.decode a.callee vs
    | none => none
  | none => none

/-- THE TRANSLATION of `query_with_timeout_and_extra_settings`, evaluated: the first arm of the generated table whose
pattern matches the game's protocol, its `let`s and arguments evaluated on the caller's values -/
def translatedCall (game : Game) (port : Option Nat) (timeout : Option Settings.Timeout) (extra : Option Extra) :
    Option Call :=
  match selectArm Gen.Arms.arms (encProtocol game.protocol) with
  | some (a, binds) => evalArm (bindAll (baseEnv game port timeout extra) binds) a
  | none => none

/-- … and made -/
def translated (ext : Ext) (game : Game) (port : Option Nat) (timeout : Option Settings.Timeout) (extra : Option Extra) :
    Option (Q Response) :=
  (translatedCall game port timeout extra).map (Call.run ext)

/-! ### the hand-written model's call, as data -/

/-- what `Dispatch.generic` calls (read off its definition; `generic_eq_run` below proves it) -/
def genericCall (game : Game) (port : Option Nat) (timeout : Option Settings.Timeout) (extra : Option Extra) : Call :=
  let socketPort := port.getD game.defaultPort
  match game.protocol with
  | .valve engine =>
    .valveQuery socketPort engine ((extra.orElse fun _ => some game.requestSettings).map Extra.toValve) timeout
  | .gamespy .one => .gs1Query socketPort timeout
  | .gamespy .two => .gs2Query socketPort timeout
  | .gamespy .three => .gs3Query socketPort timeout
  | .quake v => .quakeQuery v socketPort timeout
  | .unreal2 => .unreal2Query socketPort ((extra.map Extra.toUnreal2).getD Unreal2.Gather.default) timeout
  | .proprietary .savage2 => .savage2QueryWithTimeout port timeout
  | .proprietary .theShip => .theShipQueryWithTimeout port timeout
  | .proprietary .ffow => .ffowQueryWithTimeout port timeout
  | .proprietary .jc2m => .jc2mQueryWithTimeout port timeout
  | .proprietary .mindustry => .mindustryQuery port timeout
  | .proprietary (.minecraft (some .java)) => .mcQueryJava socketPort timeout (extra.map Extra.toMinecraft)
  | .proprietary (.minecraft (some .bedrock)) => .mcQueryBedrock socketPort timeout
  | .proprietary (.minecraft (some (.legacy group))) => .mcQueryLegacySpecific group socketPort timeout
  | .proprietary (.minecraft none) => .mcQueryAuto socketPort timeout (extra.map Extra.toMinecraft)
  | .proprietary .eco => .ecoQuery port timeout (extra.map Extra.toEco)

/-! ### the wrappers and the module macros -/

/-- arguments of a wrapper (`query`, `query_with_timeout`), evaluated on the wrapper's parameters -/
def evalWrapper (w : Wrapper) (game : Game) (port : Option Nat) (timeout : Option Settings.Timeout) : Option (List Val) :=
  evalArgs sem (baseEnv game port timeout none) w.args

/-- a `game_query_fn!` body, evaluated on the module's `address`, `port` and the macro's parameters -/
def evalModArm (m : String × Option String × Callee × List Tm × Option String) (port : Option Nat) (defaultPort : Nat)
    (engine : Valve.Engine) (gather : Valve.Gather) : Option Call :=
  let env := ((((Env.empty.extend .address .addr).extend .port (encOpt .num port)).extend .mDefaultPort (.num defaultPort)).extend
    .mEngine (.engine engine)).extend .mGatheringSettings (encValveGather gather)
  match evalArgs sem env m.2.2.2.1 with
  | some vs => Call.decode m.2.2.1 vs
  | none => none

/-- arguments of a hand-written module's wrapper, evaluated on its parameters (`timeout` is read by eco's
`query_with_timeout` only: the other wrappers have no such parameter, and the translator refuses a variable that is not
in scope) -/
def evalHandWrapper (args : List Tm) (port : Option Nat) (timeout : Option Settings.Timeout) : Option (List Val) :=
  evalArgs sem (((Env.empty.extend .address .addr).extend .port (encOpt .num port)).extend .timeoutSettings
    (encOpt .timeout timeout)) args

/-- a closed term of the tables (the macro defaults), evaluated -/
def evalClosed (t : Option Tm) : Option Val :=
  match t with
  | some t => evalTm sem Env.empty t
  | none => none

end Gd.Arms
