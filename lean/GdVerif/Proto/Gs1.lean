import GdVerif.Proto.GsCommon
/-
  MODEL of `protocols/gamespy/protocols/one/{protocol,types}.rs` (repaired tree).

  A `HashMap<String, String>` that is being filled is an association list (`Gs.Map`); the map a
  function returns is represented by its canonical sorted list (`Gs.canon`), a `HashMap` has no
  order.  `extract_players` walks the map with `retain`, whose order Rust leaves unspecified: the
  model walks the canonical list.  (The order only matters when two keys such as `ping_1` and
  `ping_01` name the same field of the same player; the real code's result is then not determined
  either.)
-/
namespace Gd.Gs1
open Gd Gd.Gs

structure Player where
  name : Bytes
  team : Option Nat
  ping : Nat
  face : Option Bytes
  skin : Option Bytes
  mesh : Option Bytes
  score : Int
  deaths : Option Nat
  health : Option Nat
  secret : Option Bool
  deriving Repr, DecidableEq

structure Response where
  name : Bytes
  map : Bytes
  mapTitle : Option Bytes
  adminContact : Option Bytes
  adminName : Option Bytes
  hasPassword : Bool
  gameMode : Bytes
  gameVersion : Bytes
  playersMaximum : Nat
  playersOnline : Nat
  playersMinimum : Option Nat
  players : List Player
  tournament : Bool
  unusedEntries : Map Bytes
  deriving Repr, DecidableEq

/-- `b"\\status\\xserverquery"` -/
def statusRequest : Bytes := asciiBytes "\\status\\xserverquery"

def kFinal : Bytes := asciiBytes "final"
def kQueryId : Bytes := asciiBytes "queryid"

/-- `PACKET_SIZE` -/
def PACKET_SIZE : Nat := 2048

/-! ### `get_server_values_impl` -/

/-- the loop variables -/
structure LoopSt where
  vals : Map Bytes
  parts : List Nat
  qid : Option Nat
  finalPart : Option Nat
  deriving Repr, DecidableEq

def LoopSt.init : LoopSt := ⟨[], [], none, none⟩

/-- the `queryid` handling: `(query_id, part)`; `defaultPart = parts.len()` -/
def parseQueryId (defaultPart : Nat) (q : Option Bytes) : Res (Option Nat × Nat) :=
  match q with
  | none => .ok (none, defaultPart)
  | some qid =>
    match splitOn 46 qid with
    | [] => .crash -- `split[0]`; `str::split` never returns nothing
    | a :: rest =>
      match parseUnsigned 64 a with
      | none => .err .typeParse
      | some id =>
        match rest with
        | [] => .ok (some id, defaultPart)
        | [b] =>
          match parseUnsigned 64 b with
          | none => .err .typeParse
          | some p => .ok (some id, p)
        | _ => .err .packetBad

/-- the key/value pairs of one datagram's text (after the first character has been removed) -/
def textPairs (s : Bytes) : List (Bytes × Bytes) := pairsOf (splitOn 92 (dropFirstChar s))

def insertAll (m : Map Bytes) (ps : List (Bytes × Bytes)) : Map Bytes :=
  ps.foldl (fun m p => mapInsert m p.1 p.2) m

/-- one round of the `while` loop after the datagram has been received -/
def processPacket (st : LoopSt) (data : Bytes) : Res LoopSt :=
  match readCStr.run data with
  | .crash => .crash
  | .err k => .err k
  | .ok s =>
    if s.isEmpty then .err .packetBad
    else
      let vals := insertAll st.vals (textPairs s)
      let isFinal := (mapGet vals kFinal).isSome
      let vals := mapRemove vals kFinal
      match parseQueryId st.parts.length (mapGet vals kQueryId) with
      | .crash => .crash
      | .err k => .err k
      | .ok (qid, part) =>
        let vals := mapRemove vals kQueryId
        if st.qid.isSome && st.qid != qid then .err .packetBad
        else if st.parts.contains part then .err .packetBad
        else .ok ⟨vals, st.parts ++ [part], qid, if isFinal then some part else st.finalPart⟩

/-- negation of the loop condition `final_part.map_or(true, |last| parts.len() < last)` -/
def LoopSt.done (st : LoopSt) : Bool :=
  match st.finalPart with
  | none => false
  | some last => !(st.parts.length < last)

/-- the `while` loop; every round consumes a queued delivery, so fuel = queued + 1 suffices -/
def recvLoop (s : Sock) : Nat → LoopSt → Q (Map Bytes)
  | 0, _ => fun w => (.crash, w)
  | fuel + 1, st =>
    if st.done then pure (canon st.vals)
    else do
      let data ← recv s (some PACKET_SIZE)
      let st' ← Q.lift (processPacket st data)
      recvLoop s fuel st'

/-- `get_server_values_impl` -/
def getServerValuesImpl (s : Sock) : Q (Map Bytes) := do
  send s statusRequest
  fun w => recvLoop s (queued s w + 1) LoopSt.init w

/-- `get_server_values` = `query_vars` -/
def queryVars (port : Nat) (retries : Nat) : Q (Map Bytes) := do
  let s ← openSock false port
  retryOnTimeout retries (getServerValuesImpl s)

/-! ### `extract_players` -/

def playerKinds : List Bytes :=
  ["team", "player", "playername", "ping", "face", "skin", "mesh", "frags", "ngsecret", "deaths", "health"].map asciiBytes

/-- what `retain`'s closure sees in a key: `some (kind, id)` when it is a player field -/
def playerField (key : Bytes) : Option (Bytes × Nat) :=
  match splitOn 95 key with
  | [kind, idx] =>
    match parseUnsigned 64 idx with
    | none => none
    | some id => if playerKinds.contains kind then some (kind, id) else none
  | _ => none

def modifyAt (l : List α) (i : Nat) (f : α → α) : List α :=
  match l, i with
  | [], _ => []
  | x :: r, 0 => f x :: r
  | x :: r, i + 1 => x :: modifyAt r i f

/-- `if id >= len { extend with id - len + 1 empty maps }; players_data[id].insert(kind, value)`
(`id` is below the number of entries, nothing can overflow) -/
def addField (pd : List (Map Bytes)) (id : Nat) (kind value : Bytes) : List (Map Bytes) :=
  let pd := if id ≥ pd.length then pd ++ List.replicate (id - pd.length + 1) [] else pd
  modifyAt pd id (fun m => mapInsert m kind value)

structure Retain where
  kept : Map Bytes
  pd : List (Map Bytes)
  outOfRange : Bool
  deriving Repr, DecidableEq

/-- one call of the `retain` closure -/
def retainStep (entries : Nat) (st : Retain) (e : Bytes × Bytes) : Retain :=
  match playerField e.1 with
  | none => { st with kept := st.kept ++ [e] }
  | some (kind, id) =>
    if id ≥ entries then { st with kept := st.kept ++ [e], outOfRange := true }
    else { st with pd := addField st.pd id kind e.2 }

def trimParseU (bits : Nat) (v : Bytes) : Res Nat := okOr (parseUnsigned bits (trimUtf8 v)) .typeParse
def trimParseI (bits : Nat) (v : Bytes) : Res Int := okOr (parseSigned bits (trimUtf8 v)) .typeParse

def optField (o : Option Bytes) (f : Bytes → Res α) : Res (Option α) :=
  match o with
  | none => .ok none
  | some v =>
    match f v with
    | .ok a => .ok (some a)
    | .err k => .err k
    | .crash => .crash

def buildPlayer (d : Map Bytes) : Res Player := do
  let name ← (match mapGet d (asciiBytes "player") with
    | some v => Res.ok v
    | none => okOr (mapGet d (asciiBytes "playername")) .packetBad)
  let team ← optField (mapGet d (asciiBytes "team")) (trimParseU 8)
  let pingText ← okOr (mapGet d (asciiBytes "ping")) .packetBad
  let ping ← trimParseU 16 pingText
  let fragsText ← okOr (mapGet d (asciiBytes "frags")) .packetBad
  let score ← trimParseI 32 fragsText
  let deaths ← optField (mapGet d (asciiBytes "deaths")) (trimParseU 32)
  let health ← optField (mapGet d (asciiBytes "health")) (trimParseU 32)
  let secret ← optField (mapGet d (asciiBytes "ngsecret")) (fun v => okOr (parseBoolLower v) .typeParse)
  pure { name, team, ping, face := mapGet d (asciiBytes "face"), skin := mapGet d (asciiBytes "skin"),
         mesh := mapGet d (asciiBytes "mesh"), score, deaths, health, secret }

def buildPlayers : List (Map Bytes) → Res (List Player)
  | [] => .ok []
  | d :: r => do
    let p ← buildPlayer d
    let ps ← buildPlayers r
    pure (p :: ps)

/-- `extract_players`: the players and what is left of the map -/
def extractPlayers (vars : Map Bytes) : Res (List Player × Map Bytes) :=
  let st := vars.foldl (retainStep vars.length) ⟨[], [], false⟩
  if st.outOfRange then .err .packetBad
  else
    match buildPlayers st.pd with
    | .ok ps => .ok (ps, st.kept)
    | .err k => .err k
    | .crash => .crash

/-! ### `query` -/

/-- `server_vars.remove(key)` -/
def take (m : Map Bytes) (key : String) : Option Bytes × Map Bytes :=
  (mapGet m (asciiBytes key), mapRemove m (asciiBytes key))

/-- everything `query` does with the map `query_vars` returned -/
def buildResponse (vars : Map Bytes) : Res Response := do
  let (maxText, vars) := take vars "maxplayers"
  let maxText ← okOr maxText .packetBad
  let playersMaximum ← okOr (parseUnsigned 32 maxText) .typeParse
  let (minText, vars) := take vars "minplayers"
  let playersMinimum ← optField minText (fun v => okOr (parseUnsigned 8 v) .typeParse)
  let (players, vars) ← extractPlayers vars
  let (name, vars) := take vars "hostname"
  let name ← okOr name .packetBad
  let (map, vars) := take vars "mapname"
  let map ← okOr map .packetBad
  let (mapTitle, vars) := take vars "maptitle"
  let (adminContact, vars) := take vars "AdminEMail"
  let (adminName, vars) := take vars "AdminName"
  -- `.or_else(|| server_vars.remove("admin"))`: `admin` is only taken when `AdminName` is absent
  let (adminName, vars) := (match adminName with
    | some v => (some v, vars)
    | none => take vars "admin")
  let (hasPassword, vars) ← hasPassword vars
  let (gameMode, vars) := take vars "gametype"
  let gameMode ← okOr gameMode .packetBad
  let (gameVersion, vars) := take vars "gamever"
  let gameVersion ← okOr gameVersion .packetBad
  let (tournament, vars) := take vars "tournament"
  let tournament ← okOr (parseBoolLower (tournament.getD (asciiBytes "true"))) .typeParse
  pure { name, map, mapTitle, adminContact, adminName, hasPassword, gameMode, gameVersion, playersMaximum,
         playersOnline := players.length % 2 ^ 32, playersMinimum, players, tournament, unusedEntries := vars }

/-- `one::query` -/
def query (port : Nat) (retries : Nat) : Q Response := do
  let vars ← queryVars port retries
  Q.lift (buildResponse vars)

end Gd.Gs1
