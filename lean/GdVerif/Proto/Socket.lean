import GdVerif.Proto.Settings
/-
  MODEL of `crates/lib/src/socket.rs` (the `packet_capture` feature off: `UdpSocket = UdpSocketImpl`,
  `TcpSocket = TcpSocketImpl`; the `cfg(gamedig_verif)` prologues return `None` when no script is installed and are not
  part of the code).

  This is the refinement of the abstract transport (`GdVerif/Net.lean`: open / send / receive events) into the calls
  socket.rs makes on `std::net`: which local address a UDP socket binds for which remote, `send_to` (never `connect`) on
  UDP, `connect` / `connect_timeout` on TCP, which duration goes to which socket option and when, the receive buffer,
  the TCP read loop, and the mapping of I/O errors to `GDErrorKind`.

  `std::net` and the kernel are a PARAMETER (`Os`): every answer is a function of everything the client did before
  (the history of calls) and of the call's arguments; the theorems quantify over all such behaviours.  What a
  `read_to_end` is answered is a finite stream of answers (`Stream`): behaviours under which the call never returns
  (a peer that writes for ever, an endless run of EINTR) are not executions of `receive` at all.
  Model what the code does, oddities included:
    * UDP sockets are never connected: `recv_from` accepts a datagram from ANY source, the source is discarded;
    * TCP `send` is ONE `write`, its count is discarded (a partial write is reported as success);
    * TCP `receive` ignores `size` except as a capacity, reads to the end of the stream and throws away what it has
      read when a read fails (a timeout included);
    * every I/O error of an operation becomes the one `GDErrorKind` of that operation, whatever its `io::ErrorKind`.
-/
namespace Gd.SockRs
open Gd.Settings (Duration Timeout readAndWriteOrDefaults connectOrDefault)

/-! ### Addresses -/

/-- `std::net::SocketAddr`: `V4(ip, port)` / `V6(ip (eight segments), port, flowinfo, scope_id)` -/
inductive Addr where
  | v4 (a b c d : UInt8) (port : Nat)
  | v6 (s0 s1 s2 s3 s4 s5 s6 s7 : UInt16) (port flow scope : Nat)
  deriving DecidableEq, Repr

namespace Addr

def isV6 : Addr → Bool
  | .v4 .. => false
  | .v6 .. => true

def port : Addr → Nat
  | .v4 _ _ _ _ p => p
  | .v6 _ _ _ _ _ _ _ _ p _ _ => p

/-- `::ffff:a.b.c.d`, an IPv4 host named by its IPv4-mapped IPv6 address -/
def isMapped : Addr → Bool
  | .v6 0 0 0 0 0 0xffff _ _ _ _ _ => true
  | _ => false

/-- `0.0.0.0` / `::` -/
def isUnspecified : Addr → Bool
  | .v4 0 0 0 0 _ => true
  | .v6 0 0 0 0 0 0 0 0 _ _ _ => true
  | _ => false

/-- `127.0.0.0/8` / `::1` -/
def isLoopback : Addr → Bool
  | .v4 127 _ _ _ _ => true
  | .v6 0 0 0 0 0 0 0 1 _ _ _ => true
  | _ => false

end Addr

/-- `"0.0.0.0:0"` -/
def anyV4 : Addr := .v4 0 0 0 0 0
/-- `"[::]:0"` (a dual-stack wildcard unless the system sets IPV6_V6ONLY by default: it also reaches IPv4 hosts
through their IPv4-mapped addresses) -/
def anyV6 : Addr := .v6 0 0 0 0 0 0 0 0 0 0 0

/-! ### `std::io` -/

/-- `io::ErrorKind` (the kinds a socket call can produce, `other` for the rest) -/
inductive IoKind
  | connectionRefused | connectionReset | connectionAborted | hostUnreachable | networkUnreachable | networkDown
  | notConnected | addrInUse | addrNotAvailable | brokenPipe | wouldBlock | timedOut | invalidInput | interrupted
  | permissionDenied | outOfMemory | unexpectedEof | writeZero | unsupported | other
  deriving DecidableEq, Repr

def allIoKinds : List IoKind :=
  [.connectionRefused, .connectionReset, .connectionAborted, .hostUnreachable, .networkUnreachable, .networkDown,
   .notConnected, .addrInUse, .addrNotAvailable, .brokenPipe, .wouldBlock, .timedOut, .invalidInput, .interrupted,
   .permissionDenied, .outOfMemory, .unexpectedEof, .writeZero, .unsupported, .other]

inductive IoRes (α : Type) where
  | ok (a : α)
  | error (k : IoKind)
  deriving Repr

/-- one call on `std::net` with its arguments -/
inductive Call
  | bindUdp (loc : Addr)
  | connect (remote : Addr)
  | connectTimeout (remote : Addr) (d : Duration)
  | setReadTimeout (d : Option Duration)
  | setWriteTimeout (d : Option Duration)
  | sendTo (data : Bytes) (remote : Addr)
  | recvFrom (buflen : Nat)
  | write (data : Bytes)
  | read (buflen : Nat)
  deriving DecidableEq, Repr

/-- What the successive `read` calls of one `read_to_end` are answered. -/
inductive Stream
  /-- the peer has closed: this and every later read returns `Ok(0)` -/
  | closed
  /-- `d` is available: the read returns its first `min (buffer length) |d|` bytes, the rest stays available
  (`d = []`: the read returns `Ok(0)`) -/
  | data (d : Bytes) (rest : Stream)
  /-- the read returns `Err(k)` (`wouldBlock` / `timedOut`: the read timeout expired) -/
  | fail (k : IoKind) (rest : Stream)
  deriving Repr

def Stream.size : Stream → Nat
  | .closed => 0
  | .data d rest => d.length + 1 + rest.size
  | .fail _ rest => 1 + rest.size

/-- `std::net` + the kernel + the peer: the answer to every call, as a function of the calls made before it. -/
structure Os where
  bind : List Call → Addr → IoRes Unit
  /-- `connect` (`none`) / `connect_timeout` (`some d`) -/
  connect : List Call → Addr → Option Duration → IoRes Unit
  setRead : List Call → Option Duration → IoRes Unit
  setWrite : List Call → Option Duration → IoRes Unit
  /-- the number of bytes sent -/
  sendTo : List Call → Bytes → Addr → IoRes Nat
  /-- the datagram at the head of the queue (whole) and where it came from -/
  recvFrom : List Call → Nat → IoRes (Bytes × Addr)
  /-- the number of bytes written -/
  write : List Call → Bytes → IoRes Nat
  /-- the answers to the reads of the `read_to_end` that starts now -/
  reads : List Call → Stream
  /-- std's `read_to_end`: the length of the spare buffer it offers to the next read, less one, given the capacity the
  vector was created with and the number of bytes read so far (never an empty buffer) -/
  bufPolicy : Nat → Nat → Nat

/-- `DEFAULT_PACKET_SIZE` -/
def DEFAULT_PACKET_SIZE : Nat := 1024

/-- `isize::MAX + 1`: `vec![0; n]` / `Vec::with_capacity(n)` panic ("capacity overflow") from here on.  (An allocation
the allocator refuses aborts the process; sizes are constants of the protocols — C13's subject.) -/
def CAPACITY_LIMIT : Nat := 2 ^ 63

/-! ### `apply_timeout` (the same body in both impls) -/

/-- `let (read, write) = get_read_and_write_or_defaults(..); set_read_timeout(read).unwrap(); set_write_timeout(write).unwrap()` -/
def applyTimeout (os : Os) (t : Option Timeout) (h : List Call) : Res Unit × List Call :=
  let rw := readAndWriteOrDefaults t
  let h1 := h ++ [.setReadTimeout rw.1]
  match os.setRead h rw.1 with
  | .error _ => (.crash, h1)
  | .ok () =>
    let h2 := h1 ++ [.setWriteTimeout rw.2]
    match os.setWrite h1 rw.2 with
    | .error _ => (.crash, h2)
    | .ok () => (.ok (), h2)

/-! ### `UdpSocketImpl` -/

/-- the local address: `match address { V4(_) => "0.0.0.0:0", V6(_) => "[::]:0" }` -/
def localFor (address : Addr) : Addr :=
  match address with
  | .v4 .. => anyV4
  | .v6 .. => anyV6

/-- `UdpSocketImpl::new(address, timeout_settings)` -/
def udpNew (os : Os) (address : Addr) (t : Option Timeout) (h : List Call) : Res Unit × List Call :=
  let h1 := h ++ [.bindUdp (localFor address)]
  match os.bind h (localFor address) with
  | .error _ => (.err .socketBind, h1)
  | .ok () => applyTimeout os t h1

/-- `UdpSocketImpl::send(data)`: `send_to(data, self.address)`, the count is discarded -/
def udpSend (os : Os) (address : Addr) (data : Bytes) (h : List Call) : Res Unit × List Call :=
  let h1 := h ++ [.sendTo data address]
  match os.sendTo h data address with
  | .error _ => (.err .packetSend, h1)
  | .ok _ => (.ok (), h1)

/-- `UdpSocketImpl::receive(size)`: `vec![0; size.unwrap_or(1024)]`, `recv_from`, `buf[..n].to_vec()`; the source is
discarded -/
def udpReceive (os : Os) (size : Option Nat) (h : List Call) : Res Bytes × List Call :=
  let len := size.getD DEFAULT_PACKET_SIZE
  if CAPACITY_LIMIT ≤ len then (.crash, h)
  else
    let h1 := h ++ [.recvFrom len]
    match os.recvFrom h len with
    | .error _ => (.err .packetReceive, h1)
    | .ok (d, _) =>
      -- the kernel copies at most `len` bytes into the buffer, drops the rest of the datagram and reports the count
      let n := min d.length len
      let buf := d.take len ++ List.replicate (len - n) (0 : UInt8)
      -- `buf[..n]`
      if n ≤ buf.length then (.ok (buf.take n), h1) else (.crash, h1)

/-! ### `TcpSocketImpl` -/

/-- `map_or_else(|| TcpStream::connect(address), |timeout| TcpStream::connect_timeout(address, timeout))` -/
def connectCall (address : Addr) (c : Option Duration) : Call :=
  match c with
  | some d => .connectTimeout address d
  | none => .connect address

/-- `TcpSocketImpl::new`: `get_connect_or_default(..).map_or_else(|| connect(address), |t| connect_timeout(address, t))` -/
def tcpNew (os : Os) (address : Addr) (t : Option Timeout) (h : List Call) : Res Unit × List Call :=
  let c := connectOrDefault t
  let h1 := h ++ [connectCall address c]
  match os.connect h address c with
  | .error _ => (.err .socketConnect, h1)
  | .ok () => applyTimeout os t h1

/-- `TcpSocketImpl::send(data)`: `self.socket.write(data)`, the count is discarded -/
def tcpSend (os : Os) (data : Bytes) (h : List Call) : Res Unit × List Call :=
  let h1 := h ++ [.write data]
  match os.write h data with
  | .error _ => (.err .packetSend, h1)
  | .ok _ => (.ok (), h1)

/-- std's `read_to_end` over the answers `s`: a read of 0 bytes ends it with what was read, `Interrupted` is tried
again, any other error ends it (the caller drops the vector).  `fuel`: see `tcpReceive`. -/
def readLoop (os : Os) (cap : Nat) : Nat → Bytes → Stream → List Call → Res Bytes × List Call
  | 0, _, _, h => (.crash, h)
  | fuel + 1, acc, s, h =>
    let len := os.bufPolicy cap acc.length + 1
    let h1 := h ++ [.read len]
    match s with
    | .closed => (.ok acc, h1)
    | .data d rest =>
      if d.isEmpty then (.ok acc, h1)
      else readLoop os cap fuel (acc ++ d.take len) (if d.length ≤ len then rest else .data (d.drop len) rest) h1
    | .fail k rest =>
      if k = .interrupted then readLoop os cap fuel acc rest h1 else (.err .packetReceive, h1)

/-- `TcpSocketImpl::receive(size)`: `Vec::with_capacity(size.unwrap_or(1024))`, `read_to_end`.  The loop is given the
measure of the stream as fuel (every read consumes an answer or at least one available byte); running out of it would
be a loop that does not end — `readLoop_fuel` shows it is not reached. -/
def tcpReceive (os : Os) (size : Option Nat) (h : List Call) : Res Bytes × List Call :=
  let cap := size.getD DEFAULT_PACKET_SIZE
  if CAPACITY_LIMIT ≤ cap then (.crash, h)
  else readLoop os cap ((os.reads h).size + 1) [] (os.reads h) h

/-! ### One socket's life: `new`, then any sequence of sends and receives (an error does not end it: `retry_on_timeout`
runs its closure again over the same socket) -/

inductive Kind | udp | tcp
  deriving DecidableEq, Repr

inductive Op
  | send (data : Bytes)
  | receive (size : Option Nat)
  deriving DecidableEq, Repr

def sockNew (k : Kind) (os : Os) (address : Addr) (t : Option Timeout) (h : List Call) : Res Unit × List Call :=
  match k with
  | .udp => udpNew os address t h
  | .tcp => tcpNew os address t h

/-- a send yields `ok []` -/
def step (k : Kind) (os : Os) (address : Addr) (op : Op) (h : List Call) : Res Bytes × List Call :=
  match k, op with
  | .udp, .send d => match udpSend os address d h with
    | (.ok (), h1) => (.ok [], h1)
    | (.err e, h1) => (.err e, h1)
    | (.crash, h1) => (.crash, h1)
  | .tcp, .send d => match tcpSend os d h with
    | (.ok (), h1) => (.ok [], h1)
    | (.err e, h1) => (.err e, h1)
    | (.crash, h1) => (.crash, h1)
  | .udp, .receive size => udpReceive os size h
  | .tcp, .receive size => tcpReceive os size h

/-- the operations in order; a panic ends everything -/
def runOps (k : Kind) (os : Os) (address : Addr) : List Op → List Call → List (Res Bytes) × List Call
  | [], h => ([], h)
  | op :: rest, h =>
    match step k os address op h with
    | (.crash, h1) => ([.crash], h1)
    | (r, h1) =>
      let (rs, h2) := runOps k os address rest h1
      (r :: rs, h2)

/-- (result of `new`, results of the operations, every call made on `std::net`) -/
def session (k : Kind) (os : Os) (address : Addr) (t : Option Timeout) (ops : List Op) :
    Res Unit × List (Res Bytes) × List Call :=
  match sockNew k os address t [] with
  | (.ok (), h) =>
    let (rs, h') := runOps k os address ops h
    (.ok (), rs, h')
  | (e, h) => (e, [], h)

/-- the first call of a socket's life -/
def openCall (k : Kind) (address : Addr) (t : Option Timeout) : Call :=
  match k with
  | .udp => .bindUdp (localFor address)
  | .tcp => connectCall address (connectOrDefault t)

/-- `Socket::port()` -/
def sockPort (address : Addr) : Nat := address.port

/-! ### Which timeout bounds which blocking call

The kernel bounds a blocking `recv` / `read` by the socket's SO_RCVTIMEO, a blocking `send` / `write` by SO_SNDTIMEO —
the values of the LAST `set_read_timeout` / `set_write_timeout` — and `connect_timeout` by its argument; `connect` has
no bound of its own.  `timedBy` reads this off a history: the bound in force at each blocking call. -/

inductive Bound
  /-- no `set_*_timeout` was ever called on the socket: the operating system's default (block for ever) -/
  | unset
  /-- the duration in force (`none`: block for ever, by request) -/
  | set (d : Option Duration)
  deriving DecidableEq, Repr

/-- a blocking call together with the bound in force when it was made -/
inductive Blocking
  | connect (b : Bound)
  | send (b : Bound)
  | recv (b : Bound)
  deriving DecidableEq, Repr

def timedByAux : Bound → Bound → List Call → List Blocking
  | _, _, [] => []
  | r, w, c :: rest =>
    match c with
    | .bindUdp _ => timedByAux r w rest
    | .connect _ => .connect (.set none) :: timedByAux r w rest
    | .connectTimeout _ d => .connect (.set (some d)) :: timedByAux r w rest
    | .setReadTimeout d => timedByAux (.set d) w rest
    | .setWriteTimeout d => timedByAux r (.set d) rest
    | .sendTo _ _ => .send w :: timedByAux r w rest
    | .write _ => .send w :: timedByAux r w rest
    | .recvFrom _ => .recv r :: timedByAux r w rest
    | .read _ => .recv r :: timedByAux r w rest

def timedBy (h : List Call) : List Blocking := timedByAux .unset .unset h

/-- what the settings ask for: connect by the connect duration, every send by the write duration, every receive by the
read duration (the defaults when there are no settings) -/
def Blocking.asAsked (t : Option Timeout) : Blocking → Bool
  | .connect b => b == .set (connectOrDefault t)
  | .send b => b == .set (readAndWriteOrDefaults t).2
  | .recv b => b == .set (readAndWriteOrDefaults t).1

/-! ### The abstract transport as an operating system

`GdVerif/Net.lean` scripts a socket as `refused` / `opened deliveries` plus send faults.  `osOfScript` is the behaviour of
`std::net` that script stands for; `Props/C12_socket.lean` shows that socket.rs on top of it yields exactly the results of
`Net`'s `openSock` / `send` / `recv`. -/

/-- what `recv_from` is answered when the abstract queue of the socket is `q` (`src`: where datagrams come from) -/
def udpAnswer (src : Addr) (q : List Delivery) : IoRes (Bytes × Addr) :=
  match q with
  | .data d :: _ => .ok (d, src)
  | _ => .error .wouldBlock

/-- what a `read_to_end` is answered: `data d` = the peer writes `d` and closes, `silence` = it writes nothing and keeps
the connection open, an exhausted script = it has closed -/
def tcpAnswer (q : List Delivery) : Stream :=
  match q with
  | .data d :: _ => .data d .closed
  | .silence :: _ => .fail .wouldBlock .closed
  | [] => .closed

/-! ### What `read_to_end` amounts to (specification of the loop) -/

/-- everything up to the end of the stream, or the failure of the first read that fails other than by `Interrupted` -/
def Stream.outcome : Stream → Bytes → Res Bytes
  | .closed, acc => .ok acc
  | .data d rest, acc => if d.isEmpty then .ok acc else rest.outcome (acc ++ d)
  | .fail k rest, acc => if k = .interrupted then rest.outcome acc else .err .packetReceive

end Gd.SockRs
