import GdVerif.Net
/-
  MODEL of `TimeoutSettings` (protocols/types.rs): the three public ways of constructing it
  (`new`, command-line flags via clap's derive + `parse_duration_secs`, serde's `try_from` path),
  `Default`, and the two places that rely on its validation: `apply_timeout`'s
  `set_read_timeout(..).unwrap()` / `set_write_timeout(..).unwrap()` (std returns `Err` for
  `Some(Duration::ZERO)`, so the unwrap panics) and `connect_timeout` (std returns `Err` for a zero
  duration: a `SocketConnect` error, not a panic).
  What clap's and serde's derive macros generate is modelled, not verified: field-wise construction
  from the parsed flag values / the deserialized `UncheckedTimeoutSettings`.
-/
namespace Gd.Settings

structure Duration where
  secs : Nat
  nanos : Nat
  deriving Repr, DecidableEq

def Duration.isZero (d : Duration) : Bool := d.secs == 0 && d.nanos == 0

structure Timeout where
  connect : Option Duration
  read : Option Duration
  write : Option Duration
  retries : Nat
  deriving Repr, DecidableEq

def zeroOpt (d : Option Duration) : Bool :=
  match d with
  | some x => x.isZero
  | none => false

/-- `TimeoutSettings::new(read, write, connect, retries)` -/
def new (read write connect : Option Duration) (retries : Nat) : Res Timeout :=
  if zeroOpt read then .err .invalidInput
  else if zeroOpt write then .err .invalidInput
  else if zeroOpt connect then .err .invalidInput
  else .ok ⟨connect, read, write, retries⟩

/-- `TimeoutSettings::default()` -/
def default : Timeout := ⟨some ⟨4, 0⟩, some ⟨4, 0⟩, some ⟨4, 0⟩, 0⟩

/-- `parse_duration_secs`: a `u64` number of seconds, not zero -/
def parseDurationSecs (s : Bytes) : Res Duration :=
  match parseUnsigned 64 s with
  | none => .err .invalidInput
  | some n => if n == 0 then .err .invalidInput else .ok ⟨n, 0⟩

/-- the derived `clap::Args`: each flag goes through `parse_duration_secs` (default "4"), retries is a
`usize` (default "0"); any flag error makes the whole parse fail -/
def fromClap (connect read write retries : Option Bytes) : Res Timeout := do
  let c ← parseDurationSecs (connect.getD (asciiBytes "4"))
  let r ← parseDurationSecs (read.getD (asciiBytes "4"))
  let w ← parseDurationSecs (write.getD (asciiBytes "4"))
  let n ← okOr (parseUnsigned 64 (retries.getD (asciiBytes "0"))) .invalidInput
  pure ⟨some c, some r, some w, n⟩

/-- serde: `#[serde(try_from = "UncheckedTimeoutSettings")]` -/
def fromSerde (connect read write : Option Duration) (retries : Nat) : Res Timeout :=
  new read write connect retries

/-- `get_read_and_write_or_defaults`: the READ and the WRITE duration, in that order -/
def readAndWriteOrDefaults (t : Option Timeout) : Option Duration × Option Duration :=
  match t with
  | some t => (t.read, t.write)
  | none => (default.read, default.write)

/-- `get_connect_or_default` -/
def connectOrDefault (t : Option Timeout) : Option Duration :=
  match t with
  | some t => t.connect
  | none => default.connect

/-- `get_retries_or_default` -/
def retriesOrDefault (t : Option Timeout) : Nat :=
  match t with
  | some t => t.retries
  | none => default.retries

/-- `apply_timeout`: `set_read_timeout(read).unwrap(); set_write_timeout(write).unwrap()` -/
def applyTimeout (t : Option Timeout) : Res Unit :=
  let t := t.getD default
  if zeroOpt t.read || zeroOpt t.write then .crash else .ok ()

/-- `TcpStream::connect_timeout(addr, connect)`: a zero duration is an error value (no panic) -/
def connectStep (t : Option Timeout) : Res Unit :=
  let t := t.getD default
  if zeroOpt t.connect then .err .socketConnect else .ok ()

end Gd.Settings
