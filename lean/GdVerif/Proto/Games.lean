import GdVerif.Proto.Valve
/-
  MODEL of the three call paths of C14 for Valve-protocol games:
    * generic  — `games::query::query_with_timeout…(game, ip, port, timeout, None)` (query.rs dispatch),
    * module   — `games::<game>::query(ip, port)` (the `game_query_fn!` wrapper: default timeouts),
    * protocol — `protocols::valve::query(addr, engine, gather, timeout)` with the definition's parameters,
  and of `game::Response::new_from_valve_response`, the documented conversion between their results.
-/
namespace Gd.Games
open Gd Gd.Valve

structure GamePlayer where
  name : Bytes
  score : Int
  duration : Nat
  deriving Repr, DecidableEq

/-- `valve::game::Response` -/
structure GameResponse where
  protocol : Nat
  name : Bytes
  map : Bytes
  game : Bytes
  appid : Nat
  playersOnline : Nat
  playersDetails : List GamePlayer
  playersMaximum : Nat
  playersBots : Nat
  serverType : ServerType
  hasPassword : Bool
  vacSecured : Bool
  version : Bytes
  port : Option Nat
  steamId : Option Nat
  tvPort : Option Nat
  tvName : Option Bytes
  keywords : Option Bytes
  rules : Rules
  deriving Repr, DecidableEq

/-- `game::Response::new_from_valve_response` -/
def gameView (r : Response) : GameResponse :=
  let e := r.info.extraData
  { protocol := r.info.protocolVersion, name := r.info.name, map := r.info.map, game := r.info.gameMode,
    appid := r.info.appid, playersOnline := r.info.playersOnline,
    playersDetails := (r.players.getD []).map fun p => ⟨p.name, p.score, p.duration⟩,
    playersMaximum := r.info.playersMaximum, playersBots := r.info.playersBots, serverType := r.info.serverType,
    hasPassword := r.info.hasPassword, vacSecured := r.info.vacSecured, version := r.info.gameVersion,
    port := e.bind (·.port), steamId := e.bind (·.steamId), tvPort := e.bind (·.tvPort),
    tvName := e.bind (·.tvName), keywords := e.bind (·.keywords), rules := r.rules.getD [] }

/-- what a table row says about a Valve game -/
structure ValveParams where
  port : Nat
  engine : Engine
  gather : Gather
  deriving Repr, DecidableEq

def mapQ (f : α → β) (q : Q α) : Q β := do let a ← q; pure (f a)

/-- generic path: the definition's default port unless one is given, the definition's engine and
gathering settings (no extra settings), the caller's retry count -/
def genericQuery (ext : Ext) (d : ValveParams) (port : Option Nat) (retries : Nat) : Q Response :=
  Valve.query ext (port.getD d.port) d.engine d.gather retries

/-- module path: the module's default port, engine and gathering settings; `None` timeout settings,
i.e. the default retry count 0; converted to the game response -/
def moduleQuery (ext : Ext) (m : ValveParams) (port : Option Nat) : Q GameResponse :=
  mapQ gameView (Valve.query ext (port.getD m.port) m.engine m.gather 0)

/-- protocol path with explicit parameters -/
def protocolQuery (ext : Ext) (port : Nat) (engine : Engine) (gather : Gather) (retries : Nat) : Q Response :=
  Valve.query ext port engine gather retries

end Gd.Games
