import GdVerif.Base
/-
  MODEL of the two text encodings the command-line tool wraps a BSON document in
  (`crates/cli/src/main.rs`: `hex::encode(bytes)`, `base64::prelude::BASE64_STANDARD.encode(bytes)`)
  with their decoders (RFC 4648 §8 and §4).  The crates are external: these are mirrors written from the
  RFC; the correspondence check decodes what the real binary prints with `hexDecode` / `b64Decode`.
-/
namespace Gd.Cli

/-! ### Base 16 (RFC 4648 §8, lower case as `hex::encode` writes it) -/

def hexLowerDigit (n : Nat) : UInt8 := if n < 10 then UInt8.ofNat (48 + n) else UInt8.ofNat (87 + n)

/-- `hex::encode`: two lower-case digits per byte, most significant first -/
def hexEncode (bs : Bytes) : Bytes := bs.flatMap fun b => [hexLowerDigit (b.toNat / 16), hexLowerDigit (b.toNat % 16)]

/-- the value of a hex digit (either case, as `hex::decode` accepts) -/
def hexDigitVal (c : UInt8) : Option Nat :=
  if 48 ≤ c.toNat ∧ c.toNat ≤ 57 then some (c.toNat - 48)
  else if 97 ≤ c.toNat ∧ c.toNat ≤ 102 then some (c.toNat - 87)
  else if 65 ≤ c.toNat ∧ c.toNat ≤ 70 then some (c.toNat - 55)
  else none

/-- `hex::decode`: an even number of hex digits -/
def hexDecode : Bytes → Option Bytes
  | [] => some []
  | [_] => none
  | a :: b :: r =>
    match hexDigitVal a, hexDigitVal b, hexDecode r with
    | some x, some y, some t => some (UInt8.ofNat (x * 16 + y) :: t)
    | _, _, _ => none

def isLowerHexDigit (c : UInt8) : Bool := (48 ≤ c.toNat && c.toNat ≤ 57) || (97 ≤ c.toNat && c.toNat ≤ 102)

/-! ### Base 64 (RFC 4648 §4: alphabet `A–Z a–z 0–9 + /`, padding `=`) -/

/-- the character of a 6-bit value (Table 1 of the RFC) -/
def b64Char (n : Nat) : UInt8 :=
  if n < 26 then UInt8.ofNat (65 + n)          -- A–Z
  else if n < 52 then UInt8.ofNat (71 + n)     -- a–z  (97 + (n − 26))
  else if n < 62 then UInt8.ofNat (n - 4)      -- 0–9  (48 + (n − 52)); n ≥ 52 here
  else if n = 62 then 43                       -- +
  else 47                                      -- /

/-- the 6-bit value of a character of the alphabet -/
def b64Val (c : UInt8) : Option Nat :=
  if 65 ≤ c.toNat ∧ c.toNat ≤ 90 then some (c.toNat - 65)
  else if 97 ≤ c.toNat ∧ c.toNat ≤ 122 then some (c.toNat - 71)
  else if 48 ≤ c.toNat ∧ c.toNat ≤ 57 then some (c.toNat + 4)
  else if c.toNat = 43 then some 62
  else if c.toNat = 47 then some 63
  else none

def isB64Char (c : UInt8) : Bool := (b64Val c).isSome

/-- the padding character `=` -/
def b64Pad : UInt8 := 61

/-- `BASE64_STANDARD.encode`: three bytes → four characters; a last group of one / two bytes → two / three
characters (unused low bits zero) and `==` / `=` -/
def b64Encode : Bytes → Bytes
  | [] => []
  | [a] => [b64Char (a.toNat / 4), b64Char (a.toNat % 4 * 16), b64Pad, b64Pad]
  | [a, b] =>
    [b64Char (a.toNat / 4), b64Char (a.toNat % 4 * 16 + b.toNat / 16), b64Char (b.toNat % 16 * 4), b64Pad]
  | a :: b :: c :: r =>
    [b64Char (a.toNat / 4), b64Char (a.toNat % 4 * 16 + b.toNat / 16), b64Char (b.toNat % 16 * 4 + c.toNat / 64),
     b64Char (c.toNat % 64)] ++ b64Encode r

/-- `BASE64_STANDARD.decode`: groups of four characters; padding only in the last group and canonical (the unused
bits of the last character are zero), anything else is an error -/
def b64Decode : Bytes → Option Bytes
  | [] => some []
  | [a, b, c, d] =>
    if c = b64Pad ∧ d = b64Pad then
      match b64Val a, b64Val b with
      | some x, some y => if y % 16 = 0 then some [UInt8.ofNat (x * 4 + y / 16)] else none
      | _, _ => none
    else if d = b64Pad then
      match b64Val a, b64Val b, b64Val c with
      | some x, some y, some z =>
        if z % 4 = 0 then some [UInt8.ofNat (x * 4 + y / 16), UInt8.ofNat (y % 16 * 16 + z / 4)] else none
      | _, _, _ => none
    else
      match b64Val a, b64Val b, b64Val c, b64Val d with
      | some x, some y, some z, some w =>
        some [UInt8.ofNat (x * 4 + y / 16), UInt8.ofNat (y % 16 * 16 + z / 4), UInt8.ofNat (z % 4 * 64 + w)]
      | _, _, _, _ => none
  | a :: b :: c :: d :: r =>
    match b64Val a, b64Val b, b64Val c, b64Val d, b64Decode r with
    | some x, some y, some z, some w, some t =>
      some (UInt8.ofNat (x * 4 + y / 16) :: UInt8.ofNat (y % 16 * 16 + z / 4) :: UInt8.ofNat (z % 4 * 64 + w) :: t)
    | _, _, _, _, _ => none
  | _ => none

end Gd.Cli
