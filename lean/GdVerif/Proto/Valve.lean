import GdVerif.Net
/-
  MODEL of `protocols/valve/{protocol,types}.rs` (repaired tree).
-/
namespace Gd.Valve

/-- external decoders the model does not look inside (bzip2-rs, crc32fast) -/
structure Ext where
  /-- `DecoderReader::new(p).read_to_end()`: `none` = the decoder reports an error -/
  bunzip : Bytes → Option Bytes
  crc32 : Bytes → Nat

inductive Engine
  | source (ids : Option (Nat × Option Nat))
  | goldSrc (force : Bool)
  deriving Repr, DecidableEq

def Engine.new (appid : Nat) : Engine := .source (some (appid, none))

inductive ServerType | dedicated | nonDedicated | tv
  deriving Repr, DecidableEq
inductive Environment | linux | windows | mac
  deriving Repr, DecidableEq

structure TheShip where
  mode : Nat
  witnesses : Nat
  duration : Nat
  deriving Repr, DecidableEq

structure ExtraData where
  port : Option Nat
  steamId : Option Nat
  tvPort : Option Nat
  tvName : Option Bytes
  keywords : Option Bytes
  gameId : Option Nat
  deriving Repr, DecidableEq

structure ModData where
  link : Bytes
  downloadLink : Bytes
  version : Nat
  size : Nat
  multiplayerOnly : Bool
  hasOwnDll : Bool
  deriving Repr, DecidableEq

structure ServerInfo where
  protocolVersion : Nat
  name : Bytes
  map : Bytes
  folder : Bytes
  gameMode : Bytes
  appid : Nat
  playersOnline : Nat
  playersMaximum : Nat
  playersBots : Nat
  serverType : ServerType
  environmentType : Environment
  hasPassword : Bool
  vacSecured : Bool
  theShip : Option TheShip
  gameVersion : Bytes
  extraData : Option ExtraData
  isMod : Bool
  modData : Option ModData
  deriving Repr, DecidableEq

structure ServerPlayer where
  name : Bytes
  score : Int
  /-- bit pattern of the `f32` -/
  duration : Nat
  deaths : Option Nat
  money : Option Nat
  deriving Repr, DecidableEq

/-- `HashMap<String, String>` as an association list (insert replaces) -/
abbrev Rules := List (Bytes × Bytes)

def mapInsert (m : List (Bytes × β)) (k : Bytes) (v : β) : List (Bytes × β) :=
  match m with
  | [] => [(k, v)]
  | (k', v') :: r => if k' == k then (k, v) :: r else (k', v') :: mapInsert r k v

def mapRemove (m : List (Bytes × β)) (k : Bytes) : List (Bytes × β) := m.filter (fun p => p.1 != k)

structure Response where
  info : ServerInfo
  players : Option (List ServerPlayer)
  rules : Option Rules
  deriving Repr, DecidableEq

structure Gather where
  players : Toggle
  rules : Toggle
  checkAppId : Bool
  deriving Repr, DecidableEq

def Gather.default : Gather := ⟨.try_, .try_, true⟩

/-! ### packets -/

structure Packet where
  header : Nat
  kind : Nat
  payload : Bytes
  deriving Repr, DecidableEq

/-- `Packet::new(kind, payload).to_bytes()` -/
def packetBytes (kind : Nat) (payload : Bytes) : Bytes :=
  [0xFF, 0xFF, 0xFF, 0xFF] ++ [UInt8.ofNat kind] ++ payload

/-- `Packet::new_from_bufferer` -/
def packetFromBuffer : Par Packet := do
  let header ← readUnsigned .little 4
  let kind ← readU8
  let payload ← remainingBytes
  pure ⟨header, kind, payload⟩

structure SplitPacket where
  header : Nat
  id : Nat
  total : Nat
  number : Nat
  size : Nat
  decompressed : Option (Nat × Nat)
  payload : Bytes
  deriving Repr, DecidableEq

def readIf (c : Bool) (p : Par α) : Par (Option α) :=
  if c then do let v ← p; pure (some v) else pure none

/-- `SplitPacket::new` -/
def splitPacketNew (engine : Engine) (protocol : Nat) : Par SplitPacket := do
  let header ← readUnsigned .little 4
  let id ← readUnsigned .little 4
  match engine with
  | .goldSrc _ => do
    let b ← readU8
    let (lower, upper) := lowerUpper b
    let payload ← remainingBytes
    pure ⟨header, id, lower, upper, 0, none, payload⟩
  | .source _ => do
    let total ← readU8
    let number ← readU8
    let size ← (if protocol == 7 && engine == Engine.new 240 then pure 1248 else readUnsigned .little 2 : Par Nat)
    let isCompressed := (id >>> 31) &&& 1 == 1
    let decompressed ← readIf (isCompressed && number == 0) (do
        let a ← readUnsigned .little 4
        let b ← readUnsigned .little 4
        pure (a, b))
    let payload ← remainingBytes
    pure ⟨header, id, total, number, size, decompressed, payload⟩

def maxDecompressedSize : Nat := 4 * 1024 * 1024

/-- `SplitPacket::get_payload` on the concatenated payload -/
def getPayload (ext : Ext) (decompressed : Option (Nat × Nat)) (payload : Bytes) : Res Bytes :=
  match decompressed with
  | none => .ok payload
  | some (size, crc) =>
    match ext.bunzip payload with
    | none => .err .decompress
    | some out =>
      let got := out.take (min size maxDecompressedSize + 1)
      if got.length != size || ext.crc32 got != crc then .err .decompress else .ok got

def PACKET_SIZE : Nat := 6144

/-- `for _ in 1 .. total { receive; SplitPacket::new }` -/
def recvChunks (s : Sock) (engine : Engine) (protocol : Nat) : Nat → Q (List SplitPacket)
  | 0 => pure []
  | n + 1 => do
    let data ← recv s (some PACKET_SIZE)
    let p ← parse (splitPacketNew engine protocol) data
    let ps ← recvChunks s engine protocol n
    pure (p :: ps)

/-- `sort_by(|a, b| a.number.cmp(&b.number))` (stable) -/
def sortChunks (ps : List SplitPacket) : List SplitPacket := ps.mergeSort (fun a b => a.number ≤ b.number)

/-- packet numbers are exactly `0, 1, …` in order -/
def numbersFrom : Nat → List SplitPacket → Bool
  | _, [] => true
  | i, p :: r => p.number == i && numbersFrom (i + 1) r

/-- a packet of the same response as `main`: same header, same id, same announced total -/
def sameResponse (main q : SplitPacket) : Bool :=
  q.header == main.header && q.id == main.id && q.total == main.total

/-- sorted fragments → payload of the whole response -/
def assemble (ext : Ext) (sorted : List SplitPacket) : Res Bytes :=
  if !numbersFrom 0 sorted then .err .packetBad
  else match sorted with
    | [] => .err .packetBad
    | main :: others =>
      if others.all (sameResponse main) then
        getPayload ext main.decompressed (main.payload ++ (others.map (·.payload)).flatten)
      else .err .packetBad

/-- `ValveProtocol::receive` -/
def receive (ext : Ext) (s : Sock) (engine : Engine) (protocol : Nat) : Q Packet := do
  let data ← recv s (some PACKET_SIZE)
  let header ← parse readU8 data
  if header == 0xFE then do
    let first ← parse (splitPacketNew engine protocol) data
    let rest ← recvChunks s engine protocol (first.total - 1)
    let payload ← Q.lift (assemble ext (sortChunks (first :: rest)))
    parse packetFromBuffer payload
  else parse packetFromBuffer data

inductive Request | info | players | rules
  deriving Repr, DecidableEq

def Request.kind : Request → Nat
  | .info => 0x54 | .players => 0x55 | .rules => 0x56

def infoPayload : Bytes := asciiBytes "Source Engine Query" ++ [0]

def Request.defaultPayload : Request → Bytes
  | .info => infoPayload
  | _ => [0xFF, 0xFF, 0xFF, 0xFF]

/-- `while packet.kind == 0x41 { send challenge; receive }` — fuel is a measure, see `requestImpl` -/
def challengeLoop (ext : Ext) (s : Sock) (engine : Engine) (protocol kind : Nat) : Nat → Packet → Q Bytes
  | 0, _ => fun w => (.crash, w)
  | fuel + 1, packet =>
    if packet.kind == 0x41 then do
      let challenge := packet.payload
      let body := if kind == 0x54 then infoPayload ++ challenge else challenge
      send s (packetBytes kind body)
      let packet' ← receive ext s engine protocol
      challengeLoop ext s engine protocol kind fuel packet'
    else pure packet.payload

/-- deliveries still queued for a socket -/
def queued (s : Sock) (w : Net) : Nat := (w.conns.getD s.id []).length

/-- `get_request_data_impl` -/
def requestImpl (ext : Ext) (s : Sock) (engine : Engine) (protocol kind : Nat) (payload : Bytes) : Q Bytes := do
  send s (packetBytes kind payload)
  let packet ← receive ext s engine protocol
  -- every further round of the loop consumes at least one queued delivery
  fun w => challengeLoop ext s engine protocol kind (queued s w + 1) packet w

/-- `get_request_data` / `get_kind_request_data` -/
def requestData (ext : Ext) (s : Sock) (retries : Nat) (engine : Engine) (protocol : Nat) (r : Request) : Q Bytes :=
  retryOnTimeout retries (requestImpl ext s engine protocol r.kind r.defaultPayload)

/-! ### section parsers -/

def asciiLowerNat (n : Nat) : Nat := if 65 ≤ n && n ≤ 90 then n + 32 else n

def serverFromGldsrc (v : Nat) : Res ServerType :=
  match asciiLowerNat v with
  | 100 => .ok .dedicated | 108 => .ok .nonDedicated | 112 => .ok .tv
  | _ => .err .unknownEnumCast

def environmentFromGldsrc (v : Nat) : Res Environment :=
  match asciiLowerNat v with
  | 108 => .ok .linux | 119 => .ok .windows | 109 => .ok .mac | 111 => .ok .mac
  | _ => .err .unknownEnumCast

def readBoolByte : Par Bool := do
  let v ← readU8
  pure (v == 1)

def goldServerType (st : Nat) : Res ServerType :=
  match st with
  | 68 => .ok .dedicated | 76 => .ok .nonDedicated | 80 => .ok .tv | _ => .err .unknownEnumCast

def goldEnvironment (et : Nat) : Res Environment :=
  match et with
  | 76 => .ok .linux | 87 => .ok .windows | _ => .err .unknownEnumCast

def parseModData : Par ModData := do
  let link ← readCStr
  let downloadLink ← readCStr
  moveCursor 1
  let version ← readUnsigned .little 4
  let size ← readUnsigned .little 4
  let multiplayerOnly ← readBoolByte
  let hasOwnDll ← readBoolByte
  pure ⟨link, downloadLink, version, size, multiplayerOnly, hasOwnDll⟩

/-- `get_goldsrc_server_info` -/
def parseGoldSrcInfo : Par ServerInfo := do
  let _header ← readU8
  let _address ← readCStr
  let name ← readCStr
  let map ← readCStr
  let folder ← readCStr
  let gameMode ← readCStr
  let players ← readU8
  let maxPlayers ← readU8
  let protocol ← readU8
  let st ← readU8
  let serverType ← Par.lift (goldServerType st)
  let et ← readU8
  let environmentType ← Par.lift (goldEnvironment et)
  let hasPassword ← readBoolByte
  let isMod ← readBoolByte
  let modData ← readIf isMod parseModData
  let vacSecured ← readBoolByte
  let bots ← readU8
  pure { protocolVersion := protocol, name, map, folder, gameMode, appid := 0, playersOnline := players,
         playersMaximum := maxPlayers, playersBots := bots, serverType, environmentType, hasPassword,
         vacSecured, theShip := none, gameVersion := [], extraData := none, isMod, modData }

/-- the `extra_data` block of `get_server_info`; returns the block and the possibly overridden appid -/
def parseExtra (appid : Nat) : Par (Option ExtraData × Nat) := fun b =>
  match readU8 b with
  | .err _ => .ok ((none, appid), b)
  | .crash => .crash
  | .ok (value, b) =>
    (do
      let port ← readIf (value &&& 0x80 > 0) (readUnsigned .little 2)
      let steamId ← readIf (value &&& 0x10 > 0) (readUnsigned .little 8)
      let tvPort ← readIf (value &&& 0x40 > 0) (readUnsigned .little 2)
      let tvName ← readIf (value &&& 0x40 > 0) readCStr
      let keywords ← readIf (value &&& 0x20 > 0) readCStr
      let gameId ← readIf (value &&& 0x01 > 0) (readUnsigned .little 8)
      let appid' := match gameId with
        | some gid => gid &&& (2 ^ 24 - 1)
        | none => appid
      pure (some (ExtraData.mk port steamId tvPort tvName keywords gameId), appid')) b

/-- the Source layout of `get_server_info` -/
def parseSourceInfo (engine : Engine) : Par ServerInfo := do
  let protocol ← readU8
  let name ← readCStr
  let map ← readCStr
  let folder ← readCStr
  let gameMode ← readCStr
  let appid ← readUnsigned .little 2
  let players ← readU8
  let maxPlayers ← readU8
  let bots ← readU8
  let st ← readU8
  let serverType ← Par.lift (serverFromGldsrc st)
  let et ← readU8
  let environmentType ← Par.lift (environmentFromGldsrc et)
  let hasPassword ← readBoolByte
  let vacSecured ← readBoolByte
  let theShip ← readIf (engine == Engine.new 2400) (do
      let mode ← readU8
      let witnesses ← readU8
      let duration ← readU8
      pure (TheShip.mk mode witnesses duration))
  let gameVersion ← readCStr
  let (extraData, appid) ← parseExtra appid
  pure { protocolVersion := protocol, name, map, folder, gameMode, appid, playersOnline := players,
         playersMaximum := maxPlayers, playersBots := bots, serverType, environmentType, hasPassword,
         vacSecured, theShip, gameVersion, extraData, isMod := false, modData := none }

def parseInfo (engine : Engine) : Par ServerInfo :=
  match engine with
  | .goldSrc true => parseGoldSrcInfo
  | _ => parseSourceInfo engine

def parsePlayer (engine : Engine) : Par ServerPlayer := do
  moveCursor 1
  let name ← readCStr
  let score ← readSigned .little 4
  let duration ← readUnsigned .little 4
  let deaths ← readIf (engine == Engine.new 2400) (readUnsigned .little 4)
  let money ← readIf (engine == Engine.new 2400) (readUnsigned .little 4)
  pure ⟨name, score, duration, deaths, money⟩

def parsePlayers (engine : Engine) : Par (List ServerPlayer) := do
  let count ← readU8
  repeatN (parsePlayer engine) count

def parseRule : Par (Bytes × Bytes) := do
  let name ← readCStr
  let value ← readCStr
  pure (name, value)

def parseRules (engine : Engine) : Par Rules := do
  let count ← readUnsigned .little 2
  let pairs ← repeatN parseRule count
  let rules := pairs.foldl (fun m p => mapInsert m p.1 p.2) []
  pure (if engine == Engine.new 632360 then mapRemove rules (asciiBytes "Test") else rules)

/-! ### the query -/

def getServerInfo (ext : Ext) (s : Sock) (retries : Nat) (engine : Engine) : Q ServerInfo := do
  let data ← requestData ext s retries engine 0 .info
  parse (parseInfo engine) data

def getServerPlayers (ext : Ext) (s : Sock) (retries : Nat) (engine : Engine) (protocol : Nat) : Q (List ServerPlayer) := do
  let data ← requestData ext s retries engine protocol .players
  parse (parsePlayers engine) data

def getServerRules (ext : Ext) (s : Sock) (retries : Nat) (engine : Engine) (protocol : Nat) : Q Rules := do
  let data ← requestData ext s retries engine protocol .rules
  parse (parseRules engine) data

/-- the app-id decision of `get_response` -/
def appIdOk (engine : Engine) (g : Gather) (appid : Nat) : Bool :=
  match engine with
  | .source (some (main, dedicated)) =>
    let specified := main == appid || (match dedicated with | some d => d == appid | none => false)
    specified || !g.checkAppId
  | _ => true

/-- `valve::query` -/
def query (ext : Ext) (port : Nat) (engine : Engine) (g : Gather) (retries : Nat) : Q Response := do
  let s ← openSock false port
  let info ← getServerInfo ext s retries engine
  if !appIdOk engine g info.appid then Q.fail .badGame
  else do
    let protocol := info.protocolVersion
    let players ← maybeGather g.players (getServerPlayers ext s retries engine protocol)
    let rules ← maybeGather g.rules (getServerRules ext s retries engine protocol)
    pure ⟨info, players, rules⟩

end Gd.Valve
