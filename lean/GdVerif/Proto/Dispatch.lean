import GdVerif.Proto.Games
import GdVerif.Proto.Battalion
import GdVerif.Proto.Gs1
import GdVerif.Proto.Gs2
import GdVerif.Proto.Gs3
import GdVerif.Proto.Quake
import GdVerif.Proto.Unreal2
import GdVerif.Proto.Savage2
import GdVerif.Proto.TheShip
import GdVerif.Proto.Ffow
import GdVerif.Proto.Jc2m
import GdVerif.Proto.Mindustry
import GdVerif.Proto.Minecraft
import GdVerif.Proto.Eco
import GdVerif.Proto.Settings
import GdVerif.Gen.Games
/-
  MODEL of the definition-driven dispatch `games/query.rs::query_with_timeout_and_extra_settings`, statement
  for statement, for every arm that exists without the `tls` feature (Epic and Minetest are behind it and are
  not built by the harness), and of the per-game modules: the `game_query_fn!` macros of
  protocols/{valve,gamespy,quake,unreal2}/mod.rs and the hand-written modules games/{savage2, theship, ffow,
  jc2m, mindustry, eco, minecraft, battalion1944}.

  Three call paths of C14:
    * `generic`        — `query_with_timeout_and_extra_settings(game, ip, port, timeout, extra)`,
    * `moduleQuery`    — `games::<module>::query(ip, port)` (default timeout settings),
    * `protocolQuery`  — the protocol's own query function, explicit port, the definition's parameters.

  Everything below the entry points (`Valve.query`, `Gs1.query`, …) is the family's model.  The only piece of
  I/O that has no model of its own is Eco's HTTP client (ureq + serde): it is a parameter (`Ext.ecoFetch`),
  theorems quantify over it.
-/
namespace Gd.Dispatch
open Gd

/-! ### `ExtraRequestSettings` and its conversions (protocols/types.rs, */types.rs) -/

/-- `ExtraRequestSettings` -/
structure Extra where
  hostname : Option Bytes
  protocolVersion : Option Int
  gatherPlayers : Option Toggle
  gatherRules : Option Toggle
  checkAppId : Option Bool
  deriving Repr, DecidableEq

/-- `valve::GatheringSettings::into_extra` -/
def valveIntoExtra (g : Valve.Gather) : Extra :=
  ⟨none, none, some g.players, some g.rules, some g.checkAppId⟩

/-- `unreal2::GatheringSettings::into_extra` -/
def unreal2IntoExtra (g : Unreal2.Gather) : Extra :=
  ⟨none, none, some g.players, some g.mutatorsAndRules, none⟩

/-- `impl From<ExtraRequestSettings> for valve::GatheringSettings` (`unwrap_or(default.<field>)`) -/
def Extra.toValve (e : Extra) : Valve.Gather :=
  { players := e.gatherPlayers.getD Valve.Gather.default.players,
    rules := e.gatherRules.getD Valve.Gather.default.rules,
    checkAppId := e.checkAppId.getD Valve.Gather.default.checkAppId }

/-- `impl From<ExtraRequestSettings> for unreal2::GatheringSettings` -/
def Extra.toUnreal2 (e : Extra) : Unreal2.Gather :=
  { players := e.gatherPlayers.getD Unreal2.Gather.default.players,
    mutatorsAndRules := e.gatherRules.getD Unreal2.Gather.default.mutatorsAndRules }

/-- `impl From<ExtraRequestSettings> for minecraft::RequestSettings` -/
def Extra.toMinecraft (e : Extra) : Mc.RequestSettings :=
  { hostname := e.hostname.getD Mc.RequestSettings.default.hostname,
    protocolVersion := e.protocolVersion.getD Mc.RequestSettings.default.protocolVersion }

/-- `EcoRequestSettings` (`Default`: no host name) -/
structure EcoSettings where
  hostname : Option Bytes
  deriving Repr, DecidableEq

def EcoSettings.default : EcoSettings := ⟨none⟩

/-- `impl From<ExtraRequestSettings> for EcoRequestSettings` -/
def Extra.toEco (e : Extra) : EcoSettings := ⟨e.hostname⟩

/-- `TimeoutSettings::get_retries_or_default` -/
def retriesOf (t : Option Settings.Timeout) : Nat :=
  match t with
  | some t => t.retries
  | none => Settings.default.retries

/-! ### what is not modelled here: parameters -/

structure Ext where
  valve : Valve.Ext
  mc : Mc.Ext
  /-- `HttpClient::new(address, timeout, settings)?.get_json::<Root>("/frontpage", None)` — ureq and serde: destination
  port, timeout settings, `Host` name ↦ any computation over the transport -/
  ecoFetch : Nat → Option Settings.Timeout → Option Bytes → Q Eco.Info

/-! ### the protocol entry points as the dispatch calls them (optional settings resolved where the code resolves them) -/

/-- `protocols::valve::query(addr, engine, gather_settings, timeout_settings)`: `gather_settings.unwrap_or_default()` -/
def valveQuery (ext : Valve.Ext) (port : Nat) (engine : Valve.Engine) (gather : Option Valve.Gather)
    (t : Option Settings.Timeout) : Q Valve.Response :=
  Valve.query ext port engine (gather.getD Valve.Gather.default) (retriesOf t)

/-- `protocols::gamespy::{one, two, three}::query(addr, timeout_settings)` -/
def gs1Query (port : Nat) (t : Option Settings.Timeout) : Q Gs1.Response := Gs1.query port (retriesOf t)
def gs2Query (port : Nat) (t : Option Settings.Timeout) : Q Gs2.Response := Gs2.query port (retriesOf t)
def gs3Query (port : Nat) (t : Option Settings.Timeout) : Q Gs3.Response := Gs3.query port (retriesOf t)

/-- `protocols::quake::{one, two, three}::query(addr, timeout_settings)` -/
def quakeQuery (v : Quake.Version) (port : Nat) (t : Option Settings.Timeout) : Q Quake.Response :=
  Quake.query port v (retriesOf t)

/-- `protocols::unreal2::query(addr, &gather_settings, timeout_settings)` -/
def unreal2Query (port : Nat) (g : Unreal2.Gather) (t : Option Settings.Timeout) : Q Unreal2.Response :=
  Unreal2.query port g (retriesOf t)

/-- `savage2::query_with_timeout(address, port, timeout_settings)`: `port.unwrap_or(11235)` -/
def savage2QueryWithTimeout (port : Option Nat) (_t : Option Settings.Timeout) : Q Savage2.Response :=
  Savage2.query (port.getD Savage2.DEFAULT_PORT)

/-- `theship::query_with_timeout(address, port, timeout_settings)`: `port.unwrap_or(27015)` -/
def theShipQueryWithTimeout (ext : Valve.Ext) (port : Option Nat) (t : Option Settings.Timeout) : Q TheShip.Response :=
  TheShip.query ext (port.getD TheShip.DEFAULT_PORT) (retriesOf t)

/-- `ffow::query_with_timeout(address, port, timeout_settings)`: `port.unwrap_or(5478)` -/
def ffowQueryWithTimeout (ext : Valve.Ext) (port : Option Nat) (t : Option Settings.Timeout) : Q Ffow.Response :=
  Ffow.query ext (port.getD Ffow.DEFAULT_PORT) (retriesOf t)

/-- `jc2m::query_with_timeout(address, port, timeout_settings)` (`Jc2m.query` takes the optional port itself) -/
def jc2mQueryWithTimeout (port : Option Nat) (t : Option Settings.Timeout) : Q Jc2m.Response :=
  Jc2m.query port (retriesOf t)

/-- `mindustry::query(ip, port, &timeout_settings)`: `port.unwrap_or(DEFAULT_PORT)`, then `query_with_retries` -/
def mindustryQuery (port : Option Nat) (t : Option Settings.Timeout) : Q Mindustry.ServerData :=
  Mindustry.query (port.getD Mindustry.DEFAULT_PORT) (retriesOf t)

/-- `minecraft::protocol::query_java(addr, timeout, request_settings)`: `request_settings.unwrap_or_default()` -/
def mcQueryJava (ext : Mc.Ext) (port : Nat) (t : Option Settings.Timeout) (st : Option Mc.RequestSettings) :
    Q Mc.JavaResponse :=
  Mc.queryJava ext port (st.getD Mc.RequestSettings.default) (retriesOf t)

/-- `minecraft::protocol::query_bedrock(addr, timeout)` -/
def mcQueryBedrock (port : Nat) (t : Option Settings.Timeout) : Q Mc.BedrockResponse := Mc.queryBedrock port (retriesOf t)

/-- `minecraft::protocol::query_legacy_specific(group, addr, timeout)` -/
def mcQueryLegacySpecific (g : Mc.LegacyGroup) (port : Nat) (t : Option Settings.Timeout) : Q Mc.JavaResponse :=
  Mc.queryLegacySpecific g port (retriesOf t)

/-- `minecraft::protocol::query_legacy(addr, timeout)` -/
def mcQueryLegacy (port : Nat) (t : Option Settings.Timeout) : Q Mc.JavaResponse := Mc.queryLegacy port (retriesOf t)

/-- `minecraft::protocol::query(addr, timeout, request_settings)` (auto-detect; every probe gets the same address) -/
def mcQueryAuto (ext : Mc.Ext) (port : Nat) (t : Option Settings.Timeout) (st : Option Mc.RequestSettings) :
    Q Mc.JavaResponse :=
  Mc.queryAuto ext port (st.getD Mc.RequestSettings.default) (retriesOf t)

/-- `eco::query_with_timeout_and_extra_settings(address, port, &timeout, extra)`: `port.unwrap_or(3001)`,
`extra_settings.unwrap_or_default().into()`, `get_json("/frontpage")`, `response.into()` -/
def ecoQuery (ext : Ext) (port : Option Nat) (t : Option Settings.Timeout) (st : Option EcoSettings) : Q Eco.Response := do
  let root ← ext.ecoFetch (port.getD Eco.DEFAULT_PORT) t (st.getD EcoSettings.default).hostname
  pure (Eco.fromRoot root)

/-! ### the definitions table's types (games/types.rs, protocols/types.rs) -/

inductive GameSpyVersion | one | two | three
  deriving Repr, DecidableEq

/-- `ProprietaryProtocol` (without `Minetest`: `tls` feature) -/
inductive Proprietary
  | savage2 | theShip | ffow | jc2m | mindustry
  | minecraft (version : Option Mc.Server)
  | eco
  deriving Repr, DecidableEq

/-- `Protocol` (without `Epic`: `tls` feature) -/
inductive Protocol
  | valve (engine : Valve.Engine)
  | gamespy (version : GameSpyVersion)
  | quake (version : Quake.Version)
  | unreal2
  | proprietary (p : Proprietary)
  deriving Repr, DecidableEq

/-- `Game` (the name plays no part in a query) -/
structure Game where
  defaultPort : Nat
  protocol : Protocol
  requestSettings : Extra
  deriving Repr, DecidableEq

/-- what `Box<dyn CommonResponse>` holds: one response type per family; `valveGame` is what the Valve game modules
return (`valve::game::Response`) -/
inductive Response
  | valve (r : Valve.Response)
  | valveGame (r : Games.GameResponse)
  | gs1 (r : Gs1.Response)
  | gs2 (r : Gs2.Response)
  | gs3 (r : Gs3.Response)
  | quake (r : Quake.Response)
  | unreal2 (r : Unreal2.Response)
  | savage2 (r : Savage2.Response)
  | theShip (r : TheShip.Response)
  | ffow (r : Ffow.Response)
  | jc2m (r : Jc2m.Response)
  | mindustry (r : Mindustry.ServerData)
  | mcJava (r : Mc.JavaResponse)
  | mcBedrock (r : Mc.BedrockResponse)
  | eco (r : Eco.Response)

/-- `.map(Box::new)?` -/
def boxed (f : α → Response) (q : Q α) : Q Response := Games.mapQ f q

/-! ### `games::query::query_with_timeout_and_extra_settings` -/

def generic (ext : Ext) (game : Game) (port : Option Nat) (timeout : Option Settings.Timeout)
    (extra : Option Extra) : Q Response :=
  -- let socket_addr = SocketAddr::new(*address, port.unwrap_or(game.default_port));
  let socketPort := port.getD game.defaultPort
  match game.protocol with
  | .valve engine =>
    boxed .valve (valveQuery ext.valve socketPort engine
      ((extra.orElse fun _ => some game.requestSettings).map Extra.toValve) timeout)
  | .gamespy .one => boxed .gs1 (gs1Query socketPort timeout)
  | .gamespy .two => boxed .gs2 (gs2Query socketPort timeout)
  | .gamespy .three => boxed .gs3 (gs3Query socketPort timeout)
  | .quake v => boxed .quake (quakeQuery v socketPort timeout)
  | .unreal2 =>
    boxed .unreal2 (unreal2Query socketPort ((extra.map Extra.toUnreal2).getD Unreal2.Gather.default) timeout)
  | .proprietary .savage2 => boxed .savage2 (savage2QueryWithTimeout port timeout)
  | .proprietary .theShip => boxed .theShip (theShipQueryWithTimeout ext.valve port timeout)
  | .proprietary .ffow => boxed .ffow (ffowQueryWithTimeout ext.valve port timeout)
  | .proprietary .jc2m => boxed .jc2m (jc2mQueryWithTimeout port timeout)
  | .proprietary .mindustry => boxed .mindustry (mindustryQuery port timeout)
  | .proprietary (.minecraft (some .java)) =>
    boxed .mcJava (mcQueryJava ext.mc socketPort timeout (extra.map Extra.toMinecraft))
  | .proprietary (.minecraft (some .bedrock)) => boxed .mcBedrock (mcQueryBedrock socketPort timeout)
  | .proprietary (.minecraft (some (.legacy group))) =>
    boxed .mcJava (mcQueryLegacySpecific group socketPort timeout)
  | .proprietary (.minecraft none) =>
    boxed .mcJava (mcQueryAuto ext.mc socketPort timeout (extra.map Extra.toMinecraft))
  | .proprietary .eco => boxed .eco (ecoQuery ext port timeout (extra.map Extra.toEco))

/-- `games::query::query_with_timeout` -/
def genericWithTimeout (ext : Ext) (game : Game) (port : Option Nat) (timeout : Option Settings.Timeout) : Q Response :=
  generic ext game port timeout none

/-- `games::query::query` -/
def genericQuery (ext : Ext) (game : Game) (port : Option Nat) : Q Response := generic ext game port none none

/-! ### the per-game modules -/

/-- one constructor per kind of module -/
inductive Module
  /-- `valve::game_query_fn!(name, engine, default_port, gathering_settings)` -/
  | valve (defaultPort : Nat) (engine : Valve.Engine) (gather : Valve.Gather)
  /-- `gamespy::game_query_fn!(version, default_port)` -/
  | gamespy (version : GameSpyVersion) (defaultPort : Nat)
  /-- `quake::game_query_fn!(version, default_port)` -/
  | quake (version : Quake.Version) (defaultPort : Nat)
  /-- `unreal2::game_query_fn!(default_port)` -/
  | unreal2 (defaultPort : Nat)
  /-- the hand-written modules' `query(address, port)` (`mindustry::query(address, port, &None)`) -/
  | savage2 | theShip | ffow | jc2m | mindustry | eco
  /-- `games::minecraft::{query, query_java(.., None), query_bedrock, query_legacy_specific(group, ..)}` -/
  | minecraft (version : Option Mc.Server)
  /-- `games::battalion1944::query` -/
  | battalion1944
  deriving Repr, DecidableEq

/-- `port_or_java_default` / `port_or_bedrock_default` of games/minecraft/mod.rs -/
def mcJavaDefaultPort : Nat := 25565
def mcBedrockDefaultPort : Nat := 19132

/-- `games::minecraft::query_java(address, port, request_settings)` -/
def mcModuleJava (ext : Mc.Ext) (port : Option Nat) (st : Option Mc.RequestSettings) : Q Mc.JavaResponse :=
  mcQueryJava ext (port.getD mcJavaDefaultPort) none st

/-- `games::minecraft::query_bedrock(address, port)` -/
def mcModuleBedrock (port : Option Nat) : Q Mc.BedrockResponse := mcQueryBedrock (port.getD mcBedrockDefaultPort) none

/-- `games::minecraft::query_legacy(address, port)` -/
def mcModuleLegacy (port : Option Nat) : Q Mc.JavaResponse := mcQueryLegacy (port.getD mcJavaDefaultPort) none

/-- `games::minecraft::query_legacy_specific(group, address, port)` -/
def mcModuleLegacySpecific (g : Mc.LegacyGroup) (port : Option Nat) : Q Mc.JavaResponse :=
  mcQueryLegacySpecific g (port.getD mcJavaDefaultPort) none

/-- `games::minecraft::query(address, port)`: the module's own probes, each with the default port of its variant -/
def mcModuleAuto (ext : Mc.Ext) (port : Option Nat) : Q Mc.JavaResponse :=
  Mc.orElse (mcModuleJava ext port none) id <|
  Mc.orElse (mcModuleBedrock port) Mc.JavaResponse.fromBedrock <|
  Mc.orElse (mcModuleLegacy port) id <|
  Q.fail .autoQuery

/-- `games::<module>::query(address, port)` -/
def moduleQuery (ext : Ext) (m : Module) (port : Option Nat) : Q Response :=
  match m with
  | .valve defaultPort engine gather =>
    -- valve::query(&SocketAddr::new(*address, port.unwrap_or($default_port)), $engine, Some($gathering_settings), None)?
    -- Ok(game::Response::new_from_valve_response(valve_response))
    boxed .valveGame (Games.mapQ Games.gameView (valveQuery ext.valve (port.getD defaultPort) engine (some gather) none))
  | .gamespy .one defaultPort => boxed .gs1 (gs1Query (port.getD defaultPort) none)
  | .gamespy .two defaultPort => boxed .gs2 (gs2Query (port.getD defaultPort) none)
  | .gamespy .three defaultPort => boxed .gs3 (gs3Query (port.getD defaultPort) none)
  | .quake v defaultPort => boxed .quake (quakeQuery v (port.getD defaultPort) none)
  | .unreal2 defaultPort => boxed .unreal2 (unreal2Query (port.getD defaultPort) Unreal2.Gather.default none)
  | .savage2 => boxed .savage2 (savage2QueryWithTimeout port none)
  | .theShip => boxed .theShip (theShipQueryWithTimeout ext.valve port none)
  | .ffow => boxed .ffow (ffowQueryWithTimeout ext.valve port none)
  | .jc2m => boxed .jc2m (jc2mQueryWithTimeout port none)
  | .mindustry => boxed .mindustry (mindustryQuery port none)
  | .eco => boxed .eco (ecoQuery ext port none none)
  | .minecraft none => boxed .mcJava (mcModuleAuto ext.mc port)
  | .minecraft (some .java) => boxed .mcJava (mcModuleJava ext.mc port none)
  | .minecraft (some .bedrock) => boxed .mcBedrock (mcModuleBedrock port)
  | .minecraft (some (.legacy g)) => boxed .mcJava (mcModuleLegacySpecific g port)
  | .battalion1944 => boxed .valveGame (Battalion.query ext.valve (port.getD Battalion.DEFAULT_PORT))

/-- how a generic result compares with a module's: Valve game modules return the documented conversion
`game::Response::new_from_valve_response` of the protocol response; every other module returns the protocol's type -/
def Response.view : Response → Response
  | .valve r => .valveGame (Games.gameView r)
  | r => r

/-! ### the protocol's own query function with explicit parameters -/

/-- The protocol-level call a user of `protocols::*` / of the game's own protocol function writes for a definition:
explicit port, the definition's parameters (`gameSettings` = the definition's request settings, read by the Valve
protocol only), the caller's extra settings converted for that protocol when there are any, the protocol's defaults
otherwise. -/
def protocolQuery (ext : Ext) (p : Protocol) (gameSettings : Extra) (extra : Option Extra) (port : Nat)
    (timeout : Option Settings.Timeout) : Q Response :=
  match p with
  | .valve engine =>
    boxed .valve (Valve.query ext.valve port engine
      (match extra with | some e => e.toValve | none => gameSettings.toValve) (retriesOf timeout))
  | .gamespy .one => boxed .gs1 (Gs1.query port (retriesOf timeout))
  | .gamespy .two => boxed .gs2 (Gs2.query port (retriesOf timeout))
  | .gamespy .three => boxed .gs3 (Gs3.query port (retriesOf timeout))
  | .quake v => boxed .quake (Quake.query port v (retriesOf timeout))
  | .unreal2 =>
    boxed .unreal2 (Unreal2.query port
      (match extra with | some e => e.toUnreal2 | none => Unreal2.Gather.default) (retriesOf timeout))
  | .proprietary .savage2 => boxed .savage2 (Savage2.query port)
  | .proprietary .theShip => boxed .theShip (TheShip.query ext.valve port (retriesOf timeout))
  | .proprietary .ffow => boxed .ffow (Ffow.query ext.valve port (retriesOf timeout))
  | .proprietary .jc2m => boxed .jc2m (Jc2m.query (some port) (retriesOf timeout))
  | .proprietary .mindustry => boxed .mindustry (Mindustry.query port (retriesOf timeout))
  | .proprietary (.minecraft (some .java)) =>
    boxed .mcJava (Mc.queryJava ext.mc port
      (match extra with | some e => e.toMinecraft | none => Mc.RequestSettings.default) (retriesOf timeout))
  | .proprietary (.minecraft (some .bedrock)) => boxed .mcBedrock (Mc.queryBedrock port (retriesOf timeout))
  | .proprietary (.minecraft (some (.legacy g))) => boxed .mcJava (Mc.queryLegacySpecific g port (retriesOf timeout))
  | .proprietary (.minecraft none) =>
    boxed .mcJava (Mc.queryAuto ext.mc port
      (match extra with | some e => e.toMinecraft | none => Mc.RequestSettings.default) (retriesOf timeout))
  | .proprietary .eco =>
    boxed .eco (do
      let root ← ext.ecoFetch port timeout (extra.bind (·.hostname))
      pure (Eco.fromRoot root))

/-- the arms that hand the optional port on to the game's own function, which applies ITS default -/
def ownDefaultPort : Protocol → Option Nat
  | .proprietary .savage2 => some Savage2.DEFAULT_PORT
  | .proprietary .theShip => some TheShip.DEFAULT_PORT
  | .proprietary .ffow => some Ffow.DEFAULT_PORT
  | .proprietary .jc2m => some Jc2m.DEFAULT_PORT
  | .proprietary .mindustry => some Mindustry.DEFAULT_PORT
  | .proprietary .eco => some Eco.DEFAULT_PORT
  | _ => none

/-! ### from the generated rows to the model's types -/

def toggleOf : Gen.Tog → Toggle
  | .skip => .skip | .try_ => .try_ | .enforce => .enforce

def engineOf : Gen.EngineTag → Valve.Engine
  | .source appid dedicated => .source (some (appid, dedicated))
  | .goldSrc force => .goldSrc force

def mcServerOf : Gen.McTag → Option Mc.Server
  | .auto => none | .java => some .java | .bedrock => some .bedrock
  | .legacy16 => some (.legacy .v1_6) | .legacy14 => some (.legacy .v1_4) | .legacyB18 => some (.legacy .vb1_8)

def protocolOf : Gen.ProtoTag → Option Protocol
  | .valve e _ _ _ => some (.valve (engineOf e))
  | .gs1 => some (.gamespy .one) | .gs2 => some (.gamespy .two) | .gs3 => some (.gamespy .three)
  | .quake1 => some (.quake .one) | .quake2 => some (.quake .two) | .quake3 => some (.quake .three)
  | .unreal2 => some .unreal2
  | .savage2 => some (.proprietary .savage2) | .theShip => some (.proprietary .theShip)
  | .ffow => some (.proprietary .ffow) | .jc2m => some (.proprietary .jc2m)
  | .mindustry => some (.proprietary .mindustry) | .eco => some (.proprietary .eco)
  | .minecraft k => some (.proprietary (.minecraft (mcServerOf k)))
  | .other => none

/-- the row's `request_settings`: `GatheringSettings { … }.into_extra()` for a Valve row that names them, the macro's
default `GatheringSettings::default().into_extra()` otherwise -/
def requestSettingsOf : Gen.ProtoTag → Extra
  | .valve _ p r c => valveIntoExtra ⟨toggleOf p, toggleOf r, c⟩
  | _ => valveIntoExtra Valve.Gather.default

/-- a row of `Gen.gameDefs` as a `Game` -/
def Game.ofRow (row : Gen.GameRow) : Option Game :=
  (protocolOf row.tag).map fun p => ⟨row.port, p, requestSettingsOf row.tag⟩

/-- a row of `Gen.gameMods` as a `Module`.  The hand-written modules carry their default port as a literal in
their source (and in their model); a hand-written Valve module is `battalion1944` (the only one: its row has
that engine).  -/
def Module.ofRow (row : Gen.GameRow) : Option Module :=
  match row.tag, row.hand with
  | .valve e p r c, false => some (.valve row.port (engineOf e) ⟨toggleOf p, toggleOf r, c⟩)
  | .valve e _ _ _, true => if engineOf e = Battalion.ENGINE then some .battalion1944 else none
  | .gs1, false => some (.gamespy .one row.port)
  | .gs2, false => some (.gamespy .two row.port)
  | .gs3, false => some (.gamespy .three row.port)
  | .quake1, false => some (.quake .one row.port)
  | .quake2, false => some (.quake .two row.port)
  | .quake3, false => some (.quake .three row.port)
  | .unreal2, false => some (.unreal2 row.port)
  | .savage2, true => some .savage2
  | .theShip, true => some .theShip
  | .ffow, true => some .ffow
  | .jc2m, true => some .jc2m
  | .mindustry, true => some .mindustry
  | .eco, true => some .eco
  | .minecraft k, true => some (.minecraft (mcServerOf k))
  | _, _ => none

/-- the default port a module's source applies when none is given (first probe for the auto-detect) and the
one of its Bedrock probe: what the translator must have read for that module's row -/
def Module.defaultPorts : Module → Nat × Nat
  | .valve p _ _ => (p, p)
  | .gamespy _ p => (p, p)
  | .quake _ p => (p, p)
  | .unreal2 p => (p, p)
  | .savage2 => (Savage2.DEFAULT_PORT, Savage2.DEFAULT_PORT)
  | .theShip => (TheShip.DEFAULT_PORT, TheShip.DEFAULT_PORT)
  | .ffow => (Ffow.DEFAULT_PORT, Ffow.DEFAULT_PORT)
  | .jc2m => (Jc2m.DEFAULT_PORT, Jc2m.DEFAULT_PORT)
  | .mindustry => (Mindustry.DEFAULT_PORT, Mindustry.DEFAULT_PORT)
  | .eco => (Eco.DEFAULT_PORT, Eco.DEFAULT_PORT)
  | .minecraft none => (mcJavaDefaultPort, mcBedrockDefaultPort)
  | .minecraft (some .bedrock) => (mcBedrockDefaultPort, mcBedrockDefaultPort)
  | .minecraft (some _) => (mcJavaDefaultPort, mcJavaDefaultPort)
  | .battalion1944 => (Battalion.DEFAULT_PORT, Battalion.DEFAULT_PORT)

end Gd.Dispatch
