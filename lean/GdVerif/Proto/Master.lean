import GdVerif.Net
/-
  MODEL of `services/valve_master_server/{types,service}.rs` (repaired tree).
-/
namespace Gd.Master

inductive Filter
  | isSecured (b : Bool) | runsMap (s : Bytes) | canHavePassword (b : Bool) | canBeEmpty (b : Bool)
  | isEmpty (b : Bool) | canBeFull (b : Bool) | runsAppID (n : Nat) | notAppID (n : Nat)
  | hasTags (tags : List Bytes) | matchName (s : Bytes) | matchVersion (s : Bytes)
  | restrictUniqueIP (b : Bool) | onAddress (s : Bytes) | whitelisted (b : Bool)
  | spectatorProxy (b : Bool) | isDedicated (b : Bool) | runsLinux (b : Bool) | hasGameDir (s : Bytes)
  deriving Repr, DecidableEq

/-- `std::mem::discriminant` -/
def Filter.kind : Filter → Nat
  | .isSecured _ => 0 | .runsMap _ => 1 | .canHavePassword _ => 2 | .canBeEmpty _ => 3 | .isEmpty _ => 4
  | .canBeFull _ => 5 | .runsAppID _ => 6 | .notAppID _ => 7 | .hasTags _ => 8 | .matchName _ => 9
  | .matchVersion _ => 10 | .restrictUniqueIP _ => 11 | .onAddress _ => 12 | .whitelisted _ => 13
  | .spectatorProxy _ => 14 | .isDedicated _ => 15 | .runsLinux _ => 16 | .hasGameDir _ => 17

def boolChar (b : Bool) : Bytes := [if b then 49 else 48]

def bs : Bytes := [0x5c]

/-- `\key\` -/
def keyOf (name : String) : Bytes := bs ++ asciiBytes name ++ bs

/-- tags joined with `,` (each tag followed by a comma, the last comma popped) -/
def joinTags : List Bytes → Bytes
  | [] => []
  | [t] => t
  | t :: r => t ++ [44] ++ joinTags r

/-- `Filter::to_bytes` -/
def Filter.toBytes : Filter → Bytes
  | .isSecured b => keyOf "secure" ++ boolChar b
  | .runsMap s => keyOf "map" ++ s
  | .canHavePassword b => keyOf "password" ++ boolChar b
  | .canBeEmpty b => keyOf "empty" ++ boolChar b
  | .canBeFull b => keyOf "full" ++ boolChar b
  | .runsAppID n => keyOf "appid" ++ natDec n
  | .hasTags tags => if tags.isEmpty then [] else keyOf "gametype" ++ joinTags tags
  | .notAppID n => keyOf "napp" ++ natDec n
  | .isEmpty b => keyOf "noplayers" ++ boolChar b
  | .matchName s => keyOf "name_match" ++ s
  | .matchVersion s => keyOf "version_match" ++ s
  | .restrictUniqueIP b => keyOf "collapse_addr_hash" ++ boolChar b
  | .onAddress s => keyOf "gameaddr" ++ s
  | .whitelisted b => keyOf "white" ++ boolChar b
  | .spectatorProxy b => keyOf "proxy" ++ boolChar b
  | .isDedicated b => keyOf "dedicated" ++ boolChar b
  | .runsLinux b => keyOf "linux" ++ boolChar b
  | .hasGameDir s => keyOf "gamedir" ++ s

/-- a `HashMap<Discriminant<Filter>, Filter>`: at most one filter per kind.  The list order stands
for the map's iteration order, which is arbitrary: theorems quantify over every permutation. -/
abbrev FMap := List Filter

def fmapInsert (m : FMap) (f : Filter) : FMap :=
  match m with
  | [] => [f]
  | g :: r => if g.kind == f.kind then f :: r else g :: fmapInsert r f

structure SearchFilters where
  filters : FMap
  nand : FMap
  nor : FMap
  deriving Repr

def SearchFilters.new : SearchFilters := ⟨[], [], []⟩
def SearchFilters.insert (s : SearchFilters) (f : Filter) : SearchFilters := { s with filters := fmapInsert s.filters f }
def SearchFilters.insertNand (s : SearchFilters) (f : Filter) : SearchFilters := { s with nand := fmapInsert s.nand f }
def SearchFilters.insertNor (s : SearchFilters) (f : Filter) : SearchFilters := { s with nor := fmapInsert s.nor f }

/-- `special_filter_to_bytes(name, filters)` with the map iterated in the given order -/
def specialToBytes (name : String) (fs : FMap) : Bytes :=
  let encoded := (fs.map Filter.toBytes).filter (fun b => !b.isEmpty)
  if encoded.isEmpty then [] else keyOf name ++ natDec encoded.length ++ encoded.flatten

/-- `SearchFilters::to_bytes` with the three maps iterated in the given orders -/
def toBytesOrdered (plain nand nor : FMap) : Bytes :=
  (plain.map Filter.toBytes).flatten ++ specialToBytes "nand" nand ++ specialToBytes "nor" nor ++ [0]

def SearchFilters.toBytes (s : SearchFilters) : Bytes := toBytesOrdered s.filters s.nand s.nor

/-- `construct_payload` -/
def constructPayload (region : Nat) (filterBytes : Bytes) (lastIp : Bytes) (lastPort : Nat) : Bytes :=
  [0x31] ++ [UInt8.ofNat region] ++ lastIp ++ [58] ++ natDec lastPort ++ [0] ++ filterBytes

def filterBytesOf (fs : Option SearchFilters) : Bytes :=
  match fs with
  | none => [0]
  | some s => s.toBytes

abbrev Addr := (Nat × Nat × Nat × Nat) × Nat

def ipText (ip : Nat × Nat × Nat × Nat) : Bytes :=
  natDec ip.1 ++ [46] ++ natDec ip.2.1 ++ [46] ++ natDec ip.2.2.1 ++ [46] ++ natDec ip.2.2.2

def parseEntry : Par Addr := do
  let a ← readU8
  let b ← readU8
  let c ← readU8
  let d ← readU8
  let port ← readUnsigned .big 2
  pure ((a, b, c, d), port)

def parseEntries (fuel : Nat) : Par (List Addr) := do
  let rev ← whileRemaining (fun acc => do let e ← parseEntry; pure (e :: acc)) fuel []
  pure rev.reverse

/-- the reply page: header check and the 6-byte entries -/
def parsePage : Par (List Addr) := do
  let h ← readUnsigned .big 4
  -- `||` short-circuits: the second read happens only if the first comparison passed
  if h != 0xFFFFFFFF then Par.fail .packetBad
  else do
    let k ← readUnsigned .big 2
    if k != 26122 then Par.fail .packetBad
    else fun b => parseEntries (b.remaining + 1) b

/-- `query_specific` -/
def querySpecific (s : Sock) (region : Nat) (fb : Bytes) (lastIp : Bytes) (lastPort : Nat) : Q (List Addr) := do
  send s (constructPayload region fb lastIp lastPort)
  let data ← recv s (some 1400)
  parse parsePage data

def zeroIp : Bytes := asciiBytes "0.0.0.0"

/-- the paging loop of `ValveMasterServer::query` (fuel: every round consumes a delivery) -/
def pageLoop (s : Sock) (region : Nat) (fb : Bytes) : Nat → List Addr → Bytes → Nat → Q (List Addr)
  | 0, _, _, _ => fun w => (.crash, w)
  | fuel + 1, ips, lastIp, lastPort => do
    let newIps ← querySpecific s region fb lastIp lastPort
    match newIps.getLast? with
    | none => pure ips
    | some (latestIp, latestPort) =>
      let latest := ipText latestIp
      if latest == zeroIp && latestPort == 0 then pure (ips ++ newIps.dropLast)
      else if latest == lastIp && latestPort == lastPort then pure (ips ++ newIps)
      else pageLoop s region fb fuel (ips ++ newIps) latest latestPort

def masterPort : Nat := 27011

/-- `valve_master_server::query` -/
def query (region : Nat) (fs : Option SearchFilters) : Q (List Addr) := do
  let s ← openSock false masterPort
  fun w => pageLoop s region (filterBytesOf fs) ((w.conns.getD s.id []).length + 1) [] zeroIp 0 w

/-- `valve_master_server::query_singular` -/
def querySingular (region : Nat) (fs : Option SearchFilters) : Q (List Addr) := do
  let s ← openSock false masterPort
  let ips ← querySpecific s region (filterBytesOf fs) zeroIp 0
  match ips.getLast? with
  | some (ip, port) => if ipText ip == zeroIp && port == 0 then pure ips.dropLast else pure ips
  | none => pure ips

end Gd.Master
