import GdVerif.Proto.Settings
import GdVerif.Proto.Eco
/-
  MODEL of `crates/lib/src/http.rs` (the HTTP client) and of its user `games/eco/protocol.rs`.

  What is modelled (the code of gamedig and of the `url` crate that `HttpClient::new` and `Url::set_path` run):
    * `HttpClient::new`: which duration is handed to which timeout of the agent, the resolver that pins every name to the
      caller's socket address, the user agent, the host text (`hostname` of the settings, else the IP literal, IPv6 in
      brackets), `Url::parse(format!("{protocol}//{host}:{port}"))` with the `url` crate's parser for special schemes
      (tab / newline removal, leading slashes, user info, host: IPv6 literal, percent-decoding, ASCII domain, IPv4 numbers;
      port; path / query / fragment of what follows), the headers;
    * `request` / `request_json` (`get`, `get_json`): `set_path` (the `url` crate's path parser in setter context), the
      headers of the request, and the mapping of every failure to a `GDErrorKind` (`request_error`, `json_body`, the
      `Content-Length` parse of `request`);
    * `eco::query_with_timeout_and_extra_settings`.
  PARAMETERS (never unfolded by a theorem; the driver mirrors them for the correspondence check):
    * `idna`: UTS 46 processing of host names that are not plain ASCII (non-ASCII bytes or an `xn--` label);
    * `Wire`: what `ureq` and the network make of one request (connect / send / response head / body outcomes);
    * the JSON deserialiser (`serde_json` + derive), as in `Proto/Eco.lean`.
  `Ureq.*` mirrors how `ureq` 2.12 renders a request onto the wire (request line, `Host`, fixed headers); theorems about
  the wire text say so in their statement.
  Strings are UTF-8 byte strings; every delimiter the parsers look for is ASCII, so working on bytes is exact.
-/
namespace Gd.Http
open Gd.Settings (Duration Timeout)

/-! ### Addresses (`std::net`) -/

/-- `std::net::IpAddr` (IPv6: the eight segments) -/
inductive IpAddr where
  | v4 (a b c d : UInt8)
  | v6 (s0 s1 s2 s3 s4 s5 s6 s7 : UInt16)
  deriving DecidableEq, Repr

/-- `std::net::SocketAddr` (`port` is a `u16`) -/
structure SocketAddr where
  ip : IpAddr
  port : Nat
  deriving DecidableEq, Repr

def hexLowerDigit (d : Nat) : UInt8 := if d < 10 then UInt8.ofNat (48 + d) else UInt8.ofNat (87 + d)

/-- `{:x}` of an unsigned number: lower-case hex digits, no leading zeros (fuel ≥ number of digits) -/
def hexLowerAux : Nat → Nat → Bytes
  | 0, _ => []
  | f + 1, n => if n < 16 then [hexLowerDigit (n % 16)] else hexLowerAux f (n / 16) ++ [hexLowerDigit (n % 16)]

def hexLower (n : Nat) : Bytes := hexLowerAux (n + 1) n

/-- `pieces.join(sep)` -/
def joinWith (sep : Bytes) : List Bytes → Bytes
  | [] => []
  | [x] => x
  | x :: r => x ++ sep ++ joinWith sep r

/-- `Display for Ipv4Addr` -/
def showIpv4 (a b c d : UInt8) : Bytes :=
  natDec a.toNat ++ [46] ++ natDec b.toNat ++ [46] ++ natDec c.toNat ++ [46] ++ natDec d.toNat

/-- the first longest run of zero segments as `(start, len)` (`Display for Ipv6Addr`: `current.len > longest.len`) -/
def zeroRunGo : List UInt16 → Nat → Nat × Nat → Nat × Nat → Nat × Nat
  | [], _, _, best => best
  | x :: r, i, cur, best =>
    if x == 0 then
      let cur' : Nat × Nat := (if cur.2 == 0 then i else cur.1, cur.2 + 1)
      zeroRunGo r (i + 1) cur' (if cur'.2 > best.2 then cur' else best)
    else zeroRunGo r (i + 1) (0, 0) best

def longestZeroRun (s : List UInt16) : Nat × Nat := zeroRunGo s 0 (0, 0) (0, 0)

/-- `fmt_subslice`: the segments in hex, `:` between them -/
def showSegs (s : List UInt16) : Bytes := joinWith [58] (s.map fun x => hexLower x.toNat)

/-- `Display for Ipv6Addr` without the IPv4-mapped case: the longest run of two or more zero segments (the first of equally
long ones) as `::` -/
def showIpv6Generic (s : List UInt16) : Bytes :=
  let z := longestZeroRun s
  if z.2 > 1 then showSegs (s.take z.1) ++ asciiBytes "::" ++ showSegs (s.drop (z.1 + z.2))
  else showSegs s

/-- `Display for Ipv6Addr`: an IPv4-mapped address (`to_ipv4_mapped`: five zero segments and `ffff`) as `::ffff:a.b.c.d`,
anything else with its zero run compressed -/
def showIpv6 (s : List UInt16) : Bytes :=
  match s with
  | [a, b, c, d, e, f, g, h] =>
    if a == 0 && b == 0 && c == 0 && d == 0 && e == 0 && f == 0xFFFF then
      asciiBytes "::ffff:" ++ showIpv4 (UInt8.ofNat (g.toNat / 256)) (UInt8.ofNat (g.toNat % 256))
        (UInt8.ofNat (h.toNat / 256)) (UInt8.ofNat (h.toNat % 256))
    else showIpv6Generic s
  | _ => showIpv6Generic s

def IpAddr.segs : IpAddr → List UInt16
  | .v6 s0 s1 s2 s3 s4 s5 s6 s7 => [s0, s1, s2, s3, s4, s5, s6, s7]
  | .v4 .. => []

/-- `http.rs: new`, the host text when the settings name none: `ip.to_string()`, an IPv6 address in brackets -/
def ipHostText : IpAddr → Bytes
  | .v4 a b c d => showIpv4 a b c d
  | ip@(.v6 ..) => [91] ++ showIpv6 ip.segs ++ [93]

/-! ### The `url` crate: percent-encoding -/

def hexUpperDigit (d : Nat) : UInt8 := if d < 10 then UInt8.ofNat (48 + d) else UInt8.ofNat (55 + d)

/-- `percent_encode_byte`: `%XX`, upper-case hex -/
def pctByte (b : UInt8) : Bytes := [37, hexUpperDigit (b.toNat / 16), hexUpperDigit (b.toNat % 16)]

/-- `utf8_percent_encode(text, set)`: bytes in the set (and every non-ASCII byte) become `%XX` -/
def pctEncode (inSet : UInt8 → Bool) (s : Bytes) : Bytes :=
  s.flatMap fun b => if b.toNat ≥ 0x80 || inSet b then pctByte b else [b]

/-- `CONTROLS`: C0 controls and DEL -/
def setControls (b : UInt8) : Bool := b.toNat < 0x20 || b == 0x7F
/-- `FRAGMENT` = CONTROLS + space `"` `<` `>` backtick -/
def setFragment (b : UInt8) : Bool := setControls b || b == 32 || b == 34 || b == 60 || b == 62 || b == 96
/-- `PATH` = FRAGMENT + `#` `?` `{` `}` -/
def setPath (b : UInt8) : Bool := setFragment b || b == 35 || b == 63 || b == 123 || b == 125
/-- `USERINFO` = PATH + `/` `:` `;` `=` `@` `[` `\` `]` `^` `|` -/
def setUserinfo (b : UInt8) : Bool :=
  setPath b || b == 47 || b == 58 || b == 59 || b == 61 || b == 64 || b == 91 || b == 92 || b == 93 || b == 94 || b == 124
/-- `SPECIAL_QUERY` = CONTROLS + space `"` `#` `<` `>` `'` -/
def setSpecialQuery (b : UInt8) : Bool := setControls b || b == 32 || b == 34 || b == 35 || b == 60 || b == 62 || b == 39

/-- `percent_decode`: `%` followed by two hex digits is that byte, any other `%` stays -/
def pctDecode : Bytes → Bytes
  | [] => []
  | 37 :: h :: l :: r =>
    match hexVal (Char.ofNat h.toNat), hexVal (Char.ofNat l.toNat) with
    | some x, some y => UInt8.ofNat (x * 16 + y) :: pctDecode r
    | _, _ => 37 :: pctDecode (h :: l :: r)
  | b :: r => b :: pctDecode r

/-! ### The `url` crate: hosts -/

/-- `url::Host` after parsing: a domain (ASCII), an IPv4 address (its 32-bit number), an IPv6 address (8 segments) -/
inductive Host where
  | domain (d : Bytes)
  | ipv4 (n : Nat)
  | ipv6 (segs : List Nat)
  deriving DecidableEq, Repr

/-- `parse_ipv4number`: `none` = not a number (`Err(())`), `some none` = a number that overflows `u32`,
`some (some n)` = the number; `0x` / `0X` prefix hex, a leading `0` octal, else decimal -/
def parseIpv4Number (s : Bytes) : Option (Option Nat) :=
  if s.isEmpty then none
  else
    let (r, digits) : Nat × Bytes :=
      match s with
      | 48 :: 120 :: rest => (16, rest)
      | 48 :: 88 :: rest => (16, rest)
      | 48 :: rest => if s.length ≥ 2 then (8, rest) else (10, s)
      | _ => (10, s)
    if digits.isEmpty then some (some 0)
    else
      let digitVal (b : UInt8) : Option Nat :=
        if r == 16 then hexVal (Char.ofNat b.toNat)
        else if isDigit b && (r == 10 || b.toNat ≤ 55) then some (b.toNat - 48) else none
      match digits.mapM digitVal with
      | none => none
      | some ds =>
        let v := ds.foldl (fun acc d => acc * r + d) 0
        some (if v < 2 ^ 32 then some v else none)

/-- the last label of a domain, an empty one after a trailing dot ignored (`ends_in_a_number`: `rsplit('.')`) -/
def lastLabel (d : Bytes) : Option Bytes :=
  match (splitOn 46 d).reverse with
  | [] => none
  | last :: rest => if last.isEmpty then rest.head? else some last

/-- `ends_in_a_number` -/
def endsInANumber (d : Bytes) : Bool :=
  match lastLabel d with
  | none => false
  | some last => (!last.isEmpty && last.all isDigit) || (parseIpv4Number last).isSome

/-- `parse_ipv4addr`: at most four parts (a trailing empty one dropped), each a number, all but the last ≤ 255, the
last one filling the remaining bytes.  `InvalidIpv4Address` is `.err`; `numbers.pop().expect("a non-empty list of numbers")`
is the `.crash` branch (`split` never returns an empty list and only ONE trailing empty part is popped, so it takes the
input "" to get there — `Lemmas/Http.lean: parseIpv4_no_crash`). -/
def parseIpv4 (d : Bytes) : Res Nat :=
  let parts := splitOn 46 d
  let parts := if parts.getLast? == some [] then parts.dropLast else parts
  if parts.length > 4 then .err .invalidInput
  else
    match parts.mapM (fun p => (parseIpv4Number p).bind id) with
    | none => .err .invalidInput
    | some numbers =>
      match numbers.reverse with
      | [] => .crash
      | last :: revInit =>
        let init := revInit.reverse
        if last ≥ 256 ^ (4 - init.length) then .err .invalidInput
        else if init.any (· > 255) then .err .invalidInput
        else
          let shifted := (List.range init.length).zip init |>.map fun (i, n) => n * 256 ^ (3 - i)
          .ok (last + shifted.foldl (· + ·) 0)

/-- one hexadecimal piece of an IPv6 literal: up to four hex digits → (value, digits consumed, rest) -/
def hexPiece : Nat → Bytes → Nat → Nat → Nat × Nat × Bytes
  | 0, s, v, n => (v, n, s)
  | f + 1, s, v, n =>
    match s with
    | b :: r =>
      match hexVal (Char.ofNat b.toNat) with
      | some d => hexPiece f r (v * 16 + d) (n + 1)
      | none => (v, n, s)
    | [] => (v, n, s)

/-- the dotted-quad tail of an IPv6 literal (`is_ip_v4` part of `parse_ipv6addr`): four decimal numbers ≤ 255 without
leading zeros → the two 16-bit pieces -/
def ipv4Piece : Nat → Bytes → Option Nat → Option (Nat × Bytes)
  | 0, _, _ => none
  | f + 1, s, acc =>
    match s with
    | b :: r =>
      if isDigit b then
        let d := b.toNat - 48
        match acc with
        | none => ipv4Piece f r (some d)
        | some 0 => none
        | some v => if v * 10 + d > 255 then none else ipv4Piece f r (some (v * 10 + d))
      else acc.map (·, s)
    | [] => acc.map (·, s)

def ipv4Tail (s : Bytes) : Option (List Nat) :=
  match ipv4Piece (s.length + 1) s none with
  | some (a, 46 :: s1) =>
    match ipv4Piece (s1.length + 1) s1 none with
    | some (b, 46 :: s2) =>
      match ipv4Piece (s2.length + 1) s2 none with
      | some (c, 46 :: s3) =>
        match ipv4Piece (s3.length + 1) s3 none with
        | some (d, []) => some [a * 256 + b, c * 256 + d]
        | _ => none
      | _ => none
    | _ => none
  | _ => none

/-- the main loop of `parse_ipv6addr`: pieces read so far (in order), where the `::` was (`compress_pointer` = number of
pieces before it) → all pieces and the compression point.  Fuel = remaining length + 1. -/
def ipv6Loop : Nat → Bytes → List Nat → Option Nat → Option (List Nat × Option Nat)
  | 0, _, _, _ => none
  | f + 1, s, pieces, compress =>
    match s with
    | [] => some (pieces, compress)
    | 58 :: r =>  -- `:` where a piece should start: the second colon of `::`
      if pieces.length == 8 then none
      else if compress.isSome then none
      else ipv6Loop f r (pieces ++ [0]) (some (pieces.length + 1))
    | _ =>
      if pieces.length == 8 then none
      else
        let (v, n, rest) := hexPiece 4 s 0 0
        match rest with
        | [] => if n == 0 then none else some (pieces ++ [v], compress)
        | 46 :: _ =>  -- `.`: the piece started an embedded IPv4 address
          if n == 0 then none
          else if pieces.length > 6 then none
          else (ipv4Tail s).map fun two => (pieces ++ two, compress)
        | 58 :: r2 =>
          if n == 0 then none  -- (not reachable: a `:` here is taken by the arm above)
          else if r2.isEmpty then none
          else ipv6Loop f r2 (pieces ++ [v]) compress
        | _ => none

/-- `parse_ipv6addr` (the text between the brackets): the pieces after a `::` are moved to the end, zeros between -/
def parseIpv6 (s : Bytes) : Option (List Nat) :=
  if s.length < 2 then none
  else
    let start : Option (Bytes × List Nat × Option Nat) :=
      match s with
      | 58 :: 58 :: r => some (r, [0], some 1)
      | 58 :: _ => none
      | _ => some (s, [], none)
    match start with
    | none => none
    | some (r, pieces, compress) =>
      match ipv6Loop (r.length + 1) r pieces compress with
      | none => none
      | some (pieces, compress) =>
        if pieces.length > 8 then none
        else
          match compress with
          | some c =>
            -- (with a leading `::` the first piece is the placeholder 0 the code leaves at index 0)
            some (pieces.take c ++ List.replicate (8 - pieces.length) 0 ++ pieces.drop c)
          | none => if pieces.length == 8 then some pieces else none

/-- ASCII characters a domain may not contain (`AsciiDenyList::URL`: space and below, DEL, `%#/:<>?@[\]^|`) -/
def deniedAscii (b : UInt8) : Bool :=
  b.toNat ≤ 0x20 || b == 0x7F || b == 37 || b == 35 || b == 47 || b == 58 || b == 60 || b == 62 || b == 63 || b == 64 ||
  b == 91 || b == 92 || b == 93 || b == 94 || b == 124

/-- a label that starts with `xn--` (any case): Punycode, validated by the IDNA tables -/
def isPunycodeLabel (l : Bytes) : Bool := asciiLower (l.take 4) == asciiBytes "xn--"

/-- host names the model covers without the IDNA tables: ASCII only, no Punycode label -/
def plainAscii (d : Bytes) : Bool := d.all (·.toNat < 0x80) && !(splitOn 46 d).any isPunycodeLabel

/-- `idna::domain_to_ascii_from_cow(domain, AsciiDenyList::URL)`: a plain ASCII name is lower-cased, a denied character
fails; anything else is the parameter's business -/
def domainToAscii (idna : Bytes → Option Bytes) (d : Bytes) : Option Bytes :=
  if plainAscii d then (if d.any deniedAscii then none else some (asciiLower d))
  else idna d

/-- `Host::parse_cow` for a special scheme (every `ParseError` is `.err`; the caller maps it to `InvalidInput`) -/
def parseHost (idna : Bytes → Option Bytes) (input : Bytes) : Res Host :=
  match input with
  | 91 :: r =>
    if input.getLast? != some 93 then .err .invalidInput
    else
      match parseIpv6 r.dropLast with
      | some segs => .ok (.ipv6 segs)
      | none => .err .invalidInput
  | _ =>
    match domainToAscii idna (pctDecode input) with
    | none => .err .invalidInput
    | some domain =>
      if domain.isEmpty then .err .invalidInput
      else if endsInANumber domain then (parseIpv4 domain).bind fun n => .ok (.ipv4 n)
      else .ok (.domain domain)

/-- the URL serialiser's zero run (`longest_zero_sequence`): the first longest run, only if two or more -/
def urlZeroRunGo : List Nat → Nat → Option Nat → Nat × Nat → Nat × Nat
  | [], i, start, best =>
    match start with
    | some s => if i - s > best.2 then (s, i - s) else best
    | none => best
  | x :: r, i, start, best =>
    if x == 0 then urlZeroRunGo r (i + 1) (start.or (some i)) best
    else
      let best' := match start with
        | some s => if i - s > best.2 then (s, i - s) else best
        | none => best
      urlZeroRunGo r (i + 1) none best'

/-- `write_ipv6` -/
def writeIpv6 (segs : List Nat) : Bytes :=
  let z := urlZeroRunGo segs 0 none (0, 0)
  let hexes (l : List Nat) := joinWith [58] (l.map hexLower)
  if z.2 < 2 then hexes segs
  else hexes (segs.take z.1) ++ asciiBytes "::" ++ hexes (segs.drop (z.1 + z.2))

/-- `Display for Host` -/
def Host.text : Host → Bytes
  | .domain d => d
  | .ipv4 n => natDec (n / 2 ^ 24) ++ [46] ++ natDec (n / 2 ^ 16 % 256) ++ [46] ++ natDec (n / 256 % 256) ++ [46] ++ natDec (n % 256)
  | .ipv6 s => [91] ++ writeIpv6 s ++ [93]

/-! ### The `url` crate: paths -/

def isDoubleDot (seg : Bytes) : Bool :=
  [asciiBytes "..", asciiBytes "%2e%2e", asciiBytes "%2e%2E", asciiBytes "%2E%2e", asciiBytes "%2E%2E",
   asciiBytes "%2e.", asciiBytes "%2E.", asciiBytes ".%2e", asciiBytes ".%2E"].contains seg

def isSingleDot (seg : Bytes) : Bool := [asciiBytes ".", asciiBytes "%2e", asciiBytes "%2E"].contains seg

/-- the segment loop of `parse_path` for a special scheme, on the input behind the first slash.  `done` are the segments
already written (each followed by `/`), `cur` the bytes of the segment being read.  `stopAtQuery` = `Context::UrlParser`
(a `?` or `#` ends the path; in the setter they are percent-encoded like any byte of the PATH set).  Returns the
serialised path (without its leading slash) and the unread input. -/
def pathLoop (stopAtQuery : Bool) : Bytes → List Bytes → Bytes → Bytes × Bytes
  | [], done, cur =>
    let seg := pctEncode setPath cur
    let done' := if isDoubleDot seg then done.dropLast else done
    let last := if isDoubleDot seg || isSingleDot seg then [] else seg
    ((done'.flatMap fun s => s ++ [47]) ++ last, [])
  | b :: r, done, cur =>
    if b == 47 || b == 92 then
      let seg := pctEncode setPath cur
      let done' := if isDoubleDot seg then done.dropLast else if isSingleDot seg then done else done ++ [seg]
      pathLoop stopAtQuery r done' []
    else if stopAtQuery && (b == 63 || b == 35) then
      let seg := pctEncode setPath cur
      let done' := if isDoubleDot seg then done.dropLast else done
      let last := if isDoubleDot seg || isSingleDot seg then [] else seg
      ((done'.flatMap fun s => s ++ [47]) ++ last, b :: r)
    else pathLoop stopAtQuery r done (cur ++ [b])

/-- `parse_path_start` for a special scheme: the path always starts with `/`; a leading `/` or `\` of the input is that
slash -/
def parsePath (stopAtQuery : Bool) (input : Bytes) : Bytes × Bytes :=
  let body := match input with
    | 47 :: r => r
    | 92 :: r => r
    | _ => input
  let (p, rest) := pathLoop stopAtQuery body [] []
  (47 :: p, rest)

/-! ### The `url` crate: `Url::parse` of `<scheme>://<host>:<port>` -/

/-- `http.rs: HttpProtocol` (`https` exists with the `tls` feature only) -/
inductive Protocol where
  | http
  | https
  deriving DecidableEq, Repr

/-- `HttpProtocol::as_str` without the colon, i.e. `Url::scheme` -/
def Protocol.scheme : Protocol → Bytes
  | .http => asciiBytes "http"
  | .https => asciiBytes "https"

/-- `default_port` of the scheme -/
def Protocol.defaultPort : Protocol → Nat
  | .http => 80
  | .https => 443

/-- a parsed `url::Url` (the crate keeps one string and indices into it; these are the parts behind its accessors,
user name / password / path / query / fragment in their serialised, percent-encoded form) -/
structure Url where
  protocol : Protocol
  username : Bytes
  password : Option Bytes
  host : Host
  port : Option Nat
  path : Bytes
  query : Option Bytes
  fragment : Option Bytes
  deriving DecidableEq, Repr

def isTabOrNewline (b : UInt8) : Bool := b == 9 || b == 10 || b == 13

/-- what ends the authority of a special URL -/
def isAuthorityEnd (b : UInt8) : Bool := b == 47 || b == 63 || b == 35 || b == 92

/-- `take_while(!p)` / the rest -/
def splitAt (p : UInt8 → Bool) : Bytes → Bytes × Bytes
  | [] => ([], [])
  | b :: r => if p b then ([], b :: r) else let (a, c) := splitAt p r; (b :: a, c)

/-- position of the last `@` -/
def lastAt : Bytes → Option Nat
  | [] => none
  | b :: r =>
    match lastAt r with
    | some i => some (i + 1)
    | none => if b == 64 then some 0 else none

/-- `parse_host`'s scan: up to a `:` outside square brackets -/
def hostSpan : Bytes → Bool → Bytes × Bytes
  | [], _ => ([], [])
  | b :: r, inside =>
    if b == 58 && !inside then ([], b :: r)
    else
      let inside' := if b == 91 then true else if b == 93 then false else inside
      let (a, c) := hostSpan r inside'
      (b :: a, c)

/-- the user info in front of the last `@` → (user name, password), percent-encoded with the USERINFO set -/
def parseUserinfo (info : Bytes) : Bytes × Option Bytes :=
  let (user, rest) := splitAt (· == 58) info
  match rest with
  | _ :: pw => (pctEncode setUserinfo user, if pw.isEmpty then none else some (pctEncode setUserinfo pw))
  | [] => (pctEncode setUserinfo user, none)

/-- `parse_port` in parser context: digits (value ≤ 65535), then the end or one of `/ \ ? #`; the scheme's default
port is dropped.  `none` = `InvalidPort`; otherwise the port and the unread input. -/
def parsePort (dflt : Nat) (s : Bytes) : Option (Option Nat × Bytes) :=
  let (digits, rest) := splitAt (fun b => !isDigit b) s
  -- (the code checks `port > u16::MAX` digit by digit; on a digit string that is the same as checking the value,
  --  because a prefix of a decimal number is never larger than the number)
  let v := digitsVal digits
  if v > 65535 then none
  else
    match rest with
    | b :: _ => if !isAuthorityEnd b then none else some (if digits.isEmpty || v == dflt then none else some v, rest)
    | [] => some (if digits.isEmpty || v == dflt then none else some v, rest)

/-- `Url::parse` on `<scheme>:` followed by `after` (the scheme itself is the constant `http` / `https`).
Every parser error is `InvalidInput` (`.map_err(|e| InvalidInput.context(e))`). -/
def parseUrl (idna : Bytes → Option Bytes) (protocol : Protocol) (after : Bytes) : Res Url :=
  -- tab and newline characters are ignored wherever they stand
  let s := after.filter (fun b => !isTabOrNewline b)
  -- "special authority slashes state": any run of `/` and `\`
  let s := s.dropWhile (fun b => b == 47 || b == 92)
  let (authority, tail) := splitAt isAuthorityEnd s
  -- user info: everything before the LAST `@` of the authority
  -- (`@` first and nothing behind it but the end of the authority: `EmptyHost`; the same falls out of the empty host below)
  let (user, pw, hostport) : Bytes × Option Bytes × Bytes :=
    match lastAt authority with
    | none => ([], none, authority)
    | some i => let (u, p) := parseUserinfo (authority.take i); (u, p, authority.drop (i + 1))
  let (hostText, afterHost) := hostSpan hostport false
  if hostText.isEmpty then .err .invalidInput
  else
    match parseHost idna hostText with
    | .err k => .err k
    | .crash => .crash
    | .ok host =>
      let portRes : Option (Option Nat × Bytes) :=
        match afterHost with
        | 58 :: r => parsePort protocol.defaultPort (r ++ tail)
        | _ => some (none, afterHost ++ tail)
      match portRes with
      | none => .err .invalidInput
      | some (port, rest) =>
        let (path, rest) := parsePath true rest
        let (query, rest) : Option Bytes × Bytes :=
          match rest with
          | 63 :: r => let (q, r2) := splitAt (· == 35) r; (some (pctEncode setSpecialQuery q), r2)
          | _ => (none, rest)
        let fragment : Option Bytes :=
          match rest with
          | 35 :: r => some (pctEncode setFragment r)
          | _ => none
        .ok ⟨protocol, user, pw, host, port, path, query, fragment⟩

/-- `Url::set_path` (special scheme): the path parser in setter context on the given text; query and fragment stay -/
def Url.setPath (u : Url) (path : Bytes) : Url :=
  { u with path := (parsePath false (path.filter (fun b => !isTabOrNewline b))).1 }

/-- `Url::as_str` -/
def Url.text (u : Url) : Bytes :=
  u.protocol.scheme ++ asciiBytes "://" ++
  (if u.username.isEmpty && u.password.isNone then []
   else u.username ++ (match u.password with | some p => 58 :: p | none => []) ++ [64]) ++
  u.host.text ++ (match u.port with | some p => 58 :: natDec p | none => []) ++ u.path ++
  (match u.query with | some q => 63 :: q | none => []) ++
  (match u.fragment with | some f => 35 :: f | none => [])

/-! ### `HttpClient` -/

/-- `http.rs: HttpSettings` -/
structure HttpSettings where
  protocol : Protocol := .http
  hostname : Option Bytes := none
  headers : List (Bytes × Bytes) := []
  deriving DecidableEq, Repr

/-- what `HttpClient::new` configures the `ureq` agent with.  `resolver` is the closure handed to
`AgentBuilder::resolver`: the addresses a name (`host:port` text) resolves to. -/
structure AgentConfig where
  timeoutRead : Option Duration
  timeoutWrite : Option Duration
  timeoutConnect : Option Duration
  /-- `AgentBuilder::timeout`: a deadline for the whole request -/
  timeoutOverall : Option Duration
  userAgent : Bytes
  resolver : Bytes → List SocketAddr

/-- `AgentBuilder::new()`: ureq's own defaults (a 30 s connect timeout, nothing else) -/
def ureqDefaults : AgentConfig :=
  ⟨none, none, some ⟨30, 0⟩, none, asciiBytes "ureq", fun _ => []⟩

/-- `http.rs: HttpClient` -/
structure Client where
  agent : AgentConfig
  address : Url
  headers : List (Bytes × Bytes)

/-- `concat!(env!("CARGO_PKG_NAME"), "/", env!("CARGO_PKG_VERSION"))` -/
def userAgentOf (pkgName pkgVersion : Bytes) : Bytes := pkgName ++ [47] ++ pkgVersion

/-- `HttpClient::new(address, timeout_settings, http_settings)`.  Each `timeout_*` of the builder is called only when the
settings (or, without settings, the defaults) carry that duration; the resolver answers every name with the address. -/
def new (idna : Bytes → Option Bytes) (ua : Bytes) (address : SocketAddr) (ts : Option Timeout) (hs : HttpSettings) :
    Res Client :=
  let (readTimeout, writeTimeout) := Settings.readAndWriteOrDefaults ts
  let b := ureqDefaults
  let b := match readTimeout with | some t => { b with timeoutRead := some t } | none => b
  let b := match writeTimeout with | some t => { b with timeoutWrite := some t } | none => b
  let b := match Settings.connectOrDefault ts with | some t => { b with timeoutConnect := some t } | none => b
  let b := { b with resolver := fun _ => [address] }
  let b := { b with userAgent := ua }
  let host := match hs.hostname with
    | some h => h
    | none => ipHostText address.ip
  match parseUrl idna hs.protocol (asciiBytes "//" ++ host ++ [58] ++ natDec address.port) with
  | .ok url => .ok ⟨b, url, hs.headers⟩
  | .err k => .err k
  | .crash => .crash

/-- `Url::port_or_known_default` (always some port for `http` / `https`) -/
def Url.portOrDefault (u : Url) : Nat := u.port.getD u.protocol.defaultPort

/-- the `std::net` address a parsed host literal stands for (`Host::Ipv4(ip)` / `Host::Ipv6(ip)`); a domain has none -/
def Host.ipAddr : Host → Option IpAddr
  | .ipv4 n => some (.v4 (UInt8.ofNat (n / 2 ^ 24)) (UInt8.ofNat (n / 2 ^ 16 % 256)) (UInt8.ofNat (n / 256 % 256)) (UInt8.ofNat (n % 256)))
  | .ipv6 [a, b, c, d, e, f, g, h] =>
    some (.v6 (UInt16.ofNat a) (UInt16.ofNat b) (UInt16.ofNat c) (UInt16.ofNat d) (UInt16.ofNat e) (UInt16.ofNat f) (UInt16.ofNat g) (UInt16.ofNat h))
  | _ => none

/-- `HttpClient::from_url(url, timeout_settings, headers)` for an already parsed `http` / `https` URL (for a `Url` argument
`try_into` is the identity; such a URL always has a host and a port-or-default, so the two `ok_or_else` errors cannot occur).
An IP literal is the address; a domain goes through `(domain, port).to_socket_addrs()` — the system resolver, a PARAMETER
(`lookup`; `none` = the lookup fails) — and the FIRST address found is taken (`HostLookup` when there is none).  The host
text of the URL becomes the `hostname` of the settings; `https` is kept only with the crate's `tls` feature (`tls`), any other
scheme is treated as `http`.  Then `new`. -/
def fromUrl (idna : Bytes → Option Bytes) (ua : Bytes) (lookup : Bytes → Nat → Option (List SocketAddr)) (tls : Bool) (url : Url)
    (ts : Option Timeout) (headers : Option (List (Bytes × Bytes))) : Res Client :=
  let port := url.portOrDefault
  let address : Res SocketAddr :=
    match url.host with
    | .domain d =>
      match lookup d port with
      | some (a :: _) => .ok a
      | _ => .err .hostLookup
    | host =>
      match host.ipAddr with
      | some ip => .ok ⟨ip, port⟩
      -- (an IPv6 host of a parsed URL has eight segments)
      | none => .err .invalidInput
  match address with
  | .ok address =>
    new idna ua address ts ⟨if url.protocol == .https && tls then .https else .http, some url.host.text, headers.getD []⟩
  | .err k => .err k
  | .crash => .crash

/-- `ureq::Request::set` (`header::add_header`): a header of the same name (compared as written) is replaced, unless the
name starts with `x-` / `X-` -/
def setHeader (hs : List (Bytes × Bytes)) (h : Bytes × Bytes) : List (Bytes × Bytes) :=
  if h.1.take 2 == asciiBytes "x-" || h.1.take 2 == asciiBytes "X-" then hs ++ [h]
  else hs.filter (fun x => x.1 != h.1) ++ [h]

/-- what a `request*` method hands to `ureq`: method, URL, headers (the client's, then the request's) -/
structure Request where
  method : Bytes
  url : Url
  headers : List (Bytes × Bytes)
  deriving DecidableEq, Repr

/-- `self.address.set_path(path); self.make_request(method, headers)` -/
def Client.makeRequest (c : Client) (method path : Bytes) (headers : List (Bytes × Bytes)) : Request :=
  ⟨method, c.address.setPath path, (c.headers ++ headers).foldl setHeader []⟩

/-! ### What `ureq` and the network make of a request (parameter) and its classification -/

/-- `ureq::ErrorKind` -/
inductive UreqErrorKind where
  | invalidUrl | unknownScheme | dns | insecureRequestHttpsOnly | connectionFailed | tooManyRedirects | badStatus
  | badHeader | io | invalidProxyUrl | proxyConnect | proxyUnauthorized | http
  deriving DecidableEq, Repr

/-- `http.rs: request_error` -/
def requestError : UreqErrorKind → ErrKind
  | .connectionFailed => .socketConnect
  | _ => .packetSend

inductive ConnectOutcome where
  | connected
  /-- nothing listens (or any other immediate failure of `connect`) -/
  | refused
  /-- no answer within the connect timeout -/
  | timedOut
  deriving DecidableEq, Repr

inductive SendOutcome where
  | sent
  /-- the write failed at once (connection reset) -/
  | failed
  /-- the write blocked until the write timeout -/
  | timedOut
  deriving DecidableEq, Repr

inductive HeadOutcome where
  /-- status line and headers arrived: the status code and the raw `Content-Length` header, if any -/
  | head (status : Nat) (contentLength : Option Bytes)
  /-- nothing more arrives within the read timeout (mute peer, or it stalls inside the head) -/
  | timedOut
  /-- the peer closes before the head is complete -/
  | closed
  /-- what arrives is not an HTTP status line -/
  | malformed
  /-- more redirects than the agent follows -/
  | tooManyRedirects
  deriving DecidableEq, Repr

inductive BodyOutcome where
  | complete (body : Bytes)
  /-- the body stops arriving: the read runs into the read timeout -/
  | timedOut
  /-- the peer closes before the announced length -/
  | closedEarly
  deriving DecidableEq, Repr

/-- one request on the wire, as far as it gets -/
structure Wire where
  connect : ConnectOutcome
  send : SendOutcome
  head : HeadOutcome
  body : BodyOutcome
  deriving DecidableEq, Repr

/-- the blocking steps of a request, named after the timeout that bounds them -/
inductive Step where
  | connect | write | read
  deriving DecidableEq, Repr

/-- `request.call()`: the response head (status < 400) or the error, and the blocking steps that ran into their
timeout on the way.  (Mirror of `ureq`: `ConnectionFailed` for a connect error, `Io` for any read / write error,
`BadStatus` for a malformed status line, `Error::Status` = kind `HTTP` for a status ≥ 400.) -/
def call (w : Wire) : (Except UreqErrorKind (Nat × Option Bytes)) × List Step :=
  match w.connect with
  | .refused => (.error .connectionFailed, [])
  | .timedOut => (.error .connectionFailed, [.connect])
  | .connected =>
    match w.send with
    | .failed => (.error .io, [])
    | .timedOut => (.error .io, [.write])
    | .sent =>
      match w.head with
      | .timedOut => (.error .io, [.read])
      | .closed => (.error .io, [])
      | .malformed => (.error .badStatus, [])
      | .tooManyRedirects => (.error .tooManyRedirects, [])
      | .head status cl => if status ≥ 400 then (.error .http, []) else (.ok (status, cl), [])

/-- reading the body to its end (`into_reader().take(MAX).read_to_end`): any error is `PacketReceive` -/
def readBody (w : Wire) : Res Bytes × List Step :=
  match w.body with
  | .complete b => (.ok b, [])
  | .timedOut => (.err .packetReceive, [.read])
  | .closedEarly => (.err .packetReceive, [])

/-- `MAX_RESPONSE_LENGTH` -/
def MAX_RESPONSE_LENGTH : Nat := 1024 * 1024 * 1024

/-- `HttpClient::request` (`get`): the body as bytes.  A `Content-Length` header that is not a `usize` is
`ProtocolFormat`; the announced length (capped at 1 GiB) is only the capacity reserved. -/
def Client.request (c : Client) (w : Wire) (method path : Bytes) (headers : List (Bytes × Bytes)) :
    Request × Res Bytes × List Step :=
  let req := c.makeRequest method path headers
  match call w with
  | (.error k, steps) => (req, .err (requestError k), steps)
  | (.ok (_, cl), steps) =>
    let lengthOk : Bool := match cl with
      | some l => (parseUnsigned 64 l).isSome
      | none => true
    if !lengthOk then (req, .err .protocolFormat, steps)
    else
      let (r, s2) := readBody w
      (req, r, steps ++ s2)

/-- `HttpClient::request_json` (`get_json`): `json_body(request.call().map_err(request_error)?)` — the whole body, then
the deserialiser (`none` = `serde_json` error: `ProtocolFormat`) -/
def Client.requestJson (c : Client) (w : Wire) (json : Bytes → Option α) (method path : Bytes)
    (headers : List (Bytes × Bytes)) : Request × Res α × List Step :=
  let req := c.makeRequest method path headers
  match call w with
  | (.error k, steps) => (req, .err (requestError k), steps)
  | (.ok _, steps) =>
    match readBody w with
    | (.ok body, s2) =>
      match json body with
      | some v => (req, .ok v, steps ++ s2)
      | none => (req, .err .protocolFormat, steps ++ s2)
    | (.err k, s2) => (req, .err k, steps ++ s2)
    | (.crash, s2) => (req, .crash, steps ++ s2)

def GET : Bytes := asciiBytes "GET"

/-! ### `ureq` 2.12 on the wire (mirror; tied on every run by the loopback listener) -/
namespace Ureq

/-- header names are compared without regard to ASCII case -/
def hasHeader (hs : List (Bytes × Bytes)) (name : String) : Bool :=
  hs.any fun h => asciiLower h.1 == asciiBytes name

/-- RFC 4648 base64 with padding -/
def b64Char (n : Nat) : UInt8 :=
  if n < 26 then UInt8.ofNat (65 + n) else if n < 52 then UInt8.ofNat (97 + n - 26)
  else if n < 62 then UInt8.ofNat (48 + n - 52) else if n == 62 then 43 else 47

def base64 : Bytes → Bytes
  | a :: b :: c :: r =>
    let n := a.toNat * 65536 + b.toNat * 256 + c.toNat
    [b64Char (n / 262144), b64Char (n / 4096 % 64), b64Char (n / 64 % 64), b64Char (n % 64)] ++ base64 r
  | [a, b] =>
    let n := a.toNat * 65536 + b.toNat * 256
    [b64Char (n / 262144), b64Char (n / 4096 % 64), b64Char (n / 64 % 64), 61]
  | [a] =>
    let n := a.toNat * 65536
    [b64Char (n / 262144), b64Char (n / 4096 % 64), 61, 61]
  | [] => []

/-- the value of the `Host` header `send_prelude` writes: the host of the URL, and its port unless the URL has none
(the scheme's default port is never kept by the parser) -/
def hostHeader (u : Url) : Bytes :=
  u.host.text ++ (match u.port with | some p => 58 :: natDec p | none => [])

/-- the request target of the request line: path, and `?query` when the query is not empty -/
def target (u : Url) : Bytes :=
  u.path ++ (match u.query with | some q => if q.isEmpty then [] else 63 :: q | none => [])

/-- all headers in the order written: `Host`, `User-Agent`, `Accept` (each unless the request sets it itself), the request's
headers, `accept-encoding: gzip` (unless set; the crate enables ureq's `gzip` feature), `Authorization: Basic` from the
user info of the URL (unless set) -/
def headerLines (agent : AgentConfig) (r : Request) : List (Bytes × Bytes) :=
  let accEnc : List (Bytes × Bytes) :=
    if hasHeader r.headers "accept-encoding" || hasHeader r.headers "range" then [] else [(asciiBytes "accept-encoding", asciiBytes "gzip")]
  let hs := r.headers ++ accEnc
  let pw := r.url.password.getD []
  let auth : List (Bytes × Bytes) :=
    if (!r.url.username.isEmpty || !pw.isEmpty) && !hasHeader hs "authorization"
    then [(asciiBytes "Authorization", asciiBytes "Basic " ++ base64 (r.url.username ++ [58] ++ pw))] else []
  let hs := hs ++ auth
  (if hasHeader hs "host" then [] else [(asciiBytes "Host", hostHeader r.url)]) ++
  (if hasHeader hs "user-agent" then [] else [(asciiBytes "User-Agent", agent.userAgent)]) ++
  (if hasHeader hs "accept" then [] else [(asciiBytes "Accept", asciiBytes "*/*")]) ++ hs

/-- the request head as sent -/
def requestHead (agent : AgentConfig) (r : Request) : Bytes :=
  r.method ++ [32] ++ target r.url ++ asciiBytes " HTTP/1.1\r\n" ++
  (headerLines agent r).flatMap (fun h => h.1 ++ asciiBytes ": " ++ h.2 ++ asciiBytes "\r\n") ++ asciiBytes "\r\n"

/-- `Header::validate`: a token as name, visible ASCII / space / tab as value; a request with an invalid header fails
before anything is sent (`BadHeader`) -/
def isTchar (b : UInt8) : Bool :=
  [33, 35, 36, 37, 38, 39, 42, 43, 45, 46, 94, 95, 96, 124, 126].contains b.toNat || isDigit b || inRange b 65 90 || inRange b 97 122

def validHeader (h : Bytes × Bytes) : Bool :=
  !h.1.isEmpty && h.1.all isTchar && h.2.all fun b => b == 32 || b == 9 || inRange b 0x21 0x7E

/-- which of the agent's timeouts bounds which blocking step (`connect_host`: `timeout_connect` for `connect_timeout`;
`set_read_timeout(timeout_read)` / `set_write_timeout(timeout_write)` on the stream; with an overall `timeout` set, the time
left until that deadline replaces all three) -/
def timeoutOf (agent : AgentConfig) (s : Step) : Option Duration :=
  match agent.timeoutOverall with
  | some d => some d
  | none =>
    match s with
    | .connect => agent.timeoutConnect
    | .write => agent.timeoutWrite
    | .read => agent.timeoutRead

end Ureq

end Gd.Http

/-! ### The Eco query (`games/eco/protocol.rs`, `types.rs: EcoRequestSettings`) -/
namespace Gd.Eco
open Gd.Http

/-- `EcoRequestSettings` (from `ExtraRequestSettings`: the host name) -/
structure RequestSettings where
  hostname : Option Bytes := none
  deriving DecidableEq, Repr

/-- `impl From<EcoRequestSettings> for HttpSettings<String>` -/
def RequestSettings.toHttp (s : RequestSettings) : HttpSettings := ⟨.http, s.hostname, []⟩

/-- `eco::query_with_timeout_and_extra_settings` -/
def query (idna : Bytes → Option Bytes) (ua : Bytes) (w : Wire) (json : Bytes → Option Info) (address : IpAddr)
    (port : Option Nat) (ts : Option Settings.Timeout) (extra : Option RequestSettings) :
    Option (Client × Request) × Res Response × List Step :=
  let address : SocketAddr := ⟨address, port.getD DEFAULT_PORT⟩
  match Http.new idna ua address ts (extra.getD {}).toHttp with
  | .ok client =>
    let (req, r, steps) := client.requestJson w json GET (asciiBytes PATH) []
    (some (client, req), r.bind (fun info => .ok (fromRoot info)), steps)
  | .err k => (none, .err k, [])
  | .crash => (none, .crash, [])

end Gd.Eco
