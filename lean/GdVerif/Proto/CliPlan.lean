import GdVerif.Proto.CliJson
import GdVerif.Proto.Dispatch
import GdVerif.Proto.Http
import GdVerif.Proto.Views
import GdVerif.Gen.Views
/-
  MODEL of the command-line tool's `main` (`crates/cli/src/main.rs`), statement for statement, from the values of the
  flags to the process outcome:

    values of the flags ──clap──▶ Args ──find_game──▶ row of GAMES ──resolve_ip_or_domain──▶ address, extra settings
      ──query_with_timeout_and_extra_settings──▶ response ──output_result(mode, format)──▶ one document on stdout, exit 0
    and every way out on the way: clap's usage error (exit 2), `Err` returned from `main` (exit 1, message, no
    document), a panic (exit 101).

  What is the tool's own: the lookup, the literal-or-name decision, `set_hostname_if_missing`, the hand-over of port /
  timeout / extra settings to the library, the choice between `as_json()` and `as_original()`, the order of the steps
  of every writer (everything that can fail comes before the one `println!`), the two `panic!`s / the `expect`.
  What is external and therefore a parameter: clap's tokenisation of argv (the model starts from the VALUE of each
  flag; the per-value parsers — `u16`, `usize`, `i32`, `bool`, the value enums, `parse_duration_secs` — are modelled),
  the system resolver, serde's derive output for the response types, serde_json / quick-xml / bson failing or not,
  the Debug text.  `std::net`'s `IpAddr::from_str` is mirrored (`parseIpAddr`), `Display for IpAddr` is
  `Http.showIpv4` / `Http.showIpv6`.
-/
namespace Gd.CliPlan
open Gd Gd.Cli

/-! ### `IpAddr::from_str` (core::net::parser) -/

/-- `char::to_digit(radix)` for radix 10 / 16 -/
def digitVal (radix : Nat) (b : UInt8) : Option Nat :=
  if 48 ≤ b.toNat ∧ b.toNat ≤ 57 then some (b.toNat - 48)
  else if radix = 16 ∧ 97 ≤ b.toNat ∧ b.toNat ≤ 102 then some (b.toNat - 87)
  else if radix = 16 ∧ 65 ≤ b.toNat ∧ b.toNat ≤ 70 then some (b.toNat - 55)
  else none

/-- the digits `read_number`'s loop consumes (it stops at the first character that is not a digit) and the rest -/
def digitRun (radix : Nat) : Bytes → List Nat × Bytes
  | [] => ([], [])
  | b :: r =>
    match digitVal radix b with
    | some d =>
      match digitRun radix r with
      | (ds, rest) => (d :: ds, rest)
    | none => ([], b :: r)

/-- `Parser::read_number(radix, Some(max_digits), allow_zero_prefix)` into a type of `bits` bits: at least one digit,
at most `max_digits`, no leading zero on a longer number unless allowed, the value must fit -/
def readNumber (radix maxDigits bits : Nat) (allowZeroPrefix : Bool) (s : Bytes) : Option (Nat × Bytes) :=
  match digitRun radix s with
  | (ds, rest) =>
    if ds.isEmpty then none
    else if ds.length > maxDigits then none
    else if !allowZeroPrefix && ds.head? = some 0 && ds.length > 1 then none
    else
      let v := ds.foldl (fun acc d => acc * radix + d) 0
      if v < 2 ^ bits then some (v, rest) else none

/-- `Parser::read_separator(sep, index, inner)`: the separator before every item but the first -/
def readSep (sep : UInt8) (index : Nat) (inner : Bytes → Option (α × Bytes)) (s : Bytes) : Option (α × Bytes) :=
  if index = 0 then inner s
  else match s with
    | c :: r => if c = sep then inner r else none
    | [] => none

/-- `Parser::read_ipv4_addr`: four decimal numbers of at most three digits, no leading zeros ("octal"), each a `u8` -/
def readIpv4 (s : Bytes) : Option ((Nat × Nat × Nat × Nat) × Bytes) := do
  let (a, s) ← readSep 46 0 (readNumber 10 3 8 false) s
  let (b, s) ← readSep 46 1 (readNumber 10 3 8 false) s
  let (c, s) ← readSep 46 2 (readNumber 10 3 8 false) s
  let (d, s) ← readSep 46 3 (readNumber 10 3 8 false) s
  pure ((a, b, c, d), s)

/-- `read_groups(p, groups)` of `read_ipv6_addr`, `remaining` = slots still free, `i` = slots filled: hex groups of at
most four digits separated by `:`; while at least two slots are free an embedded IPv4 address may end the run.
Returns the groups read, whether an IPv4 tail ended them, and the rest (a failed item consumes nothing). -/
def readGroups : (remaining : Nat) → (i : Nat) → Bytes → List Nat × Bool × Bytes
  | 0, _, s => ([], false, s)
  | n + 1, i, s =>
    match (if n ≥ 1 then readSep 58 i readIpv4 s else none) with
    | some ((a, b, c, d), s') => ([a * 256 + b, c * 256 + d], true, s')
    | none =>
      match readSep 58 i (readNumber 16 4 16 true) s with
      | some (g, s') =>
        match readGroups n (i + 1) s' with
        | (gs, v4, rest) => (g :: gs, v4, rest)
      | none => ([], false, s)

/-- `Parser::read_ipv6_addr`: eight groups, or a head, `::` and a tail of at most `7 - head` groups (an IPv4 part is
not allowed before `::`) -/
def readIpv6 (s : Bytes) : Option (List Nat × Bytes) :=
  match readGroups 8 0 s with
  | (head, headV4, s1) =>
    if head.length = 8 then some (head, s1)
    else if headV4 then none
    else
      match s1 with
      | 58 :: 58 :: s2 =>
        -- `let limit = 8 - (head_size + 1)`: head_size ≤ 7 here
        match readGroups (7 - head.length) 0 s2 with
        | (tail, _, s3) =>
          -- `head[(8 - tail_size)..8].copy_from_slice(&tail[..tail_size])` over the zero-initialised array
          some (head ++ List.replicate (8 - head.length - tail.length) 0 ++ tail, s3)
      | _ => none

/-- `host_str.parse::<IpAddr>()`: `read_ipv4_addr().or_else(read_ipv6_addr)`, and the whole text must be consumed -/
def parseIpAddr (s : Bytes) : Option Http.IpAddr :=
  match readIpv4 s with
  | some ((a, b, c, d), rest) =>
    if rest.isEmpty then some (.v4 (UInt8.ofNat a) (UInt8.ofNat b) (UInt8.ofNat c) (UInt8.ofNat d)) else none
  | none =>
    match readIpv6 s with
    | some ([s0, s1, s2, s3, s4, s5, s6, s7], rest) =>
      if rest.isEmpty then
        some (.v6 (UInt16.ofNat s0) (UInt16.ofNat s1) (UInt16.ofNat s2) (UInt16.ofNat s3) (UInt16.ofNat s4)
          (UInt16.ofNat s5) (UInt16.ofNat s6) (UInt16.ofNat s7))
      else none
    | _ => none

/-- `Display for IpAddr` -/
def showIpAddr : Http.IpAddr → Bytes
  | .v4 a b c d => Http.showIpv4 a b c d
  | ip@(.v6 ..) => Http.showIpv6 ip.segs

/-! ### the flags -/

inductive OutputMode | generic | protocolSpecific
  deriving Repr, DecidableEq

inductive OutputFormat | debug | jsonPretty | json | xml | bsonHex | bsonBase64
  deriving Repr, DecidableEq

/-- the VALUE given for each flag of `gamedig_cli query` (`none` = the flag does not occur) -/
structure Flags where
  game : Option Bytes := none
  ip : Option Bytes := none
  port : Option Bytes := none
  format : Option Bytes := none
  outputMode : Option Bytes := none
  connectTimeout : Option Bytes := none
  readTimeout : Option Bytes := none
  writeTimeout : Option Bytes := none
  retries : Option Bytes := none
  hostname : Option Bytes := none
  protocolVersion : Option Bytes := none
  gatherPlayers : Option Bytes := none
  gatherRules : Option Bytes := none
  checkAppId : Option Bytes := none
  deriving Repr, DecidableEq

/-- what `Cli::parse()` hands to `main` for `Action::Query` -/
structure Args where
  game : Bytes
  ip : Bytes
  port : Option Nat
  format : OutputFormat
  outputMode : OutputMode
  timeoutSettings : Option Settings.Timeout
  extraOptions : Option Dispatch.Extra
  deriving Repr, DecidableEq

/-- a `String` argument: clap refuses a value that is not UTF-8 -/
def clapString (v : Bytes) : Option Bytes := if validUtf8 v then some v else none

/-- an optional flag with a value parser: absent, or present and accepted -/
def clapOpt (p : Bytes → Option α) : Option Bytes → Option (Option α)
  | none => some none
  | some v => (p v).map some

/-- `#[derive(ValueEnum)] enum OutputFormat` (kebab-case names, exact match) -/
def parseFormat (v : Bytes) : Option OutputFormat :=
  if v = asciiBytes "debug" then some .debug
  else if v = asciiBytes "json-pretty" then some .jsonPretty
  else if v = asciiBytes "json" then some .json
  else if v = asciiBytes "xml" then some .xml
  else if v = asciiBytes "bson-hex" then some .bsonHex
  else if v = asciiBytes "bson-base64" then some .bsonBase64
  else none

/-- `#[derive(ValueEnum)] enum OutputMode` -/
def parseMode (v : Bytes) : Option OutputMode :=
  if v = asciiBytes "generic" then some .generic
  else if v = asciiBytes "protocol-specific" then some .protocolSpecific
  else none

/-- `#[derive(clap::ValueEnum)] enum GatherToggle` -/
def parseToggle (v : Bytes) : Option Toggle :=
  if v = asciiBytes "skip" then some .skip
  else if v = asciiBytes "try" then some .try_
  else if v = asciiBytes "enforce" then some .enforce
  else none

/-- clap's `BoolValueParser` (an `Option<bool>` flag takes a value) -/
def parseBool (v : Bytes) : Option Bool :=
  if v = asciiBytes "true" then some true
  else if v = asciiBytes "false" then some false
  else none

/-- clap's `value_parser!(u16)` (`RangedI64ValueParser<u16>`): the text is read as an `i64`, then it must lie in `0..=65535`
(so `+80`, `080` and `-0` are port numbers, `65536` and `-1` are not) -/
def clapU16 (v : Bytes) : Option Nat :=
  match parseSigned 64 v with
  | some n => if 0 ≤ n ∧ n ≤ 65535 then some n.toNat else none
  | none => none

/-- clap's `value_parser!(i32)` (`RangedI64ValueParser<i32>`): an `i64` in the range of `i32` -/
def clapI32 (v : Bytes) : Option Int :=
  match parseSigned 64 v with
  | some n => if -2147483648 ≤ n ∧ n ≤ 2147483647 then some n else none
  | none => none

/-- `#[command(flatten)] timeout_settings: Option<TimeoutSettings>`: `Some` exactly when one of the group's flags occurs
(the others then take their default values "4" / "0"); every value goes through its parser -/
def clapTimeout (fl : Flags) : Option (Option Settings.Timeout) :=
  if fl.connectTimeout.isNone ∧ fl.readTimeout.isNone ∧ fl.writeTimeout.isNone ∧ fl.retries.isNone then some none
  else (Settings.fromClap fl.connectTimeout fl.readTimeout fl.writeTimeout fl.retries).toOption.map some

/-- `#[command(flatten)] extra_options: Option<ExtraRequestSettings>` -/
def clapExtra (fl : Flags) : Option (Option Dispatch.Extra) := do
  let hostname ← clapOpt clapString fl.hostname
  let protocolVersion ← clapOpt clapI32 fl.protocolVersion
  let gatherPlayers ← clapOpt parseToggle fl.gatherPlayers
  let gatherRules ← clapOpt parseToggle fl.gatherRules
  let checkAppId ← clapOpt parseBool fl.checkAppId
  if fl.hostname.isNone ∧ fl.protocolVersion.isNone ∧ fl.gatherPlayers.isNone ∧ fl.gatherRules.isNone
      ∧ fl.checkAppId.isNone then pure none
  else pure (some ⟨hostname, protocolVersion, gatherPlayers, gatherRules, checkAppId⟩)

/-- `Cli::parse()` for the `query` action: `none` = clap reports the error itself and exits with status 2 -/
def clap (fl : Flags) : Option Args := do
  let game ← fl.game.bind clapString
  let ip ← fl.ip.bind clapString
  let port ← clapOpt clapU16 fl.port
  let format ← clapOpt parseFormat fl.format
  let mode ← clapOpt parseMode fl.outputMode
  let timeout ← clapTimeout fl
  let extra ← clapExtra fl
  pure ⟨game, ip, port, format.getD .debug, mode.getD .generic, timeout, extra⟩

/-! ### outcomes -/

/-- `enum Error` (crates/cli/src/error.rs), as far as `main` can return it -/
inductive CliError
  | unknownGame (id : Bytes)
  | invalidHostname (host : Bytes)
  | gamedig (kind : ErrKind)
  | serde
  | bson
  | xml
  deriving Repr, DecidableEq

/-- how far `main` gets -/
inductive Step (α : Type)
  | ok (a : α)
  /-- clap printed its message on stderr and exited with status 2 -/
  | usage
  /-- `?`: `main` returns `Err(e)` — `Error: {e:?}` on stderr, status 1 -/
  | fail (e : CliError)
  /-- a `panic!` / `expect` of the tool — status 101 -/
  | panic
  /-- a row of the games table that the dispatch model has no arm for (shown never to happen) -/
  | unmodelled
  deriving Repr, DecidableEq

def Step.bind (s : Step α) (f : α → Step β) : Step β :=
  match s with
  | .ok a => f a
  | .usage => .usage
  | .fail e => .fail e
  | .panic => .panic
  | .unmodelled => .unmodelled

instance : Monad Step where
  pure := .ok
  bind := Step.bind

/-- `Option::ok_or_else(|| e)?` -/
def orFail (o : Option α) (e : CliError) : Step α :=
  match o with
  | some a => .ok a
  | none => .fail e

/-! ### `find_game`, `resolve_ip_or_domain` -/

/-- `GAMES.get(game_id)`: the row whose key is exactly the given text (the keys are ASCII: `C19_cli_ids_ascii`) -/
def lookupGame (id : Bytes) : Option Gen.GameRow := Gen.gameDefs.find? fun row => asciiBytes row.id = id

/-- `find_game` -/
def findGame (id : Bytes) : Step Gen.GameRow := orFail (lookupGame id) (.unknownGame id)

/-- `set_hostname_if_missing` -/
def setHostnameIfMissing (host : Bytes) (extra : Option Dispatch.Extra) : Option Dispatch.Extra :=
  match extra with
  | some e =>
    match e.hostname with
    | none => some { e with hostname := some host }
    | some _ => some e
  -- `ExtraRequestSettings::default().set_hostname(host)`
  | none => some ⟨some host, none, none, none, none⟩

/-- `resolve_ip_or_domain(host, &mut extra_options)`: the address and the extra settings afterwards.  `resolve` is the
system resolver (`format!("{}:0", domain).to_socket_addrs()`, first address; `none` = error or no address). -/
def resolveIpOrDomain (resolve : Bytes → Option Http.IpAddr) (host : Bytes) (extra : Option Dispatch.Extra) :
    Step (Http.IpAddr × Option Dispatch.Extra) :=
  match parseIpAddr host with
  | some ip => .ok (ip, extra)
  | none => do
    let ip ← orFail (resolve host) (.invalidHostname host)
    pure (ip, setHostnameIfMissing host extra)

/-! ### the plan: what the invocation hands to the library and to `output_result` -/

structure Plan where
  /-- `game: &'static Game` -/
  row : Gen.GameRow
  /-- the host was not an IP literal (the resolver was asked) -/
  hostWasName : Bool
  address : Http.IpAddr
  port : Option Nat
  timeoutSettings : Option Settings.Timeout
  extraOptions : Option Dispatch.Extra
  outputMode : OutputMode
  format : OutputFormat
  deriving Repr, DecidableEq

/-- `main` up to the call of `query_with_timeout_and_extra_settings` -/
def plan (resolve : Bytes → Option Http.IpAddr) (fl : Flags) : Step Plan :=
  match clap fl with
  | none => .usage
  | some args => do
    let row ← findGame args.game
    let (ip, extra) ← resolveIpOrDomain resolve args.ip args.extraOptions
    pure ⟨row, (parseIpAddr args.ip).isNone, ip, args.port, args.timeoutSettings, extra, args.outputMode, args.format⟩

/-! ### the value `output_result` serialises -/

mutual
  /-- a serde tree (`Views.Val`) as a JSON value: integers in decimal; member names are Rust identifiers (ASCII) -/
  def valToJ : Views.Val → J
    | .null => .null
    | .bool b => .bool b
    | .num i => .num (intDec i)
    | .str s => .str s
    | .arr l => .arr (valsToJ l)
    | .obj fs => .obj (fieldsToJ fs)
  def valsToJ : List Views.Val → JList
    | [] => .nil
    | v :: r => .cons (valToJ v) (valsToJ r)
  def fieldsToJ : List (String × Views.Val) → JMembers
    | [] => .nil
    | (k, v) :: r => .cons (asciiBytes k) (valToJ v) (fieldsToJ r)
end

/-- a response as serde sees it: its own tree, the accessor tables of its type and of its player type (rows of the
generated `Gen.implViews`), and the variants `as_original()` wraps it in (`GenericResponse::Valve(self)` ↦ `["Valve"]`,
`GenericResponse::GameSpy(VersionedResponse::One(self))` ↦ `["GameSpy", "One"]`) -/
structure Rendered where
  tree : Views.Val
  responseTable : List (String × Views.ViewExpr)
  playerTable : List (String × Views.ViewExpr)
  variants : List String

/-- serde's externally tagged newtype variant: `{"Variant": inner}` -/
def wrapVariants : List String → J → J
  | [], j => j
  | v :: r, j => .obj (.cons (asciiBytes v) (wrapVariants r j) .nil)

/-- reading the wrappers back: the value inside the given variants -/
def unwrapVariants : List String → J → Option J
  | [], j => some j
  | v :: r, .obj (.cons k inner .nil) => if k = asciiBytes v then unwrapVariants r inner else none
  | _ :: _, _ => none

/-- `result.as_json()` / `result.as_original()` as `output_result` chooses between them -/
def valueFor (mode : OutputMode) (r : Rendered) : J :=
  match mode with
  | .generic => valToJ (Views.responseJson r.responseTable r.playerTable r.tree)
  | .protocolSpecific => wrapVariants r.variants (valToJ r.tree)

/-! ### the writers -/

/-- the external serialisers' behaviour on a value -/
structure Ser where
  /-- `{:#?}` -/
  debugText : J → Bytes
  /-- `serde_json::to_string` / `to_string_pretty` / `to_value` return `Ok` -/
  jsonOk : J → Bool
  /-- the `Value` `serde_json::to_value` builds (number texts may differ from the direct serialisation: `f32`) -/
  toValue : J → J
  /-- every `writer.write_event` returns `Ok` -/
  xmlWriteOk : J → Bool
  /-- `bson::to_bson` returns `Ok` -/
  toBsonOk : J → Bool
  /-- `bson::to_vec(&document)`: the bytes, `none` = `Err` -/
  bsonBytes : J → Option Bytes

def isObj : J → Bool
  | .obj _ => true
  | _ => false

/-- `bson::to_bson(&result)?`, `if let Bson::Document(document) = bson { bson::to_vec(&document)? } else { panic!(…) }`:
a struct, a map and a newtype variant become documents, anything else does not -/
def bsonDocument (ser : Ser) (v : J) : Step Bytes :=
  if !ser.toBsonOk v then .fail .bson
  else if !isObj v then .panic
  else orFail (ser.bsonBytes v) .bson

/-- `output_result_<format>(value)`: the text handed to the ONE `println!` at the end of each writer; every step that
can fail comes before it -/
def document (ser : Ser) (format : OutputFormat) (v : J) : Step Bytes :=
  match format with
  | .debug => .ok (ser.debugText v)
  | .json => if ser.jsonOk v then .ok (jsonCompact v) else .fail .serde
  | .jsonPretty => if ser.jsonOk v then .ok (jsonPretty v) else .fail .serde
  | .xml =>
    if !ser.jsonOk v then .fail .serde
    else if !ser.xmlWriteOk v then .fail .xml
    -- `String::from_utf8(xml_bytes).expect("Failed to convert XML bytes to UTF-8 string")`
    else if !validUtf8 (renderDocument (ser.toValue v)) then .panic
    else .ok (renderDocument (ser.toValue v))
  | .bsonHex => do
    let bytes ← bsonDocument ser v
    pure (hexEncode bytes)
  | .bsonBase64 => do
    let bytes ← bsonDocument ser v
    pure (b64Encode bytes)

/-! ### the whole of `main` -/

/-- everything `main` needs from outside -/
structure Env where
  resolve : Bytes → Option Http.IpAddr
  dispatch : Dispatch.Ext
  /-- serde's view of a response (derive output) -/
  render : Dispatch.Response → Rendered
  ser : Ser

/-- `query_with_timeout_and_extra_settings(game, &ip, port, timeout_settings, extra_options)` over a transport state -/
def query (env : Env) (p : Plan) (w : Net) : Step (Res Dispatch.Response × Net) :=
  match Dispatch.Game.ofRow p.row with
  | none => .unmodelled
  | some game => .ok (Dispatch.generic env.dispatch game p.port p.timeoutSettings p.extraOptions w)

/-- `main` for `Action::Query`: the document printed (without `println!`'s newline) or the way out -/
def main (env : Env) (fl : Flags) (w : Net) : Step Bytes := do
  let p ← plan env.resolve fl
  let (result, _) ← query env p w
  match result with
  | .ok response => document env.ser p.format (valueFor p.outputMode (env.render response))
  | .err kind => .fail (.gamedig kind)
  | .crash => .panic

/-- what the operating system sees -/
structure Process where
  exitCode : Nat
  stdout : Bytes
  /-- something was written to stderr -/
  message : Bool
  deriving Repr, DecidableEq

def Step.process : Step Bytes → Option Process
  | .ok doc => some ⟨0, doc ++ [0x0A], false⟩
  | .usage => some ⟨2, [], true⟩
  | .fail _ => some ⟨1, [], true⟩
  | .panic => some ⟨101, [], true⟩
  | .unmodelled => none

end Gd.CliPlan
