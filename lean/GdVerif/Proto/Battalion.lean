import GdVerif.Proto.Games
/-
  MODEL of `games/battalion1944.rs` (a Valve query with engine app 489940, default gathering and default
  timeouts, five `bat_*` rule overrides, then `game::Response::new_from_valve_response` = `Games.gameView` of
  `Proto/Games.lean`).
-/
namespace Gd.Battalion
open Gd.Valve (ServerType Rules ServerInfo mapRemove)
open Gd.Games (GameResponse gameView)

def kMaxPlayers : Bytes := asciiBytes "bat_max_players_i"
def kPlayerCount : Bytes := asciiBytes "bat_player_count_s"
def kHasPassword : Bytes := asciiBytes "bat_has_password_s"
def kName : Bytes := asciiBytes "bat_name_s"
def kGamemode : Bytes := asciiBytes "bat_gamemode_s"
def kMap : Bytes := asciiBytes "bat_map_s"

/-- `HashMap::get` -/
def get (rules : Rules) (k : Bytes) : Option Bytes := (rules.find? (fun p => p.1 == k)).map (·.2)

/-- `if let Some(v) = rules.get(k) { info.<field> = v.parse::<u8>().map_err(TypeParse)?; rules.remove(k) }` -/
def stepNum (k : Bytes) (set : ServerInfo → Nat → ServerInfo) (x : ServerInfo × Rules) : Res (ServerInfo × Rules) :=
  match get x.2 k with
  | some v =>
    match parseUnsigned 8 v with
    | some n => .ok (set x.1 n, mapRemove x.2 k)
    | none => .err .typeParse
  | none => .ok x

/-- `if let Some(v) = rules.get(k) { info.<field> = f(v); rules.remove(k) }` -/
def stepVal (k : Bytes) (set : ServerInfo → Bytes → ServerInfo) (x : ServerInfo × Rules) : ServerInfo × Rules :=
  match get x.2 k with
  | some v => (set x.1 v, mapRemove x.2 k)
  | none => x

/-- the body of `if let Some(rules) = &mut valve_response.rules { … }` -/
def overrides (x : ServerInfo × Rules) : Res (ServerInfo × Rules) := do
  let x ← stepNum kMaxPlayers (fun i n => { i with playersMaximum := n }) x
  let x ← stepNum kPlayerCount (fun i n => { i with playersOnline := n }) x
  let x := stepVal kHasPassword (fun i v => { i with hasPassword := v == asciiBytes "Y" }) x
  let x := stepVal kName (fun i v => { i with name := v }) x
  let x := stepVal kGamemode (fun i v => { i with gameMode := v }) x
  pure (x.1, mapRemove x.2 kMap)

def applyOverrides (r : Valve.Response) : Res Valve.Response :=
  match r.rules with
  | some rules => do
    let x ← overrides (r.info, rules)
    pure { r with info := x.1, rules := some x.2 }
  | none => .ok r

def ENGINE : Valve.Engine := Valve.Engine.new 489940
def DEFAULT_PORT : Nat := 7780

/-- `battalion1944::query` (no timeout settings: the defaults, i.e. no retries) -/
def query (ext : Valve.Ext) (port : Nat) : Q GameResponse := do
  let r ← Valve.query ext port ENGINE Valve.Gather.default 0
  let r ← Q.lift (applyOverrides r)
  pure (gameView r)

end Gd.Battalion
