import GdVerif.Proto.Valve
/-
  MODEL of `protocols/gamespy/protocols/three/{protocol,types}.rs` (repaired tree) and of
  `protocols/gamespy/common.rs` (`has_password`; own copy, GameSpy 1/2 have theirs).

  `HashMap<String, String>` = association list with `Valve.mapInsert` (insert replaces), printed sorted.
-/
namespace Gd.Gs3
open Gd

abbrev Vars := List (Bytes × Bytes)

/-- `map.get(k)` -/
def mapGet (m : Vars) (k : Bytes) : Option Bytes :=
  match m with
  | [] => none
  | (k', v) :: r => if k' == k then some v else mapGet r k

/-- `map.remove(k)`: the removed value and the map without the key -/
def mapTake (m : Vars) (k : Bytes) : Option Bytes × Vars := (mapGet m k, Valve.mapRemove m k)

/-! ### requests -/

def SESSION_ID : Nat := 1
def PACKET_SIZE : Nat := 2048
def DEFAULT_PAYLOAD : Bytes := [0xFF, 0xFF, 0xFF, 0x01]

/-- `RequestPacket { header: 65277, kind, session_id: 1, challenge, payload }.to_bytes()` -/
def requestBytes (kind : Nat) (challenge : Option Int) (payload : Option Bytes) : Bytes :=
  natBE 2 65277 ++ [UInt8.ofNat kind] ++ natBE 4 SESSION_ID ++
  (match challenge with
   | some c => natBE 4 (ofSigned 32 c)
   | none => []) ++
  (match payload with
   | some p => p
   | none => [])

/-! ### `GameSpy3::receive` -/

/-- kind byte and session id of a reply, then the rest of the packet -/
def readHeader (kind : Nat) : Par Bytes := do
  let k ← readU8
  if k != kind then Par.fail .packetBad
  else do
    let sid ← readUnsigned .big 4
    if sid != SESSION_ID then Par.fail .packetBad
    else remainingBytes

/-- `self.receive(size, kind)` (`size.or(Some(PACKET_SIZE))`) -/
def receive (s : Sock) (size : Option Nat) (kind : Nat) : Q Bytes := do
  let data ← recv s (some (size.getD PACKET_SIZE))
  parse (readHeader kind) data

/-! ### handshake -/

/-- the challenge: decimal text, `parse::<i32>()`, `0` = no challenge -/
def parseChallenge : Par (Option Int) := do
  let text ← readCStr
  let c ← Par.lift (okOr (parseSigned 32 text) .typeParse)
  pure (if c == 0 then none else some c)

/-- `make_initial_handshake` -/
def makeInitialHandshake (s : Sock) : Q (Option Int) := do
  send s (requestBytes 9 none none)
  let data ← receive s (some 16) 9
  parse parseChallenge data

/-- `send_data_request` -/
def sendDataRequest (s : Sock) (payload : Bytes) (challenge : Option Int) : Q Unit :=
  send s (requestBytes 0 challenge (some payload))

/-! ### packets of the response -/

/-- a data packet after the `splitnum` header -/
structure Frag where
  id : Nat
  last : Bool
  payload : Bytes
  deriving Repr, DecidableEq

/-- `"splitnum\0" id unknown payload…` -/
def readFrag : Par Frag := do
  let tag ← readCStr
  if tag != asciiBytes "splitnum" then Par.fail .packetBad
  else do
    let id ← readU8
    moveCursor 1
    let payload ← remainingBytes
    pure ⟨id &&& 0x7f, id &&& 0x80 > 0, payload⟩

/-- loop state of `get_server_packets_impl`: `values`, `expected_packets`, `received_packets` -/
structure Acc where
  values : List Bytes
  expected : Option Nat
  received : Nat
  deriving Repr, DecidableEq

def Acc.init : Acc := ⟨[], none, 0⟩

/-- the loop condition `expected_packets.map_or(true, |e| received_packets < e)` -/
def Acc.more (a : Acc) : Bool :=
  match a.expected with
  | none => true
  | some e => a.received < e

/-- `while values.len() <= packet_id { values.push(Vec::new()) }` -/
def padTo (v : List Bytes) (id : Nat) : List Bytes := v ++ List.replicate (id + 1 - v.length) []

/-- one received packet: remember the count when it is flagged last, make room, reject a filled slot,
store.  `values[packet_id]` is an index expression: out of bounds would be a panic. -/
def accept (a : Acc) (f : Frag) : Res Acc :=
  let expected := if f.last then some (f.id + 1) else a.expected
  let values := padTo a.values f.id
  match values[f.id]? with
  | none => .crash
  | some slot =>
    if !slot.isEmpty then .err .packetBad
    else .ok ⟨values.set f.id f.payload, expected, a.received + 1⟩

/-- after the loop: `values.iter().any(Vec::is_empty)` is an error -/
def finish (a : Acc) : Res (List Bytes) :=
  if a.values.any (·.isEmpty) then .err .packetBad else .ok a.values

/-- deliveries still queued for a socket -/
def queued (s : Sock) (w : Net) : Nat := (w.conns.getD s.id []).length

/-- the receive loop of `get_server_packets_impl` (multi-packet mode); every round consumes a queued
delivery, fuel = queued + 1 -/
def recvPackets (s : Sock) : Nat → Acc → Q (List Bytes)
  | 0, _ => fun w => (.crash, w)
  | fuel + 1, a =>
    if a.more then do
      let data ← receive s none 0
      let f ← parse readFrag data
      let a' ← Q.lift (accept a f)
      recvPackets s fuel a'
    else Q.lift (finish a)

/-- the receive loop from its initial state -/
def recvAll (s : Sock) : Q (List Bytes) := fun w => recvPackets s (queued s w + 1) Acc.init w

/-- single-packet mode: the split header is skipped unread and the one packet is the response -/
def readSingle : Par Bytes := do
  moveCursor 11
  remainingBytes

/-- `get_server_packets_impl` -/
def getServerPacketsImpl (s : Sock) (payload : Bytes) (single : Bool) : Q (List Bytes) := do
  let challenge ← makeInitialHandshake s
  sendDataRequest s payload challenge
  if single then do
    let data ← receive s none 0
    let rest ← parse readSingle data
    pure [rest]
  else recvAll s

/-- `get_server_packets` -/
def getServerPackets (s : Sock) (retries : Nat) (payload : Bytes) (single : Bool) : Q (List Bytes) :=
  retryOnTimeout retries (getServerPacketsImpl s payload single)

/-! ### loops over a packet that can `break` -/

/-- `while buf.remaining_length() != 0 { … }` whose body may `break`: the body returns the new state
and whether the loop goes on. -/
def loopBrk (body : σ → Par (σ × Bool)) : Nat → σ → Par σ
  | 0, _ => Par.crash
  | fuel + 1, st => fun b =>
    if b.remaining == 0 then .ok (st, b)
    else match body st b with
      | .ok ((st', true), b') => loopBrk body fuel st' b'
      | .ok ((st', false), b') => .ok (st', b')
      | .err k => .err k
      | .crash => .crash

/-! ### `data_to_map` -/

/-- one round: key, (empty key: break), value, insert -/
def kvStep (m : Vars) : Par (Vars × Bool) := do
  let key ← readCStr
  if key.isEmpty then pure (m, false)
  else do
    let value ← readCStr
    pure (Valve.mapInsert m key value, true)

/-- the key/values at the head of a packet, and the bytes after them -/
def dataToMapPar : Par (Vars × Bytes) := do
  let rem ← remainingLength
  let vars ← loopBrk kvStep (rem + 1) []
  let rest ← remainingBytes
  pure (vars, rest)

/-- `data_to_map(packet)` -/
def dataToMap (packet : Bytes) : Res (Vars × Bytes) := dataToMapPar.run packet

/-! ### `parse_players_and_teams` -/

structure Player where
  name : Bytes
  score : Int
  ping : Nat
  team : Nat
  deaths : Nat
  skill : Nat
  deriving Repr, DecidableEq

structure Team where
  name : Bytes
  score : Int
  deriving Repr, DecidableEq

/-- `players_data` / `teams_data`: one map per row -/
structure Tables where
  players : List Vars
  teams : List Vars
  deriving Repr, DecidableEq

def Tables.init : Tables := ⟨[[]], [[]]⟩

def knownFields : List Bytes :=
  [asciiBytes "player", asciiBytes "score", asciiBytes "ping", asciiBytes "team", asciiBytes "deaths",
   asciiBytes "pid", asciiBytes "skill"]

/-- the second piece of the field name: absent or empty = player field, `t` = team field, else error -/
def fieldIsTeam (pieces : List Bytes) : Res Bool :=
  match pieces[1]? with
  | none => .ok false
  | some v => if v.isEmpty then .ok false else if v != asciiBytes "t" then .err .packetBad else .ok true

/-- `while data.len() <= offset { push }; data.get_mut(offset).ok_or(PacketBad)?.insert(name, item)` -/
def putItem (data : List Vars) (offset : Nat) (name item : Bytes) : Res (List Vars) :=
  let data := data ++ List.replicate (offset + 1 - data.length) []
  match data[offset]? with
  | none => .err .packetBad
  | some e => .ok (data.set offset (Valve.mapInsert e name item))

/-- one value of a field section -/
def itemStep (name : Bytes) (st : List Vars × Nat) : Par ((List Vars × Nat) × Bool) := do
  let item ← readCStr
  if item.isEmpty then pure (st, false)
  else do
    let data ← Par.lift (putItem st.1 st.2 name item)
    pure ((data, st.2 + 1), true)

/-- the values of a field section into the rows from `offset` on -/
def readItems (name : Bytes) (data : List Vars) (offset : Nat) : Par (List Vars) := do
  let rem ← remainingLength
  let st ← loopBrk (itemStep name) (rem + 1) (data, offset)
  pure st.1

/-- what follows a field name that is one of the known ones -/
def readField (t : Tables) (pieces : List Bytes) (name : Bytes) : Par Tables := do
  let isTeam ← Par.lift (fieldIsTeam pieces)
  let offset ← readU8
  if isTeam then do
    let data ← readItems name t.teams offset
    pure { t with teams := data }
  else do
    let data ← readItems name t.players offset
    pure { t with players := data }

/-- one value of a section that is skipped: `!buf.read_string()?.is_empty()` -/
def skipStep (u : Unit) : Par (Unit × Bool) := do
  let item ← readCStr
  pure (u, !item.isEmpty)

/-- a field there is no place for: its offset byte, then
`while buf.remaining_length() != 0 && !buf.read_string()?.is_empty() {}` -/
def skipField : Par Unit := do
  let _ ← readU8
  let rem ← remainingLength
  loopBrk skipStep (rem + 1) ()

/-- `field.split('_')`: the first piece must be a known field, else the whole section is skipped -/
def afterName (t : Tables) (pieces : List Bytes) : Par Tables :=
  match pieces.head? with
  | none => Par.fail .packetBad
  | some name =>
    if !knownFields.contains name then do
      skipField
      pure t
    else readField t pieces name

/-- from the field name on -/
def readSection (t : Tables) : Par Tables := do
  let field ← readCStr
  if field.isEmpty then pure t
  else afterName t (splitOn 0x5F field)

/-- one round of the outer loop: a byte below 3 is a section marker; otherwise it is the first
character of a field name: step back and read the section -/
def sectionStep (t : Tables) : Par Tables := do
  let first ← readU8
  if first < 3 then pure t
  else do
    moveCursor (-1)
    readSection t

/-- the field sections of one packet -/
def readSections (t : Tables) : Par Tables := do
  let rem ← remainingLength
  whileRemaining sectionStep (rem + 1) t

/-- `for packet in packets { … }` -/
def readAllSections : Tables → List Bytes → Res Tables
  | t, [] => .ok t
  | t, p :: r => do
    let t' ← (readSections t).run p
    readAllSections t' r

def fieldOf (m : Vars) (k : String) : Res Bytes := okOr (mapGet m (asciiBytes k)) .packetBad
def parseU (bits : Nat) (v : Bytes) : Res Nat := okOr (parseUnsigned bits v) .typeParse
def parseI (bits : Nat) (v : Bytes) : Res Int := okOr (parseSigned bits v) .typeParse

def mkPlayer (m : Vars) : Res Player := do
  let name ← fieldOf m "player"
  let score ← fieldOf m "score" >>= parseI 32
  let ping ← fieldOf m "ping" >>= parseU 16
  let team ← fieldOf m "team" >>= parseU 8
  let deaths ← fieldOf m "deaths" >>= parseU 32
  let skill ← fieldOf m "skill" >>= parseU 32
  pure ⟨name, score, ping, team, deaths, skill⟩

def mkTeam (m : Vars) : Res Team := do
  let name ← fieldOf m "team"
  let score ← fieldOf m "score" >>= parseI 32
  pure ⟨name, score⟩

/-- `for row in rows { if row.is_empty() { continue }; out.push(mk(row)?) }` -/
def mkRows (mk : Vars → Res α) : List Vars → Res (List α)
  | [] => .ok []
  | m :: r =>
    if m.isEmpty then mkRows mk r
    else do
      let x ← mk m
      let xs ← mkRows mk r
      pure (x :: xs)

/-- `parse_players_and_teams(packets)` -/
def parsePlayersAndTeams (packets : List Bytes) : Res (List Player × List Team) := do
  let t ← readAllSections Tables.init packets
  let players ← mkRows mkPlayer t.players
  let teams ← mkRows mkTeam t.teams
  pure (players, teams)

/-! ### `has_password` (gamespy/common.rs) and `str::parse::<bool>` -/

/-- `s.parse::<bool>()` -/
def parseBool (s : Bytes) : Option Bool :=
  if s == asciiBytes "true" then some true else if s == asciiBytes "false" then some false else none

/-- the value of the `password` variable: `true`/`false` in any case, or a `u8` (non-zero = yes).
`to_lowercase()` is Unicode lower-casing; no non-ASCII character lower-cases to a letter of
`true`/`false`, a digit or `+`, so for the outcome ASCII lower-casing is exact. -/
def passwordValue (v : Bytes) : Res Bool :=
  let l := asciiLower v
  match parseBool l with
  | some b => .ok b
  | none => do
    let n ← parseU 8 l
    pure (n != 0)

/-- `has_password(&mut server_vars)` -/
def hasPassword (vars : Vars) : Res (Bool × Vars) :=
  match mapTake vars (asciiBytes "password") with
  | (none, _) => .err .packetBad
  | (some v, vars') => do
    let b ← passwordValue v
    pure (b, vars')

/-! ### `query` -/

structure Response where
  name : Bytes
  map : Bytes
  hasPassword : Bool
  gameMode : Bytes
  gameVersion : Bytes
  playersMaximum : Nat
  playersOnline : Nat
  playersMinimum : Option Nat
  players : List Player
  teams : List Team
  tournament : Bool
  unusedEntries : Vars
  deriving Repr, DecidableEq

/-- `server_vars.remove(k).ok_or(PacketBad)?` -/
def takeReq (vars : Vars) (k : String) : Res (Bytes × Vars) :=
  match mapTake vars (asciiBytes k) with
  | (none, _) => .err .packetBad
  | (some v, vars') => .ok (v, vars')

/-- `match server_vars.remove("minplayers") { None => None, Some(v) => Some(v.parse::<u8>()?) }` -/
def takeMin (vars : Vars) : Res (Option Nat × Vars) :=
  match mapTake vars (asciiBytes "minplayers") with
  | (none, vars') => .ok (none, vars')
  | (some v, vars') => do
    let n ← parseU 8 v
    pure (some n, vars')

/-- `players_online`: the larger of the reported (`numplayers`, parsed as `usize`) and the listed
count, then `as u32` (which truncates) -/
def takeOnline (vars : Vars) (listed : Nat) : Res (Nat × Vars) :=
  match mapTake vars (asciiBytes "numplayers") with
  | (none, vars') => .ok (listed % 2 ^ 32, vars')
  | (some v, vars') => do
    let reported ← parseU 64 v
    pure ((if reported < listed then listed else reported) % 2 ^ 32, vars')

/-- `tournament`: absent = `true`; otherwise lower-cased and `parse::<bool>()` -/
def takeTournament (vars : Vars) : Res (Bool × Vars) :=
  let (v, vars') := mapTake vars (asciiBytes "tournament")
  let text := match v with
    | some v => asciiLower v
    | none => asciiBytes "true"
  match parseBool text with
  | some b => .ok (b, vars')
  | none => .err .typeParse

/-- the typed fields of the response from the variables, in the order `query` takes them; what is
left is `unused_entries` -/
def buildFields (vars : Vars) (players : List Player) (teams : List Team) : Res Response := do
  let (maxText, vars) ← takeReq vars "maxplayers"
  let playersMaximum ← parseU 32 maxText
  let (playersMinimum, vars) ← takeMin vars
  let (playersOnline, vars) ← takeOnline vars players.length
  let (name, vars) ← takeReq vars "hostname"
  let (map, vars) ← takeReq vars "mapname"
  let (hasPassword, vars) ← hasPassword vars
  let (gameMode, vars) ← takeReq vars "gametype"
  let (gameVersion, vars) ← takeReq vars "gamever"
  let (tournament, vars) ← takeTournament vars
  pure { name, map, hasPassword, gameMode, gameVersion, playersMaximum, playersOnline, playersMinimum,
         players, teams, tournament, unusedEntries := vars }

/-- everything `query` does with the packets -/
def buildResponse (packets : List Bytes) : Res Response := do
  let first ← okOr packets.head? .packetBad
  let (vars, remaining) ← dataToMap first
  -- `packets[1 ..]`: cannot be out of range, `packets` is not empty here
  let (players, teams) ← parsePlayersAndTeams (remaining :: packets.drop 1)
  buildFields vars players teams

/-- `gamespy::three::query` -/
def query (port retries : Nat) : Q Response := do
  let s ← openSock false port
  let packets ← getServerPackets s retries DEFAULT_PAYLOAD false
  Q.lift (buildResponse packets)

/-- everything `query_vars` does with the packets -/
def buildVars (packets : List Bytes) : Res Vars := do
  let first ← okOr packets.head? .packetBad
  let (vars, _) ← dataToMap first
  pure vars

/-- `gamespy::three::query_vars` -/
def queryVars (port retries : Nat) : Q Vars := do
  let s ← openSock false port
  let packets ← getServerPackets s retries DEFAULT_PAYLOAD false
  Q.lift (buildVars packets)

end Gd.Gs3
