import GdVerif.Net
/-
  SYNTAX of the translated glue of `games/query.rs` (and of the conversion impls and `game_query_fn!` macro bodies it
  relies on): what `tools/xlate.py` (gen_arms) emits into `Gen/Arms.lean` on every run.  Data only; the semantics is
  `Proto/ArmsSem.lean`, the theorems `Props/C14_arms.lean`.

  One `Arm` per leaf of the (nested) `match &game.protocol` of `query_with_timeout_and_extra_settings`:
    pattern (the nested patterns of the enclosing `match`es, composed), callee, one term per argument.
  Terms range over a FIXED vocabulary; a source shape outside it makes the translator fail (never guess).
-/
namespace Gd.Arms

/-- the variables a term may mention: the parameters of the function translated, the `let`s of its body, what a
pattern binds, `value` / `default` / `self` of a conversion impl, and closure parameters (numbered) -/
inductive Var
  | address | port | timeoutSettings | extraSettings | game | socketAddr
  | engine | group
  | value | default | self_
  | requestSettings
  /-- macro parameters of the `game_query_fn!` bodies -/
  | mDefaultPort | mEngine | mGatheringSettings
  | bound (i : Nat)
  deriving Repr, DecidableEq

/-- struct fields -/
inductive Field
  | defaultPort | requestSettings | protocol
  | hostname | protocolVersion | gatherPlayers | gatherRules | checkAppId
  | players | rules | mutatorsAndRules
  deriving Repr, DecidableEq

/-- the struct types of the vocabulary -/
inductive Ty
  /-- `protocols::types::ExtraRequestSettings` -/
  | extra
  /-- `protocols::valve::GatheringSettings` -/
  | valveGather
  /-- `protocols::unreal2::GatheringSettings` -/
  | unreal2Gather
  /-- `games::minecraft::RequestSettings` -/
  | mcRequestSettings
  /-- `games::eco::EcoRequestSettings` -/
  | ecoRequestSettings
  /-- `games::types::Game` (never built by a term; the value of the variable `game`) -/
  | game
  deriving Repr, DecidableEq

/-- enum constructors that occur in patterns (`Protocol`, `GameSpyVersion`, `QuakeVersion`, `ProprietaryProtocol`,
`Option`, `minecraft::Server`) -/
inductive Ctor
  | protocolValve | protocolGamespy | protocolQuake | protocolUnreal2 | protocolProprietary
  | gsOne | gsTwo | gsThree
  | quakeOne | quakeTwo | quakeThree
  | propSavage2 | propTheShip | propFfow | propJc2m | propMindustry | propMinecraft | propEco
  | optSome | optNone
  | mcJava | mcBedrock | mcLegacy
  deriving Repr, DecidableEq

/-- the functions an arm may call (fully resolved Rust path ↦ constructor, in the translator's table) -/
inductive Callee
  /-- `protocols::valve::query` -/
  | valveQuery
  /-- `protocols::gamespy::{one, two, three}::query` -/
  | gs1Query | gs2Query | gs3Query
  /-- `protocols::quake::{one, two, three}::query` -/
  | quake1Query | quake2Query | quake3Query
  /-- `protocols::unreal2::query` -/
  | unreal2Query
  /-- `games::{savage2, theship, ffow, jc2m}::query_with_timeout` -/
  | savage2QueryWithTimeout | theShipQueryWithTimeout | ffowQueryWithTimeout | jc2mQueryWithTimeout
  /-- `games::mindustry::query` -/
  | mindustryQuery
  /-- `games::minecraft::protocol::{query_java, query_bedrock, query_legacy_specific, query}` -/
  | mcQueryJava | mcQueryBedrock | mcQueryLegacySpecific | mcQueryAuto
  /-- `games::eco::query_with_timeout_and_extra_settings` -/
  | ecoQuery
  /-- `games::eco::query_with_timeout` (a wrapper of the former; no entry point of the model) -/
  | ecoQueryWithTimeout
  /-- `games::query::query_with_timeout_and_extra_settings` (called by the two wrappers) -/
  | generic
  deriving Repr, DecidableEq

mutual
/-- terms: how an argument is built -/
inductive Tm
  | var (v : Var)
  /-- `e.f` -/
  | field (e : Tm) (f : Field)
  /-- `Some(e)` (also `Option::from(e)` for an `e` that is not an `Option`) -/
  | some_ (e : Tm)
  /-- `None` -/
  | none_
  /-- `e.map(<From<ExtraRequestSettings> for target>::from)`: `.map(ExtraRequestSettings::into)` / `.map(Into::into)` /
  `.map(T::from)` with the target the callee's parameter type fixes -/
  | mapInto (e : Tm) (target : Ty)
  /-- `e.map(|x| body)` -/
  | mapFn (e : Tm) (x : Nat) (body : Tm)
  /-- `e.into()` / `T::from(e)` for an `ExtraRequestSettings` `e` -/
  | into (e : Tm) (target : Ty)
  /-- `e.or(d)` -/
  | or_ (e d : Tm)
  /-- `e.or_else(|| d)` -/
  | orElse (e d : Tm)
  /-- `e.unwrap_or(d)` -/
  | unwrapOr (e d : Tm)
  /-- `e.unwrap_or_default()` at type `Option<ty>` -/
  | unwrapOrDefault (e : Tm) (ty : Ty)
  /-- `<ty>::default()` -/
  | defaultOf (ty : Ty)
  /-- `SocketAddr::new(ip, port)` -/
  | sockAddr (ip port : Tm)
  /-- `T { f: e, … }` -/
  | struct (ty : Ty) (fields : TmFields)
  /-- `T { f: e, …, ..base }` -/
  | update (ty : Ty) (fields : TmFields) (base : Tm)
  /-- `GatherToggle::…`, `true` / `false`, an integer literal, a string literal (`"…".to_string()`, UTF-8 bytes) -/
  | tog (t : Toggle)
  | bool (b : Bool)
  | int (i : Int)
  | str (bytes : List UInt8)
  /-- `let x = e; body` -/
  | letIn (x : Var) (e body : Tm)

inductive TmFields
  | nil
  | cons (f : Field) (e : Tm) (rest : TmFields)
end

/-- patterns -/
inductive Pat
  /-- `_` -/
  | wild
  /-- an identifier: binds -/
  | bind (v : Var)
  /-- a unit variant -/
  | ctor0 (c : Ctor)
  /-- a variant with one field -/
  | ctor1 (c : Ctor) (p : Pat)
  deriving Repr, DecidableEq

/-- one leaf of the `match` -/
structure Arm where
  pat : Pat
  callee : Callee
  /-- the resolved path of the callee, as text (evidence) -/
  path : String
  /-- `let`s of the enclosing function body in scope of the call (in order) -/
  lets : List (Var × Tm)
  args : List Tm
  /-- whitespace-normalised source text of the arm -/
  text : String

/-- an arm the build the harness uses does not contain (`#[cfg(feature = …)]`) -/
structure SkippedArm where
  cfg : String
  text : String
  deriving Repr, DecidableEq

/-- a function whose body is one call (the two wrappers `query` / `query_with_timeout`) -/
structure Wrapper where
  name : String
  callee : Callee
  args : List Tm
  text : String

end Gd.Arms
