import GdVerif.Proto.Valve
/-
  MODEL of `games/ffow/{protocol,types}.rs` (repaired tree: the info reply is read big endian).
  The request machinery is the Valve protocol's (`ValveProtocol::get_request_data`), reused from `Proto/Valve.lean`.
-/
namespace Gd.Ffow
open Gd.Valve (ServerType Environment)

/-- `types.rs: Response` -/
structure Response where
  protocolVersion : Nat
  name : Bytes
  activeMod : Bytes
  gameMode : Bytes
  gameVersion : Bytes
  description : Bytes
  map : Bytes
  playersOnline : Nat
  playersMaximum : Nat
  serverType : ServerType
  environmentType : Environment
  hasPassword : Bool
  vacSecured : Bool
  round : Nat
  roundsMaximum : Nat
  timeLeft : Nat
  deriving Repr, DecidableEq

/-- the reads of `query_with_timeout` on the payload of the reply -/
def parseResponse : Par Response := do
  let protocolVersion ← readU8
  let name ← readCStr
  let map ← readCStr
  let activeMod ← readCStr
  let gameMode ← readCStr
  let description ← readCStr
  let gameVersion ← readCStr
  moveCursor 2
  let playersOnline ← readU8
  let playersMaximum ← readU8
  let st ← readU8
  let serverType ← Par.lift (Valve.serverFromGldsrc st)
  let et ← readU8
  let environmentType ← Par.lift (Valve.environmentFromGldsrc et)
  let hasPassword ← Valve.readBoolByte
  let vacSecured ← Valve.readBoolByte
  moveCursor 1
  let round ← readU8
  let roundsMaximum ← readU8
  let timeLeft ← readUnsigned .big 2
  pure { protocolVersion, name, activeMod, gameMode, gameVersion, description, map, playersOnline, playersMaximum,
         serverType, environmentType, hasPassword, vacSecured, round, roundsMaximum, timeLeft }

/-- request kind `F` -/
def KIND : Nat := 0x46
/-- `String::from("LSQ").into_bytes()` -/
def lsq : Bytes := [0x4C, 0x53, 0x51]

def DEFAULT_PORT : Nat := 5478

/-- what `query_with_timeout` does with the socket it has opened -/
def queryBody (ext : Valve.Ext) (s : Sock) (retries : Nat) : Q Response := do
  let data ← retryOnTimeout retries (Valve.requestImpl ext s (.goldSrc true) 0 KIND lsq)
  parse parseResponse data

/-- `ffow::query_with_timeout` -/
def query (ext : Valve.Ext) (port retries : Nat) : Q Response := do
  let s ← openSock false port
  queryBody ext s retries

end Gd.Ffow
