import GdVerif.Proto.Cli
import GdVerif.Proto.CliCodec
/-
  MODEL of the JSON documents the command-line tool prints (`output_result_json`: `serde_json::to_string`,
  `output_result_json_pretty`: `serde_json::to_string_pretty`) over the value type `J` the XML converter's
  theorems already use, and a JSON READER (RFC 8259) for them.

  serde_json is external: `printJ` mirrors its `CompactFormatter` / `PrettyFormatter` (two-space indentation)
  and `format_escaped_str`; numbers are carried as the text serde_json writes for them.  The reader is written
  from the RFC (it is not serde_json's): it is the decoder the theorems and the correspondence check read the
  tool's documents back with.
-/
namespace Gd.Cli

/-! ### the printer -/

/-- serde_json `format_escaped_str_contents`, one byte of the (UTF-8) string at a time: `"` and `\` with a backslash,
the control characters U+0000–U+001F as `\b \t \n \f \r` or `\u00xx`, everything else (DEL and all bytes of multi-byte
characters included) unchanged -/
def jsonEscapeByte (b : UInt8) : Bytes :=
  if b = 0x22 then [0x5C, 0x22]
  else if b = 0x5C then [0x5C, 0x5C]
  else if b = 0x08 then [0x5C, 0x62]
  else if b = 0x0C then [0x5C, 0x66]
  else if b = 0x0A then [0x5C, 0x6E]
  else if b = 0x0D then [0x5C, 0x72]
  else if b = 0x09 then [0x5C, 0x74]
  else if b.toNat < 0x20 then [0x5C, 0x75, 0x30, 0x30, hexLowerDigit (b.toNat / 16), hexLowerDigit (b.toNat % 16)]
  else [b]

/-- a string literal -/
def jsonString (s : Bytes) : Bytes := [0x22] ++ s.flatMap jsonEscapeByte ++ [0x22]

/-- where a formatter puts white space (as a function of the nesting depth of the container) -/
structure Style where
  /-- before every member of a non-empty container (after `[` / `{` and after each `,`) -/
  item : Nat → Bytes
  /-- before the closing bracket of a non-empty container -/
  close : Nat → Bytes
  /-- after the `:` of an object member -/
  colon : Bytes

/-- `CompactFormatter` -/
def Style.compact : Style := ⟨fun _ => [], fun _ => [], []⟩

def indentOf (d : Nat) : Bytes := List.replicate (2 * d) 0x20

/-- `PrettyFormatter` with its default indentation of two spaces -/
def Style.pretty : Style := ⟨fun d => 0x0A :: indentOf (d + 1), fun d => 0x0A :: indentOf d, [0x20]⟩

mutual
  /-- `Serialize for Value` through a formatter; `d` = nesting depth -/
  def printJ (st : Style) (d : Nat) : J → Bytes
    | .null => asciiBytes "null"
    | .bool true => asciiBytes "true"
    | .bool false => asciiBytes "false"
    | .num t => t
    | .str s => jsonString s
    | .arr items => [0x5B] ++ printItems st d true items ++ [0x5D]
    | .obj ms => [0x7B] ++ printMembers st d true ms ++ [0x7D]
  /-- the items of an array and the white space before its `]` (none for an empty array: `[]`) -/
  def printItems (st : Style) (d : Nat) (first : Bool) : JList → Bytes
    | .nil => if first then [] else st.close d
    | .cons h t => (if first then [] else [0x2C]) ++ st.item d ++ printJ st (d + 1) h ++ printItems st d false t
  def printMembers (st : Style) (d : Nat) (first : Bool) : JMembers → Bytes
    | .nil => if first then [] else st.close d
    | .cons k v t =>
      (if first then [] else [0x2C]) ++ st.item d ++ jsonString k ++ [0x3A] ++ st.colon ++ printJ st (d + 1) v
        ++ printMembers st d false t
end

/-- what `output_result_json` prints (before `println!`'s newline) -/
def jsonCompact (j : J) : Bytes := printJ .compact 0 j
/-- what `output_result_json_pretty` prints -/
def jsonPretty (j : J) : Bytes := printJ .pretty 0 j

/-! ### the reader (RFC 8259) -/

/-- `ws` -/
def isWs (b : UInt8) : Bool := b = 0x20 || b = 0x0A || b = 0x0D || b = 0x09

def skipWs : Bytes → Bytes
  | [] => []
  | b :: r => if isWs b then skipWs r else b :: r

/-- four hex digits -/
def hex4 (a b c d : UInt8) : Option Nat :=
  match hexDigitVal a, hexDigitVal b, hexDigitVal c, hexDigitVal d with
  | some a, some b, some c, some d => some (((a * 16 + b) * 16 + c) * 16 + d)
  | _, _, _, _ => none

/-- after the opening quote: the characters up to the closing quote, escapes undone (`\uXXXX` as the UTF-8 bytes of
the scalar; a high surrogate must be followed by an escaped low one, a lone surrogate is an error); raw control
characters are not allowed.  Fuel: one unit per byte of input suffices. -/
def readStrBody : Nat → Bytes → Option (Bytes × Bytes)
  | 0, _ => none
  | _ + 1, [] => none
  | f + 1, c :: r =>
    if c = 0x22 then some ([], r)
    else if c = 0x5C then
      match r with
      | [] => none
      | e :: r =>
        let one (b : UInt8) : Option (Bytes × Bytes) := (readStrBody f r).map fun (s, rest) => (b :: s, rest)
        if e = 0x22 then one 0x22
        else if e = 0x5C then one 0x5C
        else if e = 0x2F then one 0x2F
        else if e = 0x62 then one 0x08
        else if e = 0x66 then one 0x0C
        else if e = 0x6E then one 0x0A
        else if e = 0x72 then one 0x0D
        else if e = 0x74 then one 0x09
        else if e = 0x75 then
          match r with
          | h1 :: h2 :: h3 :: h4 :: r =>
            match hex4 h1 h2 h3 h4 with
            | none => none
            | some n =>
              if 0xDC00 ≤ n ∧ n ≤ 0xDFFF then none
              else if n < 0xD800 ∨ 0xDBFF < n then (readStrBody f r).map fun (s, rest) => (utf8EncodeChar n ++ s, rest)
              else
                match r with
                | 0x5C :: 0x75 :: l1 :: l2 :: l3 :: l4 :: r =>
                  match hex4 l1 l2 l3 l4 with
                  | none => none
                  | some m =>
                    if 0xDC00 ≤ m ∧ m ≤ 0xDFFF then
                      (readStrBody f r).map fun (s, rest) =>
                        (utf8EncodeChar (0x10000 + (n - 0xD800) * 1024 + (m - 0xDC00)) ++ s, rest)
                    else none
                | _ => none
          | _ => none
        else none
    else if c.toNat < 0x20 then none
    else (readStrBody f r).map fun (s, rest) => (c :: s, rest)

def isNumChar (b : UInt8) : Bool := isDigit b || b = 0x2D || b = 0x2B || b = 0x2E || b = 0x65 || b = 0x45

/-- the longest prefix of number characters -/
def spanNum : Bytes → Bytes × Bytes
  | [] => ([], [])
  | b :: r => if isNumChar b then ((spanNum r).1.cons b, (spanNum r).2) else ([], b :: r)

/-- `*DIGIT` to the end of the text -/
def numDigits : Bytes → Bool
  | [] => true
  | b :: r => isDigit b && numDigits r

/-- after `e` / `E`: `[ minus / plus ] 1*DIGIT` to the end of the text -/
def numExp : Bytes → Bool
  | [] => false
  | b :: r =>
    if b = 0x2D ∨ b = 0x2B then
      match r with
      | [] => false
      | d :: r => isDigit d && numDigits r
    else isDigit b && numDigits r

/-- inside `frac`, after its first digit: more digits, then `[ exp ]` -/
def numFracRest : Bytes → Bool
  | [] => true
  | b :: r => if isDigit b then numFracRest r else if b = 0x65 ∨ b = 0x45 then numExp r else false

/-- after `int`: `[ frac ] [ exp ]`, `frac = decimal-point 1*DIGIT` -/
def numAfterInt : Bytes → Bool
  | [] => true
  | b :: r =>
    if b = 0x2E then
      match r with
      | [] => false
      | d :: r => isDigit d && numFracRest r
    else if b = 0x65 ∨ b = 0x45 then numExp r
    else false

/-- inside an `int` that does not start with zero -/
def numIntRest : Bytes → Bool
  | [] => true
  | b :: r => if isDigit b then numIntRest r else numAfterInt (b :: r)

/-- `int [ frac ] [ exp ]`, `int = zero / ( digit1-9 *DIGIT )` -/
def numUnsigned : Bytes → Bool
  | [] => false
  | b :: r => if b = 0x30 then numAfterInt r else isDigit b && numIntRest r

/-- `number = [ minus ] int [ frac ] [ exp ]` (RFC 8259 §6) -/
def isJsonNumber : Bytes → Bool
  | [] => false
  | b :: r => if b = 0x2D then numUnsigned r else numUnsigned (b :: r)

mutual
  /-- every number of the value is a JSON number (what serde_json writes for an integer or a finite float always is) -/
  def J.numbersOk : J → Bool
    | .num t => isJsonNumber t
    | .arr items => JList.numbersOk items
    | .obj ms => JMembers.numbersOk ms
    | _ => true
  def JList.numbersOk : JList → Bool
    | .nil => true
    | .cons h t => J.numbersOk h && JList.numbersOk t
  def JMembers.numbersOk : JMembers → Bool
    | .nil => true
    | .cons _ v t => J.numbersOk v && JMembers.numbersOk t
end

mutual
  /-- one value, leading white space allowed.  Fuel: one unit per value and per member of a container (the number of
  nodes of the value suffices, which is at most the length of its text) -/
  def readJ : Nat → Bytes → Option (J × Bytes)
    | 0, _ => none
    | f + 1, inp =>
      match skipWs inp with
      | [] => none
      | c :: r =>
        if c = 0x22 then (readStrBody (r.length + 1) r).map fun (s, rest) => (.str s, rest)
        else if c = 0x5B then
          match skipWs r with
          | [] => none
          | c2 :: rest =>
            if c2 = 0x5D then some (.arr .nil, rest)
            else (readItems f r).map fun (l, rest) => (.arr l, rest)
        else if c = 0x7B then
          match skipWs r with
          | [] => none
          | c2 :: rest =>
            if c2 = 0x7D then some (.obj .nil, rest)
            else (readMembers f r).map fun (m, rest) => (.obj m, rest)
        else if c = 0x6E then
          match r with
          | 0x75 :: 0x6C :: 0x6C :: rest => some (.null, rest)
          | _ => none
        else if c = 0x74 then
          match r with
          | 0x72 :: 0x75 :: 0x65 :: rest => some (.bool true, rest)
          | _ => none
        else if c = 0x66 then
          match r with
          | 0x61 :: 0x6C :: 0x73 :: 0x65 :: rest => some (.bool false, rest)
          | _ => none
        else
          if isJsonNumber (spanNum (c :: r)).1 then some (.num (spanNum (c :: r)).1, (spanNum (c :: r)).2) else none
  /-- the items of a non-empty array and its `]`: a value, then `,` (more) or `]` -/
  def readItems : Nat → Bytes → Option (JList × Bytes)
    | 0, _ => none
    | f + 1, inp =>
      match readJ f inp with
      | none => none
      | some (v, r) =>
        match skipWs r with
        | [] => none
        | c :: rest =>
          if c = 0x5D then some (.cons v .nil, rest)
          else if c = 0x2C then (readItems f rest).map fun (l, rest) => (.cons v l, rest)
          else none
  /-- the members of a non-empty object and its `}` -/
  def readMembers : Nat → Bytes → Option (JMembers × Bytes)
    | 0, _ => none
    | f + 1, inp =>
      match skipWs inp with
      | [] => none
      | q :: r =>
        if q = 0x22 then
          match readStrBody (r.length + 1) r with
          | none => none
          | some (k, r) =>
            match skipWs r with
            | [] => none
            | colon :: r =>
              if colon = 0x3A then
                match readJ f r with
                | none => none
                | some (v, r) =>
                  match skipWs r with
                  | [] => none
                  | c :: rest =>
                    if c = 0x7D then some (.cons k v .nil, rest)
                    else if c = 0x2C then (readMembers f rest).map fun (m, rest) => (.cons k v m, rest)
                    else none
              else none
        else none
end

/-- a whole document: one value, white space around it, nothing else (the fuel is the length of the text: a value has
no more nodes than its text has bytes, so the bound rejects nothing) -/
def readJson (doc : Bytes) : Option J :=
  match readJ (doc.length + 1) doc with
  | some (j, rest) => if (skipWs rest).isEmpty then some j else none
  | none => none

end Gd.Cli
