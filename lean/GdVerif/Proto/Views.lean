import GdVerif.Base
/-
  MODEL of the protocol-independent view (`CommonResponse` / `CommonPlayer`, protocols/types.rs).
  Accessor bodies are one-line expressions over `self`; `ViewExpr` is their abstract syntax, the
  per-type tables are GENERATED from the source (`Gen/Views.lean`), `eval` gives them meaning over
  a generic tree representation of a response value (what serde serialises).
-/
namespace Gd.Views

/-- a response value as a tree -/
inductive Val
  | null
  | bool (b : Bool)
  | num (i : Int)
  | str (s : Bytes)
  | arr (l : List Val)
  | obj (fields : List (String × Val))
  deriving Repr

/-- the body of an accessor -/
inductive ViewExpr
  /-- not overridden: the trait's default (`None`) -/
  | default
  /-- `Some(&self.p)` / `Some(self.p)` / `Some(self.p.into())` / `Some(self.p.as_str())` -/
  | someField (path : String)
  /-- `self.p` / `&self.p` / `self.p.into()` -/
  | field (path : String)
  /-- `self.p.as_deref()` (the field is an `Option<String>`) -/
  | optField (path : String)
  /-- `self.p.try_into().unwrap_or(0)` -/
  | tryIntoOr0 (path : String)
  /-- `Some(self.p.iter().map(|p| p as &dyn CommonPlayer).collect())` -/
  | playersAll (path : String)
  /-- `self.p.as_ref().map(|ps| ps.iter().map(|p| p as &dyn CommonPlayer).collect())` -/
  | playersOpt (path : String)
  /-- `Some(self.p.as_str())` / `self.p.as_ref().map(E::as_str)` on an enum field; the argument is
  `path|Variant=text,…` (the arms of the enum's `as_str`) -/
  | enumStr (spec : String)
  /-- anything the translator does not recognise -/
  | unparsed (text : String)
  deriving Repr, DecidableEq

structure ImplView where
  file : String
  trait : String
  type : String
  table : List (String × ViewExpr)
  /-- `as_original` returns `Generic…::Variant(self)` -/
  originalWrapsSelf : Bool
  /-- the default `as_json` is overridden -/
  asJsonOverridden : Bool
  /-- methods of the impl other than the accessors and `as_original` -/
  extra : List String
  deriving Repr, DecidableEq

def Val.get (v : Val) (k : String) : Val :=
  match v with
  | .obj fs => (fs.lookup k).getD .null
  | _ => .null

/-- follow a dotted field path -/
def Val.path (v : Val) (p : String) : Val := (p.splitOn ".").foldl Val.get v

/-- the value an accessor returns, as a tree: `Option` = null-or-value, player lists = arrays of the
underlying player values (each player's own view is applied separately) -/
def eval (e : ViewExpr) (self : Val) : Val :=
  match e with
  | .default => .null
  | .someField p => self.path p
  | .field p => self.path p
  | .optField p => self.path p
  | .tryIntoOr0 p =>
    match self.path p with
    | .num i => if 0 ≤ i ∧ i < 2 ^ 32 then .num i else .num 0
    | v => v
  | .playersAll p => self.path p
  | .playersOpt p => self.path p
  | .enumStr spec =>
    match spec.splitOn "|" with
    | [p, arms] =>
      match self.path p with
      | .str variant =>
        -- serde renders a unit variant as its name; `as_str` maps it through the arms
        let table := (arms.splitOn ",").filterMap fun a => match a.splitOn "=" with
          | [v, t] => some (v, t)
          | _ => none
        match table.lookup (String.ofList (variant.map fun b => Char.ofNat b.toNat)) with
        | some t => .str (asciiBytes t)
        | none => .null
      | v => v
    | _ => .null
  | .unparsed _ => .null

def accessor (t : List (String × ViewExpr)) (name : String) : ViewExpr := (t.lookup name).getD .default

/-- `CommonPlayer::as_json` (default implementation) -/
def playerJson (pt : List (String × ViewExpr)) (p : Val) : Val :=
  .obj [("name", eval (accessor pt "name") p), ("score", eval (accessor pt "score") p)]

/-- `CommonResponse::as_json` (default implementation), given the view of the response's player type -/
def responseJson (rt pt : List (String × ViewExpr)) (r : Val) : Val :=
  .obj [("name", eval (accessor rt "name") r), ("description", eval (accessor rt "description") r),
        ("game_mode", eval (accessor rt "game_mode") r), ("game_version", eval (accessor rt "game_version") r),
        ("map", eval (accessor rt "map") r), ("players_maximum", eval (accessor rt "players_maximum") r),
        ("players_online", eval (accessor rt "players_online") r), ("players_bots", eval (accessor rt "players_bots") r),
        ("has_password", eval (accessor rt "has_password") r),
        ("players", match eval (accessor rt "players") r with
          | .arr ps => .arr (ps.map (playerJson pt))
          | v => v)]

end Gd.Views
