import GdVerif.Lemmas.Gs3Exchange
/-
  C08 (GameSpy 3) — `splitnum` packets: the response does not depend on the order of arrival; a
  packet that arrives twice gives an error or the same response.

  MODEL: the receive loop of `get_server_packets_impl` (repaired tree): `Gs3.recvPackets` (on the
  transport) = `Gs3.feed` (on the packets in arrival order, `recvPackets_result`), with
  `Gs3.accept` storing one packet by its id.
  A response = payloads `ps` (n ≥ 1 of them, none empty) in packets with ids 0 … n-1, exactly the
  one with id n-1 flagged last (`Gs3.frags ps`).  For EVERY n, by an invariant of the loop — no
  enumeration of permutations.
-/
open Gd Gd.Gs3

/-- Any arrival order of the packets of a response gives the payloads in order of their ids —
the same as in-order arrival. -/
theorem C08_gs3_any_order (ps : List Bytes) (hne : ps ≠ []) (hpay : ∀ p ∈ ps, p ≠ []) (arrival : List Frag)
    (h : arrival.Perm (frags ps)) : feed Acc.init (arrival.map .ok) = .ok ps := by
  have hids : (ids arrival).Perm (List.range ps.length) := by
    rw [← ids_frags]; exact h.map _
  rcases feed_frags ps hne hpay arrival [] Acc.init (Rep.init ps) (by simp [ids])
      (fun f hf => (mem_frags ps f).mp (h.subset (by simpa using hf)))
      (fun i hi => by simpa using hids.symm.subset (List.mem_range.mpr hi)) with hok | ⟨_, hdup⟩
  · exact hok
  · exact absurd (hids.symm.nodup List.nodup_range) (by simpa using hdup)

/-- in-order arrival, in particular -/
theorem C08_gs3_in_order (ps : List Bytes) (hne : ps ≠ []) (hpay : ∀ p ∈ ps, p ≠ []) :
    feed Acc.init ((frags ps).map .ok) = .ok ps :=
  C08_gs3_any_order ps hne hpay _ (List.Perm.refl _)

/-- One packet of the response delivered twice (the copy inserted at any position of any arrival
order): the result is an error (`PacketBad`: the copy arrived while the response was incomplete) or
the same response (the copy arrived after the last missing packet and is never read). -/
theorem C08_gs3_duplicate (ps : List Bytes) (hne : ps ≠ []) (hpay : ∀ p ∈ ps, p ≠ []) (before after : List Frag)
    (x : Frag) (h : (before ++ after).Perm (frags ps)) (hx : x ∈ before ++ after) :
    feed Acc.init ((before ++ x :: after).map .ok) = .ok ps
    ∨ feed Acc.init ((before ++ x :: after).map .ok) = .err .packetBad := by
  have hmem : ∀ f, f ∈ before ++ x :: after → f ∈ frags ps := by
    intro f hf
    rcases List.mem_append.mp hf with hf | hf
    · exact h.subset (List.mem_append_left _ hf)
    · rcases List.mem_cons.mp hf with rfl | hf
      · exact h.subset hx
      · exact h.subset (List.mem_append_right _ hf)
  have hids : (ids (before ++ after)).Perm (List.range ps.length) := by
    rw [← ids_frags]; exact h.map _
  rcases feed_frags ps hne hpay (before ++ x :: after) [] Acc.init (Rep.init ps) (by simp [ids])
      (fun f hf => (mem_frags ps f).mp (hmem f (by simpa using hf)))
      (fun i hi => by
        have := hids.symm.subset (List.mem_range.mpr hi)
        simp only [ids, List.map_append, List.mem_append, List.nil_append, List.map_cons, List.mem_cons] at this ⊢
        rcases this with h1 | h1
        · exact Or.inl h1
        · exact Or.inr (Or.inr h1)) with hok | ⟨herr, _⟩
  · exact Or.inl hok
  · exact Or.inr herr

/-- The SPEC's data packets, received in the client's 2048-byte buffer, are exactly the packets
`frags` of the SPEC's payloads. -/
theorem C08_gs3_wire_packets (unknown : List Nat) (total : Nat) (ps : List Bytes) (i : Nat)
    (hcount : i + ps.length ≤ 128)
    (hsize : ∀ d ∈ Spec.packetsFrom unknown total i ps, d.length ≤ PACKET_SIZE) :
    (Spec.packetsFrom unknown total i ps).map decodeFrag = (fragsFrom total i ps).map .ok := by
  induction ps generalizing i with
  | nil => rfl
  | cons p r ih =>
    simp only [Spec.packetsFrom, fragsFrom, List.map_cons, List.length_cons] at hsize hcount ⊢
    rw [decodeFrag_dataPacket i (by omega) _ _ p (hsize _ (by simp)), ih (i + 1) (by omega) (fun d hd => hsize d (by simp [hd]))]

/-- On the wire: the receive loop on a UDP socket whose queue holds the SPEC's data packets of a
well-formed reply in ANY order returns the SPEC's payloads, as it does for in-order arrival. -/
theorem C08_gs3_wire_any_order (cfg : Spec.Config) (st : Spec.State)
    (hcount : (Spec.payloads cfg st).length ≤ 128) (hpay : ∀ p ∈ Spec.payloads cfg st, p ≠ [])
    (hsize : ∀ d ∈ Spec.dataPackets cfg st, d.length ≤ PACKET_SIZE)
    (arrival : List Bytes) (h : arrival.Perm (Spec.dataPackets cfg st))
    (s : Sock) (hudp : s.tcp = false) (w : Net) (hq : w.conns.getD s.id [] = arrival.map .data) :
    (recvAll s w).1 = .ok (Spec.payloads cfg st) := by
  have hne : Spec.payloads cfg st ≠ [] := by
    unfold Spec.payloads; split <;> simp
  unfold recvAll
  have hlen : (w.conns.getD s.id []).length = arrival.length := by rw [hq]; simp
  rw [recvPackets_result s hudp arrival _ _ w hq (by simp only [queued]; omega)]
  -- the decoded arrivals are a permutation of the response's packets
  have hdec : (arrival.map decodeFrag).Perm ((frags (Spec.payloads cfg st)).map .ok) := by
    have := h.map decodeFrag
    rwa [Spec.dataPackets, C08_gs3_wire_packets _ _ _ 0 (by omega) hsize] at this
  -- hence each is `.ok` of a packet
  have hall : ∀ r ∈ arrival.map decodeFrag, ∃ f, r = .ok f := by
    intro r hr
    obtain ⟨f, _, rfl⟩ := List.mem_map.mp (hdec.subset hr)
    exact ⟨f, rfl⟩
  have hex : ∀ (l : List (Res Frag)), (∀ r ∈ l, ∃ f, r = .ok f) → ∃ L : List Frag, l = L.map .ok := by
    intro l
    induction l with
    | nil => intro _; exact ⟨[], rfl⟩
    | cons r t ih =>
      intro hl
      obtain ⟨f, rfl⟩ := hl r (by simp)
      obtain ⟨L, rfl⟩ := ih (fun r hr => hl r (by simp [hr]))
      exact ⟨f :: L, rfl⟩
  obtain ⟨L, hL⟩ := hex _ hall
  rw [hL] at hdec ⊢
  have hperm : L.Perm (frags (Spec.payloads cfg st)) := by
    have hg := hdec.map (fun r : Res Frag => match r with
      | .ok f => f
      | _ => ⟨0, false, []⟩)
    simpa [List.map_map, Function.comp_def] using hg
  exact C08_gs3_any_order _ hne hpay L hperm

-- non-vacuity: three packets arriving as 2 (flagged last), 0, 1
example : feed Acc.init ([⟨2, true, [7]⟩, ⟨0, false, [5]⟩, ⟨1, false, [6]⟩].map .ok) = .ok [[5], [6], [7]] := by
  decide
-- and the same with packet 0 delivered twice before the response is complete: an error
example : feed Acc.init ([⟨2, true, [7]⟩, ⟨0, false, [5]⟩, ⟨0, false, [5]⟩, ⟨1, false, [6]⟩].map .ok) = .err .packetBad := by
  decide
