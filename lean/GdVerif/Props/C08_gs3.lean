import GdVerif.Lemmas.Gs3Whole
import GdVerif.Lemmas.Gs3Cut
/-
  C08 (GameSpy 3) — `splitnum` packets: the response does not depend on the order of arrival; a
  packet that arrives twice gives an error or the same response.

  MODEL: the receive loop of `get_server_packets_impl` (repaired tree): `Gs3.recvPackets` (on the
  transport) = `Gs3.feed` (on the packets in arrival order, `recvPackets_result`), with
  `Gs3.accept` storing one packet by its id.
  A response = payloads `ps` (n ≥ 1 of them, none empty) in packets with ids 0 … n-1, exactly the
  one with id n-1 flagged last (`Gs3.frags ps`).  For EVERY n, by an invariant of the loop — no
  enumeration of permutations.
-/
open Gd Gd.Gs3

/-- Any arrival order of the packets of a response gives the payloads in order of their ids —
the same as in-order arrival. -/
theorem C08_gs3_any_order (ps : List Bytes) (hne : ps ≠ []) (hpay : ∀ p ∈ ps, p ≠ []) (arrival : List Frag)
    (h : arrival.Perm (frags ps)) : feed Acc.init (arrival.map .ok) = .ok ps := by
  have hids : (ids arrival).Perm (List.range ps.length) := by
    rw [← ids_frags]; exact h.map _
  rcases feed_frags ps hne hpay arrival [] Acc.init (Rep.init ps) (by simp [ids])
      (fun f hf => (mem_frags ps f).mp (h.subset (by simpa using hf)))
      (fun i hi => by simpa using hids.symm.subset (List.mem_range.mpr hi)) with hok | ⟨_, hdup⟩
  · exact hok
  · exact absurd (hids.symm.nodup List.nodup_range) (by simpa using hdup)

/-- in-order arrival, in particular -/
theorem C08_gs3_in_order (ps : List Bytes) (hne : ps ≠ []) (hpay : ∀ p ∈ ps, p ≠ []) :
    feed Acc.init ((frags ps).map .ok) = .ok ps :=
  C08_gs3_any_order ps hne hpay _ (List.Perm.refl _)

/-- One packet of the response delivered twice (the copy inserted at any position of any arrival
order): the result is an error (`PacketBad`: the copy arrived while the response was incomplete) or
the same response (the copy arrived after the last missing packet and is never read). -/
theorem C08_gs3_duplicate (ps : List Bytes) (hne : ps ≠ []) (hpay : ∀ p ∈ ps, p ≠ []) (before after : List Frag)
    (x : Frag) (h : (before ++ after).Perm (frags ps)) (hx : x ∈ before ++ after) :
    feed Acc.init ((before ++ x :: after).map .ok) = .ok ps
    ∨ feed Acc.init ((before ++ x :: after).map .ok) = .err .packetBad := by
  have hmem : ∀ f, f ∈ before ++ x :: after → f ∈ frags ps := by
    intro f hf
    rcases List.mem_append.mp hf with hf | hf
    · exact h.subset (List.mem_append_left _ hf)
    · rcases List.mem_cons.mp hf with rfl | hf
      · exact h.subset hx
      · exact h.subset (List.mem_append_right _ hf)
  have hids : (ids (before ++ after)).Perm (List.range ps.length) := by
    rw [← ids_frags]; exact h.map _
  rcases feed_frags ps hne hpay (before ++ x :: after) [] Acc.init (Rep.init ps) (by simp [ids])
      (fun f hf => (mem_frags ps f).mp (hmem f (by simpa using hf)))
      (fun i hi => by
        have := hids.symm.subset (List.mem_range.mpr hi)
        simp only [ids, List.map_append, List.mem_append, List.nil_append, List.map_cons, List.mem_cons] at this ⊢
        rcases this with h1 | h1
        · exact Or.inl h1
        · exact Or.inr (Or.inr h1)) with hok | ⟨herr, _⟩
  · exact Or.inl hok
  · exact Or.inr herr

/-- On the wire: the receive loop on a UDP socket whose queue holds the SPEC's data packets of a
well-formed reply in ANY order returns the SPEC's payloads, as it does for in-order arrival. -/
theorem C08_gs3_wire_any_order (cfg : Spec.Config) (st : Spec.State) (h : Spec.wf cfg st = true)
    (arrival : List Bytes) (harr : arrival.Perm (Spec.dataPackets cfg st))
    (s : Sock) (hudp : s.tcp = false) (w : Net) (hq : w.conns.getD s.id [] = arrival.map .data) :
    (recvAll s w).1 = .ok (Spec.payloads cfg st) := by
  obtain ⟨hcount, hpay, hsize, _, _⟩ := wf_wire cfg st h
  unfold recvAll
  have hlen : (w.conns.getD s.id []).length = arrival.length := by rw [hq]; simp
  rw [recvPackets_result s hudp arrival _ _ w hq (by simp only [queued]; omega)]
  exact feed_arrival cfg st hcount hpay hsize arrival harr

/-- Lifted to the whole query: against the SPEC's server for a well-formed state, every arrival order
of the data packets gives the same result as in-order arrival (namely the expected response). -/
theorem C08_gs3_query_any_order (cfg : Spec.Config) (st : Spec.State) (h : Spec.wf cfg st = true) (port retries : Nat)
    (arrival : List Bytes) (harr : arrival.Perm (Spec.dataPackets cfg st)) :
    (query port retries (Net.init [.opened ((Spec.handshakeReply cfg.challenge :: arrival).map .data)] [])).1
      = (query port retries (Net.init [.opened ((Spec.script cfg st).map .data)] [])).1 := by
  rw [query_eq, (exchange_spec cfg st h port retries buildResponse arrival harr).1]
  exact (exchange_spec cfg st h port retries buildResponse _ (List.Perm.refl _)).1.symm

/-- and likewise `query_vars` -/
theorem C08_gs3_query_vars_any_order (cfg : Spec.Config) (st : Spec.State) (h : Spec.wf cfg st = true) (port retries : Nat)
    (arrival : List Bytes) (harr : arrival.Perm (Spec.dataPackets cfg st)) :
    (queryVars port retries (Net.init [.opened ((Spec.handshakeReply cfg.challenge :: arrival).map .data)] [])).1
      = (queryVars port retries (Net.init [.opened ((Spec.script cfg st).map .data)] [])).1 := by
  rw [queryVars_eq, (exchange_spec cfg st h port retries buildVars arrival harr).1]
  exact (exchange_spec cfg st h port retries buildVars _ (List.Perm.refl _)).1.symm

-- non-vacuity: three packets arriving as 2 (flagged last), 0, 1
example : feed Acc.init ([⟨2, true, [7]⟩, ⟨0, false, [5]⟩, ⟨1, false, [6]⟩].map .ok) = .ok [[5], [6], [7]] := by
  decide
-- and the same with packet 0 delivered twice before the response is complete: an error
example : feed Acc.init ([⟨2, true, [7]⟩, ⟨0, false, [5]⟩, ⟨0, false, [5]⟩, ⟨1, false, [6]⟩].map .ok) = .err .packetBad := by
  decide

/-! ### replies whose packets may end inside value lists (`Spec.ConfigC`, see `Props/C04_gs3.lean`)

`C08_gs3_any_order` / `C08_gs3_duplicate` speak about ANY non-empty payloads, so they cover such
packets as they are.  The statements against the SPEC's server, for `Spec.ConfigC` / `Spec.wfC` — any
allowed extra sections, any packets ending inside the value list of their last section; `Spec.Config` /
`Spec.wf` above is the case `cfg.toX.toC` (`C04_gs3_cut_conservative`, `C04_gs3_extra_conservative`).
Here the order matters for more than the packet numbers: each packet is read from its own buffer, in
the order of the ids — and the result is still that of in-order arrival. -/

theorem C08_gs3_wire_any_order_cut (cfg : Spec.ConfigC) (st : Spec.State) (h : Spec.wfC cfg st = true)
    (arrival : List Bytes) (harr : arrival.Perm (Spec.dataPacketsC cfg st))
    (s : Sock) (hudp : s.tcp = false) (w : Net) (hq : w.conns.getD s.id [] = arrival.map .data) :
    (recvAll s w).1 = .ok (Spec.payloadsC cfg st) := by
  obtain ⟨hcount, hpay, hsize, _, _⟩ := wfC_wire cfg st h
  unfold recvAll
  have hlen : (w.conns.getD s.id []).length = arrival.length := by rw [hq]; simp
  rw [recvPackets_result s hudp arrival _ _ w hq (by simp only [queued]; omega)]
  exact feed_arrival_ps cfg.unknown (Spec.payloadsC cfg st) (payloadsC_ne_nil cfg st) hcount hpay hsize arrival harr

theorem C08_gs3_query_any_order_cut (cfg : Spec.ConfigC) (st : Spec.State) (h : Spec.wfC cfg st = true) (port retries : Nat)
    (arrival : List Bytes) (harr : arrival.Perm (Spec.dataPacketsC cfg st)) :
    (query port retries (Net.init [.opened ((Spec.handshakeReply cfg.challenge :: arrival).map .data)] [])).1
      = (query port retries (Net.init [.opened ((Spec.scriptC cfg st).map .data)] [])).1 := by
  rw [query_eq, (exchangeC_spec cfg st h port retries buildResponse arrival harr).1]
  exact (exchangeC_spec cfg st h port retries buildResponse _ (List.Perm.refl _)).1.symm

theorem C08_gs3_query_vars_any_order_cut (cfg : Spec.ConfigC) (st : Spec.State) (h : Spec.wfC cfg st = true) (port retries : Nat)
    (arrival : List Bytes) (harr : arrival.Perm (Spec.dataPacketsC cfg st)) :
    (queryVars port retries (Net.init [.opened ((Spec.handshakeReply cfg.challenge :: arrival).map .data)] [])).1
      = (queryVars port retries (Net.init [.opened ((Spec.scriptC cfg st).map .data)] [])).1 := by
  rw [queryVars_eq, (exchangeC_spec cfg st h port retries buildVars arrival harr).1]
  exact (exchangeC_spec cfg st h port retries buildVars _ (List.Perm.refl _)).1.symm

-- non-vacuity: three packets, the first two ending inside the value list of `a_` (no closing 00), arriving as 2, 0, 1
example : feed Acc.init ([⟨2, true, [97, 95, 0, 2, 55, 0, 0]⟩, ⟨0, false, [97, 95, 0, 0, 53, 0]⟩, ⟨1, false, [97, 95, 0, 1, 54, 0]⟩].map .ok)
    = .ok [[97, 95, 0, 0, 53, 0], [97, 95, 0, 1, 54, 0], [97, 95, 0, 2, 55, 0, 0]] := by
  decide
