import GdVerif.Lemmas.SmallCost
import GdVerif.Lemmas.SmallBlock
/-
  C13 (requests sent) — Mindustry.  `units` = 1: one ping per attempt (every attempt on a socket of
  its own).
-/
open Gd Gd.Mindustry

/-- At most `retries + 1` pings, whatever is received, for every script, fault vector, retry setting. -/
theorem C13_mindustry_send_bound (port retries : Nat) (script : List ConnScript) (faults : List Bool) :
    nSends (query port retries (Net.init script faults)).2.log ≤ retries + 1 :=
  (qsends_query port retries).total script faults

/-- The form the trace oracle checks (`send_units` = 1). -/
theorem C13_mindustry_send_bound_units (port retries : Nat) (script : List ConnScript) (faults : List Bool) :
    nSends (query port retries (Net.init script faults)).2.log
      ≤ 1 * (retries + 1) + nRecvOk (query port retries (Net.init script faults)).2.log := by
  have := C13_mindustry_send_bound port retries script faults
  omega

/-- The bound is attained for every retry setting by a server that never answers. -/
theorem C13_mindustry_send_bound_attained (port retries : Nat) :
    nSends (query port retries (Net.init [] [])).2.log = retries + 1 :=
  (silent_query port retries (Net.init [] []) rfl
    (AllSilent.nil_udp 1 _ fun t ht => (List.mem_replicate.mp ht).2)).counts.2.1

example : nSends (query 6567 2 (Net.init [.opened [.silence], .opened [.silence], .opened []] [])).2.log = 3 := by decide
