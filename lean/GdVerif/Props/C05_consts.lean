import GdVerif.Gen.Consts
import GdVerif.Lemmas.Consts
import GdVerif.Spec.Quake
/-
  C05 — the names and bytes of the Quake 1 / 2 / 3 parser: SOURCE = MODEL = SPEC (tie by TRANSLATION).

  The variable names behind each response field with their fallback spelling (`hostname` / `sv_hostname`, …), the
  response header of each version, the reply marker and the line delimiter.  `Gd.Gen.Consts.*` is regenerated from
  protocols/quake/{client,one,two,three}.rs on every run.
-/
open Gd Gd.Gen Gd.ConstsAux

/-- `server_vars.remove("hostname").or_else(|| server_vars.remove("sv_hostname"))` … per response field =
the model's keys -/
theorem C05_consts_quake_var_names :
    [("name", Quake.kHostname, Quake.kSvHostname), ("map", Quake.kMapname, Quake.kMap),
     ("players_maximum", Quake.kMaxclients, Quake.kSvMaxclients), ("game_version", Quake.kVersion, Quake.kStarVersion)]
      = Consts.quake_var_names.map (fun t => (t.1, asciiBytes t.2.1, asciiBytes t.2.2)) := by decide

/-- … = the SPEC's -/
theorem C05_consts_quake_spec_var_names :
    [("name", Quake.Spec.hostnameKey, Quake.Spec.hostnameAlt), ("map", Quake.Spec.mapKey, Quake.Spec.mapAlt),
     ("players_maximum", Quake.Spec.maxKey, Quake.Spec.maxAlt), ("game_version", Quake.Spec.versionKey, Quake.Spec.versionAlt)]
      = Consts.quake_var_names.map (fun t => (t.1, asciiBytes t.2.1, asciiBytes t.2.2)) := by decide

/-- `get_response_header` of the three clients = `Quake.Version.responseHeader` = the SPEC's header -/
theorem C05_consts_quake_response_headers :
    [("One", Quake.Version.one.responseHeader), ("Two", Quake.Version.two.responseHeader),
     ("Three", Quake.Version.three.responseHeader)] = Consts.quake_response_headers
    ∧ [("One", Quake.Spec.header .one), ("Two", Quake.Spec.header .two), ("Three", Quake.Spec.header .three)]
      = Consts.quake_response_headers := by decide

/-- `read::<u32>() != u32::MAX`: the marker in front of the response header -/
theorem C05_consts_quake_reply_marker (v : Quake.Version) (cfg : Quake.Spec.Config) (st : Quake.Spec.State) :
    Quake.stripHeader v = (do
      let h ← readUnsigned .little 4
      if h != Consts.quake_reply_header then Par.fail .packetBad
      else do
        let rest ← remainingBytes
        if !(v.responseHeader.isPrefixOf rest) then Par.fail .packetBad
        else do
          moveCursor (v.responseHeader.length : Int)
          remainingBytes)
    ∧ Quake.Spec.reply cfg st = natLE 4 Consts.quake_reply_header ++ Quake.Spec.header cfg.version ++ Quake.Spec.body cfg st := by
  refine ⟨rfl, ?_⟩
  have h : natLE 4 Consts.quake_reply_header = [0xFF, 0xFF, 0xFF, 0xFF] := by decide
  rw [h]
  rfl

/-- `read_string::<Utf8Decoder>(Some([0x0A]))`: variables and player lines end at a line feed -/
theorem C05_consts_quake_line_delimiter (v : Quake.Version) :
    Quake.getServerValues = (do
      let data ← readStrUntil (UInt8.ofNat (Consts.quake_line_delimiter.getD 0 0))
      pure (Quake.insertAll (Quake.pairs (Quake.dropEmptyFirst (splitOn 0x5C data)))))
    ∧ Quake.playerLine v = (do
      let data ← readStrUntil (UInt8.ofNat (Consts.quake_line_delimiter.getD 1 0))
      Par.lift (Quake.parsePlayer v (Quake.splitFields false data)))
    ∧ Quake.Spec.lf = [UInt8.ofNat (Consts.quake_line_delimiter.getD 0 0)] := ⟨rfl, rfl, by decide⟩

example : Consts.quake_var_names.length = 4 := by decide
