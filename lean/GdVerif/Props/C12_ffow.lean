import GdVerif.Lemmas.SmallBlock
/-
  C12 (blocking steps that can run into their timeout) — FFOW.
-/
open Gd Gd.Ffow

/-- Whatever the server does — every script, fault vector, retry setting — at most `retries + 1`
blocking steps of an FFOW query run into their timeout: one per attempt of its single request (the
challenge rounds of an attempt are answered receives; the first step that fails ends the attempt). -/
theorem C12_ffow_blocking_bound (ext : Valve.Ext) (port retries : Nat) (script : List ConnScript) (faults : List Bool) :
    nBlocked (query ext port retries (Net.init script faults)).2.log ≤ retries + 1 := by
  have := (block_query ext port retries).total script faults
  omega
/-- A silent server: the receive-class error after exactly `retries + 1` attempts (one request, one timed-out receive each). -/
theorem C12_ffow_silent_server (ext : Valve.Ext) (port retries : Nat) (script : List ConnScript)
    (h : PendingSilent false (retries + 1) script) :
    (query ext port retries (Net.init script [])).1 = .err .packetReceive
      ∧ nSends (query ext port retries (Net.init script [])).2.log = retries + 1
      ∧ nBlocked (query ext port retries (Net.init script [])).2.log = retries + 1
      ∧ nRecvOk (query ext port retries (Net.init script [])).2.log = 0
      ∧ nOpened (query ext port retries (Net.init script [])).2.log = 1 :=
  (silent_query ext port retries (Net.init script []) rfl h).counts

example (retries : Nat) (rest : List Delivery) (more : List ConnScript) :
    PendingSilent false (retries + 1) [] ∧
    PendingSilent false (retries + 1) (.opened (List.replicate (retries + 1) .silence ++ rest) :: more) :=
  ⟨rfl, SilentFor.replicate false (retries + 1) rest⟩

/-- attained after a challenge round too: the echo is sent, then nothing comes back; one retry -/
example : nBlocked (query ⟨fun _ => none, fun _ => 0⟩ 5478 1 (Net.init [.opened [.data [255, 255, 255, 255, 65, 1, 2, 3, 4], .silence, .silence]] [])).2.log = 2 := by
  decide +kernel
