import GdVerif.Lemmas.Gs3Cut
import GdVerif.Lemmas.Gs3Legacy
/-
  C04 (GameSpy 3) — replies are decoded completely.

  MODEL: `GdVerif/Proto/Gs3.lean` (tied to protocols/gamespy/protocols/three and gamespy/common.rs by
  `./check C04` on every run; the repaired tree: see known_findings.json, property C04/C08).
  SPEC:  `GdVerif/Spec/Gs3.lean` — a server state is ALL its variables in the order sent (so every
  order, every set of extra variables), its players, its teams, optionally a `pid` column; the wire
  layout `Config` says how each column is cut into field sections (any slices with any offsets, in any
  order, possibly repeated, as long as every value is sent — `covered`), which marker bytes precede
  them, how the sections are spread over 1..128 packets, and the challenge.  `Spec.wf` is the domain.
  Extensions further down, each containing the one before as a special case: `ConfigX` / `wfX` (field
  sections the response has no place for), `ConfigC` / `wfC` (packets that END INSIDE the value list of
  their last section, the next packet continuing the field under its id and offset: `C04_gs3_query_cut`).
-/
open Gd Gd.Gs3 Gd.Gs3.Spec

/-- `query`: for every well-formed state and layout, and ANY arrival order of the data packets, the
query returns the server's name, map, mode, version, password flag and player limits, the player
count (the larger of reported and listed), every player and every team exactly as sent, and all
other variables — and only those — as unused entries: `Spec.expected`. -/
theorem C04_gs3_query (cfg : Config) (st : State) (h : wf cfg st = true) (port retries : Nat)
    (arrival : List Bytes) (harr : arrival.Perm (dataPackets cfg st)) :
    (query port retries (Net.init [.opened ((handshakeReply cfg.challenge :: arrival).map .data)] [])).1
      = .ok (expected st) := by
  rw [query_eq, (exchange_spec cfg st h port retries buildResponse arrival harr).1]
  exact buildResponse_spec cfg st h

/-- in particular for in-order arrival: `query ∘ SPEC script = expected` -/
theorem C04_gs3_query_in_order (cfg : Config) (st : State) (h : wf cfg st = true) (port retries : Nat) :
    (query port retries (Net.init [.opened ((script cfg st).map .data)] [])).1 = .ok (expected st) :=
  C04_gs3_query cfg st h port retries _ (List.Perm.refl _)

/-- `query_vars` returns exactly the key/value pairs sent. -/
theorem C04_gs3_query_vars (cfg : Config) (st : State) (h : wf cfg st = true) (port retries : Nat)
    (arrival : List Bytes) (harr : arrival.Perm (dataPackets cfg st)) :
    (queryVars port retries (Net.init [.opened ((handshakeReply cfg.challenge :: arrival).map .data)] [])).1
      = .ok st.vars := by
  rw [queryVars_eq, (exchange_spec cfg st h port retries buildVars arrival harr).1]
  exact buildVars_spec cfg st h

/-- The packet-level statement: everything `query` does with the packet payloads. -/
theorem C04_gs3_payloads (cfg : Config) (st : State) (h : wf cfg st = true) :
    buildResponse (payloads cfg st) = .ok (expected st) ∧ buildVars (payloads cfg st) = .ok st.vars :=
  ⟨buildResponse_spec cfg st h, buildVars_spec cfg st h⟩

/-- The unused entries are all variables minus the typed ones, as a set equality: a pair is an unused
entry iff it was sent and its key is none of the nine typed keys. -/
theorem C04_gs3_unused_exact (st : State) (p : Bytes × Bytes) :
    p ∈ (expected st).unusedEntries ↔ p ∈ st.vars ∧ p.1 ∉ typedKeys := by
  simp [expected, List.mem_filter]

/-- Players and teams alone: the field sections of all packets give back every player and every team,
in order, for any slicing that covers all values. -/
theorem C04_gs3_players_teams (cfg : Config) (st : State) (h : wf cfg st = true) :
    parsePlayersAndTeams (cfg.layout.map (encSlices st)) = .ok (st.players, st.teams) :=
  parsePlayersAndTeams_spec cfg st (wf_layout cfg st h)

/-! non-vacuity: a concrete state and layout — two players, one team, every column cut into two slices
spread over two packets, an extra variable `x=y`, challenge -7 — satisfies `wf`; and for it the
players are returned (the unrepaired tree returned `players = []` for every reply) -/

def C04_gs3_exampleState : State :=
  ⟨[([104, 111, 115, 116, 110, 97, 109, 101], [72]), ([109, 97, 112, 110, 97, 109, 101], [77]),
    ([103, 97, 109, 101, 116, 121, 112, 101], [71]), ([103, 97, 109, 101, 118, 101, 114], [49]),
    ([112, 97, 115, 115, 119, 111, 114, 100], [49]), ([109, 97, 120, 112, 108, 97, 121, 101, 114, 115], [56]),
    ([120], [121])],
   [⟨[65], -5, 30, 1, 2, 7⟩, ⟨[66], 6, 31, 2, 3, 8⟩], [⟨[82], 9⟩], none⟩

def C04_gs3_exampleSlice (t : Bool) (f : List UInt8) (o c : Nat) : Slice := ⟨[1], t, f, o, c⟩

def C04_gs3_playerFieldNames : List (List UInt8) :=
  [[112, 108, 97, 121, 101, 114], [115, 99, 111, 114, 101], [112, 105, 110, 103], [116, 101, 97, 109],
   [100, 101, 97, 116, 104, 115], [115, 107, 105, 108, 108]]

def C04_gs3_exampleConfig : Config :=
  ⟨-7, [C04_gs3_playerFieldNames.map (fun f => C04_gs3_exampleSlice false f 0 1),
        C04_gs3_playerFieldNames.map (fun f => C04_gs3_exampleSlice false f 1 1)
          ++ [C04_gs3_exampleSlice true [116, 101, 97, 109] 0 1, C04_gs3_exampleSlice true [115, 99, 111, 114, 101] 0 1]],
   [0, 1]⟩

set_option maxRecDepth 8000 in
theorem C04_gs3_example_wf : wf C04_gs3_exampleConfig C04_gs3_exampleState = true := by decide

example : (query 29900 0 (Net.init [.opened ((script C04_gs3_exampleConfig C04_gs3_exampleState).map .data)] [])).1
    = .ok (expected C04_gs3_exampleState) :=
  C04_gs3_query_in_order _ _ C04_gs3_example_wf 29900 0

example : (expected C04_gs3_exampleState).players = [⟨[65], -5, 30, 1, 2, 7⟩, ⟨[66], 6, 31, 2, 3, 8⟩]
    ∧ (expected C04_gs3_exampleState).teams = [⟨[82], 9⟩] := ⟨rfl, rfl⟩

/-! ## Field sections the client has no place for (`kills_`, `time_on_`, `clan_`, `honor_t` …)

SPEC: `Spec.Extra` / `Spec.Section` / `Spec.ConfigX` — a reply may carry, anywhere among the slices of
any packet, sections of columns that are not part of the response.  `Spec.wfExtra` is what the format
allows for such a section and all the reader needs: marker bytes below 3, a field id that is a
non-empty text not starting with a marker byte and whose first `_`-segment is none of the typed names,
a row offset that is a byte, values that are non-empty texts.  Nothing is asked of what the values
say.  `Spec.wfX` is `Spec.wf` with sections for slices (`C04_gs3_extra_conservative`). -/

/-- `query` on a reply with extra sections: for every well-formed state, every layout, every list of
allowed extra sections at any positions, and ANY arrival order of the data packets, the response is
`Spec.expected st` — which does not mention the extra sections: they are ignored; players, teams and
unused entries are exactly those of the state. -/
theorem C04_gs3_query_extra (cfg : ConfigX) (st : State) (h : wfX cfg st = true) (port retries : Nat)
    (arrival : List Bytes) (harr : arrival.Perm (dataPacketsX cfg st)) :
    (query port retries (Net.init [.opened ((handshakeReply cfg.challenge :: arrival).map .data)] [])).1
      = .ok (expected st) := by
  rw [query_eq, (exchangeX_spec cfg st h port retries buildResponse arrival harr).1]
  exact buildResponseX_spec cfg st h

/-- in particular for in-order arrival: `query ∘ SPEC script with extra sections = expected` -/
theorem C04_gs3_query_extra_in_order (cfg : ConfigX) (st : State) (h : wfX cfg st = true) (port retries : Nat) :
    (query port retries (Net.init [.opened ((scriptX cfg st).map .data)] [])).1 = .ok (expected st) :=
  C04_gs3_query_extra cfg st h port retries _ (List.Perm.refl _)

/-- `query_vars` on a reply with extra sections: exactly the key/value pairs sent. -/
theorem C04_gs3_query_vars_extra (cfg : ConfigX) (st : State) (h : wfX cfg st = true) (port retries : Nat)
    (arrival : List Bytes) (harr : arrival.Perm (dataPacketsX cfg st)) :
    (queryVars port retries (Net.init [.opened ((handshakeReply cfg.challenge :: arrival).map .data)] [])).1
      = .ok st.vars := by
  rw [queryVars_eq, (exchangeX_spec cfg st h port retries buildVars arrival harr).1]
  exact buildVarsX_spec cfg st h

/-- The same response as without the extra sections, stated as an equation between the two queries:
when the reply stripped of its extra sections (`cfg.base`) is itself a well-formed reply, querying the
server that sends them and the server that does not gives the same result. -/
theorem C04_gs3_extra_ignored (cfg : ConfigX) (st : State) (h : wfX cfg st = true) (hb : wf cfg.base st = true)
    (port retries : Nat) :
    (query port retries (Net.init [.opened ((scriptX cfg st).map .data)] [])).1
      = (query port retries (Net.init [.opened ((script cfg.base st).map .data)] [])).1 := by
  rw [C04_gs3_query_extra_in_order cfg st h, C04_gs3_query_in_order cfg.base st hb]

/-- The packet-level statement with extra sections. -/
theorem C04_gs3_payloads_extra (cfg : ConfigX) (st : State) (h : wfX cfg st = true) :
    buildResponse (payloadsX cfg st) = .ok (expected st) ∧ buildVars (payloadsX cfg st) = .ok st.vars
    ∧ parsePlayersAndTeams (cfg.layout.map (encSections st)) = .ok (st.players, st.teams) :=
  ⟨buildResponseX_spec cfg st h, buildVarsX_spec cfg st h, parsePlayersAndTeamsX_spec cfg st h⟩

/-- The core, at the level of one packet: an allowed extra section in front of any allowed sections
is skipped — the field-section loop over `extra ++ rest` gives the tables of the loop over `rest`,
whatever the tables were before. -/
theorem C04_gs3_extra_section_skipped (st : State) (e : Extra) (he : wfExtra e = true) (rest : List Section)
    (hrest : ∀ s ∈ rest, SectionOk st s) (t : Tables) :
    (readSections t).run (encExtra e ++ encSections st rest) = (readSections t).run (encSections st rest) := by
  have h1 := readSectionsX_run st (.extra e :: rest) (fun s hs => by
    rcases List.mem_cons.mp hs with rfl | hs
    · exact he
    · exact hrest s hs) t
  have h2 := readSectionsX_run st rest hrest t
  simp only [encSections, List.map_cons, List.flatten_cons, encSection, slicesOf] at h1 h2
  simp only [encSections]
  rw [h1, h2]

/-- `wfX` and the scripts extend `wf` and the scripts without extra sections: a `Config` seen as a
`ConfigX` has the same domain and the same wire image, so `C04_gs3_query` is the case "no extra
section" of `C04_gs3_query_extra`. -/
theorem C04_gs3_extra_conservative (cfg : Config) (st : State) :
    wfX cfg.toX st = wf cfg st ∧ scriptX cfg.toX st = script cfg st ∧ cfg.toX.base = cfg := by
  refine ⟨wfX_toX cfg st, ?_, base_toX cfg⟩
  simp only [scriptX, script, dataPacketsX, dataPackets, payloadsX_toX]
  rfl

/-! non-vacuity: the example reply above with four extra sections spread over its two packets — `clan_`
continued at row 200 with the value `score`, `kills_` with two numbers, `time_on_` (two `_`-segments)
with a value containing `_`, `honor_t` with the values `score` and `team_rocket` — satisfies `wfX` -/

def C04_gs3_xClan : Extra := ⟨[], [99, 108, 97, 110, 95], 200, [[115, 99, 111, 114, 101]]⟩
def C04_gs3_xKills : Extra := ⟨[1], [107, 105, 108, 108, 115, 95], 0, [[51], [52]]⟩
def C04_gs3_xTime : Extra := ⟨[], [116, 105, 109, 101, 95, 111, 110, 95], 1, [[49, 50, 95, 51, 48]]⟩
def C04_gs3_xHonor : Extra := ⟨[2], [104, 111, 110, 111, 114, 95, 116], 0, [[115, 99, 111, 114, 101], [116, 101, 97, 109, 95, 114, 111, 99, 107, 101, 116]]⟩

/-- the example layout with the extra sections `first` put after the first slice of packet 0, and
those of `second` at the start, after the third slice and at the end of packet 1 -/
def C04_gs3_exampleConfigWith (first second : List Extra) : ConfigX :=
  match C04_gs3_exampleConfig.layout with
  | [p0, p1] =>
    ⟨-7, [(p0.take 1).map .slice ++ first.map .extra ++ (p0.drop 1).map .slice,
          (second.take 1).map .extra ++ (p1.take 3).map .slice ++ ((second.drop 1).take 1).map .extra
            ++ (p1.drop 3).map .slice ++ (second.drop 2).map .extra], [0, 1]⟩
  | _ => ⟨0, [], []⟩

def C04_gs3_exampleConfigX : ConfigX :=
  C04_gs3_exampleConfigWith [C04_gs3_xKills, C04_gs3_xClan] [C04_gs3_xTime, C04_gs3_xHonor, C04_gs3_xClan]

set_option maxRecDepth 20000 in
theorem C04_gs3_exampleX_wf : wfX C04_gs3_exampleConfigX C04_gs3_exampleState = true := by decide

example : (extrasOf C04_gs3_exampleConfigX.layout.flatten).length = 5 := by decide

example : (query 29900 0 (Net.init [.opened ((scriptX C04_gs3_exampleConfigX C04_gs3_exampleState).map .data)] [])).1
    = .ok (expected C04_gs3_exampleState) :=
  C04_gs3_query_extra_in_order _ _ C04_gs3_exampleX_wf 29900 0

/-! ### the condition is not padding

(1) The reader BEFORE the repair (`Legacy`, see known_findings: fix a7fbffc) left an unknown field by
`continue` right after its name; the offset byte and the values then went through the section loop as
if they were field names.  A `clan_` column with the single value `score` — an allowed extra section —
made it take the next section's name for a score: the query failed.  The repaired reader returns the
expected response for the same packets. -/

def C04_gs3_exampleConfigScore : ConfigX :=
  C04_gs3_exampleConfigWith [⟨[], [99, 108, 97, 110, 95], 0, [[115, 99, 111, 114, 101]]⟩] []

set_option maxRecDepth 20000 in
theorem C04_gs3_extra_old_reader_defect :
    wfX C04_gs3_exampleConfigScore C04_gs3_exampleState = true
    ∧ Legacy.buildResponse (payloadsX C04_gs3_exampleConfigScore C04_gs3_exampleState) = .err .typeParse
    ∧ buildResponse (payloadsX C04_gs3_exampleConfigScore C04_gs3_exampleState) = .ok (expected C04_gs3_exampleState) := by
  refine ⟨by decide, by decide +kernel, ?_⟩
  exact buildResponseX_spec _ _ (by decide)

/-! (2) Each clause of `wfExtra` that speaks about content is needed by the repaired reader too: a
section whose field id has a typed first segment with a suffix other than `t` (`score_total_`) is not
an extra section but a malformed typed one, and an empty value in the middle closes the section so
that what follows is read as sections — both change the result. -/

def C04_gs3_exampleConfigTypedName : ConfigX :=
  C04_gs3_exampleConfigWith [⟨[], [115, 99, 111, 114, 101, 95, 116, 111, 116, 97, 108, 95], 0, [[55]]⟩] []

def C04_gs3_exampleConfigEmptyValue : ConfigX :=
  C04_gs3_exampleConfigWith [⟨[], [99, 108, 97, 110, 95], 0, [[97], [], [112, 105, 110, 103, 95]]⟩] []

set_option maxRecDepth 20000 in
theorem C04_gs3_extra_condition_needed :
    (wfX C04_gs3_exampleConfigTypedName C04_gs3_exampleState = false
      ∧ buildResponse (payloadsX C04_gs3_exampleConfigTypedName C04_gs3_exampleState) = .err .packetBad)
    ∧ (wfX C04_gs3_exampleConfigEmptyValue C04_gs3_exampleState = false
      ∧ buildResponse (payloadsX C04_gs3_exampleConfigEmptyValue C04_gs3_exampleState) = .err .packetBad) := by
  refine ⟨⟨by decide, by decide +kernel⟩, by decide, by decide +kernel⟩

/-! ## Value lists that continue in the next packet

SPEC: `Spec.ConfigC` — when a reply does not fit one packet, real servers cut a field section at the
packet boundary: the packet ENDS inside the value list, after a value and without the closing empty
value, and the next packet continues the field under its field id with the offset of the first value
it carries.  `ConfigC` = `ConfigX` plus, per packet, whether it ends inside the value list of its last
section (typed or extra; `Spec.encOpen`); `Spec.cutLayout` builds such a reply from whole sections and
a list of cut points per section (`Spec.CutSection`).  `Spec.wfC` is `Spec.wfX` with the packets as they
are now; replies that close every list are the case `cfg.toC` (`C04_gs3_cut_conservative`). -/

/-- `query` on a reply whose packets may end inside value lists: for every well-formed state, every
layout with any allowed extra sections, EVERY choice of the packets that end inside the value list of
their last section, and ANY arrival order of the data packets, the response is `Spec.expected st`. -/
theorem C04_gs3_query_cut (cfg : ConfigC) (st : State) (h : wfC cfg st = true) (port retries : Nat)
    (arrival : List Bytes) (harr : arrival.Perm (dataPacketsC cfg st)) :
    (query port retries (Net.init [.opened ((handshakeReply cfg.challenge :: arrival).map .data)] [])).1
      = .ok (expected st) := by
  rw [query_eq, (exchangeC_spec cfg st h port retries buildResponse arrival harr).1]
  exact buildResponseC_spec cfg st h

/-- in particular for in-order arrival -/
theorem C04_gs3_query_cut_in_order (cfg : ConfigC) (st : State) (h : wfC cfg st = true) (port retries : Nat) :
    (query port retries (Net.init [.opened ((scriptC cfg st).map .data)] [])).1 = .ok (expected st) :=
  C04_gs3_query_cut cfg st h port retries _ (List.Perm.refl _)

/-- `query_vars` on such a reply: exactly the key/value pairs sent. -/
theorem C04_gs3_query_vars_cut (cfg : ConfigC) (st : State) (h : wfC cfg st = true) (port retries : Nat)
    (arrival : List Bytes) (harr : arrival.Perm (dataPacketsC cfg st)) :
    (queryVars port retries (Net.init [.opened ((handshakeReply cfg.challenge :: arrival).map .data)] [])).1
      = .ok st.vars := by
  rw [queryVars_eq, (exchangeC_spec cfg st h port retries buildVars arrival harr).1]
  exact buildVarsC_spec cfg st h

/-- The same from the side of whole sections: any runs of sections, each with ANY list of cut points
(`Spec.cutLayout`: a new packet after every cut point, the continuation under the field id with the
offset of its first value) — whenever the resulting reply is in the domain, the query returns the
expected response, in any arrival order. -/
theorem C04_gs3_query_cut_points (challenge : Int) (runs : List (List CutSection)) (unknown : List Nat) (st : State)
    (h : wfC (cutLayout challenge runs unknown) st = true) (port retries : Nat)
    (arrival : List Bytes) (harr : arrival.Perm (dataPacketsC (cutLayout challenge runs unknown) st)) :
    (query port retries (Net.init [.opened ((handshakeReply challenge :: arrival).map .data)] [])).1
      = .ok (expected st) :=
  C04_gs3_query_cut (cutLayout challenge runs unknown) st h port retries arrival harr

/-- The packet-level statement. -/
theorem C04_gs3_payloads_cut (cfg : ConfigC) (st : State) (h : wfC cfg st = true) :
    buildResponse (payloadsC cfg st) = .ok (expected st) ∧ buildVars (payloadsC cfg st) = .ok st.vars
    ∧ parsePlayersAndTeams (sectionBytesFrom st cfg.cut 0 cfg.layout) = .ok (st.players, st.teams) :=
  ⟨buildResponseC_spec cfg st h, buildVarsC_spec cfg st h, parsePlayersAndTeamsC_spec cfg st h⟩

/-- The core, at the level of one packet: the sections of a packet that ends inside the value list of
its last section are read exactly like those of the packet with the list closed — the end of the
buffer closes the list —, whatever the tables were before. -/
theorem C04_gs3_cut_packet_as_closed (st : State) (ss : List Section) (hss : ∀ s ∈ ss, SectionOk st s) (t : Tables) :
    (readSections t).run (encSectionsCut st ss) = (readSections t).run (encSections st ss) :=
  readSections_cut_eq_closed st ss hss t

/-- `wfC` and the scripts extend `wfX` and the scripts that close every list: a `ConfigX` seen as a
`ConfigC` has the same domain and the same wire image, so `C04_gs3_query_extra` (and through
`C04_gs3_extra_conservative` `C04_gs3_query`) is the case "no packet ends inside a value list". -/
theorem C04_gs3_cut_conservative (cfg : ConfigX) (st : State) :
    wfC cfg.toC st = wfX cfg st ∧ scriptC cfg.toC st = scriptX cfg st ∧ cfg.toC.closed = cfg := by
  refine ⟨wfC_toC cfg st, ?_, rfl⟩
  simp only [scriptC, scriptX, dataPacketsC, dataPacketsX, payloadsC_toC]
  rfl

/-! non-vacuity: four players, two teams; the reply is ONE run of whole columns with cut points: `player_`
cut after its first value, `score_` in the middle, `ping_` before its last value, `team_` after every
value (three cuts: two packets consist of one open piece each), a `kills_` extra section cut twice, and
the team column `team_t` cut after its first value — 10 packets, all but the last ending inside a value list —;
it satisfies `wfC`, every cut is continued as real servers do (`Spec.continued`), and the query gives
back all players and teams. -/

def C04_gs3_cutState : State :=
  ⟨C04_gs3_exampleState.vars,
   [⟨[65], -5, 30, 1, 2, 7⟩, ⟨[66], 6, 31, 2, 3, 8⟩, ⟨[67], 0, 32, 1, 0, 9⟩, ⟨[68], 7, 33, 2, 1, 0⟩],
   [⟨[82], 9⟩, ⟨[83], -1⟩], none⟩

def C04_gs3_cutRun : List CutSection :=
  [⟨.slice ⟨[1], false, [112, 108, 97, 121, 101, 114], 0, 4⟩, [1]⟩,
   ⟨.slice ⟨[], false, [115, 99, 111, 114, 101], 0, 4⟩, [2]⟩,
   ⟨.slice ⟨[], false, [112, 105, 110, 103], 0, 4⟩, [3]⟩,
   ⟨.slice ⟨[], false, [116, 101, 97, 109], 0, 4⟩, [1, 2, 3]⟩,
   ⟨.extra ⟨[1], [107, 105, 108, 108, 115, 95], 0, [[51], [52], [53], [54]]⟩, [1, 3]⟩,
   ⟨.slice ⟨[], false, [100, 101, 97, 116, 104, 115], 0, 4⟩, []⟩,
   ⟨.slice ⟨[], false, [115, 107, 105, 108, 108], 0, 4⟩, []⟩,
   ⟨.slice ⟨[2], true, [116, 101, 97, 109], 0, 2⟩, [1]⟩,
   ⟨.slice ⟨[], true, [115, 99, 111, 114, 101], 0, 2⟩, []⟩]

def C04_gs3_cutConfig : ConfigC := cutLayout (-7) [C04_gs3_cutRun] [0, 1]

example : C04_gs3_cutConfig.layout.length = 10 ∧ (C04_gs3_cutConfig.cut.filter id).length = 9 := by decide

set_option maxRecDepth 20000 in
theorem C04_gs3_cut_example_wf : wfC C04_gs3_cutConfig C04_gs3_cutState = true ∧ continued C04_gs3_cutConfig = true := by
  constructor <;> decide +kernel

example : (query 29900 0 (Net.init [.opened ((scriptC C04_gs3_cutConfig C04_gs3_cutState).map .data)] [])).1
    = .ok (expected C04_gs3_cutState) :=
  C04_gs3_query_cut_in_order _ _ C04_gs3_cut_example_wf.1 29900 0

example : (expected C04_gs3_cutState).players.length = 4 ∧ (expected C04_gs3_cutState).teams = [⟨[82], 9⟩, ⟨[83], -1⟩] :=
  ⟨rfl, rfl⟩

/-! ### reading packet by packet is not padding

The end of the buffer closes a value list only when every packet is read from its own buffer, as
`query` does.  A reader that first joins the section bytes of all packets into one buffer reads the
field id and the offset byte of a continuation as further values of the list before it: for the example
reply it does not return the players and teams, while `parse_players_and_teams` over the packets does. -/

set_option maxRecDepth 20000 in
theorem C04_gs3_cut_joined_buffer_differs :
    parsePlayersAndTeams [(sectionBytesFrom C04_gs3_cutState C04_gs3_cutConfig.cut 0 C04_gs3_cutConfig.layout).flatten]
      ≠ .ok (C04_gs3_cutState.players, C04_gs3_cutState.teams)
    ∧ parsePlayersAndTeams (sectionBytesFrom C04_gs3_cutState C04_gs3_cutConfig.cut 0 C04_gs3_cutConfig.layout)
      = .ok (C04_gs3_cutState.players, C04_gs3_cutState.teams) := by
  refine ⟨by decide +kernel, ?_⟩
  exact parsePlayersAndTeamsC_spec _ _ C04_gs3_cut_example_wf.1
