import GdVerif.Lemmas.Gs3Whole
/-
  C04 (GameSpy 3) — replies are decoded completely.

  MODEL: `GdVerif/Proto/Gs3.lean` (tied to protocols/gamespy/protocols/three and gamespy/common.rs by
  `./check C04` on every run; the repaired tree: see known_findings.json, property C04/C08).
  SPEC:  `GdVerif/Spec/Gs3.lean` — a server state is ALL its variables in the order sent (so every
  order, every set of extra variables), its players, its teams, optionally a `pid` column; the wire
  layout `Config` says how each column is cut into field sections (any slices with any offsets, in any
  order, possibly repeated, as long as every value is sent — `covered`), which marker bytes precede
  them, how the sections are spread over 1..128 packets, and the challenge.  `Spec.wf` is the domain.
-/
open Gd Gd.Gs3 Gd.Gs3.Spec

/-- `query`: for every well-formed state and layout, and ANY arrival order of the data packets, the
query returns the server's name, map, mode, version, password flag and player limits, the player
count (the larger of reported and listed), every player and every team exactly as sent, and all
other variables — and only those — as unused entries: `Spec.expected`. -/
theorem C04_gs3_query (cfg : Config) (st : State) (h : wf cfg st = true) (port retries : Nat)
    (arrival : List Bytes) (harr : arrival.Perm (dataPackets cfg st)) :
    (query port retries (Net.init [.opened ((handshakeReply cfg.challenge :: arrival).map .data)] [])).1
      = .ok (expected st) := by
  rw [query_eq, (exchange_spec cfg st h port retries buildResponse arrival harr).1]
  exact buildResponse_spec cfg st h

/-- in particular for in-order arrival: `query ∘ SPEC script = expected` -/
theorem C04_gs3_query_in_order (cfg : Config) (st : State) (h : wf cfg st = true) (port retries : Nat) :
    (query port retries (Net.init [.opened ((script cfg st).map .data)] [])).1 = .ok (expected st) :=
  C04_gs3_query cfg st h port retries _ (List.Perm.refl _)

/-- `query_vars` returns exactly the key/value pairs sent. -/
theorem C04_gs3_query_vars (cfg : Config) (st : State) (h : wf cfg st = true) (port retries : Nat)
    (arrival : List Bytes) (harr : arrival.Perm (dataPackets cfg st)) :
    (queryVars port retries (Net.init [.opened ((handshakeReply cfg.challenge :: arrival).map .data)] [])).1
      = .ok st.vars := by
  rw [queryVars_eq, (exchange_spec cfg st h port retries buildVars arrival harr).1]
  exact buildVars_spec cfg st h

/-- The packet-level statement: everything `query` does with the packet payloads. -/
theorem C04_gs3_payloads (cfg : Config) (st : State) (h : wf cfg st = true) :
    buildResponse (payloads cfg st) = .ok (expected st) ∧ buildVars (payloads cfg st) = .ok st.vars :=
  ⟨buildResponse_spec cfg st h, buildVars_spec cfg st h⟩

/-- The unused entries are all variables minus the typed ones, as a set equality: a pair is an unused
entry iff it was sent and its key is none of the nine typed keys. -/
theorem C04_gs3_unused_exact (st : State) (p : Bytes × Bytes) :
    p ∈ (expected st).unusedEntries ↔ p ∈ st.vars ∧ p.1 ∉ typedKeys := by
  simp [expected, List.mem_filter]

/-- Players and teams alone: the field sections of all packets give back every player and every team,
in order, for any slicing that covers all values. -/
theorem C04_gs3_players_teams (cfg : Config) (st : State) (h : wf cfg st = true) :
    parsePlayersAndTeams (cfg.layout.map (encSlices st)) = .ok (st.players, st.teams) :=
  parsePlayersAndTeams_spec cfg st (wf_layout cfg st h)

/-! non-vacuity: a concrete state and layout — two players, one team, every column cut into two slices
spread over two packets, an extra variable `x=y`, challenge -7 — satisfies `wf`; and for it the
players are returned (the unrepaired tree returned `players = []` for every reply) -/

def C04_gs3_exampleState : State :=
  ⟨[([104, 111, 115, 116, 110, 97, 109, 101], [72]), ([109, 97, 112, 110, 97, 109, 101], [77]),
    ([103, 97, 109, 101, 116, 121, 112, 101], [71]), ([103, 97, 109, 101, 118, 101, 114], [49]),
    ([112, 97, 115, 115, 119, 111, 114, 100], [49]), ([109, 97, 120, 112, 108, 97, 121, 101, 114, 115], [56]),
    ([120], [121])],
   [⟨[65], -5, 30, 1, 2, 7⟩, ⟨[66], 6, 31, 2, 3, 8⟩], [⟨[82], 9⟩], none⟩

def C04_gs3_exampleSlice (t : Bool) (f : List UInt8) (o c : Nat) : Slice := ⟨[1], t, f, o, c⟩

def C04_gs3_playerFieldNames : List (List UInt8) :=
  [[112, 108, 97, 121, 101, 114], [115, 99, 111, 114, 101], [112, 105, 110, 103], [116, 101, 97, 109],
   [100, 101, 97, 116, 104, 115], [115, 107, 105, 108, 108]]

def C04_gs3_exampleConfig : Config :=
  ⟨-7, [C04_gs3_playerFieldNames.map (fun f => C04_gs3_exampleSlice false f 0 1),
        C04_gs3_playerFieldNames.map (fun f => C04_gs3_exampleSlice false f 1 1)
          ++ [C04_gs3_exampleSlice true [116, 101, 97, 109] 0 1, C04_gs3_exampleSlice true [115, 99, 111, 114, 101] 0 1]],
   [0, 1]⟩

set_option maxRecDepth 8000 in
theorem C04_gs3_example_wf : wf C04_gs3_exampleConfig C04_gs3_exampleState = true := by decide

example : (query 29900 0 (Net.init [.opened ((script C04_gs3_exampleConfig C04_gs3_exampleState).map .data)] [])).1
    = .ok (expected C04_gs3_exampleState) :=
  C04_gs3_query_in_order _ _ C04_gs3_example_wf 29900 0

example : (expected C04_gs3_exampleState).players = [⟨[65], -5, 30, 1, 2, 7⟩, ⟨[66], 6, 31, 2, 3, 8⟩]
    ∧ (expected C04_gs3_exampleState).teams = [⟨[82], 9⟩] := ⟨rfl, rfl⟩
