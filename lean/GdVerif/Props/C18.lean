import GdVerif.Proto.Settings
import GdVerif.Lemmas.Text
import GdVerif.Props.C10
/-
  C18 — Settings are validated; no accepted configuration can panic.
-/
open Gd Gd.Settings

/-- The constructor rejects a zero read, write or connect duration with `InvalidInput`, whatever
the other values. -/
theorem C18_new_rejects_zero (read write connect : Option Duration) (retries : Nat)
    (h : zeroOpt read = true ∨ zeroOpt write = true ∨ zeroOpt connect = true) :
    new read write connect retries = .err .invalidInput := by
  unfold new
  rcases h with h | h | h
  · simp [h]
  · cases hr : zeroOpt read <;> simp [h]
  · cases hr : zeroOpt read <;> cases hw : zeroOpt write <;> simp [h]

/-- …and accepts everything else unchanged (any non-zero durations incl. 1 ns and u64::MAX s, `None`,
any retry count). -/
theorem C18_new_accepts_nonzero (read write connect : Option Duration) (retries : Nat)
    (hr : zeroOpt read = false) (hw : zeroOpt write = false) (hc : zeroOpt connect = false) :
    new read write connect retries = .ok ⟨connect, read, write, retries⟩ := by
  simp [new, hr, hw, hc]

/-- Command-line flags: a flag value that parses to zero is rejected. -/
theorem C18_clap_rejects_zero (s : Bytes) (h : parseUnsigned 64 s = some 0) :
    parseDurationSecs s = .err .invalidInput := by
  simp [parseDurationSecs, h]

/-- Command-line flags: `"0"`, `"00"`, `"+0"` are all zero. -/
theorem C18_clap_zero_spellings :
    parseDurationSecs (asciiBytes "0") = .err .invalidInput
    ∧ parseDurationSecs (asciiBytes "00") = .err .invalidInput
    ∧ parseDurationSecs (asciiBytes "+0") = .err .invalidInput := by decide

/-- Command-line flags: whatever is accepted has three non-zero durations. -/
theorem C18_clap_accepted_nonzero (connect read write retries : Option Bytes) (t : Timeout)
    (h : fromClap connect read write retries = .ok t) :
    zeroOpt t.read = false ∧ zeroOpt t.write = false ∧ zeroOpt t.connect = false := by
  have key : ∀ s d, parseDurationSecs s = .ok d → d.isZero = false := by
    intro s d hd
    unfold parseDurationSecs at hd
    split at hd
    · cases hd
    · split at hd
      · cases hd
      · rename_i hne
        cases hd
        simp only [Duration.isZero, Bool.and_eq_false_iff]
        exact Or.inl (by simpa using hne)
  unfold fromClap at h
  cases hc : parseDurationSecs (connect.getD (asciiBytes "4")) with
  | err k => simp [hc, bind, Res.bind] at h
  | crash => simp [hc, bind, Res.bind] at h
  | ok c =>
    cases hr : parseDurationSecs (read.getD (asciiBytes "4")) with
    | err k => simp [hc, hr, bind, Res.bind] at h
    | crash => simp [hc, hr, bind, Res.bind] at h
    | ok r =>
      cases hw : parseDurationSecs (write.getD (asciiBytes "4")) with
      | err k => simp [hc, hr, hw, bind, Res.bind] at h
      | crash => simp [hc, hr, hw, bind, Res.bind] at h
      | ok w =>
        cases hn : okOr (parseUnsigned 64 (retries.getD (asciiBytes "0"))) ErrKind.invalidInput with
        | err k => simp [hc, hr, hw, hn, bind, Res.bind] at h
        | crash => simp [hc, hr, hw, hn, bind, Res.bind] at h
        | ok n =>
          simp only [hc, hr, hw, hn, bind, Res.bind, pure] at h
          cases h
          exact ⟨by simpa [zeroOpt] using key _ _ hr, by simpa [zeroOpt] using key _ _ hw, by simpa [zeroOpt] using key _ _ hc⟩

/-- Deserialisation goes through the constructor: same rejection, same acceptance. -/
theorem C18_serde_is_new (connect read write : Option Duration) (retries : Nat) :
    fromSerde connect read write retries = new read write connect retries := rfl

/-- Every accepted configuration — from the constructor, the flags, deserialisation, `Default`, or no
settings at all — passes `apply_timeout` without the `unwrap` panicking, and `connect_timeout` at worst
returns an error value. -/
theorem C18_accepted_cannot_panic (t : Timeout)
    (h : (∃ r w c n, new r w c n = .ok t) ∨ (∃ c r w n, fromClap c r w n = .ok t)
      ∨ (∃ c r w n, fromSerde c r w n = .ok t) ∨ t = default) :
    applyTimeout (some t) = .ok () ∧ connectStep (some t) ≠ .crash ∧ applyTimeout none = .ok () := by
  have hz : zeroOpt t.read = false ∧ zeroOpt t.write = false := by
    rcases h with ⟨r, w, c, n, h⟩ | ⟨c, r, w, n, h⟩ | ⟨c, r, w, n, h⟩ | rfl
    · unfold new at h
      split at h; · cases h
      split at h; · cases h
      split at h; · cases h
      cases h
      simp_all
    · have := C18_clap_accepted_nonzero c r w n t h
      exact ⟨this.1, this.2.1⟩
    · unfold fromSerde new at h
      split at h; · cases h
      split at h; · cases h
      split at h; · cases h
      cases h
      simp_all
    · decide
  refine ⟨by simp [applyTimeout, hz.1, hz.2], ?_, by decide⟩
  unfold connectStep
  simp only [Option.getD_some]
  split <;> simp

/-- Any retry count whatever (in particular `usize::MAX`) can be used: the retry combinator has no
crash of its own (see C10), and the Valve query is crash-free for every retry count (C01). -/
theorem C18_any_retry_count (r : Nat) (f : Q α) (w : Net) (hf : ∀ w, (f w).1 ≠ .crash) :
    (retryOnTimeout r f w).1 ≠ .crash :=
  C10_no_crash_of_its_own r f w hf

example : new (some ⟨0, 1⟩) none (some ⟨18446744073709551615, 0⟩) 18446744073709551615
    = .ok ⟨some ⟨18446744073709551615, 0⟩, some ⟨0, 1⟩, none, 18446744073709551615⟩ := by decide
example : new (some ⟨0, 0⟩) none none 0 = .err .invalidInput := by decide

/-- What the sockets and the retry loops are handed: the helpers return the read, the write and the connect
duration and the retry count of the settings, each under its own name, and the defaults (4 s each, no retry)
when there are no settings. -/
theorem C18_effective_timeouts (t : Timeout) :
    readAndWriteOrDefaults (some t) = (t.read, t.write) ∧ connectOrDefault (some t) = t.connect
    ∧ retriesOrDefault (some t) = t.retries
    ∧ readAndWriteOrDefaults none = (some ⟨4, 0⟩, some ⟨4, 0⟩) ∧ connectOrDefault none = some ⟨4, 0⟩
    ∧ retriesOrDefault none = 0 :=
  ⟨rfl, rfl, rfl, rfl, rfl, rfl⟩
