import GdVerif.Gen.Consts
import GdVerif.Spec.Valve
import GdVerif.Spec.Gs1
import GdVerif.Spec.Gs2
import GdVerif.Spec.Gs3
import GdVerif.Spec.Quake
import GdVerif.Spec.Unreal2
import GdVerif.Spec.Minecraft
import GdVerif.Spec.Ffow
import GdVerif.Spec.Jc2m
import GdVerif.Spec.Savage2
import GdVerif.Spec.Mindustry
import GdVerif.Spec.TheShip
import GdVerif.Spec.Battalion
import GdVerif.Spec.Eco
import GdVerif.Proto.Master
import GdVerif.Proto.Dispatch
import GdVerif.Props.C09
/-
  C09 — the request constants of the SOURCE, of the MODEL and of the SPEC are the same (tie by TRANSLATION).

  `Gd.Gen.Consts.*` is regenerated from crates/lib/src on every run (tools/xlate.py `gen_consts`): request byte
  literals, request / packet kinds, the receive-buffer sizes the requests are answered into, default ports.  Every
  theorem below is closed (no variables beyond the ones it quantifies over) and is proved by evaluation: a changed
  constant in the source changes the generated side and the theorem stops checking, whether or not a generated case
  of the differential happens to exercise it.  Where the SPEC states the literal independently the triangle
  source = model = spec is closed.
-/
open Gd Gd.Gen

/-! ### Valve -/

/-- `enum Request { Info = 0x54, Players = 0x55, Rules = 0x56 }` = `Valve.Request.kind` -/
theorem C09_consts_valve_request_kinds :
    [("Info", Valve.Request.info.kind), ("Players", Valve.Request.players.kind), ("Rules", Valve.Request.rules.kind)]
      = Consts.valve_request_kinds := by rfl

/-- `Request::get_default_payload`: `"Source Engine Query\0"` for Info = `Valve.infoPayload` -/
theorem C09_consts_valve_request_info :
    Valve.infoPayload = Consts.valve_info_payload ∧ Valve.Request.info.defaultPayload = Consts.valve_info_payload := by
  decide

/-- … and `FF FF FF FF` (no challenge yet) for the other two = `Valve.Request.defaultPayload`, = SPEC `noChallenge` -/
theorem C09_consts_valve_request_default_payload :
    Valve.Request.players.defaultPayload = Consts.valve_default_payload
    ∧ Valve.Request.rules.defaultPayload = Consts.valve_default_payload
    ∧ Valve.Spec.noChallenge = Consts.valve_default_payload := by
  decide

/-- `Packet::new` / `to_bytes`: header `u32::MAX` big-endian, kind, payload = `Valve.packetBytes`; = SPEC `header` -/
theorem C09_consts_valve_packet_header (kind : Nat) (payload : Bytes) :
    Valve.packetBytes kind payload = Consts.valve_packet_header ++ [UInt8.ofNat kind] ++ payload
    ∧ Valve.Spec.header = Consts.valve_packet_header := ⟨rfl, by decide⟩

/-- the SPEC's three A2S requests are the source's header, kinds and payloads -/
theorem C09_consts_valve_spec_requests :
    [Valve.Spec.a2sInfoRequest, Valve.Spec.a2sPlayerRequest Valve.Spec.noChallenge, Valve.Spec.a2sRulesRequest Valve.Spec.noChallenge]
      = List.zipWith (fun k p => Consts.valve_packet_header ++ [UInt8.ofNat k.2] ++ p) Consts.valve_request_kinds
          [Consts.valve_info_payload, Consts.valve_default_payload, Consts.valve_default_payload] := by
  decide

/-- `static PACKET_SIZE: usize = 6144` = `Valve.PACKET_SIZE` (the size of every receive, `C09_valve_conforms`) -/
theorem C09_consts_valve_packet_size : Valve.PACKET_SIZE = Consts.valve_packet_size := by decide

/-- `while packet.kind == 0x41`: a reply of any other kind ends the exchange, a reply of that kind is answered by
the request carrying its payload (the model's loop, for every reply) -/
theorem C09_consts_valve_challenge_kind (ext : Valve.Ext) (s : Sock) (engine : Valve.Engine) (protocol kind fuel : Nat)
    (p : Valve.Packet) (w : Net) :
    (p.kind ≠ Consts.valve_challenge_kind →
      Valve.challengeLoop ext s engine protocol kind (fuel + 1) p w = (.ok p.payload, w))
    ∧ (p.kind = Consts.valve_challenge_kind →
      Valve.challengeLoop ext s engine protocol kind (fuel + 1) p w
        = (do
            Gd.send s (Valve.packetBytes kind (if kind == 0x54 then Valve.infoPayload ++ p.payload else p.payload))
            let reply ← Valve.receive ext s engine protocol
            Valve.challengeLoop ext s engine protocol kind fuel reply) w) := by
  constructor
  · intro h
    exact C09_valve_no_more_after_answer ext s engine protocol kind fuel p h w
  · intro h
    have h' : (p.kind == 0x41) = true := by simpa [Consts.valve_challenge_kind] using h
    simp only [Valve.challengeLoop, h', ↓reduceIte]

/-- SPEC: a challenge reply is a reply of that kind -/
theorem C09_consts_valve_spec_challenge (c : Bytes) :
    Valve.Spec.challengeReply c = Valve.Spec.reply Consts.valve_challenge_kind c := rfl

/-! ### GameSpy 1 / 2 / 3 -/

/-- `socket.send(b"\\status\\xserverquery")` = `Gs1.statusRequest` = the SPEC's request -/
theorem C09_consts_gs1_request :
    Gs1.statusRequest = Consts.gs1_status_request ∧ Gs1.Spec.requests = [Consts.gs1_status_request] := by decide

theorem C09_consts_gs1_packet_size : Gs1.PACKET_SIZE = Consts.gs1_packet_size := by decide

/-- `[0xFE, 0xFD, 0x00, 0x00, 0x00, 0x00, 0x01, 0xFF, 0xFF, 0xFF]` = `Gs2.request` = the SPEC's request -/
theorem C09_consts_gs2_request :
    Gs2.request = Consts.gs2_request ∧ Gs2.Spec.requests = [Consts.gs2_request] := by decide

theorem C09_consts_gs2_packet_size : Gs2.PACKET_SIZE = Consts.gs2_packet_size := by decide

/-- `THIS_SESSION_ID`, `PACKET_SIZE`, `DEFAULT_PAYLOAD` -/
theorem C09_consts_gs3_constants :
    Gs3.SESSION_ID = Consts.gs3_session_id ∧ Gs3.PACKET_SIZE = Consts.gs3_packet_size
    ∧ Gs3.DEFAULT_PAYLOAD = Consts.gs3_default_payload
    ∧ Gs3.Spec.sessionId = natBE 4 Consts.gs3_session_id := by decide

/-- `RequestPacket { header: 65277, kind, session_id: THIS_SESSION_ID, challenge, payload }.to_bytes()` =
`Gs3.requestBytes`, for every kind, challenge and payload -/
theorem C09_consts_gs3_request_packet (kind : Nat) (challenge : Option Int) (payload : Option Bytes) :
    Gs3.requestBytes kind challenge payload
      = natBE 2 Consts.gs3_request_header ++ [UInt8.ofNat kind] ++ natBE 4 Consts.gs3_session_id
        ++ (match challenge with | some c => natBE 4 (ofSigned 32 c) | none => [])
        ++ (match payload with | some p => p | none => []) := rfl

/-- the handshake is sent with kind 9 and answered into a 16-byte buffer as kind 9; the data request has kind 0 and
is answered as kind 0 (what `makeInitialHandshake` / `sendDataRequest` / the receive loop of the model do) -/
theorem C09_consts_gs3_kinds (s : Sock) (payload : Bytes) (challenge : Option Int) :
    Gs3.makeInitialHandshake s = (do
        Gd.send s (Gs3.requestBytes Consts.gs3_handshake_kind none none)
        let data ← Gs3.receive s (some (Consts.gs3_handshake_receive.getD 0 0)) (Consts.gs3_handshake_receive.getD 1 0)
        parse Gs3.parseChallenge data)
    ∧ Gs3.sendDataRequest s payload challenge = Gd.send s (Gs3.requestBytes Consts.gs3_data_kind challenge (some payload))
    ∧ Consts.gs3_handshake_receive.length = 2 := ⟨rfl, rfl, rfl⟩

/-- SPEC: handshake and data request from the source's header, kinds, session id and payload (∀ challenges) -/
theorem C09_consts_gs3_spec_requests (c : Int) :
    Gs3.Spec.handshakeRequest
      = natBE 2 Consts.gs3_request_header ++ [UInt8.ofNat Consts.gs3_handshake_kind] ++ natBE 4 Consts.gs3_session_id
    ∧ Gs3.Spec.dataRequest c
      = natBE 2 Consts.gs3_request_header ++ [UInt8.ofNat Consts.gs3_data_kind] ++ natBE 4 Consts.gs3_session_id
        ++ (if c = 0 then [] else natBE 4 (ofSigned 32 c)) ++ Consts.gs3_default_payload := by
  constructor
  · decide
  · have h : natBE 2 Consts.gs3_request_header ++ [UInt8.ofNat Consts.gs3_data_kind] ++ natBE 4 Consts.gs3_session_id
        = [0xFE, 0xFD, 0x00] ++ Gs3.Spec.sessionId := by decide
    rw [h]
    rfl

/-! ### Quake -/

/-- `get_send_header` of the three clients = `Quake.Version.sendHeader` -/
theorem C09_consts_quake_send_headers :
    [("One", Quake.Version.one.sendHeader), ("Two", Quake.Version.two.sendHeader), ("Three", Quake.Version.three.sendHeader)]
      = Consts.quake_send_headers := by decide

/-- `[&[0xFF, 0xFF, 0xFF, 0xFF], send header, &[0x00]].concat()` = `Quake.request` = the SPEC's request -/
theorem C09_consts_quake_request (v : Quake.Version) :
    Quake.request v = (Consts.quake_request_frame.getD 0 []) ++ v.sendHeader ++ (Consts.quake_request_frame.getD 1 [])
    ∧ Quake.Spec.request v = (Consts.quake_request_frame.getD 0 []) ++ v.sendHeader ++ (Consts.quake_request_frame.getD 1 [])
    ∧ Consts.quake_request_frame.length = 2 := by
  cases v <;> decide

theorem C09_consts_quake_packet_size : Quake.PACKET_SIZE = Consts.quake_packet_size := by decide

/-! ### Unreal 2 -/

/-- `enum PacketKind { ServerInfo = 0, MutatorsAndRules = 1, Players = 2 }` = `Unreal2.PacketKind.code` -/
theorem C09_consts_unreal2_packet_kinds :
    [("ServerInfo", Unreal2.PacketKind.serverInfo.code), ("MutatorsAndRules", Unreal2.PacketKind.mutatorsAndRules.code),
     ("Players", Unreal2.PacketKind.players.code)] = Consts.unreal2_packet_kinds := by rfl

/-- `[0x79, 0, 0, 0, packet_type as u8]` = `Unreal2.requestBytes` = the SPEC's request -/
theorem C09_consts_unreal2_request (k : Unreal2.PacketKind) :
    Unreal2.requestBytes k = Consts.unreal2_request_prefix ++ [UInt8.ofNat k.code]
    ∧ Unreal2.Spec.request k.code = Consts.unreal2_request_prefix ++ [UInt8.ofNat k.code] := by
  cases k <;> decide

theorem C09_consts_unreal2_packet_size : Unreal2.PACKET_SIZE = Consts.unreal2_packet_size := by decide

/-! ### Minecraft -/

/-- Bedrock: the unconnected ping = `Mc.bedrockRequest` = the SPEC's -/
theorem C09_consts_mc_bedrock_request :
    Mc.bedrockRequest = Consts.mc_bedrock_request ∧ Mc.Spec.bedrockRequests = [Consts.mc_bedrock_request] := by decide

/-- legacy 1.6 / 1.4 / beta 1.8: `send_initial_request` = `Mc.legacyRequest` = the SPEC's -/
theorem C09_consts_mc_legacy_requests :
    [("v1_6", Mc.legacyRequest .v1_6), ("v1_4", Mc.legacyRequest .v1_4), ("vb1_8", Mc.legacyRequest .vb1_8)]
      = Consts.mc_legacy_requests
    ∧ [("v1_6", Mc.Spec.legacyRequests .v1_6), ("v1_4", Mc.Spec.legacyRequests .v1_4), ("vb1_8", Mc.Spec.legacyRequests .vb1_8)]
      = Consts.mc_legacy_requests.map (fun p => (p.1, [p.2])) := by decide

/-- Java: packet id and next state of the handshake, the status request, the (payload-less) ping =
`Mc.javaHandshakePayload` / `javaSendStatusRequest` / `javaSendPingRequest` -/
theorem C09_consts_mc_java_packet_ids (s : Sock) :
    Consts.mc_java_packet_ids = [("handshake_id", [0x00]), ("next_state", [0x01]), ("status", [0x00]), ("ping", [0x01])]
    ∧ Mc.javaSendStatusRequest s = Mc.javaSend s [0x00] ∧ Mc.javaSendPingRequest s = Mc.javaSend s [0x01] :=
  ⟨by rfl, rfl, rfl⟩

/-- `impl Default for RequestSettings`: host name `gamedig`, protocol version -1 = `Mc.RequestSettings.default` -/
theorem C09_consts_mc_request_settings_default :
    [("hostname", Mc.RequestSettings.default.hostname), ("protocol_version", intDec Mc.RequestSettings.default.protocolVersion)]
      = Consts.mc_request_settings_default.map (fun p => (p.1, asciiBytes p.2)) := by decide

/-- `port_or_java_default` / `port_or_bedrock_default` = the dispatch model's defaults -/
theorem C09_consts_mc_default_ports :
    [("java", Dispatch.mcJavaDefaultPort), ("bedrock", Dispatch.mcBedrockDefaultPort)] = Consts.mc_default_ports := by rfl

/-! ### single games -/

/-- FFOW: `get_request_data(&Engine::GoldSrc(true), 0, 0x46, "LSQ")` = `Ffow.KIND` / `Ffow.lsq`; SPEC `lsqRequest` -/
theorem C09_consts_ffow_request :
    [("goldsrc_force", [1]), ("protocol", [0]), ("kind", [UInt8.ofNat Ffow.KIND]), ("payload", Ffow.lsq)] = Consts.ffow_request
    ∧ Ffow.Spec.lsqRequest = Consts.valve_packet_header ++ [UInt8.ofNat Ffow.KIND] ++ Ffow.lsq := by decide

/-- JC2M: the payload given to `GameSpy3::new_custom` = `Jc2m.PAYLOAD`; SPEC: its data request ends with it -/
theorem C09_consts_jc2m_payload (c : Int) :
    Jc2m.PAYLOAD = Consts.jc2m_payload
    ∧ Jc2m.Spec.dataRequest c = [0xFE, 0xFD, 0x00] ++ Gs3.Spec.sessionId ++ (if c = 0 then [] else natBE 4 (ofSigned 32 c))
        ++ Consts.jc2m_payload := ⟨by decide, rfl⟩

/-- Savage 2: `socket.send(&[0x01])` -/
theorem C09_consts_savage2_request :
    Savage2.request = Consts.savage2_request ∧ Savage2.Spec.infoRequest = Consts.savage2_request := by decide

/-- Mindustry: `[-2i8 as u8, 1i8 as u8]`, `MAX_BUFFER_SIZE` -/
theorem C09_consts_mindustry_request :
    Mindustry.ping = Consts.mindustry_ping ∧ Mindustry.Spec.pingRequest = Consts.mindustry_ping
    ∧ Mindustry.MAX_BUFFER_SIZE = Consts.mindustry_max_buffer_size := by decide

/-- the `port.unwrap_or(n)` of every hand-written game module = the model's `DEFAULT_PORT`s = the SPEC's -/
theorem C09_consts_game_default_ports :
    [("ffow", Ffow.DEFAULT_PORT), ("jc2m", Jc2m.DEFAULT_PORT), ("savage2", Savage2.DEFAULT_PORT),
     ("theship", TheShip.DEFAULT_PORT), ("battalion1944", Battalion.DEFAULT_PORT), ("eco", Eco.DEFAULT_PORT),
     ("mindustry", Mindustry.DEFAULT_PORT)] = Consts.game_default_ports
    ∧ [("ffow", Ffow.Spec.defaultPort), ("jc2m", Jc2m.DEFAULT_PORT), ("savage2", Savage2.Spec.defaultPort),
     ("theship", TheShip.Spec.defaultPort), ("battalion1944", Battalion.Spec.defaultPort), ("eco", Eco.Spec.defaultPort),
     ("mindustry", Mindustry.Spec.defaultPort)] = Consts.game_default_ports := ⟨by rfl, by rfl⟩

/-- `Engine::new(2400)` (The Ship), `Engine::new(489_940)` (Battalion 1944) -/
theorem C09_consts_game_engines :
    [("theship", TheShip.ENGINE), ("battalion1944", Battalion.ENGINE)]
      = Consts.game_engines.map (fun p => (p.1, Valve.Engine.new p.2)) := by rfl

/-- Eco: the path of the document -/
theorem C09_consts_eco_path : Eco.PATH = Consts.eco_path := by rfl

/-! ### the master server -/

/-- `default_master_address()`: port 27011 = `Master.masterPort` -/
theorem C09_consts_master_port : Consts.master_default_address[4]? = some Master.masterPort := by rfl

/-- `construct_payload`: `'1'`, region, seed ip, `':'`, seed port, NUL, filters = `Master.constructPayload`; no filters =
one NUL -/
theorem C09_consts_master_payload (region : Nat) (filters seedIp : Bytes) (seedPort : Nat) :
    Master.constructPayload region filters seedIp seedPort
      = Consts.master_payload_frame.getD 0 [] ++ [UInt8.ofNat region] ++ seedIp ++ Consts.master_payload_frame.getD 1 []
        ++ natDec seedPort ++ Consts.master_payload_frame.getD 2 [] ++ filters
    ∧ Master.filterBytesOf none = Consts.master_payload_frame.getD 3 []
    ∧ Consts.master_payload_frame.length = 4 := ⟨rfl, rfl, rfl⟩

/-- the seed of the first page and the end marker: `"0.0.0.0"` everywhere = `Master.zeroIp` -/
theorem C09_consts_master_zero_address :
    Consts.master_zero_address.map asciiBytes = List.replicate 4 Master.zeroIp := by decide

/-- `self.socket.receive(Some(1400))`: the buffer of `Master.querySpecific` -/
theorem C09_consts_master_receive_size (s : Sock) (region : Nat) (fb ip : Bytes) (port : Nat) :
    Master.querySpecific s region fb ip port = (do
      Gd.send s (Master.constructPayload region fb ip port)
      let data ← Gd.recv s (some Consts.master_receive_size)
      parse Master.parsePage data) := rfl

/-! ### the transport -/

/-- `const DEFAULT_PACKET_SIZE: usize = 1024`: what `receive(None)` (Savage 2, Bedrock) reads of a datagram -/
theorem C09_consts_socket_default_packet_size (s : Sock) (hudp : s.tcp = false) (d : Bytes) (rest : List Delivery) (w : Net)
    (h : w.conns.getD s.id [] = .data d :: rest) :
    (Gd.recv s none w).1 = .ok (d.take Consts.socket_default_packet_size) := by
  simp only [Gd.recv, h, hudp]
  rfl

example : Consts.valve_challenge_kind = 0x41 := rfl
example : (Gd.recv ⟨0, 1, false⟩ none ⟨[], [[.data [1, 2, 3]]], [], []⟩).1 = .ok [1, 2, 3] := by decide
