import GdVerif.Spec.Gs1
/-
  C04 — GameSpy 1 replies are decoded completely (work in progress: theorems below).
-/
open Gd Gd.Gs Gd.Gs1 Gd.Gs1.Spec

def exState : Spec.State :=
  { name := bs "Srv", map := bs "dm1", mapTitle := none, adminContact := none,
    adminName := some (bs "me"), hasPassword := true, gameMode := bs "DM", gameVersion := bs "451",
    playersMaximum := 16, playersMinimum := none,
    players := [⟨bs "Bob", some 1, 45, none, some (bs "s"), none, -3, none, some 100, some false⟩],
    tournament := none, extras := [(bs "gamename", bs "ut")] }

def exStyle : Style := ⟨5, [4], true, 1, true, false, true, 1⟩

-- a two-part reply with one player, arriving last part first, decodes to the state
example : wf exStyle exState = true ∧
    (query 7777 0 (Net.init [.opened ((script exStyle exState).reverse.map .data)] [])).1 = .ok (expected exState) := by
  decide +kernel
