import GdVerif.Lemmas.Gs1Response
/-
  C04 — GameSpy 1 replies are decoded completely.

  MODEL: `GdVerif/Proto/Gs1.lean` (protocols/gamespy/protocols/one, repaired tree; tied to the code by
  `./check C04` on every run).
  SPEC:  `GdVerif/Spec/Gs1.lean` — abstract server state ↦ the datagrams a GameSpy 1 server sends
  (`\key\value…\queryid\N.M`, `\final\` in the last part), written from node-gamedig's gamespy1.js.

  The domain (`Spec.wf`): texts are UTF-8 without backslash and NUL, numbers in the range of the
  response's fields, extra variables with distinct keys that are neither typed keys nor player
  fields, ANY number of players (0–64 and beyond: < 65536) each with ANY subset of the optional
  fields, ANY cut of the variables into parts (1–7 and beyond: < 65536 parts, empty parts included)
  as long as a datagram fits the 2048-byte receive buffer, every writing style the protocol leaves
  open (`player`/`playername`, `AdminName`/`admin`, `0`/`1`/`true`/`False`…, padded numbers, `final`
  before or after `queryid`, any query id below 2^64).
-/
open Gd Gd.Gs Gd.Gs1 Gd.Gs1.Spec

/-- `one::query` returns the server's name, map, map title, admin contact and name, password flag,
mode, version, player limits, EVERY player with every field exactly as sent, the tournament flag,
and exactly the other variables as unused entries — for every well-formed state, writing style and
cut into parts, whatever the retry setting. -/
theorem C04_gs1_query (y : Style) (st : State) (h : wf y st = true) (port retries : Nat) :
    (query port retries (Net.init [.opened ((script y st).map .data)] [])).1 = .ok (expected st) :=
  query_perm_expected (wf_iff y st h) port retries (script y st) (List.Perm.refl _)

/-- `one::query_vars` returns exactly the key/value pairs sent. -/
theorem C04_gs1_query_vars (y : Style) (st : State) (h : wf y st = true) (port retries : Nat) :
    (queryVars port retries (Net.init [.opened ((script y st).map .data)] [])).1 = .ok (expectedVars y st) :=
  queryVars_any_order (wf_iff y st h) port retries (script y st) (List.Perm.refl _)

/-- "All other variables, and only those": a pair is an unused entry of the response exactly when
it was sent, its key is not one of the typed keys and it is not a player field. -/
theorem C04_gs1_unused_exact (y : Style) (st : State) (h : wf y st = true) (p : Bytes × Bytes) :
    p ∈ (expected st).unusedEntries ↔ (p ∈ allPairs y st ∧ p.1 ∉ typedKeys ∧ playerField p.1 = none) := by
  have hw := wf_iff y st h
  have hperm : p ∈ canon st.extras ↔ p ∈ st.extras := (canon_perm_self st.extras).mem_iff
  show p ∈ canon st.extras ↔ _
  rw [hperm]
  constructor
  · intro he
    exact ⟨by simp [allPairs, he], (hw.extrasKeys p he).1, (hw.extrasKeys p he).2⟩
  · rintro ⟨hall, hnt, hpf⟩
    rcases mem_allPairs hall with hs | he | hpl
    · exact absurd ((serverKeyList_facts y.adminShort).2 _ (serverPairs_key_mem y st hs)).2.1 hnt
    · exact he
    · rcases playerField_allPairs hw hall with ⟨_, h1 | h1⟩ | ⟨k, _, n, _, _, e2, _⟩
      · exact absurd ((serverKeyList_facts y.adminShort).2 _ (serverPairs_key_mem y st h1)).2.1 hnt
      · exact h1
      · rw [e2] at hpf; cases hpf

/-- Numbers travel as decimal text and come back as the numbers (the piece of the decoding that is
not structural): every `u8`/`u16`/`u32`/`i32` value, with any padding. -/
theorem C04_gs1_numbers (y : Style) :
    (∀ n, n < 2 ^ 8 → trimParseU 8 (padding y ++ dec n) = .ok n)
    ∧ (∀ n, n < 2 ^ 16 → trimParseU 16 (padding y ++ dec n) = .ok n)
    ∧ (∀ n, n < 2 ^ 32 → trimParseU 32 (padding y ++ dec n) = .ok n)
    ∧ (∀ i : Int, -(2 ^ 31 : Int) ≤ i → i < 2 ^ 31 → trimParseI 32 (padding y ++ decInt i) = .ok i) :=
  ⟨fun n h => trimParseU_padded y 8 n h, fun n h => trimParseU_padded y 16 n h, fun n h => trimParseU_padded y 32 n h,
   fun i h1 h2 => trimParseI_padded y i h1 h2⟩

def C04_gs1_exState : Spec.State :=
  { name := bs "Srv", map := bs "dm1", mapTitle := none, adminContact := none,
    adminName := some (bs "me"), hasPassword := true, gameMode := bs "DM", gameVersion := bs "451",
    playersMaximum := 16, playersMinimum := none,
    players := [⟨bs "Bob", some 1, 45, none, some (bs "s"), none, -3, none, some 100, some false⟩],
    tournament := none, extras := [(bs "gamename", bs "ut")] }

def C04_gs1_exStyle : Style := ⟨5, [4], true, 1, true, false, true, 1⟩

-- non-vacuity: a concrete state (one player with optional fields, an extra variable, two parts)
-- satisfies `wf`, and the theorem's conclusion is checked on it by evaluation
example : wf C04_gs1_exStyle C04_gs1_exState = true ∧ (script C04_gs1_exStyle C04_gs1_exState).length = 2 ∧
    (query 7777 0 (Net.init [.opened ((script C04_gs1_exStyle C04_gs1_exState).map .data)] [])).1 = .ok (expected C04_gs1_exState) := by
  decide +kernel
