import GdVerif.Lemmas.GsSafe
import GdVerif.Spec.Gs2
/-
  C09 — Requests are the protocol's and go to the right port: GameSpy 2.
  One request: `FE FD 00`, the 4-byte id `00 00 00 01`, and `FF FF FF` (server variables, player
  table and team table); no challenge.
-/
open Gd Gd.Gs Gd.Gs2

/-- The request the client sends is byte for byte the specification's. -/
theorem C09_gs2_request_bytes : [request] = Spec.requests := by decide

/-- Whatever the server does, everything `query` does with the transport is: open ONE UDP socket
to the given port, send the request to that port from that socket, receive into the 2048-byte
buffer.  Nothing else is ever sent. -/
theorem C09_gs2_conforms (port retries : Nat) (script : List ConnScript) (faults : List Bool) :
    ∀ e ∈ (query port retries (Net.init script faults)).2.log,
      match e with
      | .opened c tcp p _ => c = 0 ∧ tcp = false ∧ p = port
      | .send c p data _ => c = 0 ∧ p = port ∧ data = [0xFE, 0xFD, 0x00, 0x00, 0x00, 0x00, 0x01, 0xFF, 0xFF, 0xFF]
      | .recv c size _ => c = 0 ∧ size = some 2048 := by
  obtain ⟨_, added, hlog, hall⟩ := query_safe port retries (Net.init script faults)
  intro e he
  rw [hlog] at he
  simp only [Net.init, List.nil_append] at he
  have := hall e he
  simp only [Net.init, List.length_nil] at this
  cases e with
  | opened c tcp p r => exact this
  | send c p d f => exact this
  | recv c s gt => exact this

/-- The session id of the reply must be the one sent: a reply whose header is not `00 00 00 00 01`
is rejected. -/
theorem C09_gs2_session_id_checked (h id : Nat) (hh : h < 256) (hid : id < 2 ^ 32) (rest : Bytes)
    (hne : h ≠ 0 ∨ id ≠ 1) :
    checkHeader.run (natBE 1 h ++ natBE 4 id ++ rest) = .err .packetBad := by
  have d1 := decodes_readUnsigned .big 1 h (by simpa using hh)
  have d4 := decodes_readUnsigned .big 4 id (by simpa using hid)
  obtain ⟨b1, h1, hr1, _⟩ := d1 (Buf.new (natBE 1 h ++ natBE 4 id ++ rest)) (natBE 4 id ++ rest) (by simp [Endian.encode])
  unfold Par.run checkHeader
  rw [Par.bind_ok h1]
  by_cases hz : h = 0
  · have hid1 : id ≠ 1 := by rcases hne with h' | h'; exact absurd hz h'; exact h'
    obtain ⟨b2, h2, _, _⟩ := d4 b1 rest (by simpa [Endian.encode] using hr1)
    simp only [hz, bne_self_eq_false, Bool.false_eq_true, ↓reduceIte]
    rw [Par.bind_ok h2]
    simp [hid1]
  · simp [hz]

-- non-vacuity
example : (query 2302 0 (Net.init [.opened [.data [0, 0, 0, 0, 2]]] [])).2.log
    = [.opened 0 false 2302 false, .send 0 2302 request false, .recv 0 (some 2048) (some 5)] := by
  decide +kernel
