import GdVerif.Spec.Gs2
/- C09_gs2: theorems to come -/
