import GdVerif.Spec.Eco
/-
  C07 — single-game protocols and the HTTP/JSON game map every field: Eco (the pure part).

  MODEL: `GdVerif/Proto/Eco.lean: fromRoot` = `impl From<Root> for Response` (tied to games/eco/types.rs on every run:
         the real `serde_json::from_reader::<Root>` + `Response::from` are run on SPEC-rendered documents and on
         mutations of them, and compared with the model behind a serde_json mirror).
  SPEC:  `GdVerif/Spec/Eco.lean` (the member-name → response-field table).
  `ureq`, the serde derive (member names) and serde_json (text → `Info`) are parameters: nothing below is about them.
-/
open Gd Gd.Eco

/-- Every member of `Info` arrives in the correspondingly named response field — the 37 equations, one per
response field (JSON member names are the doc comments of `Info`'s fields): `GamePort → port`,
`WebPort → query_port`, `DetailedDescription → description_detailed`, `EconomyDesc → description_economy`,
`OnlinePlayers → players_online`, `TotalPlayers → players_maximum`, `OnlinePlayersNames → players` (one player per
name, in order), `Version → game_version`, `JoinUrl → connect`, every other one under its own name. -/
theorem C07_eco_fields (i : Info) :
    (fromRoot i).external = i.external ∧
    (fromRoot i).port = i.gamePort ∧
    (fromRoot i).queryPort = i.webPort ∧
    (fromRoot i).isLan = i.isLan ∧
    (fromRoot i).description = i.description ∧
    (fromRoot i).descriptionDetailed = i.detailedDescription ∧
    (fromRoot i).category = i.category ∧
    (fromRoot i).playersOnline = i.onlinePlayers ∧
    (fromRoot i).playersMaximum = i.totalPlayers ∧
    (fromRoot i).players = i.onlinePlayersNames.map Player.mk ∧
    (fromRoot i).adminOnline = i.adminOnline ∧
    (fromRoot i).timeSinceStart = i.timeSinceStart ∧
    (fromRoot i).timeLeft = i.timeLeft ∧
    (fromRoot i).animals = i.animals ∧
    (fromRoot i).plants = i.plants ∧
    (fromRoot i).laws = i.laws ∧
    (fromRoot i).worldSize = i.worldSize ∧
    (fromRoot i).gameVersion = i.version ∧
    (fromRoot i).descriptionEconomy = i.economyDesc ∧
    (fromRoot i).skillSpecializationSetting = i.skillSpecializationSetting ∧
    (fromRoot i).language = i.language ∧
    (fromRoot i).hasPassword = i.hasPassword ∧
    (fromRoot i).hasMeteor = i.hasMeteor ∧
    (fromRoot i).distributionStationItems = i.distributionStationItems ∧
    (fromRoot i).playtimes = i.playtimes ∧
    (fromRoot i).discordAddress = i.discordAddress ∧
    (fromRoot i).isPaused = i.isPaused ∧
    (fromRoot i).activeAndOnlinePlayers = i.activeAndOnlinePlayers ∧
    (fromRoot i).peakActivePlayers = i.peakActivePlayers ∧
    (fromRoot i).maxActivePlayers = i.maxActivePlayers ∧
    (fromRoot i).shelfLifeMultiplier = i.shelfLifeMultiplier ∧
    (fromRoot i).exhaustionAfterHours = i.exhaustionAfterHours ∧
    (fromRoot i).isLimitingHours = i.isLimitingHours ∧
    (fromRoot i).serverAchievementsDict = i.serverAchievementsDict ∧
    (fromRoot i).relayAddress = i.relayAddress ∧
    (fromRoot i).access = i.access ∧
    (fromRoot i).connect = i.joinUrl :=
  ⟨rfl, rfl, rfl, rfl, rfl, rfl, rfl, rfl, rfl, rfl, rfl, rfl, rfl, rfl, rfl, rfl, rfl, rfl, rfl, rfl, rfl, rfl, rfl, rfl, rfl, rfl, rfl, rfl, rfl, rfl, rfl, rfl, rfl, rfl, rfl, rfl, rfl⟩

/-- The model's map is the SPEC's table, for every state (the doubles as their bit patterns). -/
theorem C07_eco (st : Spec.State) (h : Spec.wf st = true) : fromRoot st.info = Spec.expected st := by
  simp only [Spec.wf, Bool.and_eq_true, beq_iff_eq] at h
  obtain ⟨⟨⟨⟨_, h1⟩, h2⟩, h3⟩, h4⟩ := by
    -- the four equations `info.<double> = <dyadic>.bits` are among the conjuncts
    exact (⟨⟨⟨⟨trivial, by simp_all⟩, by simp_all⟩, by simp_all⟩, by simp_all⟩ :
      (((True ∧ st.info.timeSinceStart = st.timeSinceStart.bits) ∧ st.info.timeLeft = st.timeLeft.bits) ∧
        st.info.shelfLifeMultiplier = st.shelfLifeMultiplier.bits) ∧
        st.info.exhaustionAfterHours = st.exhaustionAfterHours.bits)
  simp only [fromRoot, Spec.expected, h1, h2, h3, h4]

/-- Nothing is lost and nothing is fabricated: the response determines the document's `Info` (the map is
injective), so every response field is a function of the reply alone and no two replies are confused. -/
theorem C07_eco_nothing_fabricated (i j : Info) (h : fromRoot i = fromRoot j) : i = j := by
  have hmap : ∀ a b : List Bytes, a.map Player.mk = b.map Player.mk → a = b := by
    intro a b hab
    have := congrArg (List.map Player.name) hab
    simpa [List.map_map, Function.comp_def] using this
  cases i
  cases j
  simp only [fromRoot, Response.mk.injEq] at h
  simp only [Info.mk.injEq]
  have hp := hmap _ _ h.2.2.2.2.2.2.2.2.2.2.1
  simp_all

/-- The same number of players as names, in the same order. -/
theorem C07_eco_players (i : Info) :
    (fromRoot i).players.length = i.onlinePlayersNames.length
    ∧ (fromRoot i).players.map (·.name) = i.onlinePlayersNames := by
  simp [fromRoot, List.map_map, Function.comp_def]

-- non-vacuity: a concrete state in the SPEC's domain; 3.75 is `400E000000000000`, -0 is `8000000000000000`
example :
    let d : Spec.Decimal := ⟨false, 375, -2⟩
    let z : Spec.Decimal := ⟨true, 0, 0⟩
    let i : Info := ⟨true, 3000, 3001, false, [69], [], [], 5, 100, [[97], [98]], false, d.bits, z.bits, 1, 2, 3, [], [49], [],
      [], [], false, true, [], [], [], false, 0, 0, 4294967295, d.bits, d.bits, false, [([107], [118])], [], [], [117]⟩
    Spec.wf ⟨i, d, z, d, d⟩ = true ∧ d.bits = 0x400E000000000000 ∧ z.bits = 0x8000000000000000
    ∧ d.text = [51, 55, 53, 101, 45, 50]
    ∧ (fromRoot i).port = 3000 ∧ (fromRoot i).players = [⟨[97]⟩, ⟨[98]⟩] ∧ (fromRoot i).connect = [117] := by
  decide

/-- The value of a decimal literal: the nearest double, ties to even — e.g. 2^53 + 1 (a tie) goes to the even
neighbour 2^53, the largest double is reached, one more unit in its 17th digit overflows, half the smallest
subnormal goes to zero and anything above it to the smallest subnormal. -/
theorem C07_eco_nearest_double_examples :
    Spec.nearestDouble 9007199254740993 1 = some 0x4340000000000000
    ∧ Spec.nearestDouble (17976931348623157 * 10 ^ 292) 1 = some 0x7FEFFFFFFFFFFFFF
    ∧ Spec.nearestDouble (18 * 10 ^ 307) 1 = none
    ∧ Spec.nearestDouble 2 (10 ^ 324) = some 0
    ∧ Spec.nearestDouble 25 (10 ^ 325) = some 1
    ∧ Spec.nearestDouble 1 10 = some 0x3FB999999999999A := by
  decide +kernel
