import GdVerif.Lemmas.MasterSound
import GdVerif.Props.C16
/-
  C09 — requests are the protocol's and go to the right port: the Valve master-server service.

  What the Rust does about the address: `valve_master_server::{query, query_singular}` take no address; they open ONE
  UDP socket to `default_master_address()` = 208.64.201.194:27011 (hl2master.steampowered.com) and every datagram is
  sent through that socket, i.e. to that address.  The model's events carry the port (`masterPort`); the IP is
  compared by the harness on every case (`@WRONGIP` in the trace if an operation names another address).
-/
open Gd Gd.Master

/-- The port is 27011, the first request is seeded with the text `0.0.0.0:0`, and a request is
`'1' region seed-ip ':' seed-port NUL filter` (Master Server Query Protocol). -/
theorem C09_master_literals (region : Nat) (fb : Bytes) :
    masterPort = 27011
    ∧ constructPayload region fb zeroIp 0 = [0x31, UInt8.ofNat region] ++ asciiBytes "0.0.0.0:0" ++ [0] ++ fb := by
  refine ⟨rfl, ?_⟩
  have e1 : zeroIp ++ [58] ++ natDec 0 = asciiBytes "0.0.0.0:0" := by decide
  simp only [constructPayload, List.append_assoc] at e1 ⊢
  rw [← e1]
  rfl

/-- Whatever the server does (any script, any send faults), for every region and filter set: every event the
complete query logs is on the one UDP socket it opened (number 0), which is addressed to port 27011; every datagram
sent is the request for that region and those filter bytes, seeded with `0.0.0.0:0` or with the text `a.b.c.d:port`
of an address; every receive uses the 1400-byte buffer; nothing else is done to the transport. -/
theorem C09_master_conforms (region : Nat) (fs : Option SearchFilters) (script : List ConnScript) (faults : List Bool) :
    ∀ e ∈ (Master.query region fs (Net.init script faults)).2.log,
      match e with
      | .opened c tcp p _ => c = 0 ∧ tcp = false ∧ p = 27011
      | .send c p data _ => c = 0 ∧ p = 27011 ∧
          (data = constructPayload region (filterBytesOf fs) zeroIp 0
           ∨ ∃ a : Addr, data = constructPayload region (filterBytesOf fs) (ipText a.1) a.2)
      | .recv c size _ => c = 0 ∧ size = some 1400 := by
  intro e he
  have := (query_safe region fs script faults).2 e he
  cases e with
  | opened c tcp p r => exact this
  | send c p d f => exact this
  | recv c s g => exact this

/-- The single-page query: the same socket and port; the only datagram it ever sends is the request seeded with
`0.0.0.0:0`. -/
theorem C09_master_singular_conforms (region : Nat) (fs : Option SearchFilters) (script : List ConnScript)
    (faults : List Bool) :
    ∀ e ∈ (Master.querySingular region fs (Net.init script faults)).2.log,
      match e with
      | .opened c tcp p _ => c = 0 ∧ tcp = false ∧ p = 27011
      | .send c p data _ => c = 0 ∧ p = 27011 ∧ data = constructPayload region (filterBytesOf fs) zeroIp 0
      | .recv c size _ => c = 0 ∧ size = some 1400 := by
  intro e he
  have hok := (querySingular_safe region fs script faults).2 e he
  cases e with
  | opened c tcp p r => exact hok
  | recv c s g => exact hok
  | send c p d f =>
    refine ⟨hok.1, hok.2.1, ?_⟩
    rw [querySingular_log] at he
    unfold singularLog at he
    cases hfc : firstConn script with
    | none => rw [hfc] at he; simp at he
    | some ds =>
      rw [hfc] at he
      simp only [List.mem_cons, reduceCtorEq, false_or] at he
      have h2 : ∀ (q : List Delivery), Ev.send c p d f ∈ (roundsLog msock region (filterBytesOf fs) q faults zeroIp 0).take 2 →
          d = constructPayload region (filterBytesOf fs) zeroIp 0 := by
        intro q hq
        cases q with
        | nil => unfold roundsLog at hq; split at hq <;> simp [reqEv, replyEv] at hq <;> exact hq.2.2.1
        | cons x r =>
          cases x <;> unfold roundsLog at hq <;> split at hq <;> simp [reqEv, replyEv] at hq <;> exact hq.2.2.1
      exact h2 ds he

/-- The WHOLE log of the complete query, for every script and fault vector, is `queryLog`: the socket is opened
(or refused: then nothing is sent); then request/reply rounds — the first request seeded with `0.0.0.0:0`, each
follow-up request seeded with `nextSeed` of the datagram just received; the run ends at a failed send, at a receive
that times out, or at a reply that calls for no follow-up.  Nothing else is sent. -/
theorem C09_master_log (region : Nat) (fs : Option SearchFilters) (script : List ConnScript) (faults : List Bool) :
    (Master.query region fs (Net.init script faults)).2.log = queryLog region (filterBytesOf fs) script faults :=
  query_log region fs script faults

/-- The single-page query logs the first round of the complete query and nothing more. -/
theorem C09_master_singular_log (region : Nat) (fs : Option SearchFilters) (script : List ConnScript)
    (faults : List Bool) :
    (Master.querySingular region fs (Net.init script faults)).2.log
      = singularLog region (filterBytesOf fs) script faults :=
  querySingular_log region fs script faults

/-- What `nextSeed` is: a follow-up request is made exactly when the datagram received decodes as a page whose last
address is neither the terminator `0.0.0.0:0` nor the seed of the request it answers — and it is seeded with that
last address. -/
theorem C09_master_seed_is_last (ip : Bytes) (port : Nat) (data : Bytes) (a : Addr) :
    nextSeed ip port data = some a ↔
      ∃ page, parsePage.run data = .ok page ∧ page.getLast? = some a
        ∧ ¬(ipText a.1 = zeroIp ∧ a.2 = 0) ∧ ¬(ipText a.1 = ip ∧ a.2 = port) :=
  nextSeed_iff ip port data a

/-- The same at the level of bytes (the parser accepts exactly the protocol's page encoding, `parsePage_sound` /
`C16_page_decodes`): a follow-up request is made exactly when the datagram received IS `FF FF FF FF 66 0A` followed by
the 6-byte encodings of a non-empty list of entries whose last address is neither `0.0.0.0:0` nor the seed of the
request it answers — and it is seeded with that last address. -/
theorem C09_master_seed_is_last_of_datagram (ip : Bytes) (port : Nat) (data : Bytes) (a : Addr) :
    nextSeed ip port data = some a ↔
      ∃ es, data = encPage es ∧ (∀ x ∈ es, WFAddr x) ∧ es.getLast? = some a
        ∧ ¬(ipText a.1 = zeroIp ∧ a.2 = 0) ∧ ¬(ipText a.1 = ip ∧ a.2 = port) :=
  nextSeed_spec ip port data a

/-- Every request of a query, read back by the reference grammar of the Master Server Query Protocol, denotes the
region, the seed text `a.b.c.d:port` and exactly the filters of each group — for every iteration order of the three
hash maps (C16's theorem at the seeds the paging loop uses). -/
theorem C09_master_request_reads_back (region : Nat) (hr : region < 256) (a : Addr) (P A O : FMap)
    (hP : ∀ f ∈ P, f.WF) (hA : ∀ f ∈ A, f.WF) (hO : ∀ f ∈ O, f.WF) (hAl : A.length < 2 ^ 64) (hOl : O.length < 2 ^ 64) :
    Spec.parse (constructPayload region (toBytesOrdered P A O) (ipText a.1) a.2)
      = some ⟨region, ipText a.1 ++ [58] ++ natDec a.2, P.filterMap Filter.kv, A.filterMap Filter.kv,
          O.filterMap Filter.kv⟩ := by
  refine C16_request_denotes region hr (ipText a.1) ?_ a.2 P A O hP hA hO hAl hOl
  simp only [ipText, List.mem_append, List.mem_singleton, not_or]
  exact ⟨⟨⟨⟨⟨⟨(clean_natDec _).2, by decide⟩, (clean_natDec _).2⟩, by decide⟩, (clean_natDec _).2⟩, by decide⟩,
    (clean_natDec _).2⟩

/-- Tie to C16's seeding theorem: on every well-formed history of reply pages the rounds are exactly C16's
`pagingLog` over `seedsFrom` — one request per page, each follow-up seeded with the last address of the page before. -/
theorem C09_master_rounds_on_history (region : Nat) (fs : Option SearchFilters) (h : History)
    (hfin : ∀ a ∈ h.final, WFAddr a) (hfl : h.final.length ≤ 231) (hnt : h.terminated = false → h.final = [])
    (hwf : wfPages zeroIp 0 h.pages) (rest : List Delivery) :
    roundsLog msock region (filterBytesOf fs)
        (h.pages.map (fun p => Delivery.data (encPage p)) ++ .data (encPage h.finalPage) :: rest) [] zeroIp 0
      = pagingLog region (filterBytesOf fs) (seedsFrom zeroIp 0 h.pages) (h.pages ++ [h.finalPage]) := by
  have h1 := C16_paging_complete region fs h hfin hfl hnt hwf rest
  have h2 := query_log region fs [.opened (h.pages.map (fun p => Delivery.data (encPage p))
    ++ .data (encPage h.finalPage) :: rest)] []
  rw [h1] at h2
  simp only [world, queryLog, firstConn, List.cons_append, List.nil_append, List.cons.injEq, true_and] at h2
  exact h2.symm

-- non-vacuity: two pages and the terminator; the second request is seeded with the last address of the first page
example : (Master.query 255 none (Net.init [.opened [
      .data [0xFF, 0xFF, 0xFF, 0xFF, 0x66, 0x0A, 1, 2, 3, 4, 0x69, 0x87, 5, 6, 7, 8, 0, 80],
      .data [0xFF, 0xFF, 0xFF, 0xFF, 0x66, 0x0A, 9, 9, 9, 9, 0x69, 0x88, 0, 0, 0, 0, 0, 0]]] [])).2.log
    = [.opened 0 false 27011 false,
       .send 0 27011 ([0x31, 0xFF] ++ asciiBytes "0.0.0.0:0" ++ [0, 0]) false, .recv 0 (some 1400) (some 18),
       .send 0 27011 ([0x31, 0xFF] ++ asciiBytes "5.6.7.8:80" ++ [0, 0]) false, .recv 0 (some 1400) (some 18)] := by
  decide

-- a failing send ends the query with that one event; a refused socket sends nothing
example : (Master.query 0 none (Net.init [.opened [.data [0xFF, 0xFF, 0xFF, 0xFF, 0x66, 0x0A]]] [true])).2.log
    = [.opened 0 false 27011 false, .send 0 27011 ([0x31, 0] ++ asciiBytes "0.0.0.0:0" ++ [0, 0]) true] := by decide
example : (Master.query 0 none (Net.init [.refused] [])).2.log = [.opened 0 false 27011 true] := by decide

-- `nextSeed` on a page ending with a fresh address / with the terminator
example : nextSeed zeroIp 0 [0xFF, 0xFF, 0xFF, 0xFF, 0x66, 0x0A, 1, 2, 3, 4, 0x69, 0x87] = some ((1, 2, 3, 4), 27015) := by
  decide
example : nextSeed zeroIp 0 [0xFF, 0xFF, 0xFF, 0xFF, 0x66, 0x0A, 1, 2, 3, 4, 0x69, 0x87, 0, 0, 0, 0, 0, 0] = none := by
  decide
