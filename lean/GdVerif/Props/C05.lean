import GdVerif.Lemmas.QuakeDecode
/-
  C05 — Quake 1/2/3 status replies yield all variables and players.

  MODEL: `GdVerif/Proto/Quake.lean` (tied to protocols/quake by `props/c05.py` on every run).
  SPEC:  `GdVerif/Spec/Quake.lean` (the servers' print formats; reply, expected response, domain `wf`).

  Domain (`Spec.wf`): any list of variables with distinct keys whose keys and values are valid UTF-8 without `\`
  and line feed, naming the host (`hostname` or `sv_hostname`), the map (`mapname` or `map`) and the maximum
  (`maxclients` or `sv_maxclients`, a decimal below 256); 0–255 player lines (the property asks for 0–64) whose
  numbers fit the response's integer types; names / skins / addresses valid UTF-8 without `"` and line feed,
  quoted (then spaces are allowed) or not (then without space); optional address (Quake 2/3); optional
  trailing NUL; the whole reply one UDP datagram (≤ 65535 bytes).
-/
open Gd Gd.Quake Gd.Quake.Spec

/-- The whole exchange: the server answers the status request with the specified reply; the query returns the
response the specification entitles the user to — for every version, port, retry count. -/
theorem C05_query (cfg : Config) (st : State) (hw : wf cfg st = true) (port retries : Nat) :
    (query port cfg.version retries (Net.init [.opened [.data (reply cfg st)]] [])).1 = expected cfg st := by
  have hlen : (reply cfg st).length ≤ 65535 := by
    simp only [wf, Bool.and_eq_true, decide_eq_true_eq] at hw
    exact hw.2
  rw [query_one_datagram port cfg.version retries (reply cfg st) (body cfg st)]
  · exact parseBody_body cfg st hw
  · rw [PACKET_SIZE, List.take_of_length_le hlen, reply, header_eq]
    exact stripHeader_reply cfg.version (body cfg st)

/-- The parser alone, on what follows the header (whatever the transport did). -/
theorem C05_parse (cfg : Config) (st : State) (hw : wf cfg st = true) :
    (parseBody cfg.version).run (body cfg st) = expected cfg st :=
  parseBody_body cfg st hw

/-- On the domain the expected response is a response (not an error), and it is made of: the named
variables, one player per line in order, the count of lines, every other variable. -/
theorem C05_expected (cfg : Config) (st : State) (hw : wf cfg st = true) :
    ∃ r, expected cfg st = .ok r
      ∧ (named st.vars hostnameKey hostnameAlt).map (·.2) = some r.name
      ∧ (named st.vars mapKey mapAlt).map (·.2) = some r.map
      ∧ ((named st.vars maxKey maxAlt).bind fun p => parseUnsigned 8 p.2) = some r.playersMaximum
      ∧ r.gameVersion = (named st.vars versionKey versionAlt).map (·.2)
      ∧ r.players = st.lines.map (·.player)
      ∧ r.playersOnline = st.lines.length := by
  simp only [wf, Bool.and_eq_true, decide_eq_true_eq] at hw
  obtain ⟨⟨⟨⟨⟨⟨⟨_, _⟩, h1⟩, h2⟩, h3⟩, _⟩, _⟩, _⟩ := hw
  unfold expected
  cases hn1 : named st.vars hostnameKey hostnameAlt with
  | none => rw [hn1] at h1; cases h1
  | some n1 =>
    cases hn2 : named st.vars mapKey mapAlt with
    | none => rw [hn2] at h2; cases h2
    | some n2 =>
      cases hn3 : named st.vars maxKey maxAlt with
      | none => rw [hn3] at h3; cases h3
      | some n3 =>
        rw [hn3] at h3
        obtain ⟨kn, name⟩ := n1
        obtain ⟨km, map⟩ := n2
        obtain ⟨kx, mx⟩ := n3
        simp only at h3
        cases hp : parseUnsigned 8 mx with
        | none => rw [hp] at h3; cases h3
        | some m =>
          refine ⟨⟨name, map, st.lines.map (·.player), st.lines.length, m,
            (named st.vars versionKey versionAlt).map (·.2),
            without st.vars ([kn, km, kx] ++ optKey (named st.vars versionKey versionAlt))⟩, ?_, rfl, rfl, ?_, rfl, rfl, rfl⟩
          · simp only [hp]
          · simp [hp]

/-- The query returns one player entry per player line, in order, with that line's fields, and the online
count is the number of lines. -/
theorem C05_players (cfg : Config) (st : State) (hw : wf cfg st = true) (port retries : Nat) :
    ∃ r, (query port cfg.version retries (Net.init [.opened [.data (reply cfg st)]] [])).1 = .ok r
      ∧ r.players = st.lines.map (·.player) ∧ r.playersOnline = st.lines.length := by
  obtain ⟨r, he, _, _, _, _, hp, hc⟩ := C05_expected cfg st hw
  exact ⟨r, by rw [C05_query cfg st hw, he], hp, hc⟩

/-- All other variables appear unchanged in the unused entries: every variable the server lists whose key is
none of the eight spellings is in `unused` with its value, and `unused` holds nothing the server did not list. -/
theorem C05_unused (cfg : Config) (st : State) (hw : wf cfg st = true) (port retries : Nat) :
    ∃ r, (query port cfg.version retries (Net.init [.opened [.data (reply cfg st)]] [])).1 = .ok r
      ∧ (∀ kv ∈ st.vars, kv.1 ∉ [hostnameKey, hostnameAlt, mapKey, mapAlt, maxKey, maxAlt, versionKey, versionAlt] →
          kv ∈ r.unused)
      ∧ (∀ kv ∈ r.unused, kv ∈ st.vars) := by
  obtain ⟨r, he, _⟩ := C05_expected cfg st hw
  refine ⟨r, by rw [C05_query cfg st hw, he], ?_⟩
  unfold expected at he
  have s1 := optKey_subset st.vars hostnameKey hostnameAlt
  have s2 := optKey_subset st.vars mapKey mapAlt
  have s3 := optKey_subset st.vars maxKey maxAlt
  have s4 := optKey_subset st.vars versionKey versionAlt
  split at he
  · rename_i kn name km map kx mx hn1 hn2 hn3
    rw [hn1] at s1
    rw [hn2] at s2
    rw [hn3] at s3
    split at he
    · cases he
    · cases he
      simp only [without]
      refine ⟨?_, fun kv hkv => (List.mem_filter.mp hkv).1⟩
      intro kv hkv hnot
      refine List.mem_filter.mpr ⟨hkv, ?_⟩
      simp only [List.mem_cons, List.not_mem_nil, or_false, not_or] at hnot
      obtain ⟨n1, n2, n3, n4, n5, n6, n7, n8⟩ := hnot
      have u1 := s1 kn (by simp [optKey])
      have u2 := s2 km (by simp [optKey])
      have u3 := s3 kx (by simp [optKey])
      simp only [List.mem_cons, List.not_mem_nil, or_false] at u1 u2 u3
      simp only [Bool.not_eq_true', List.contains_eq_mem, decide_eq_false_iff_not, List.cons_append, List.nil_append,
        List.mem_cons, not_or]
      refine ⟨?_, ?_, ?_, ?_⟩
      · rcases u1 with h | h
        · rw [h]; exact n1
        · rw [h]; exact n2
      · rcases u2 with h | h
        · rw [h]; exact n3
        · rw [h]; exact n4
      · rcases u3 with h | h
        · rw [h]; exact n5
        · rw [h]; exact n6
      · intro hmem
        have u4 := s4 _ hmem
        simp only [List.mem_cons, List.not_mem_nil, or_false] at u4
        rcases u4 with h | h
        · exact n7 h
        · exact n8 h
  · cases he

/-- The count is computed as `players.len() as u8`; within the domain (fewer than 256 lines) that is the
number of lines, as `C05_players` states.  Outside it the count wraps modulo 256 (recorded, not in the property's
domain of 0–64 lines). -/
theorem C05_count_is_u8 (vars : Vars) (players : List Player) (r : Response)
    (h : buildResponse vars players = .ok r) : r.playersOnline = players.length % 256 ∧ r.players = players := by
  unfold buildResponse at h
  simp only [bind, Res.bind] at h
  repeat (split at h <;> try cases h)
  exact ⟨rfl, rfl⟩

/-! ### non-vacuity: concrete replies in the domain -/

/-- Quake 2: `\sv_hostname\A b\mapname\q2dm1\maxclients\8\cheats\0`, then `-3 45 "Mr Foo" "10.0.0.1:27901"`
(a quoted name with a space, an address) and `7 0 bot` (an unquoted name, no address) -/
def C05_exampleQ2 : State :=
  ⟨[([0x73, 0x76, 0x5f, 0x68, 0x6f, 0x73, 0x74, 0x6e, 0x61, 0x6d, 0x65], [0x41, 0x20, 0x62]),
    ([0x6d, 0x61, 0x70, 0x6e, 0x61, 0x6d, 0x65], [0x71, 0x32, 0x64, 0x6d, 0x31]),
    ([0x6d, 0x61, 0x78, 0x63, 0x6c, 0x69, 0x65, 0x6e, 0x74, 0x73], [0x38]),
    ([0x63, 0x68, 0x65, 0x61, 0x74, 0x73], [0x30])],
   [⟨.two ⟨-3, 45, [0x4d, 0x72, 0x20, 0x46, 0x6f, 0x6f],
       some [0x31, 0x30, 0x2e, 0x30, 0x2e, 0x30, 0x2e, 0x31, 0x3a, 0x32, 0x37, 0x39, 0x30, 0x31]⟩, true, true⟩,
    ⟨.two ⟨7, 0, [0x62, 0x6f, 0x74], none⟩, false, true⟩]⟩

/-- QuakeWorld: `\hostname\QW\map\dm3\sv_maxclients\16\*version\2.40`, then `5 12 300 40 "Ranger One" "base" 4 13`,
a trailing NUL -/
def C05_exampleQ1 : State :=
  ⟨[([0x68, 0x6f, 0x73, 0x74, 0x6e, 0x61, 0x6d, 0x65], [0x51, 0x57]),
    ([0x6d, 0x61, 0x70], [0x64, 0x6d, 0x33]),
    ([0x73, 0x76, 0x5f, 0x6d, 0x61, 0x78, 0x63, 0x6c, 0x69, 0x65, 0x6e, 0x74, 0x73], [0x31, 0x36]),
    ([0x2a, 0x76, 0x65, 0x72, 0x73, 0x69, 0x6f, 0x6e], [0x32, 0x2e, 0x34, 0x30])],
   [⟨.one ⟨5, 12, 300, 40, [0x52, 0x61, 0x6e, 0x67, 0x65, 0x72, 0x20, 0x4f, 0x6e, 0x65], [0x62, 0x61, 0x73, 0x65], 4, 13⟩,
      true, true⟩]⟩

set_option maxRecDepth 8000 in
example : wf ⟨.two, false⟩ C05_exampleQ2 = true ∧ wf ⟨.three, false⟩ C05_exampleQ2 = true
    ∧ wf ⟨.one, true⟩ C05_exampleQ1 = true := by decide

set_option maxRecDepth 8000 in
example : (query 27910 .two 2 (Net.init [.opened [.data (reply ⟨.two, false⟩ C05_exampleQ2)]] [])).1
    = .ok { name := [0x41, 0x20, 0x62], map := [0x71, 0x32, 0x64, 0x6d, 0x31],
            players := [.two ⟨-3, 45, [0x4d, 0x72, 0x20, 0x46, 0x6f, 0x6f],
                          some [0x31, 0x30, 0x2e, 0x30, 0x2e, 0x30, 0x2e, 0x31, 0x3a, 0x32, 0x37, 0x39, 0x30, 0x31]⟩,
                        .two ⟨7, 0, [0x62, 0x6f, 0x74], none⟩],
            playersOnline := 2, playersMaximum := 8, gameVersion := none,
            unused := [([0x63, 0x68, 0x65, 0x61, 0x74, 0x73], [0x30])] } := by
  rw [C05_query ⟨.two, false⟩ C05_exampleQ2 (by decide)]
  decide

set_option maxRecDepth 8000 in
example : (query 27500 .one 0 (Net.init [.opened [.data (reply ⟨.one, true⟩ C05_exampleQ1)]] [])).1
    = .ok { name := [0x51, 0x57], map := [0x64, 0x6d, 0x33],
            players := [.one ⟨5, 12, 300, 40, [0x52, 0x61, 0x6e, 0x67, 0x65, 0x72, 0x20, 0x4f, 0x6e, 0x65],
                          [0x62, 0x61, 0x73, 0x65], 4, 13⟩],
            playersOnline := 1, playersMaximum := 16, gameVersion := some [0x32, 0x2e, 0x34, 0x30], unused := [] } := by
  rw [C05_query ⟨.one, true⟩ C05_exampleQ1 (by decide)]
  decide

/-! ### the two recorded findings (known_findings.json), as theorems about the model

Replies that are in the Quake formats but outside `Spec.wf`, because the response types cannot hold them.  The
check probes both on the real code on every run (`props/families/quake.py: FINDING_PROBES`). -/

/-- A numeric field that starts with a minus sign is a `TypeParse` error for every unsigned field: a Quake 1
line with a negative frag count (`one::Player.score` is a `u16`) fails the whole query. -/
theorem C05_finding_negative_frags (bits : Nat) (ds : Bytes) :
    fieldUnsigned bits (some (0x2D :: ds)) = .err .typeParse := by
  have : parseUnsigned bits (0x2D :: ds) = none := by
    have hsp : stripPlus (0x2D :: ds) = 0x2D :: ds := by
      unfold stripPlus
      split
      · rename_i r heq
        injection heq with h1 _
        exact absurd h1 (by decide)
      · rfl
    have hd : isDigit 0x2D = false := by decide
    unfold parseUnsigned
    simp [hsp, hd]
  simp [fieldUnsigned, this, okOr]

/-- A line (the variables line or a player line) that is not valid UTF-8 is a `PacketBad` error: Quake text is
byte strings (QuakeWorld names use the bytes ≥ 0x80), the response fields are `String`s read strictly. -/
theorem C05_finding_non_utf8 (s post : Bytes) (hd : (0x0A : UInt8) ∉ s) (hv : validUtf8 s = false) (b : Buf)
    (hr : b.rest = s ++ 0x0A :: post) : readStrUntil 0x0A b = .err .packetBad := by
  unfold readStrUntil readStringWith utf8Dec
  simp only [hr, findByte_append 0x0A s post hd, List.take_left', hv]
  rfl
