import GdVerif.Lemmas.ValveFaults
import GdVerif.Props.C02_whole
/-
  C10 on WHOLE Valve queries with faults injected.

  `Props/C10.lean` proves C10 for the combinator (`retryOnTimeout`) and names the unit it wraps for Valve
  (`C10_valve_unit`: one request with all its challenge rounds).  Here the property is proved END TO END for
  `Valve.query`: the server is the SPEC's (`Spec/Valve.lean`), the faults are those of a *plan*
  (`Spec/ValveFaults.lean`): for each of the three units a list of attempts that end in a timeout-class failure —
  after `answered` challenge rounds the server falls silent, or the client's next send fails (`answered = 0`: the fault
  hits the initial request; `answered = number of challenge rounds`: it hits the last exchange of the attempt; anything
  in between is covered too); before it falls silent the server may still deliver SOME of the fragments of the unit's
  split reply (`Attempt.got`: any selection of the reply's datagrams, each at most once, in any order, at least one
  missing — `Faults.partOf`; a reply that stops half way: the attempt is a timeout like any other, the next attempt starts
  from scratch) — followed by the unit's valid exchange, by nothing (the client has given up), or by a malformed datagram
  (possibly after some of the fragments).  `faultyScript` / `faultyFaults` are the two arguments of `Net.init`: exactly what
  `props/families/valve.py: c10_build` builds for the differential check, which is now compared against these SPEC
  functions (driver entry `valveplan`, `Run/ValveFaults.lean`: script, flags, result and sends must all agree).

  MODEL: `GdVerif/Proto/Valve.lean`, `GdVerif/Net.lean`.   SPEC: `GdVerif/Spec/Valve.lean`, `Spec/ValveFaults.lean`.
  Hypotheses common to all theorems = those of `C02_whole_any_order` / `C02_whole_compressed`: state in the SPEC's domain
  (`wf`), transports the engine reads (`wfExchanges`), the SPEC exchange fits the receive buffer (`fits`), the external
  decoders read what is compressed (`DecodersAgree`: nothing to ask when no reply is compressed, or the decoder law —
  `C10_valve_decoders_*`).  Everything else is universally quantified: engine, gathering toggles, retry count, port,
  number of challenge rounds and challenge bytes, transports and cut points, arrival order of fragments, and the plan.
-/
open Gd Gd.Valve Gd.Valve.Spec Gd.Faults

theorem C10_valve_decoders_uncompressed (ext : Ext) (cfg : Config) (st : State) (hu : uncompressed cfg = true) :
    DecodersAgree ext cfg st := decodersAgree_of_uncompressed ext cfg st hu

theorem C10_valve_decoders_law (ext : Ext) (compress : Bytes → Bytes) (hlaw : ∀ p, ext.bunzip (compress p) = some p)
    (cfg : Config) (st : State) (hcar : carries compress ext.crc32 cfg st) : DecodersAgree ext cfg st :=
  decodersAgree_of_law ext compress hlaw cfg st hcar

/-- THE GENERAL STATEMENT.  For every plan in C10's domain for the retry count (`wfPlanReached`: a unit that is
answered — validly or by a datagram shorter than a packet header — had at most `retries` timeout-class failures before, a
unit that is given up had exactly `retries + 1`; what a failed attempt — or the attempt that meets the malformed datagram —
still receives of the unit's reply is nothing or an incomplete selection of its fragments; asked of the units the query
reaches), whatever follows the plan's
deliveries in the script (`restQ`) and the plan's flags in the send-fault vector (`restF`), the query returns the outcome
the property prescribes (`faultyExpected`: the first unit that does not end with the server's reply decides — its error if
it is the info unit or enforced, an absent section if it is only tried; otherwise the fault-free response), and the
datagrams it put on the wire are exactly the plan's (`faultySends`: every attempt of every unit reached, each starting
with the unit's initial request; nothing after the unit that ends the query). -/
theorem C10_valve_query_faulty (ext : Ext) (port retries : Nat) (cfg : Config) (st : State)
    (hwf : wf cfg st = true) (hx : wfExchanges cfg = true) (hdec : DecodersAgree ext cfg st) (ai ap ar : List Bytes)
    (hai : ai.Perm (infoDatagrams cfg st)) (hap : ap.Perm (playersDatagrams cfg st))
    (har : ar.Perm (rulesDatagrams cfg st)) (hfit : fits (scriptAs cfg ai ap ar) = true)
    (plan : Plan) (hplan : wfPlanReached retries cfg st plan = true) (restQ : List Delivery) (restF : List Bool) :
    (Valve.query ext port cfg.engine cfg.gather retries
        (Net.init [.opened (faultyScript cfg plan ai ap ar ++ restQ)] (faultyFaults cfg plan ++ restF))).1
      = faultyExpected cfg st plan
    ∧ sentOf (Valve.query ext port cfg.engine cfg.gather retries
        (Net.init [.opened (faultyScript cfg plan ai ap ar ++ restQ)] (faultyFaults cfg plan ++ restF))).2.log
      = faultySends cfg st plan :=
  query_faulty ext port retries cfg st hwf hx hdec.1 hdec.2.1 hdec.2.2 ai ap ar hai hap har hfit plan hplan restQ restF

/-- (a) RECOVERY.  `fi`, `fp`, `fr` are the failed attempts (any number ≤ `retries` for every unit that is gathered;
each a silence or a failed send after any number of answered challenge rounds, the silence possibly after some — not
all — of the fragments of the unit's split reply, in any order: `Attempt.wf`) placed before the valid exchange of
the info / players / rules unit.  Nothing of an abandoned attempt (its fragments, its split id) shows in the result.  The query returns exactly `Spec.expected cfg st` — by `C02_whole*` the result with no
faults; the datagrams sent are the attempts of the plan, unit after unit; and the number of attempts of each unit seen on
the wire (initial requests of that unit; the challenges must not make a challenged request look like the initial one:
`freshChallenges`) is its number of failed attempts + 1. -/
theorem C10_valve_query_recovers (ext : Ext) (port retries : Nat) (cfg : Config) (st : State)
    (hwf : wf cfg st = true) (hx : wfExchanges cfg = true) (hdec : DecodersAgree ext cfg st) (ai ap ar : List Bytes)
    (hai : ai.Perm (infoDatagrams cfg st)) (hap : ap.Perm (playersDatagrams cfg st))
    (har : ar.Perm (rulesDatagrams cfg st)) (hfit : fits (scriptAs cfg ai ap ar) = true)
    (fi fp fr : List Attempt) (hki : fi.length ≤ retries)
    (hkp : cfg.gather.players ≠ .skip → fp.length ≤ retries) (hkr : cfg.gather.rules ≠ .skip → fr.length ≤ retries)
    (hwi : ∀ a ∈ fi, a.wf (infoDatagrams cfg st) = true)
    (hwp : cfg.gather.players ≠ .skip → ∀ a ∈ fp, a.wf (playersDatagrams cfg st) = true)
    (hwr : cfg.gather.rules ≠ .skip → ∀ a ∈ fr, a.wf (rulesDatagrams cfg st) = true)
    (restQ : List Delivery) (restF : List Bool) :
    let plan : Plan := ⟨⟨fi, .valid⟩, ⟨fp, .valid⟩, ⟨fr, .valid⟩⟩
    let out := Valve.query ext port cfg.engine cfg.gather retries
        (Net.init [.opened (faultyScript cfg plan ai ap ar ++ restQ)] (faultyFaults cfg plan ++ restF))
    let reached : List Request := if appIdOk cfg.engine cfg.gather st.info.appid then [.info, .players, .rules] else [.info]
    out.1 = expected cfg st
    ∧ sentOf out.2.log = sendsOf cfg plan reached
    ∧ (∀ u ∈ reached, toggleOf cfg u ≠ .skip → freshChallenges u (exchangeOf cfg u) = true →
        attemptsOf u (sentOf out.2.log) = (plan.unit u).fails.length + 1) := by
  intro plan out reached
  have hplan : wfPlan retries cfg st plan = true := by
    simp only [wfPlan, wfUnit, plan, Bool.and_eq_true, Bool.or_eq_true, decide_eq_true_eq, beq_iff_eq,
      List.all_eq_true]
    refine ⟨⟨⟨hwi, hki⟩, ?_⟩, ?_⟩
    · by_cases h : cfg.gather.players = .skip
      · exact Or.inl h
      · exact Or.inr ⟨hwp h, hkp h⟩
    · by_cases h : cfg.gather.rules = .skip
      · exact Or.inl h
      · exact Or.inr ⟨hwr h, hkr h⟩
  have herr : ∀ u, toggleOf cfg u ≠ .skip → (plan.unit u).error = none := by
    intro u _
    cases u <;> rfl
  obtain ⟨h1, h2⟩ := C10_valve_query_faulty ext port retries cfg st hwf hx hdec ai ap ar hai hap har hfit plan
    (wfPlanReached_of_wfPlan retries cfg st plan hplan) restQ restF
  rw [faultyExpected_recovers cfg st plan herr] at h1
  rw [faultySends_recovers cfg st plan herr] at h2
  refine ⟨h1, h2, ?_⟩
  intro u hu hgath hfresh
  show attemptsOf u (sentOf out.2.log) = _
  have hnd : reached.Nodup := by
    show (if appIdOk cfg.engine cfg.gather st.info.appid then [Request.info, .players, .rules] else [.info]).Nodup
    split <;> decide
  rw [show sentOf out.2.log = sendsOf cfg plan reached from h2,
    attemptsOf_sendsOf cfg plan u hfresh reached hnd, if_pos ⟨hu, hgath⟩]
  cases u <;> rfl

/-- (b) EXHAUSTION, enforced unit.  `u` is the first unit all of whose `retries + 1` attempts end in a timeout-class
failure (`gaveUp`; by `wfPlan` it then has exactly `retries + 1` failed attempts), every gathered unit before it is
eventually answered, and `u` is the info unit or its toggle is Enforce.  The query fails with the last failed attempt's
error — `PacketReceive`, or `PacketSend` when that attempt ended on a failed send (`C10_valve_last_error`) —, what was
sent are the attempts of the units up to `u` and NOTHING of the later units, and `u` was attempted exactly
`retries + 1` times.  Only the units up to `u` need to be in C10's domain (`hplan`); the plans of the later units and
whatever else follows in the script and in the fault vector (`restQ`, `restF`) are arbitrary — e.g. further silences, the
valid exchange the server would still have sent, … -/
theorem C10_valve_query_exhausted (ext : Ext) (port retries : Nat) (cfg : Config) (st : State)
    (hwf : wf cfg st = true) (hx : wfExchanges cfg = true) (hdec : DecodersAgree ext cfg st) (ai ap ar : List Bytes)
    (hai : ai.Perm (infoDatagrams cfg st)) (hap : ap.Perm (playersDatagrams cfg st))
    (har : ar.Perm (rulesDatagrams cfg st)) (hfit : fits (scriptAs cfg ai ap ar) = true)
    (plan : Plan) (u : Request)
    (hplan : ∀ v ∈ earlier u ++ [u], toggleOf cfg v ≠ .skip → wfUnit retries (poolOf cfg st v) (plan.unit v) = true)
    (hearlier : ∀ v ∈ earlier u, toggleOf cfg v ≠ .skip → (plan.unit v).ending = .valid)
    (hu : (plan.unit u).ending = .gaveUp) (henf : toggleOf cfg u = .enforce)
    (happ : u ≠ .info → appIdOk cfg.engine cfg.gather st.info.appid = true)
    (restQ : List Delivery) (restF : List Bool) :
    let out := Valve.query ext port cfg.engine cfg.gather retries
        (Net.init [.opened (faultyScript cfg plan ai ap ar ++ restQ)] (faultyFaults cfg plan ++ restF))
    out.1 = .err (lastError Attempt.error (plan.unit u).fails)
    ∧ (out.1 = .err .packetReceive ∨ out.1 = .err .packetSend)
    ∧ sentOf out.2.log = sendsOf cfg plan (earlier u ++ [u])
    ∧ (freshChallenges u (exchangeOf cfg u) = true → attemptsOf u (sentOf out.2.log) = retries + 1)
    ∧ (∀ v ∈ later u, attemptsOf v (sentOf out.2.log) = 0) := by
  intro out
  have hearlier' : ∀ v ∈ earlier u, toggleOf cfg v ≠ .skip → (plan.unit v).error = none :=
    fun v hv hg => error_of_valid (hearlier v hv hg)
  obtain ⟨h1, h2⟩ := C10_valve_query_faulty ext port retries cfg st hwf hx hdec ai ap ar hai hap har hfit plan
    (wfPlanReached_stops retries cfg st plan u _ hplan (error_of_gaveUp hu) henf) restQ restF
  rw [faultyExpected_stops cfg st plan u _ hearlier' (error_of_gaveUp hu) henf happ] at h1
  rw [faultySends_stops cfg st plan u _ hearlier' (error_of_gaveUp hu) henf happ] at h2
  have hlen : (plan.unit u).fails.length = retries + 1 := by
    have : wfUnit retries (poolOf cfg st u) (plan.unit u) = true := hplan u (by simp) (by rw [henf]; decide)
    simp only [wfUnit, hu, Bool.and_eq_true, beq_iff_eq] at this
    exact this.2
  have hnd : (earlier u ++ [u]).Nodup := by cases u <;> decide
  refine ⟨h1, ?_, h2, ?_, ?_⟩
  · show out.1 = _ ∨ out.1 = _
    rw [show out.1 = _ from h1]
    rcases lastError_class (plan.unit u).fails with h | h <;> rw [h] <;> simp
  · intro hfresh
    show attemptsOf u (sentOf out.2.log) = _
    rw [show sentOf out.2.log = _ from h2, attemptsOf_sendsOf cfg plan u hfresh _ hnd,
      if_pos ⟨by simp, by rw [henf]; decide⟩]
    simp [UnitPlan.attempts, hu, hlen]
  · intro v hv
    show attemptsOf v (sentOf out.2.log) = 0
    rw [show sentOf out.2.log = _ from h2]
    have hnot : v ∉ earlier u ++ [u] := by
      cases u <;> cases v <;> simp [later, earlier] at hv ⊢
    unfold sendsOf
    generalize earlier u ++ [u] = us at hnot
    induction us with
    | nil => rfl
    | cons w r ih =>
      simp only [List.mem_cons, not_or] at hnot
      simp only [List.flatMap_cons, attemptsOf_append, ih hnot.2, Nat.add_zero]
      split
      · rfl
      · exact attemptsOf_unit_other v w (Ne.symm hnot.1) _ _

/-- the error of an exhausted unit is the LAST failed attempt's: `PacketSend` if that attempt ended on a failed send,
`PacketReceive` if it ended on silence -/
theorem C10_valve_last_error (fails : List Attempt) (a : Attempt) :
    lastError Attempt.error (fails ++ [a]) = (if a.sendFault then .packetSend else .packetReceive) :=
  lastError_append fails a

/-- (b), (c) for a unit that is only TRIED.  `u` (players or rules, toggle Try) does not end with the server's reply —
all its `retries + 1` attempts time out, or an attempt receives a malformed datagram — and every other gathered unit is
eventually answered: the response is the expected one with that section absent. -/
theorem C10_valve_query_failed_try (ext : Ext) (port retries : Nat) (cfg : Config) (st : State)
    (hwf : wf cfg st = true) (hx : wfExchanges cfg = true) (hdec : DecodersAgree ext cfg st) (ai ap ar : List Bytes)
    (hai : ai.Perm (infoDatagrams cfg st)) (hap : ap.Perm (playersDatagrams cfg st))
    (har : ar.Perm (rulesDatagrams cfg st)) (hfit : fits (scriptAs cfg ai ap ar) = true)
    (plan : Plan) (hplan : wfPlan retries cfg st plan = true) (u : Request)
    (hothers : ∀ v, v ≠ u → toggleOf cfg v ≠ .skip → (plan.unit v).ending = .valid)
    (hu : (plan.unit u).ending ≠ .valid) (htry : toggleOf cfg u = .try_) (restQ : List Delivery) (restF : List Bool) :
    let out := Valve.query ext port cfg.engine cfg.gather retries
        (Net.init [.opened (faultyScript cfg plan ai ap ar ++ restQ)] (faultyFaults cfg plan ++ restF))
    let reached : List Request := if appIdOk cfg.engine cfg.gather st.info.appid then [.info, .players, .rules] else [.info]
    out.1 = (expected cfg st >>= fun r => .ok (withoutSection r u))
    ∧ sentOf out.2.log = sendsOf cfg plan reached
    ∧ (u ∈ reached → freshChallenges u (exchangeOf cfg u) = true →
        attemptsOf u (sentOf out.2.log) = (plan.unit u).attempts) := by
  intro out reached
  have hothers' : ∀ v, v ≠ u → toggleOf cfg v ≠ .skip → (plan.unit v).error = none :=
    fun v hv hg => error_of_valid (hothers v hv hg)
  obtain ⟨k, hk⟩ := error_of_not_valid hu
  obtain ⟨h1, h2⟩ := C10_valve_query_faulty ext port retries cfg st hwf hx hdec ai ap ar hai hap har hfit plan
    (wfPlanReached_of_wfPlan retries cfg st plan hplan) restQ restF
  rw [faultyExpected_try cfg st plan u k hothers' hk htry] at h1
  rw [faultySends_try cfg st plan u k hothers' hk htry] at h2
  refine ⟨h1, h2, ?_⟩
  intro hmem hfresh
  show attemptsOf u (sentOf out.2.log) = _
  have hnd : reached.Nodup := by
    show (if appIdOk cfg.engine cfg.gather st.info.appid then [Request.info, .players, .rules] else [.info]).Nodup
    split <;> decide
  rw [show sentOf out.2.log = sendsOf cfg plan reached from h2,
    attemptsOf_sendsOf cfg plan u hfresh reached hnd, if_pos ⟨hmem, by rw [htry]; decide⟩]

/-- (c) A MALFORMED REPLY IS NOT RETRIED.  Some attempt of unit `u` (after any number ≤ `retries` of timed-out attempts,
after any number `j` of answered challenge rounds and after any incomplete selection `got` of the fragments of the unit's
split reply) receives a datagram `m` the packet parser rejects — ANY datagram
shorter than the 5 bytes of a packet header (`wfPlan`), whatever its bytes; `u` is the info unit or enforced, the
gathered units before it are eventually answered.  Whatever `retries` is, the unit ends at once: the query fails with
`PacketUnderflow` (not a timeout-class error), the malformed attempt is the last thing sent — no further request of that
unit, nothing of the later units — whatever the script still holds (the plans of the later units, `restQ`, `restF` are
arbitrary: for instance the valid reply, which is never read). -/
theorem C10_valve_query_malformed_not_retried (ext : Ext) (port retries : Nat) (cfg : Config) (st : State)
    (hwf : wf cfg st = true) (hx : wfExchanges cfg = true) (hdec : DecodersAgree ext cfg st) (ai ap ar : List Bytes)
    (hai : ai.Perm (infoDatagrams cfg st)) (hap : ap.Perm (playersDatagrams cfg st))
    (har : ar.Perm (rulesDatagrams cfg st)) (hfit : fits (scriptAs cfg ai ap ar) = true)
    (plan : Plan) (u : Request) (j : Nat) (got : List Bytes) (m : Bytes)
    (hplan : ∀ v ∈ earlier u ++ [u], toggleOf cfg v ≠ .skip → wfUnit retries (poolOf cfg st v) (plan.unit v) = true)
    (hearlier : ∀ v ∈ earlier u, toggleOf cfg v ≠ .skip → (plan.unit v).ending = .valid)
    (hu : (plan.unit u).ending = .malformed j got m) (henf : toggleOf cfg u = .enforce)
    (happ : u ≠ .info → appIdOk cfg.engine cfg.gather st.info.appid = true)
    (restQ : List Delivery) (restF : List Bool) :
    let out := Valve.query ext port cfg.engine cfg.gather retries
        (Net.init [.opened (faultyScript cfg plan ai ap ar ++ restQ)] (faultyFaults cfg plan ++ restF))
    out.1 = .err .packetUnderflow
    ∧ ErrKind.packetUnderflow.isTimeout = false
    ∧ sentOf out.2.log = sendsOf cfg plan (earlier u ++ [u])
    ∧ (freshChallenges u (exchangeOf cfg u) = true →
        attemptsOf u (sentOf out.2.log) = (plan.unit u).fails.length + 1) := by
  intro out
  have hearlier' : ∀ v ∈ earlier u, toggleOf cfg v ≠ .skip → (plan.unit v).error = none :=
    fun v hv hg => error_of_valid (hearlier v hv hg)
  obtain ⟨h1, h2⟩ := C10_valve_query_faulty ext port retries cfg st hwf hx hdec ai ap ar hai hap har hfit plan
    (wfPlanReached_stops retries cfg st plan u _ hplan (error_of_malformed hu) henf) restQ restF
  rw [faultyExpected_stops cfg st plan u _ hearlier' (error_of_malformed hu) henf happ] at h1
  rw [faultySends_stops cfg st plan u _ hearlier' (error_of_malformed hu) henf happ] at h2
  have hnd : (earlier u ++ [u]).Nodup := by cases u <;> decide
  refine ⟨h1, rfl, h2, ?_⟩
  intro hfresh
  show attemptsOf u (sentOf out.2.log) = _
  rw [show sentOf out.2.log = _ from h2, attemptsOf_sendsOf cfg plan u hfresh _ hnd,
    if_pos ⟨by simp, by rw [henf]; decide⟩]
  simp [UnitPlan.attempts, hu]

/-- The plan without faults gives the fault-free script of `C02_whole_any_order` (up to the flags, all `false`): the
theorems above are about the same exchange. -/
theorem C10_valve_no_faults (cfg : Config) (ai ap ar : List Bytes) :
    faultyScript cfg Plan.none ai ap ar = (scriptAs cfg ai ap ar).map .data
    ∧ (faultyFaults cfg Plan.none).all (· == false) = true := by
  constructor
  · simp [faultyScript, scriptAs, Plan.none, UnitPlan.deliveries, Ending.deliveries]
    cases cfg.gather.players <;> cases cfg.gather.rules <;> simp
  · simp only [faultyFaults, Plan.none, UnitPlan.faults, Ending.faults, List.flatMap_nil, List.nil_append,
      List.all_append, Bool.and_eq_true]
    refine ⟨⟨by simp, ?_⟩, ?_⟩
    · split <;> simp
    · split <;> simp

/-! ### non-vacuity: the TF2-like server of `Props/C02_whole.lean` (info behind 2 challenge rounds and split into 3
fragments, players behind 1 challenge round, enforced; rules split in 2, tried), retries = 2 -/

/-- the query on the script of a plan for the demo server, final replies arriving in order -/
def C10_valve_demoRun (ext : Ext) (port retries : Nat) (plan : Plan) (restQ : List Delivery := []) :
    Res Response × Net :=
  Valve.query ext port C02_whole_demoCfg.engine C02_whole_demoCfg.gather retries
    (Net.init [.opened (faultyScript C02_whole_demoCfg plan (infoDatagrams C02_whole_demoCfg C02_whole_demoState)
      (playersDatagrams C02_whole_demoCfg C02_whole_demoState) (rulesDatagrams C02_whole_demoCfg C02_whole_demoState)
      ++ restQ)]
      (faultyFaults C02_whole_demoCfg plan ++ []))

/-- one lost info reply (silence at the initial request) and one lost CHALLENGED players request (the server answers the
challenge round, the reply to the challenged request is lost) -/
def C10_valve_demoPlanA : Plan := ⟨⟨[⟨0, false, []⟩], .valid⟩, ⟨[⟨1, false, []⟩], .valid⟩, ⟨[], .valid⟩⟩


-- (a) 12 deliveries instead of 9, the result is the state, 2 attempts of info and of players on the wire
example (ext : Ext) (port : Nat) :
    (faultyScript C02_whole_demoCfg C10_valve_demoPlanA (infoDatagrams C02_whole_demoCfg C02_whole_demoState)
      (playersDatagrams C02_whole_demoCfg C02_whole_demoState) (rulesDatagrams C02_whole_demoCfg C02_whole_demoState)).length = 12
    ∧ (faultyFaults C02_whole_demoCfg C10_valve_demoPlanA).length = 9
    ∧ (C10_valve_demoRun ext port 2 C10_valve_demoPlanA).1
        = .ok ⟨C02_whole_demoState.info, some C02_whole_demoState.players, some C02_whole_demoState.rules⟩
    ∧ attemptsOf .info (sentOf (C10_valve_demoRun ext port 2 C10_valve_demoPlanA).2.log) = 2
    ∧ attemptsOf .players (sentOf (C10_valve_demoRun ext port 2 C10_valve_demoPlanA).2.log) = 2
    ∧ attemptsOf .rules (sentOf (C10_valve_demoRun ext port 2 C10_valve_demoPlanA).2.log) = 1 := by
  have h := C10_valve_query_recovers ext port 2 C02_whole_demoCfg C02_whole_demoState (by decide) (by decide)
    (C10_valve_decoders_uncompressed ext _ _ (by decide)) _ _ _ (List.Perm.refl _) (List.Perm.refl _)
    (List.Perm.refl _) (by decide) [⟨0, false, []⟩] [⟨1, false, []⟩] [] (by decide) (fun _ => by decide)
    (fun _ => by decide) (by decide) (fun _ => by decide) (fun _ => by decide) [] []
  have he : expected C02_whole_demoCfg C02_whole_demoState
      = .ok ⟨C02_whole_demoState.info, some C02_whole_demoState.players, some C02_whole_demoState.rules⟩ := by decide
  simp only at h
  obtain ⟨h1, _, h3⟩ := h
  refine ⟨by decide, by decide, ?_, ?_, ?_, ?_⟩ <;> unfold C10_valve_demoRun C10_valve_demoPlanA
  · rw [← he]; exact h1
  · exact h3 .info (by decide) (by decide) (by decide)
  · exact h3 .players (by decide) (by decide) (by decide)
  · exact h3 .rules (by decide) (by decide) (by decide)

/-- the enforced players unit times out three times: at the initial request; on a failed send of the challenged
request; on silence after the challenge round -/
def C10_valve_demoPlanB : Plan :=
  ⟨⟨[], .valid⟩, ⟨[⟨0, false, []⟩, ⟨1, true, []⟩, ⟨1, false, []⟩], .gaveUp⟩, ⟨[], .valid⟩⟩
/-- the same ending on the failed send -/
def C10_valve_demoPlanB' : Plan :=
  ⟨⟨[], .valid⟩, ⟨[⟨0, false, []⟩, ⟨1, false, []⟩, ⟨1, true, []⟩], .gaveUp⟩, ⟨[], .valid⟩⟩

-- (b) PacketReceive after exactly 3 attempts, no rules request — whatever follows in the script (here: a further
-- silence and the valid players reply the server would still have sent); ending on the failed send: PacketSend
example (ext : Ext) (port : Nat) (restQ : List Delivery) :
    (C10_valve_demoRun ext port 2 C10_valve_demoPlanB restQ).1 = .err .packetReceive
    ∧ attemptsOf .players (sentOf (C10_valve_demoRun ext port 2 C10_valve_demoPlanB restQ).2.log) = 3
    ∧ attemptsOf .rules (sentOf (C10_valve_demoRun ext port 2 C10_valve_demoPlanB restQ).2.log) = 0
    ∧ (C10_valve_demoRun ext port 2 C10_valve_demoPlanB' restQ).1 = .err .packetSend := by
  have h := C10_valve_query_exhausted ext port 2 C02_whole_demoCfg C02_whole_demoState (by decide) (by decide)
    (C10_valve_decoders_uncompressed ext _ _ (by decide)) _ _ _ (List.Perm.refl _) (List.Perm.refl _)
    (List.Perm.refl _) (by decide) C10_valve_demoPlanB .players (by decide) (by decide) rfl rfl (fun _ => by decide)
    restQ []
  have h' := C10_valve_query_exhausted ext port 2 C02_whole_demoCfg C02_whole_demoState (by decide) (by decide)
    (C10_valve_decoders_uncompressed ext _ _ (by decide)) _ _ _ (List.Perm.refl _) (List.Perm.refl _)
    (List.Perm.refl _) (by decide) C10_valve_demoPlanB' .players (by decide) (by decide) rfl rfl (fun _ => by decide)
    restQ []
  exact ⟨h.1, h.2.2.2.1 (by decide), h.2.2.2.2 .rules (by decide), h'.1⟩

/-- a failed send after both info challenge rounds, then the rules unit (tried) times out three times -/
def C10_valve_demoPlanT : Plan :=
  ⟨⟨[⟨2, true, []⟩], .valid⟩, ⟨[], .valid⟩, ⟨[⟨0, false, []⟩, ⟨0, true, []⟩, ⟨0, false, []⟩], .gaveUp⟩⟩

-- (b) for a unit that is only tried: the response lacks the rules
example (ext : Ext) (port : Nat) :
    (C10_valve_demoRun ext port 2 C10_valve_demoPlanT).1
      = .ok ⟨C02_whole_demoState.info, some C02_whole_demoState.players, none⟩ := by
  have h := C10_valve_query_failed_try ext port 2 C02_whole_demoCfg C02_whole_demoState (by decide) (by decide)
    (C10_valve_decoders_uncompressed ext _ _ (by decide)) _ _ _ (List.Perm.refl _) (List.Perm.refl _)
    (List.Perm.refl _) (by decide) C10_valve_demoPlanT (by decide) .rules
    (fun v hv _ => by cases v <;> first | rfl | exact absurd rfl hv) (by decide) rfl [] []
  have he : (expected C02_whole_demoCfg C02_whole_demoState >>= fun r => Res.ok (withoutSection r .rules))
      = .ok ⟨C02_whole_demoState.info, some C02_whole_demoState.players, none⟩ := by decide
  rw [← he]; exact h.1

/-- one failed send, then the info unit receives the 2-byte datagram FF FF after both challenge rounds -/
def C10_valve_demoPlanM : Plan := ⟨⟨[⟨0, true, []⟩], .malformed 2 [] [0xFF, 0xFF]⟩, ⟨[], .valid⟩, ⟨[], .valid⟩⟩

-- (c) with retries = 3: PacketUnderflow at once, 2 attempts of info in all (4 datagrams), nothing else
example (ext : Ext) (port : Nat) :
    (C10_valve_demoRun ext port 3 C10_valve_demoPlanM).1 = .err .packetUnderflow
    ∧ attemptsOf .info (sentOf (C10_valve_demoRun ext port 3 C10_valve_demoPlanM).2.log) = 2
    ∧ (sentOf (C10_valve_demoRun ext port 3 C10_valve_demoPlanM).2.log).length = 4 := by
  have h := C10_valve_query_malformed_not_retried ext port 3 C02_whole_demoCfg C02_whole_demoState (by decide) (by decide)
    (C10_valve_decoders_uncompressed ext _ _ (by decide)) _ _ _ (List.Perm.refl _) (List.Perm.refl _)
    (List.Perm.refl _) (by decide) C10_valve_demoPlanM .info 2 [] [0xFF, 0xFF] (by decide) (by decide) rfl rfl
    (fun h => absurd rfl h) [] []
  refine ⟨h.1, h.2.2.2 (by decide), ?_⟩
  have h2 := h.2.2.1
  unfold C10_valve_demoRun
  rw [h2]
  decide

/-! ### a reply that stops half way: the info reply of the demo server travels as 3 fragments -/

/-- the fragments of the info reply -/
def C10_valve_demoInfo : List Bytes := infoDatagrams C02_whole_demoCfg C02_whole_demoState

/-- first attempt: both challenge rounds answered, then the fragments 2 and 0 of the info reply arrive (in that order),
fragment 1 never does; second attempt: nothing after the initial request.  Then the server answers. -/
def C10_valve_demoPlanH : Plan :=
  ⟨⟨[⟨2, false, (C10_valve_demoInfo.drop 2) ++ (C10_valve_demoInfo.take 1)⟩, ⟨0, false, []⟩], .valid⟩,
    ⟨[], .valid⟩, ⟨[], .valid⟩⟩

-- (a) the two fragments are really delivered (2 + 2 + 1 + 1 + the 9 of the fault-free exchange = 15 deliveries), the
-- result is the state, 3 attempts of info on the wire
example (ext : Ext) (port : Nat) :
    C10_valve_demoInfo.length = 3
    ∧ (faultyScript C02_whole_demoCfg C10_valve_demoPlanH (infoDatagrams C02_whole_demoCfg C02_whole_demoState)
      (playersDatagrams C02_whole_demoCfg C02_whole_demoState) (rulesDatagrams C02_whole_demoCfg C02_whole_demoState)).length = 15
    ∧ (C10_valve_demoRun ext port 2 C10_valve_demoPlanH).1
        = .ok ⟨C02_whole_demoState.info, some C02_whole_demoState.players, some C02_whole_demoState.rules⟩
    ∧ attemptsOf .info (sentOf (C10_valve_demoRun ext port 2 C10_valve_demoPlanH).2.log) = 3 := by
  have h := C10_valve_query_recovers ext port 2 C02_whole_demoCfg C02_whole_demoState (by decide) (by decide)
    (C10_valve_decoders_uncompressed ext _ _ (by decide)) _ _ _ (List.Perm.refl _) (List.Perm.refl _)
    (List.Perm.refl _) (by decide)
    [⟨2, false, (C10_valve_demoInfo.drop 2) ++ (C10_valve_demoInfo.take 1)⟩, ⟨0, false, []⟩] [] [] (by decide)
    (fun _ => by decide) (fun _ => by decide) (by decide) (fun _ => by decide) (fun _ => by decide) [] []
  have he : expected C02_whole_demoCfg C02_whole_demoState
      = .ok ⟨C02_whole_demoState.info, some C02_whole_demoState.players, some C02_whole_demoState.rules⟩ := by decide
  simp only at h
  obtain ⟨h1, _, h3⟩ := h
  refine ⟨by decide, by decide, ?_, ?_⟩ <;> unfold C10_valve_demoRun C10_valve_demoPlanH
  · rw [← he]; exact h1
  · exact h3 .info (by decide) (by decide) (by decide)

/-- the info unit: one attempt that gets all fragments but the last and then silence, then an attempt that gets the first
fragment and then the 2-byte datagram FF FF -/
def C10_valve_demoPlanHM : Plan :=
  ⟨⟨[⟨2, false, C10_valve_demoInfo.take 2⟩], .malformed 2 (C10_valve_demoInfo.take 1) [0xFF, 0xFF]⟩,
    ⟨[], .valid⟩, ⟨[], .valid⟩⟩

-- (c) with retries = 3: PacketUnderflow at once, 2 attempts of info in all (6 datagrams), nothing else — whatever follows
example (ext : Ext) (port : Nat) (restQ : List Delivery) :
    (C10_valve_demoRun ext port 3 C10_valve_demoPlanHM restQ).1 = .err .packetUnderflow
    ∧ attemptsOf .info (sentOf (C10_valve_demoRun ext port 3 C10_valve_demoPlanHM restQ).2.log) = 2
    ∧ (sentOf (C10_valve_demoRun ext port 3 C10_valve_demoPlanHM restQ).2.log).length = 6 := by
  have h := C10_valve_query_malformed_not_retried ext port 3 C02_whole_demoCfg C02_whole_demoState (by decide) (by decide)
    (C10_valve_decoders_uncompressed ext _ _ (by decide)) _ _ _ (List.Perm.refl _) (List.Perm.refl _)
    (List.Perm.refl _) (by decide) C10_valve_demoPlanHM .info 2 (C10_valve_demoInfo.take 1) [0xFF, 0xFF] (by decide)
    (by decide) rfl rfl (fun h => absurd rfl h) restQ []
  refine ⟨h.1, h.2.2.2 (by decide), ?_⟩
  have h2 := h.2.2.1
  unfold C10_valve_demoRun
  rw [h2]
  decide
