import GdVerif.Lemmas.QuakeSafe
/-
  C01 — Hostile server responses never crash or hang a query: the Quake 1 / 2 / 3 family
  (`protocols::quake::{one,two,three}::query`, and through them every Quake game wrapper).

  MODEL: `GdVerif/Proto/Quake.lean` (tied to protocols/quake by the correspondence run of `./check C01`).
  Crash branches of the model: the slice of `remove_wrapping_quotes` (`sliceInner`), exhausted fuel of the
  player-line loop (= a loop that would not end).  Both are shown unreachable here for EVERY script.
-/
open Gd

/-- No crash for any reply script (any number of datagrams of any content and size, silences, a refused
socket, failing sends), any version, port and retry count. -/
theorem C01_quake (port : Nat) (v : Quake.Version) (retries : Nat) (script : List ConnScript) (faults : List Bool) :
    (Quake.query port v retries (Net.init script faults)).1 ≠ .crash :=
  (Quake.query_safe port v retries (Net.init script faults)).1

/-- The parsers alone, on any bytes: the header check of `get_data_impl` and everything `client_query` does
with the rest of the packet. -/
theorem C01_quake_parsers (v : Quake.Version) (data : Bytes) :
    ((Quake.stripHeader v).run data).isCrash = false ∧ ((Quake.parseBody v).run data).isCrash = false := by
  have key : ∀ {α : Type} (p : Par α), Safe p → (p.run data).isCrash = false := by
    intro α p hp
    have := hp (Buf.new data)
    unfold Par.run
    cases h : p (Buf.new data) with
    | ok x => rfl
    | err k => rfl
    | crash => rw [h] at this; exact this.elim
  exact ⟨key _ (Quake.safe_stripHeader v), key _ (Quake.safe_parseBody v)⟩

/-- The field that made the unrepaired code panic: a lone double quote is returned as it is. -/
theorem C01_quake_lone_quote : Quake.removeWrappingQuotes [0x22] = .ok [0x22] := by decide

/-- `remove_wrapping_quotes` never takes the slice `[1 .. len - 1]` of a string shorter than two bytes. -/
theorem C01_quake_quotes (s : Bytes) : Quake.removeWrappingQuotes s ≠ .crash :=
  Quake.removeWrappingQuotes_ne_crash s

-- non-vacuity: hostile scripts are in the quantifier — a truncated header, and the player line consisting of
-- two numbers and a lone quote (the panic of the unrepaired code) goes through the line parser
example : (Quake.query 27500 .one 1 (Net.init [.opened [.data [0xFF, 0xFF]]] [])).1 = .err .packetUnderflow := by
  decide

example : Quake.parsePlayer .two (Quake.splitFields false [0x30, 0x20, 0x30, 0x20, 0x22])
    = .ok (.two ⟨0, 0, [0x22], none⟩) := by
  decide
