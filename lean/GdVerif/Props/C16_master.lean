import GdVerif.Lemmas.MasterSound
/-
  C16 (reply pages) — the page decoder accepts exactly the protocol's pages.
-/
open Gd Gd.Master

/-- Soundness of the page decoder, for EVERY datagram: if it is accepted with entries `es`, the datagram is
`FF FF FF FF 66 0A` followed by the 6-byte encodings of exactly `es` (no trailing or skipped bytes), and every entry
is in range. -/
theorem C16_master_page_sound (data : Bytes) (es : List Addr) (h : parsePage.run data = .ok es) :
    data = encPage es ∧ ∀ a ∈ es, WFAddr a :=
  parsePage_sound data es h

/-- Together with `C16_page_decodes`: the decoder's successes are exactly the protocol's pages. -/
theorem C16_master_page_iff (data : Bytes) (es : List Addr) :
    parsePage.run data = .ok es ↔ (data = encPage es ∧ ∀ a ∈ es, WFAddr a) := by
  constructor
  · exact parsePage_sound data es
  · rintro ⟨rfl, hwf⟩
    exact parsePage_encPage es hwf

-- non-vacuity: a two-entry page
example : parsePage.run [0xFF, 0xFF, 0xFF, 0xFF, 0x66, 0x0A, 1, 2, 3, 4, 0x69, 0x87, 0, 0, 0, 0, 0, 0]
    = .ok [((1, 2, 3, 4), 27015), ((0, 0, 0, 0), 0)] := by decide
