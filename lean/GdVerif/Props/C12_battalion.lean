import GdVerif.Lemmas.SmallBlock
/-
  C12 (blocking steps that can run into their timeout) — Battalion 1944 (the Valve query, no retries).
-/
open Gd Gd.Battalion

/-- At most 2 blocking steps run into their timeout, whatever the server does (Valve's bound
`3 · retries + 2` at `retries` = 0: a failed info request ends the query, otherwise the players and
the rules request can each time out once). -/
theorem C12_battalion_blocking_bound (ext : Valve.Ext) (port : Nat) (script : List ConnScript) (faults : List Bool) :
    nBlocked (query ext port (Net.init script faults)).2.log ≤ 2 := by
  have := (block_query ext port).total script faults
  omega
/-- A silent server: one request, one timed-out receive, the receive-class error. -/
theorem C12_battalion_silent_server (ext : Valve.Ext) (port : Nat) (script : List ConnScript)
    (h : PendingSilent false 1 script) :
    (query ext port (Net.init script [])).1 = .err .packetReceive
      ∧ nSends (query ext port (Net.init script [])).2.log = 1
      ∧ nBlocked (query ext port (Net.init script [])).2.log = 1
      ∧ nRecvOk (query ext port (Net.init script [])).2.log = 0
      ∧ nOpened (query ext port (Net.init script [])).2.log = 1 :=
  (silent_query ext port (Net.init script []) rfl h).counts

example : PendingSilent false 1 [] ∧ PendingSilent false 1 [.opened [.silence, .data [1]]] := ⟨rfl, True.intro⟩

/-- the bound is attained: info answered, players and rules not -/
example : nBlocked (query ⟨fun _ => none, fun _ => 0⟩ 7780 (Net.init [.opened [.data [255, 255, 255, 255, 73, 255, 195, 169, 0, 195, 191, 0, 194, 167, 41, 195, 191, 91, 38, 0, 65, 92, 1, 65, 95, 0, 212, 121, 128, 22, 254, 68, 77, 1, 1, 194, 167, 38, 239, 191, 191, 92, 45, 45, 195, 191, 194, 167, 0, 1, 212, 121, 7, 0, 0, 0, 0, 0], .silence, .silence]] [])).2.log = 2 := by
  decide +kernel
