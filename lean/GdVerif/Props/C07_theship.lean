import GdVerif.Lemmas.TheShip
/-
  C07 — single-game protocols map every field: The Ship.

  MODEL: `GdVerif/Proto/TheShip.lean` = `Valve.query` (engine app 2400, default gathering) + `convert`.
  SPEC:  `GdVerif/Spec/TheShip.lean` on top of `Spec/Valve.lean`.
  The three replies are decoded by the Valve parsers, whose field-by-field theorems are C02's
  (`C02_info_source` with the ship fields, `C02_players` with deaths/money, `C02_rules`).
-/
open Gd Gd.Valve Gd.Valve.Spec

/-- For every well-formed The Ship server state: converting the response a Valve client is entitled to (info
with mode / witnesses / duration, every player with deaths and money, the rules) gives each field under the
correspondingly named field of The Ship's response; a server that is not app 2400 is `BadGame`. -/
theorem C07_theship_conversion (cfg : Config) (st : State) (h : TheShip.Spec.wf cfg st = true) :
    (Valve.Spec.expected (TheShip.Spec.shipConfig cfg) st >>= TheShip.convert) = TheShip.Spec.expected st :=
  TheShip.convert_expected cfg st h

/-- The replies of such a server decode to exactly that Valve response (C02 for engine app 2400). -/
theorem C07_theship_replies (cfg : Config) (st : State) (h : TheShip.Spec.wf cfg st = true) :
    (parseInfo TheShip.ENGINE).run (encSourceInfo cfg.upper st.info) = .ok st.info
    ∧ (parsePlayers TheShip.ENGINE).run (encPlayers st.players) = .ok st.players
    ∧ (parseRules TheShip.ENGINE).run (encRules st.rules) = .ok st.rules := by
  simp only [TheShip.Spec.wf, Valve.Spec.wf, TheShip.Spec.shipConfig, TheShip.Spec.shipEngine, Engine.new,
    Bool.and_eq_true, decide_eq_true_eq, List.all_eq_true, beq_self_eq_true] at h
  obtain ⟨⟨⟨⟨⟨hinfo, hpn⟩, hpl⟩, hrn⟩, hrl⟩, hrd⟩ := h
  refine ⟨(decodesEnd_sourceInfo TheShip.ENGINE cfg.upper st.info hinfo).run,
    (decodes_players TheShip.ENGINE st.players hpn fun p hp => by simpa [TheShip.ENGINE] using hpl p hp).run, ?_⟩
  have := (decodes_rules TheShip.ENGINE st.rules hrn (fun r hr => by simpa using hrl r hr) hrd).run
  simpa [expectedRules, TheShip.ENGINE, Engine.new] using this

/-- The whole query (socket, three requests, three replies each in one datagram, decode, conversion) against any
well-formed The Ship server, for every port, retry count and behaviour of the external decoders: the response
is the one the SPEC entitles the user to.  (Challenge rounds and split transports are covered by the tie and by
C09/C08; the theorem is for the plain exchange.) -/
theorem C07_theship (ext : Ext) (port retries : Nat) (cfg : Config) (st : State) (h : TheShip.Spec.wf cfg st = true)
    (hl1 : (reply 0x49 (encSourceInfo cfg.upper st.info)).length ≤ 6144)
    (hl2 : (reply 0x44 (encPlayers st.players)).length ≤ 6144)
    (hl3 : (reply 0x45 (encRules st.rules)).length ≤ 6144) :
    (TheShip.query ext port retries (Net.init [.opened
        [.data (reply 0x49 (encSourceInfo cfg.upper st.info)), .data (reply 0x44 (encPlayers st.players)),
         .data (reply 0x45 (encRules st.rules))]] [])).1 = TheShip.Spec.expected st :=
  TheShip.query_single ext port retries cfg st h hl1 hl2 hl3

/-- What is required and what its absence is: without ship fields, without players, without rules, or with a
player lacking deaths/money the conversion fails with `PacketBad` — it never fabricates a value. -/
theorem C07_theship_required (r : Valve.Response) :
    (r.info.theShip = none → TheShip.convert r = .err .packetBad)
    ∧ (r.players = none → TheShip.convert r = .err .packetBad)
    ∧ (r.rules = none → TheShip.convert r = .err .packetBad) := by
  refine ⟨fun h => by simp [TheShip.convert, okOr, h, bind, Res.bind], fun h => ?_, fun h => ?_⟩
  · cases hs : r.info.theShip <;> simp [TheShip.convert, okOr, h, hs, bind, Res.bind]
  · cases hs : r.info.theShip with
    | none => simp [TheShip.convert, okOr, hs, bind, Res.bind]
    | some s =>
      cases hp : r.players with
      | none => simp [TheShip.convert, okOr, hs, hp, bind, Res.bind]
      | some ps =>
        cases hps : TheShip.playersOf ps with
        | crash => exact absurd hps (TheShip.playersOf_ne ps)
        | err k =>
          -- the only error `playersOf` produces is `PacketBad`
          have : k = .packetBad := by
            clear hp
            induction ps generalizing k with
            | nil => simp [TheShip.playersOf] at hps
            | cons p rest ih =>
              unfold TheShip.playersOf at hps
              cases hd : p.deaths with
              | none => simp [TheShip.playerOf, okOr, hd, bind, Res.bind] at hps; exact hps.symm
              | some d =>
                cases hm : p.money with
                | none => simp [TheShip.playerOf, okOr, hd, hm, bind, Res.bind] at hps; exact hps.symm
                | some m =>
                  cases hr : TheShip.playersOf rest with
                  | crash => exact absurd hr (TheShip.playersOf_ne rest)
                  | err k' =>
                    simp [TheShip.playerOf, okOr, hd, hm, hr, bind, Res.bind] at hps
                    rw [← hps]; exact ih k' hr
                  | ok xs => simp [TheShip.playerOf, okOr, hd, hm, hr, bind, Res.bind] at hps
          simp [TheShip.convert, okOr, hs, hp, hps, this, bind, Res.bind]
        | ok xs => simp [TheShip.convert, okOr, hs, hp, hps, h, bind, Res.bind]

-- non-vacuity: a concrete The Ship state in the domain
example :
    let st : State := ⟨⟨17, [83], [109], [115, 104, 105, 112], [84], 2400, 1, 8, 0, .dedicated, .linux, false, true,
      some ⟨1, 2, 3⟩, [49], some ⟨some 27015, none, none, none, some [107], none⟩, false, none⟩,
      [⟨[80], -3, 0x41200000, some 2, some 500⟩], [([97], [98])]⟩
    let cfg : Config := ⟨.source none, ⟨.skip, .skip, false⟩, false, [], ⟨[], .single⟩, ⟨[], .single⟩, ⟨[], .single⟩⟩
    TheShip.Spec.wf cfg st = true
    ∧ (TheShip.Spec.expected st).toOption.map (fun r => (r.mode, r.witnesses, r.duration, r.players)) =
        some (1, 2, 3, [⟨[80], -3, 0x41200000, 2, 500⟩]) := by
  decide

-- non-vacuity of the whole-query theorem: the same state through the real exchange
example :
    let st : State := ⟨⟨17, [83], [109], [115, 104, 105, 112], [84], 2400, 1, 8, 0, .dedicated, .linux, false, true,
      some ⟨1, 2, 3⟩, [49], some ⟨some 27015, none, none, none, some [107], none⟩, false, none⟩,
      [⟨[80], -3, 0x41200000, some 2, some 500⟩], [([97], [98])]⟩
    (TheShip.query ⟨fun _ => none, fun _ => 0⟩ 27015 1 (Net.init [.opened
        [.data (reply 0x49 (encSourceInfo false st.info)), .data (reply 0x44 (encPlayers st.players)),
         .data (reply 0x45 (encRules st.rules))]] [])).1 = TheShip.Spec.expected st := by
  decide
