import GdVerif.Lemmas.Battalion
/-
  C07 — single-game protocols map every field: Battalion 1944.

  MODEL: `GdVerif/Proto/Battalion.lean` = `Valve.query` (engine app 489940, default gathering, no retries)
         + `applyOverrides` + `Games.gameView`.
  SPEC:  `GdVerif/Spec/Battalion.lean` on top of `Spec/Valve.lean`.
  The three replies are decoded by the Valve parsers (C02).
-/
open Gd Gd.Valve Gd.Valve.Spec

/-- For every well-formed Battalion 1944 server state (any subset of the six `bat_*` rules, numeric overrides
decimal 0–255): applying the overrides to the response a Valve client is entitled to and converting it gives the
response the game's user is entitled to — each override present replaces its field, the rest of the info reply,
the players and all other rules are carried over unchanged. -/
theorem C07_battalion (cfg : Config) (st : State) (h : Battalion.Spec.wf cfg st = true) :
    (Valve.Spec.expected (Battalion.Spec.batConfig cfg) st >>= Battalion.applyOverrides
        >>= fun r => pure (Games.gameView r))
      = Battalion.Spec.expected st :=
  Battalion.overrides_expected cfg st h

/-- The whole query (socket, three requests, three replies each in one datagram, decode, overrides, conversion)
against any well-formed Battalion 1944 server, for every port and behaviour of the external decoders. -/
theorem C07_battalion_query (ext : Ext) (port : Nat) (cfg : Config) (st : State) (h : Battalion.Spec.wf cfg st = true)
    (hl1 : (reply 0x49 (encSourceInfo cfg.upper st.info)).length ≤ 6144)
    (hl2 : (reply 0x44 (encPlayers st.players)).length ≤ 6144)
    (hl3 : (reply 0x45 (encRules st.rules)).length ≤ 6144) :
    (Battalion.query ext port (Net.init [.opened
        [.data (reply 0x49 (encSourceInfo cfg.upper st.info)), .data (reply 0x44 (encPlayers st.players)),
         .data (reply 0x45 (encRules st.rules))]] [])).1 = Battalion.Spec.expected st :=
  Battalion.query_single ext port cfg st h hl1 hl2 hl3

/-- The five overrides in closed form, for ANY info reply and rule set whose numeric overrides are decimal
0–255: which rule overrides which field, and what is removed (the five, and `bat_map_s`, which overrides
nothing). -/
theorem C07_battalion_overrides (i : ServerInfo) (rs : Rules)
    (h1 : (Battalion.Spec.rule rs "bat_max_players_i").all Battalion.Spec.okNum = true)
    (h2 : (Battalion.Spec.rule rs "bat_player_count_s").all Battalion.Spec.okNum = true) :
    Battalion.overrides (i, rs)
      = .ok ({ i with
                playersMaximum := ((Battalion.Spec.rule rs "bat_max_players_i").map Battalion.Spec.decimal).getD i.playersMaximum,
                playersOnline := ((Battalion.Spec.rule rs "bat_player_count_s").map Battalion.Spec.decimal).getD i.playersOnline,
                hasPassword := ((Battalion.Spec.rule rs "bat_has_password_s").map (· == asciiBytes "Y")).getD i.hasPassword,
                name := (Battalion.Spec.rule rs "bat_name_s").getD i.name,
                gameMode := (Battalion.Spec.rule rs "bat_gamemode_s").getD i.gameMode },
             rs.filter fun p => !Battalion.Spec.batKeys.contains p.1) :=
  Battalion.overrides_eq i rs h1 h2

/-- Without rules (the rules request failed or was not answered) nothing is overridden. -/
theorem C07_battalion_no_rules (info : ServerInfo) (ps : Option (List ServerPlayer)) :
    Battalion.applyOverrides ⟨info, ps, none⟩ = .ok ⟨info, ps, none⟩ := rfl

/-- A numeric override that is not a number 0–255 makes the query fail with `TypeParse`; nothing is fabricated. -/
theorem C07_battalion_bad_number (i : ServerInfo) (rs : Rules) (v : Bytes)
    (h : Battalion.Spec.rule rs "bat_max_players_i" = some v) (hv : parseUnsigned 8 v = none) :
    Battalion.overrides (i, rs) = .err .typeParse := by
  have hg : Battalion.get rs Battalion.kMaxPlayers = some v := h
  simp [Battalion.overrides, Battalion.stepNum, hg, hv, bind, Res.bind]

-- non-vacuity: all six rules present
example :
    let i : ServerInfo := ⟨17, [83], [109], [], [103], 489940, 1, 2, 0, .dedicated, .linux, false, true, none, [49], none, false, none⟩
    let rs : Rules := [(asciiBytes "bat_name_s", [78]), (asciiBytes "x", [121]), (asciiBytes "bat_max_players_i", asciiBytes "16"),
      (asciiBytes "bat_player_count_s", asciiBytes "007"), (asciiBytes "bat_has_password_s", asciiBytes "Y"),
      (asciiBytes "bat_gamemode_s", [68]), (asciiBytes "bat_map_s", [63])]
    Battalion.overrides (i, rs)
      = .ok ({ i with name := [78], playersMaximum := 16, playersOnline := 7, hasPassword := true, gameMode := [68] },
             [(asciiBytes "x", [121])]) := by
  decide
