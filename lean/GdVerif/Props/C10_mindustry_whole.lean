import GdVerif.Lemmas.MindustryFaults
import GdVerif.Props.C07_mindustry
/-
  C10 on WHOLE Mindustry queries with faults injected.

  `Props/C10.lean` proves C10 for the combinator, `Props/C10_mindustry.lean` names the retried unit: the whole exchange
  INCLUDING THE SOCKET (new socket, ping, one datagram, decode).  Here the property is proved end to end for
  `Mindustry.query` against the SPEC's server (`Spec/Mindustry.lean`), on the scripts of
  `props/families/mindustry.py: c10_build`: the peer's script is a list of connection scripts, one per socket the
  client creates; a plan (`Spec/MindustryFaults.lean`) lists the attempts that end in a timeout-class failure — the
  ping cannot be sent (whatever the peer holds for that socket), or it goes out and nothing arrives first on that socket
  (its script is empty or begins with a silence) — and how the unit ends: the server's reply on the next socket, nothing,
  a malformed datagram, or a socket that cannot be created.  `faultyScript` / `faultyFaults` are the two arguments of
  `Net.init`; what follows them (`restC`: further connection scripts, `restF`) is arbitrary.  Quantified: state in the
  SPEC's domain, port, retry count, the plan (incl. what each socket's script holds beyond what the attempt consumes).

  The logic used is the generalisation `StepsG` of `Steps` to a list of per-connection scripts consumed in order
  (`Lemmas/QStepsG.lean`), not a direct proof over `Net`.
-/
open Gd Gd.Mindustry Gd.Mindustry.Spec Gd.Faults

/-- THE GENERAL STATEMENT.  For every plan in C10's domain for the retry count (`wfPlan`: every failed attempt is a
failed send or found nothing first on its socket; a unit that ends — with the reply, with a datagram that is empty or
whose first string is not UTF-8, or with a socket that cannot be created — had at most `retries` timeout-class failures
before, a unit that is given up exactly `retries + 1`): the query returns the outcome the property prescribes
(`faultyExpected`: the fault-free response / the last failure's error / `PacketBad` / `SocketBind`), and it sent
exactly the plan's datagrams (`faultySends`: the ping, once per attempt that got a socket). -/
theorem C10_mindustry_query_faulty (st : State) (hw : wf st = true) (port retries : Nat) (plan : Plan)
    (hplan : wfPlan retries plan = true) (restC : List ConnScript) (restF : List Bool) :
    (Mindustry.query port retries (Net.init (faultyScript st plan ++ restC) (faultyFaults plan ++ restF))).1
      = faultyExpected st plan
    ∧ sentOf (Mindustry.query port retries (Net.init (faultyScript st plan ++ restC) (faultyFaults plan ++ restF))).2.log
      = faultySends plan :=
  query_faulty st hw port retries plan hplan restC restF

/-- (a) RECOVERY.  `fails` (any number ≤ `retries`, each on a socket of its own: a failed send, or nothing arriving
first) precede the server's reply on the next socket: the query returns exactly `Spec.expected st` — by `C07_mindustry`
the result with no faults —, and the ping was sent `fails.length + 1` times. -/
theorem C10_mindustry_query_recovers (st : State) (hw : wf st = true) (port retries : Nat) (fails : List Attempt)
    (hfails : ∀ a ∈ fails, a.wf = true) (hk : fails.length ≤ retries) (after : List Delivery)
    (restC : List ConnScript) (restF : List Bool) :
    let plan : Plan := ⟨fails, .valid after⟩
    let out := Mindustry.query port retries (Net.init (faultyScript st plan ++ restC) (faultyFaults plan ++ restF))
    out.1 = .ok (expected st)
    ∧ sentOf out.2.log = fails.map (fun a => (pingRequest, a.sendFault)) ++ [(pingRequest, false)]
    ∧ (sentOf out.2.log).length = fails.length + 1 := by
  intro plan out
  have hplan : wfPlan retries plan = true := by
    simp only [wfPlan, plan, Bool.and_eq_true, List.all_eq_true, decide_eq_true_eq]
    exact ⟨hfails, hk⟩
  obtain ⟨h1, h2⟩ := C10_mindustry_query_faulty st hw port retries plan hplan restC restF
  have h2' : sentOf out.2.log = fails.map (fun a => (pingRequest, a.sendFault)) ++ [(pingRequest, false)] := by
    rw [show sentOf out.2.log = _ from h2, faultySends_eq]; rfl
  exact ⟨h1, h2', by rw [h2']; simp⟩

/-- (b) EXHAUSTION.  All `retries + 1` attempts (`retries + 1` sockets) end in a timeout-class failure: the query fails
with the last attempt's error — `PacketReceive`, or `PacketSend` when that attempt was a failed send — after exactly
`retries + 1` pings, whatever the script still holds (no further socket is created: the sent list is complete). -/
theorem C10_mindustry_query_exhausted (st : State) (hw : wf st = true) (port retries : Nat) (fails : List Attempt)
    (hfails : ∀ a ∈ fails, a.wf = true) (hk : fails.length = retries + 1) (restC : List ConnScript)
    (restF : List Bool) :
    let plan : Plan := ⟨fails, .gaveUp⟩
    let out := Mindustry.query port retries (Net.init (faultyScript st plan ++ restC) (faultyFaults plan ++ restF))
    out.1 = .err (lastError Attempt.error fails)
    ∧ (out.1 = .err .packetReceive ∨ out.1 = .err .packetSend)
    ∧ sentOf out.2.log = fails.map (fun a => (pingRequest, a.sendFault))
    ∧ (sentOf out.2.log).length = retries + 1 := by
  intro plan out
  have hplan : wfPlan retries plan = true := by
    simp only [wfPlan, plan, Bool.and_eq_true, List.all_eq_true, beq_iff_eq]
    exact ⟨hfails, hk⟩
  obtain ⟨h1, h2⟩ := C10_mindustry_query_faulty st hw port retries plan hplan restC restF
  have h1' : out.1 = .err (lastError Attempt.error fails) := h1
  have h2' : sentOf out.2.log = fails.map (fun a => (pingRequest, a.sendFault)) := by
    rw [show sentOf out.2.log = _ from h2, faultySends_eq]; simp [plan, Ending.sends]
  refine ⟨h1', ?_, h2', by rw [h2', List.length_map, hk]⟩
  rw [h1']
  have hne : fails ≠ [] := by intro h0; subst h0; simp at hk
  rcases lastError_class fails hne with e | e <;> simp [e]

theorem C10_mindustry_last_error (fails : List Attempt) (a : Attempt) :
    lastError Attempt.error (fails ++ [a]) = (if a.sendFault then .packetSend else .packetReceive) := by
  rw [Mindustry.lastError_append]
  obtain ⟨f, c⟩ := a
  cases f <;> rfl

/-- (c) A MALFORMED REPLY IS NOT RETRIED.  After any number ≤ `retries` of timed-out attempts the datagram that
arrives on the next socket is not a discovery reply — ANY datagram (within the 500-byte buffer) that is empty or whose
first length-prefixed string is not UTF-8 (`Spec.malformed`).  Whatever `retries` is, the query fails at once with
`PacketBad` (not a timeout-class error), no further socket is created and no further ping sent: `fails.length + 1`
in all. -/
theorem C10_mindustry_query_malformed_not_retried (st : State) (hw : wf st = true) (port retries : Nat)
    (fails : List Attempt) (hfails : ∀ a ∈ fails, a.wf = true) (hk : fails.length ≤ retries) (m : Bytes)
    (hm : malformed m = true) (hl : m.length ≤ 500) (after : List Delivery) (restC : List ConnScript)
    (restF : List Bool) :
    let plan : Plan := ⟨fails, .malformed m after⟩
    let out := Mindustry.query port retries (Net.init (faultyScript st plan ++ restC) (faultyFaults plan ++ restF))
    out.1 = .err .packetBad
    ∧ ErrKind.packetBad.isTimeout = false
    ∧ sentOf out.2.log = fails.map (fun a => (pingRequest, a.sendFault)) ++ [(pingRequest, false)]
    ∧ (sentOf out.2.log).length = fails.length + 1 := by
  intro plan out
  have hplan : wfPlan retries plan = true := by
    simp only [wfPlan, plan, Bool.and_eq_true, List.all_eq_true, decide_eq_true_eq]
    exact ⟨hfails, ⟨hk, hm⟩, hl⟩
  obtain ⟨h1, h2⟩ := C10_mindustry_query_faulty st hw port retries plan hplan restC restF
  have h2' : sentOf out.2.log = fails.map (fun a => (pingRequest, a.sendFault)) ++ [(pingRequest, false)] := by
    rw [show sentOf out.2.log = _ from h2, faultySends_eq]; rfl
  exact ⟨h1, rfl, h2', by rw [h2']; simp⟩

/-- (c') A SOCKET THAT CANNOT BE CREATED IS NOT RETRIED either: `SocketBind` is not a timeout-class error; the query
ends there with one ping per earlier attempt. -/
theorem C10_mindustry_query_refused_not_retried (st : State) (hw : wf st = true) (port retries : Nat)
    (fails : List Attempt) (hfails : ∀ a ∈ fails, a.wf = true) (hk : fails.length ≤ retries)
    (restC : List ConnScript) (restF : List Bool) :
    let plan : Plan := ⟨fails, .refused⟩
    let out := Mindustry.query port retries (Net.init (faultyScript st plan ++ restC) (faultyFaults plan ++ restF))
    out.1 = .err .socketBind
    ∧ sentOf out.2.log = fails.map (fun a => (pingRequest, a.sendFault)) := by
  intro plan out
  have hplan : wfPlan retries plan = true := by
    simp only [wfPlan, plan, Bool.and_eq_true, List.all_eq_true, decide_eq_true_eq]
    exact ⟨hfails, hk⟩
  obtain ⟨h1, h2⟩ := C10_mindustry_query_faulty st hw port retries plan hplan restC restF
  refine ⟨h1, ?_⟩
  rw [show sentOf out.2.log = _ from h2, faultySends_eq]
  simp [plan, Ending.sends]

/-! ### non-vacuity: the server of `Props/C07_mindustry.lean` -/

def C10_mindustry_exState : State := ⟨[72, 105], [109], 5, -1, 146, [111], .pvp, 2147483647, [], some [120, 121]⟩

/-- a failed send on a socket for which the peer even holds a datagram, then a socket on which nothing ever arrives -/
abbrev C10_mindustry_exFails : List Attempt := [⟨true, [.data [1, 2]]⟩, ⟨false, []⟩]

-- (a) retries = 2: three sockets, three pings, the state
example (port : Nat) :
    (∀ a ∈ C10_mindustry_exFails, a.wf = true)
    ∧ (faultyScript C10_mindustry_exState ⟨C10_mindustry_exFails, .valid [.silence]⟩).length = 3
    ∧ (Mindustry.query port 2 (Net.init (faultyScript C10_mindustry_exState ⟨C10_mindustry_exFails, .valid [.silence]⟩ ++ [])
        (faultyFaults ⟨C10_mindustry_exFails, .valid [.silence]⟩ ++ []))).1 = .ok (expected C10_mindustry_exState)
    ∧ (sentOf (Mindustry.query port 2 (Net.init
        (faultyScript C10_mindustry_exState ⟨C10_mindustry_exFails, .valid [.silence]⟩ ++ [])
        (faultyFaults ⟨C10_mindustry_exFails, .valid [.silence]⟩ ++ []))).2.log).length = 3 := by
  have hf : ∀ a ∈ C10_mindustry_exFails, a.wf = true := by decide
  have h := C10_mindustry_query_recovers C10_mindustry_exState (by decide) port 2 C10_mindustry_exFails hf (by decide)
    [.silence] [] []
  exact ⟨hf, by decide, h.1, h.2.2⟩

-- (b) retries = 1: two silent sockets: PacketReceive after 2 pings, whatever further sockets the script describes
example (port : Nat) (restC : List ConnScript) :
    (Mindustry.query port 1 (Net.init
      (faultyScript C10_mindustry_exState ⟨[⟨false, [.silence]⟩, ⟨false, [.silence]⟩], .gaveUp⟩ ++ restC)
      (faultyFaults ⟨[⟨false, [.silence]⟩, ⟨false, [.silence]⟩], .gaveUp⟩ ++ []))).1 = .err .packetReceive :=
  (C10_mindustry_query_exhausted C10_mindustry_exState (by decide) port 1 [⟨false, [.silence]⟩, ⟨false, [.silence]⟩]
    (by decide) rfl restC []).1

-- (c) retries = 4: the check's malformed datagram `ff ff` after a silent socket; the empty datagram is malformed too
example (port : Nat) :
    (Mindustry.query port 4 (Net.init
      (faultyScript C10_mindustry_exState ⟨[⟨false, [.silence]⟩], .malformed [0xFF, 0xFF] []⟩ ++ [])
      (faultyFaults ⟨[⟨false, [.silence]⟩], .malformed [0xFF, 0xFF] []⟩ ++ []))).1 = .err .packetBad
    ∧ malformed [] = true :=
  ⟨(C10_mindustry_query_malformed_not_retried C10_mindustry_exState (by decide) port 4 [⟨false, [.silence]⟩] (by decide)
      (by decide) [0xFF, 0xFF] (by decide +kernel) (by decide) [] [] []).1, rfl⟩
