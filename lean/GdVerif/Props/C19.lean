import GdVerif.Lemmas.Cli
/-
  C19 — The CLI prints a well-formed, faithful document or a clean error.   (PARTIAL)

  What is the tool's own logic and is proved here, for every JSON value: the XML converter only emits
  element names that are XML names, its tags are properly nested, escaped text contains no markup
  and no raw control character; and `main` exits non-zero with a message, without a document, on every
  failure.  serde_json, quick-xml's writer (mirrored by `render`), bson, base64/hex, clap and the
  resolver are parameters: checked by running the real binary (`props/c19.py`), not proved.
-/
open Gd Gd.Cli
/-- For EVERY JSON value (any keys: spaces, markup, leading digits, control characters, empty): every
element the converter opens, closes or writes empty has a name that is an XML name. -/
theorem C19_xml_element_names_are_names (j : J) : ∀ e ∈ documentEvents j, evNameOk e = true := by
  intro e he
  simp only [documentEvents, List.mem_append, List.mem_singleton, List.mem_cons, List.not_mem_nil, or_false] at he
  rcases he with (rfl | he) | rfl
  · decide
  · exact names_json none j e he
  · decide

/-- For EVERY JSON value the document's tags are properly nested: every end tag closes the element
that is open, and nothing is left open at the end. -/
theorem C19_xml_tags_nested (j : J) : nest (documentEvents j) [] = some [] := by
  have := nest_append_start_end dataName none (jsonToXml none j) [] [] (fun st' => nest_json none j _ st')
  simpa [documentEvents, nest] using this

/-- Escaping: for every Unicode scalar value, what is written for it contains no `<`, and no raw
control character except TAB / LF in element text; in an attribute value neither `"` nor TAB / LF either. -/
theorem C19_escape_has_no_markup (isAttr : Bool) (c : Nat) (hc : c < 0x110000) :
    (60 : UInt8) ∉ escapeScalar isAttr c
    ∧ (∀ b ∈ escapeScalar isAttr c, b.toNat < 32 → (isAttr = false ∧ (b.toNat = 9 ∨ b.toNat = 10)))
    ∧ (isAttr = true → (34 : UInt8) ∉ escapeScalar isAttr c) := by
  -- every byte written for `c` is either `c` itself (ASCII) or ≥ 0x80, or belongs to an ASCII reference
  have hutf := utf8EncodeChar_bytes c hc
  have hfffd := utf8EncodeChar_bytes 0xFFFD (by omega)
  have href : c < 256 → ∀ b ∈ asciiBytes "&#x" ++ hexUpper c ++ asciiBytes ";", b.toNat ≥ 35 ∧ b.toNat ≠ 60 := by
    intro hc256 b hb
    simp only [List.mem_append] at hb
    rcases hb with (hb | hb) | hb
    · revert b; decide
    · exact hexUpper_bytes c hc256 b hb
    · revert b; decide
  unfold escapeScalar
  split
  · exact harmless_of_all isAttr _ (by decide)
  split
  · exact harmless_of_all isAttr _ (by decide)
  split
  · exact harmless_of_all isAttr _ (by decide)
  split
  · exact harmless_of_all isAttr _ (by decide)
  split
  · exact harmless_of_all isAttr _ (by decide)
  rename_i h38 h60 h62 h34 h39
  simp only [beq_iff_eq] at h38 h60 h62 h34 h39
  split
  · -- NUL → U+FFFD
    refine ⟨fun hm => ?_, fun b hb hlt => ?_, fun _ hm => ?_⟩
    · rcases hfffd _ hm with h | h <;> simp at h <;> omega
    · rcases hfffd _ hb with h | h <;> omega
    · rcases hfffd _ hm with h | h <;> simp at h <;> omega
  rename_i h0
  split
  · -- TAB / LF in element text
    rename_i htl
    simp only [Bool.and_eq_true, Bool.or_eq_true, beq_iff_eq, Bool.not_eq_true'] at htl
    refine ⟨fun hm => ?_, fun b hb hlt => ?_, fun ha => by simp [ha] at htl⟩
    · rcases hutf _ hm with h | h <;> simp at h <;> omega
    · rcases hutf _ hb with h | h
      · exact ⟨htl.2, by omega⟩
      · omega
  split
  · -- other control characters: a character reference
    rename_i hctl
    have hc256 : c < 256 := by
      simp only [isControl, Bool.or_eq_true, Bool.and_eq_true, decide_eq_true_eq] at hctl
      omega
    refine ⟨fun hm => ?_, fun b hb hlt => ?_, fun _ hm => ?_⟩
    · have := (href hc256 _ hm).2; simp at this
    · have := (href hc256 _ hb).1; omega
    · have := (href hc256 _ hm).1; simp at this
  · -- everything else: the character itself
    rename_i hctl
    simp only [isControl, Bool.or_eq_true, Bool.and_eq_true, decide_eq_true_eq, not_or, not_and, Nat.not_lt] at hctl
    refine ⟨fun hm => ?_, fun b hb hlt => ?_, fun _ hm => ?_⟩
    · rcases hutf _ hm with h | h <;> simp at h <;> omega
    · rcases hutf _ hb with h | h <;> omega
    · rcases hutf _ hm with h | h <;> simp at h <;> omega

/-- `main`: every failure — invalid flag, unknown game, unresolvable host, failed query, value that
cannot be serialised — gives a non-zero exit status and a message and prints no document; only
complete success prints a document and exits 0. -/
theorem C19_exit_status (flagsOk gameKnown hostResolves queryOk serialisesOk : Bool) :
    let o := mainOutcome flagsOk gameKnown hostResolves queryOk serialisesOk
    ((flagsOk && gameKnown && hostResolves && queryOk && serialisesOk) = true → o = ⟨0, true, false⟩)
    ∧ ((flagsOk && gameKnown && hostResolves && queryOk && serialisesOk) = false → o.exitCode ≠ 0 ∧ o.document = false ∧ o.message = true) := by
  cases flagsOk <;> cases gameKnown <;> cases hostResolves <;> cases queryOk <;> cases serialisesOk <;> decide

-- non-vacuity: a value with a key that is not an XML name, a control character and markup in text
example : renderDocument (.obj (.cons (asciiBytes "sv tags") (.str [60, 1, 38]) (.cons (asciiBytes "ok") (.num (asciiBytes "5")) .nil)))
    = asciiBytes "<?xml version=\"1.1\" encoding=\"utf-8\"?><data><entry key=\"sv tags\">&lt;&#x1;&amp;</entry><ok>5</ok></data>" := by
  decide

