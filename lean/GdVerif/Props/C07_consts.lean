import GdVerif.Gen.Consts
import GdVerif.Lemmas.Consts
import GdVerif.Spec.Battalion
import GdVerif.Spec.Jc2m
import GdVerif.Spec.Savage2
import GdVerif.Spec.Mindustry
import GdVerif.Spec.Ffow
import GdVerif.Spec.Eco
import GdVerif.Run.EcoJson
/-
  C07 — the names and numbers of the single-game parsers: SOURCE = MODEL = SPEC (tie by TRANSLATION).

  Battalion 1944 `bat_*` override keys (with the field each overrides), the JC2M typed variables, the cursor moves of
  FFOW and Savage 2, the Mindustry game-mode numbers, the Eco serde rename list (JSON member ↦ struct field, type).
  `Gd.Gen.Consts.*` is regenerated from the source on every run.
-/
open Gd Gd.Gen Gd.ConstsAux

/-! ### Battalion 1944 -/

/-- the `bat_*` keys of `battalion1944::query`, in order, with the `info` field each overrides (the last one is only
removed) = the model's keys -/
theorem C07_consts_battalion_keys :
    [(Battalion.kMaxPlayers, "players_maximum"), (Battalion.kPlayerCount, "players_online"),
     (Battalion.kHasPassword, "has_password"), (Battalion.kName, "name"), (Battalion.kGamemode, "game_mode"),
     (Battalion.kMap, "")] = Consts.battalion_overrides.map (fun p => (asciiBytes p.1, p.2)) := by decide

/-- … used by `overrides` for those fields, the password flag being `== "Y"` -/
theorem C07_consts_battalion_overrides (x : Valve.ServerInfo × Valve.Rules) :
    Battalion.overrides x = (do
      let x ← Battalion.stepNum Battalion.kMaxPlayers (fun i n => { i with playersMaximum := n }) x
      let x ← Battalion.stepNum Battalion.kPlayerCount (fun i n => { i with playersOnline := n }) x
      let x := Battalion.stepVal Battalion.kHasPassword
                (fun i v => { i with hasPassword := v == asciiBytes Consts.battalion_password_yes }) x
      let x := Battalion.stepVal Battalion.kName (fun i v => { i with name := v }) x
      let x := Battalion.stepVal Battalion.kGamemode (fun i v => { i with gameMode := v }) x
      pure (x.1, Valve.mapRemove x.2 Battalion.kMap)) := rfl

/-- SPEC: the keys that do not stay among the rules -/
theorem C07_consts_battalion_spec_keys :
    Battalion.Spec.batKeys = keys (Consts.battalion_overrides.map (·.1)) := by decide

/-! ### JC2M -/

/-- the variables `jc2m::query_with_timeout` takes (`numplayers` inside `Gs3.takeOnline`, `password` through
common.rs) = `Jc2m.buildResponse` -/
theorem C07_consts_jc2m_typed_keys (packets : List Bytes) (vars : Gs3.Vars) (listed : Nat) :
    Jc2m.buildResponse packets = (do
      let first ← okOr packets.head? .packetBad
      let (vars, remaining) ← Gs3.dataToMap first
      let players ← Jc2m.parsePlayers.run remaining
      let (maxText, vars) ← Gs3.takeReq vars (Consts.jc2m_typed_keys.getD 0 "")
      let playersMaximum ← Gs3.parseU 32 maxText
      let (playersOnline, vars) ← Gs3.takeOnline vars players.length
      let (gameVersion, vars) ← Gs3.takeReq vars (Consts.jc2m_typed_keys.getD 2 "")
      let (description, vars) ← Gs3.takeReq vars (Consts.jc2m_typed_keys.getD 3 "")
      let (name, vars) ← Gs3.takeReq vars (Consts.jc2m_typed_keys.getD 4 "")
      let (hasPassword, _) ← Gs3.hasPassword vars
      pure { gameVersion, description, name, hasPassword, players, playersMaximum, playersOnline })
    ∧ Gs3.takeOnline vars listed = (match Gs3.mapTake vars (asciiBytes (Consts.jc2m_typed_keys.getD 1 "")) with
      | (none, vars') => .ok (listed % 2 ^ 32, vars')
      | (some v, vars') => do
        let reported ← Gs3.parseU 64 v
        pure ((if reported < listed then listed else reported) % 2 ^ 32, vars'))
    ∧ Consts.jc2m_typed_keys.getD 5 "" = Consts.gs_password_key
    ∧ Consts.jc2m_typed_keys.length = 6 := ⟨rfl, rfl, rfl, rfl⟩

/-- SPEC: the response fields come from the same variables -/
theorem C07_consts_jc2m_spec_keys (st : Jc2m.Spec.State) :
    Jc2m.Spec.expected st =
      { gameVersion := (Jc2m.Spec.var st (Consts.jc2m_typed_keys.getD 2 "")).getD []
        description := (Jc2m.Spec.var st (Consts.jc2m_typed_keys.getD 3 "")).getD []
        name := (Jc2m.Spec.var st (Consts.jc2m_typed_keys.getD 4 "")).getD []
        hasPassword := Gs3.Spec.flagOf ((Jc2m.Spec.var st (Consts.jc2m_typed_keys.getD 5 "")).getD [])
        players := st.players
        playersMaximum := Gs3.Spec.numOf 32 (Jc2m.Spec.var st (Consts.jc2m_typed_keys.getD 0 ""))
        playersOnline := max (Gs3.Spec.numOf 64 (Jc2m.Spec.var st (Consts.jc2m_typed_keys.getD 1 ""))) st.players.length } := rfl

/-! ### FFOW, Savage 2 -/

/-- FFOW: `buffer.move_cursor(2)` after the version, `move_cursor(1)` (average fps) after the VAC flag -/
theorem C07_consts_ffow_skips :
    Ffow.parseResponse = (do
      let protocolVersion ← readU8
      let name ← readCStr
      let map ← readCStr
      let activeMod ← readCStr
      let gameMode ← readCStr
      let description ← readCStr
      let gameVersion ← readCStr
      moveCursor (Consts.ffow_skips.getD 0 0 : Nat)
      let playersOnline ← readU8
      let playersMaximum ← readU8
      let st ← readU8
      let serverType ← Par.lift (Valve.serverFromGldsrc st)
      let et ← readU8
      let environmentType ← Par.lift (Valve.environmentFromGldsrc et)
      let hasPassword ← Valve.readBoolByte
      let vacSecured ← Valve.readBoolByte
      moveCursor (Consts.ffow_skips.getD 1 0 : Nat)
      let round ← readU8
      let roundsMaximum ← readU8
      let timeLeft ← readUnsigned .big 2
      pure { protocolVersion, name, activeMod, gameMode, gameVersion, description, map, playersOnline, playersMaximum,
             serverType, environmentType, hasPassword, vacSecured, round, roundsMaximum, timeLeft })
    ∧ Consts.ffow_skips.length = 2 := ⟨rfl, rfl⟩

/-- Savage 2: `buffer.move_cursor(12)`: the header in front of the server name -/
theorem C07_consts_savage2_header_skip :
    Savage2.parseResponse = (do
      moveCursor (Consts.savage2_header_skip : Nat)
      let name ← readCStr
      let playersOnline ← readU8
      let playersMaximum ← readU8
      let time ← readCStr
      let map ← readCStr
      let nextMap ← readCStr
      let location ← readCStr
      let playersMinimum ← readU8
      let gameMode ← readCStr
      let protocolVersion ← readCStr
      let levelMinimum ← readU8
      pure { name, playersOnline, playersMaximum, playersMinimum, time, map, nextMap, location, gameMode,
             protocolVersion, levelMinimum }) := rfl

/-! ### Mindustry -/

/-- `impl TryFrom<u8> for GameMode` = `Mindustry.gameModeOf` (as a table over all bytes) = the SPEC's ordinals -/
theorem C07_consts_mindustry_game_modes :
    graph Mindustry.gameModeOf mindustryModeName = Consts.mindustry_game_modes
    ∧ ∀ m : Mindustry.GameMode, (Mindustry.Spec.ordinal m, mindustryModeName m) ∈ Consts.mindustry_game_modes := by
  refine ⟨by decide, fun m => ?_⟩
  cases m <;> decide

/-! ### Eco -/

/-- SPEC: the members of `Info`, in order, are the `#[serde(rename = …)]` names of the source — for every state -/
theorem C07_consts_eco_member_names (st : Eco.Spec.State) :
    (Eco.Spec.members st).map (·.1) = keys (Consts.eco_info_members.map (·.1)) := by
  simp only [Eco.Spec.members, List.map_cons, List.map_nil]
  decide

/-- SPEC: the document is `{"Info": {…}}` (`Root`'s rename) -/
theorem C07_consts_eco_root_member (st : Eco.Spec.State) :
    Eco.Spec.render st = Eco.Spec.jobj [(asciiBytes Consts.eco_root_member, Eco.Spec.jobj (Eco.Spec.members st))] := rfl

/-- the Rust type of a member as the mirror's type tag -/
def C07_consts_tyOf (t : String) : Option Run.EcoJson.Ty :=
  if t == "bool" then some .bool else if t == "u32" then some .u32 else if t == "f64" then some .f64
  else if t == "String" then some .str else if t == "Vec<String>" then some .strs
  else if t == "HashMap<String,String>" then some .map else none

/-- the serde mirror the correspondence runs behind (`Run/EcoJson.lean`, the driver's instance of the serde parameter
of the MODEL): member names and types in declaration order are the source's -/
theorem C07_consts_eco_mirror_fields :
    Run.EcoJson.infoFields.map (fun f => (f.1, some f.2))
      = Consts.eco_info_members.map (fun m => (m.1, C07_consts_tyOf m.2.2)) := by decide

example : Consts.eco_info_members.length = 37 := by decide
example : Consts.battalion_overrides.length = 6 := by decide
