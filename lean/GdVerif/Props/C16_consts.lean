import GdVerif.Gen.Consts
import GdVerif.Lemmas.Consts
import GdVerif.Proto.Master
import GdVerif.Spec.Master
/-
  C16 — the texts of the master-server request and reply: SOURCE = MODEL = SPEC (tie by TRANSLATION).

  The key of each of the 18 filters with the way its value is written, the `nand` / `nor` group names, the characters
  for booleans, the tag separator and the terminator, the region codes, the reply header.
  `Gd.Gen.Consts.*` is regenerated from services/valve_master_server/{types,service}.rs on every run.
-/
open Gd Gd.Gen Gd.ConstsAux

/-- the model's filter for a variant of `enum Filter`, with a sample value of its kind: `true`, `7`, `x`, tags `a`, `b` -/
def C16_consts_sample (variant : String) : Option Master.Filter :=
  if variant == "IsSecured" then some (.isSecured true) else if variant == "RunsMap" then some (.runsMap [120])
  else if variant == "CanHavePassword" then some (.canHavePassword true) else if variant == "CanBeEmpty" then some (.canBeEmpty true)
  else if variant == "IsEmpty" then some (.isEmpty true) else if variant == "CanBeFull" then some (.canBeFull true)
  else if variant == "RunsAppID" then some (.runsAppID 7) else if variant == "NotAppID" then some (.notAppID 7)
  else if variant == "HasTags" then some (.hasTags [[97], [98]]) else if variant == "MatchName" then some (.matchName [120])
  else if variant == "MatchVersion" then some (.matchVersion [120]) else if variant == "RestrictUniqueIP" then some (.restrictUniqueIP true)
  else if variant == "OnAddress" then some (.onAddress [120]) else if variant == "Whitelisted" then some (.whitelisted true)
  else if variant == "SpectatorProxy" then some (.spectatorProxy true) else if variant == "IsDedicated" then some (.isDedicated true)
  else if variant == "RunsLinux" then some (.runsLinux true) else if variant == "HasGameDir" then some (.hasGameDir [120])
  else none

/-- how the sample value of a kind is written -/
def C16_consts_sampleText (kind : String) : Bytes :=
  if kind == "bool" then [UInt8.ofNat (num Consts.master_text_bytes "true")] else if kind == "number" then [55]
  else if kind == "text" then [120] else if kind == "tags" then [97, UInt8.ofNat (num Consts.master_text_bytes "tag_separator"), 98]
  else []

/-- `Filter::to_bytes`: for every arm of the source, the model writes the same `\key\` followed by the value -/
theorem C16_consts_master_filter_keys :
    Consts.master_filter_keys.map (fun f => (C16_consts_sample f.1).map Master.Filter.toBytes)
      = Consts.master_filter_keys.map (fun f => some (asciiBytes f.2.1 ++ C16_consts_sampleText f.2.2)) := by decide

/-- the variants of `enum Filter` in declaration order are the model's constructors in the order of `Filter.kind`
(`mem::discriminant`), and `to_bytes` has an arm for each -/
theorem C16_consts_master_filter_variants :
    Consts.master_filter_variants.map (fun v => (C16_consts_sample v).map Master.Filter.kind) = (List.range 18).map some
    ∧ sameSet (keys Consts.master_filter_variants) (keys (Consts.master_filter_keys.map (·.1))) = true := by decide

/-- `bool_as_char_u8`, the `,` between tags, the NUL after the filters -/
theorem C16_consts_master_text_bytes :
    Master.boolChar true = [UInt8.ofNat (num Consts.master_text_bytes "true")]
    ∧ Master.boolChar false = [UInt8.ofNat (num Consts.master_text_bytes "false")]
    ∧ Master.joinTags [[1], [2], [3]] = [1, UInt8.ofNat (num Consts.master_text_bytes "tag_separator"), 2,
        UInt8.ofNat (num Consts.master_text_bytes "tag_separator"), 3]
    ∧ Master.toBytesOrdered [] [] [] = [UInt8.ofNat (num Consts.master_text_bytes "terminator")]
    ∧ (Master.Filter.hasTags []).toBytes = [] := by decide

/-- `special_filter_to_bytes("\\nand\\" / "\\nor\\", …)`: the group markers of the model and of the SPEC's grammar -/
theorem C16_consts_master_group_names :
    Master.toBytesOrdered [] [.runsMap [120]] [.runsMap [121], .isSecured false]
      = asciiBytes (Consts.master_group_names.getD 0 "") ++ [49] ++ (Master.Filter.runsMap [120]).toBytes
        ++ asciiBytes (Consts.master_group_names.getD 1 "") ++ [50] ++ (Master.Filter.runsMap [121]).toBytes
        ++ (Master.Filter.isSecured false).toBytes ++ [0]
    ∧ [0x5c] ++ Master.Spec.nandKey ++ [0x5c] = asciiBytes (Consts.master_group_names.getD 0 "")
    ∧ [0x5c] ++ Master.Spec.norKey ++ [0x5c] = asciiBytes (Consts.master_group_names.getD 1 "")
    ∧ Consts.master_group_names.length = 2 := by decide

/-- `enum Region`: every code is a byte (so `[region as u8]` = the model's `UInt8.ofNat region`), and the codes are the
nine the request generators iterate over (props/c16.py `REGIONS`, Run/GenMaster) -/
theorem C16_consts_master_regions :
    (∀ r ∈ Consts.master_regions, r.2 < 256)
    ∧ Consts.master_regions.map (·.2) = [0, 1, 2, 3, 4, 5, 6, 7, 255] := by decide

/-- the reply page: `u32::MAX` then `26122` (`66 0A`) in front of the entries -/
theorem C16_consts_master_reply_header :
    Master.parsePage = (do
      let h ← readUnsigned .big 4
      if h != Consts.master_reply_header.getD 0 0 then Par.fail .packetBad
      else do
        let k ← readUnsigned .big 2
        if k != Consts.master_reply_header.getD 1 0 then Par.fail .packetBad
        else fun b => Master.parseEntries (b.remaining + 1) b)
    ∧ Consts.master_reply_header.length = 2 := ⟨rfl, rfl⟩

/-- SPEC: a request starts with the source's first byte and its seed ends at the source's terminator (the reference
reader accepts the model's payload for the source's frame) -/
theorem C16_consts_master_spec_frame :
    Master.Spec.parse (Consts.master_payload_frame.getD 0 [] ++ [3] ++ asciiBytes "0.0.0.0"
        ++ Consts.master_payload_frame.getD 1 [] ++ [48] ++ Consts.master_payload_frame.getD 2 []
        ++ Consts.master_payload_frame.getD 3 [])
      = some ⟨3, asciiBytes "0.0.0.0:0", [], [], []⟩ := by decide

example : Consts.master_filter_keys.length = 18 := by decide
