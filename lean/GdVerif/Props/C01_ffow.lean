import GdVerif.Lemmas.Ffow
/-
  C01 — hostile replies never crash or hang a query: Frontlines: Fuel of War (`games::ffow::query_with_timeout`).
-/
open Gd

/-- For EVERY script, port, retry count, send-fault vector and behaviour of the external decoders the FFOW query
returns a response or an error, never a crash.  This includes the fuel of the shared challenge loop: it is the
number of queued deliveries + 1 and is shown to suffice (each further round consumes a delivery). -/
theorem C01_ffow (ext : Valve.Ext) (port retries : Nat) (script : List ConnScript) (faults : List Bool) :
    (Ffow.query ext port retries (Net.init script faults)).1 ≠ .crash :=
  (Ffow.query_safe ext port retries (Net.init script faults)).1

/-- The reply parser alone, on any bytes. -/
theorem C01_ffow_parser (data : Bytes) : Ffow.parseResponse.run data ≠ .crash :=
  Ffow.safe_parseResponse.run_ne_crash data

-- non-vacuity: endless challenges end when the script does; a truncated reply is an error
example : (Ffow.query ⟨fun _ => none, fun _ => 0⟩ 5478 1
    (Net.init [.opened [.data [0xFF, 0xFF, 0xFF, 0xFF, 0x41, 1, 2, 3, 4], .data [0xFF, 0xFF, 0xFF, 0xFF, 0x41, 9], .data [0xFF, 0xFF, 0xFF, 0xFF, 0x49, 7]]] [])).1
      = .err .packetBad := by
  decide

