import GdVerif.Lemmas.ValveCost
/-
  C13 (requests sent) — Valve.
-/
open Gd Gd.Valve

/-- Whatever the server does, the Valve query sends at most one datagram per attempt of each of
its three requests (`3 · (retries + 1)`) plus one per datagram it successfully received (the
challenge echoes): the number of requests is bounded by the retry setting and the number of
datagrams received. -/
theorem C13_valve_send_bound (ext : Ext) (port : Nat) (engine : Engine) (g : Gather) (retries : Nat)
    (script : List ConnScript) (faults : List Bool) :
    nSends (query ext port engine g retries (Net.init script faults)).2.log
      ≤ 3 * (retries + 1) + nRecvOk (query ext port engine g retries (Net.init script faults)).2.log := by
  rw [query_eq, Q.bind_apply]
  have hbody := fun s w => cost_queryBody ext s engine g retries w
  have key : ∀ (s : Sock) (w0 : Net) (ev : Ev), w0.log = [ev] → isSend ev = false → isRecvOk ev = false →
      nSends (queryBody ext s engine g retries w0).2.log
        ≤ 3 * (retries + 1) + nRecvOk (queryBody ext s engine g retries w0).2.log := by
    intro s w0 ev hlog hs hr
    obtain ⟨added, hl, hc⟩ := hbody s w0
    rw [hl, hlog, nSends_append, nRecvOk_append]
    have h1 : nSends [ev] = 0 := by simp [nSends, hs]
    have h2 : nRecvOk [ev] = 0 := by simp [nRecvOk, hr]
    rw [h1, h2]
    cases hres : (queryBody ext s engine g retries w0).1 <;> rw [hres] at hc <;> simp only at hc <;> omega
  cases hp : (Net.init script faults).pending with
  | nil =>
    simp only [openSock, hp]
    exact key _ _ _ rfl rfl rfl
  | cons c rest =>
    cases c with
    | opened ds =>
      simp only [openSock, hp]
      exact key _ _ _ rfl rfl rfl
    | refused =>
      simp only [openSock, hp]
      simp [Net.init, nSends, nRecvOk, isSend]

/-- The same bound for a single request with its challenge rounds: one send per attempt plus one
per datagram received. -/
theorem C13_valve_request_bound (ext : Ext) (s : Sock) (r : Nat) (engine : Engine) (protocol : Nat) (req : Request)
    (w : Net) : ∃ added, (requestData ext s r engine protocol req w).2.log = w.log ++ added
      ∧ nSends added ≤ (r + 1) + nRecvOk added := by
  obtain ⟨added, hl, hc⟩ := cost_requestData ext s r engine protocol req w
  refine ⟨added, hl, ?_⟩
  cases hres : (requestData ext s r engine protocol req w).1 <;> rw [hres] at hc <;> simp only at hc <;> omega
