import GdVerif.Gen.Consts
import GdVerif.Lemmas.Consts
import GdVerif.Props.C13
import GdVerif.Proto.Gs1
import GdVerif.Proto.Gs2
import GdVerif.Proto.Gs3
import GdVerif.Proto.Quake
import GdVerif.Proto.Master
/-
  C13 — the size constants of the SOURCE are the ones the MODEL and the classification table use (tie by TRANSLATION).

  Receive-buffer sizes (every `socket.receive(Some(n))` / `None`), the Unreal 2 pre-allocation constants, the Valve
  decompression bound, the HTTP response bound.  `Gd.Gen.Consts.*` is regenerated from the source on every run.
-/
open Gd Gd.Gen Gd.ConstsAux

/-- every receive-buffer size of the source is the model's, and none exceeds a datagram (`C13.maxDatagram`, the bound
under which `C13_single_request_datagram` is stated) -/
theorem C13_consts_receive_sizes :
    [Valve.PACKET_SIZE, Gs1.PACKET_SIZE, Gs2.PACKET_SIZE, Gs3.PACKET_SIZE, Quake.PACKET_SIZE, Unreal2.PACKET_SIZE,
     Mindustry.MAX_BUFFER_SIZE]
      = [Consts.valve_packet_size, Consts.gs1_packet_size, Consts.gs2_packet_size, Consts.gs3_packet_size,
         Consts.quake_packet_size, Consts.unreal2_packet_size, Consts.mindustry_max_buffer_size]
    ∧ ∀ n ∈ [Consts.valve_packet_size, Consts.gs1_packet_size, Consts.gs2_packet_size, Consts.gs3_packet_size,
             Consts.gs3_handshake_receive.getD 0 0, Consts.quake_packet_size, Consts.unreal2_packet_size,
             Consts.mindustry_max_buffer_size, Consts.master_receive_size, Consts.socket_default_packet_size],
        n ≤ C13.maxDatagram := by decide

/-- Unreal 2: `num_players.unwrap_or(DEFAULT).min(MAXIMUM)` never exceeds the maximum, which is the cap of the table
entry of that site (and of the two `Players::with_capacity` vectors: players, bots = half) -/
theorem C13_consts_unreal2_preallocation (announced : Option Nat) :
    min (announced.getD Consts.unreal2_default_player_preallocation) Consts.unreal2_maximum_player_preallocation
      ≤ Consts.unreal2_maximum_player_preallocation
    ∧ C13.classOf 54424510 = some (.clamped Consts.unreal2_maximum_player_preallocation 128)
    ∧ C13.classOf 1041756046 = some (.param Consts.unreal2_maximum_player_preallocation 128)
    ∧ C13.classOf 3909279960 = some (.param (Consts.unreal2_maximum_player_preallocation / 2) 128) :=
  ⟨Nat.min_le_right _ _, by decide, by decide, by decide⟩

/-- Valve: `decompressed_size.min(MAX_DECOMPRESSED_SIZE) + 1` is the limit the table entries of `get_payload` carry,
and the model's bound -/
theorem C13_consts_valve_max_decompressed :
    Valve.maxDecompressedSize = Consts.valve_max_decompressed_size
    ∧ C13.classOf 2080138757 = some (.drained (Consts.valve_max_decompressed_size + 1))
    ∧ C13.classOf 2449476907 = some (.clamped (Consts.valve_max_decompressed_size + 1) 1) := by decide

/-- HTTP: `MAX_RESPONSE_LENGTH` (1 GiB) is beyond the allowance of one request, which is why the three sites of
`HttpClient::request` are only acceptable as unreachable from a query -/
theorem C13_consts_http_max_response_length :
    10 * C13.MiB < Consts.http_max_response_length
    ∧ C13.classOf 966780026 = some .unreachable ∧ C13.classOf 717832595 = some .unreachable
    ∧ C13.classOf 1531723834 = some .unreachable := by decide

example : min ((some 100000).getD Consts.unreal2_default_player_preallocation) Consts.unreal2_maximum_player_preallocation = 50 := by
  decide
