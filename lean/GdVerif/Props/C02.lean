import GdVerif.Lemmas.Valve
/-
  C02 — Valve A2S replies are decoded field for field.

  MODEL: `GdVerif/Proto/Valve.lean` (tied to protocols/valve by `props/c02.py` on every run).
  SPEC:  `GdVerif/Spec/Valve.lean` (encoders written from Valve's "Server queries" page).
-/
open Gd Gd.Valve Gd.Valve.Spec

/-- `A2S_INFO`, Source layout: for every server state in the specification's domain (all 32
extra-data flag combinations, either case of the type bytes, The Ship fields exactly when the
engine is The Ship's), parsing the specified encoding returns the state, field for field. -/
theorem C02_info_source (engine : Engine) (upper : Bool) (i : ServerInfo)
    (h : wfSourceInfo engine i = true) :
    (parseSourceInfo engine).run (encSourceInfo upper i) = .ok i :=
  (decodesEnd_sourceInfo engine upper i h).run

/-- `A2S_INFO`, obsolete GoldSrc layout (with and without mod data). -/
theorem C02_info_goldsrc (address : Bytes) (i : ServerInfo) (h : wfGoldSrcInfo address i = true) :
    parseGoldSrcInfo.run (encGoldSrcInfo address i) = .ok i :=
  (decodes_goldSrcInfo address i h).run

/-- `A2S_PLAYER`: every player (0–255 of them), in order, with The Ship's extra fields exactly
when the engine is The Ship's. -/
theorem C02_players (engine : Engine) (ps : List ServerPlayer) (hl : ps.length < 256)
    (h : ∀ p ∈ ps, wfPlayer (engine == Engine.new 2400) p = true) :
    (parsePlayers engine).run (encPlayers ps) = .ok ps :=
  (decodes_players engine ps hl h).run

/-- `A2S_RULES`: every rule (0–65535, distinct names) under its name; for Risk of Rain 2 the rule
`Test` is dropped, as documented. -/
theorem C02_rules (engine : Engine) (rs : Rules) (hl : rs.length < 65536)
    (h : ∀ r ∈ rs, okStr r.1 = true ∧ okStr r.2 = true) (hd : distinctKeys rs = true) :
    (parseRules engine).run (encRules rs) = .ok (expectedRules engine rs) :=
  (decodes_rules engine rs hl h hd).run

/-- The extra-data block alone, for all 32 flag subsets: the app id is taken from the low 24 bits
of the GameID when that is present and from the 16-bit field otherwise. -/
theorem C02_extra_data (a16 : Nat) (e : ExtraData) (hw : wfExtra e = true) :
    (parseExtra a16).run (encExtra e)
      = .ok (some e, match e.gameId with
          | some gid => gid % 2 ^ 24
          | none => a16) := by
  have := decodesEnd_extra a16 (some e) (match e.gameId with | some gid => gid % 2 ^ 24 | none => a16)
    (by simpa using hw) (by cases hg : e.gameId <;> simp [hg])
  exact this.run

-- non-vacuity: a concrete state with all five extra-data fields satisfies the hypotheses and decodes
example :
    let i : ServerInfo := ⟨17, [84, 70, 50], [99, 112], [116, 102], [84, 70], 440, 3, 24, 1,
      .dedicated, .linux, false, true, none, [49], some ⟨some 27015, some 5, some 27020, some [116, 118],
        some [97, 44, 98], some (440 + 2 ^ 24 * 9)⟩, false, none⟩
    wfSourceInfo (Engine.new 440) i = true ∧ (parseSourceInfo (Engine.new 440)).run (encSourceInfo false i) = .ok i := by
  decide
