import GdVerif.Lemmas.SmallCost
import GdVerif.Lemmas.SmallBlock
/-
  C13 (requests sent) — Just Cause 2: Multiplayer (the GameSpy 3 exchange in single-packet mode).
  `units` = 1: the data request is sent only after the challenge reply has been received.
-/
open Gd Gd.Jc2m

/-- At most one datagram per attempt plus one per datagram received, for every script, fault vector,
port and retry setting. -/
theorem C13_jc2m_send_bound (port : Option Nat) (retries : Nat) (script : List ConnScript) (faults : List Bool) :
    nSends (query port retries (Net.init script faults)).2.log
      ≤ 1 * (retries + 1) + nRecvOk (query port retries (Net.init script faults)).2.log := by
  have := (cost_query port retries).total script faults
  omega

/-- … and never more than two per attempt. -/
theorem C13_jc2m_send_bound_abs (port : Option Nat) (retries : Nat) (script : List ConnScript) (faults : List Bool) :
    nSends (query port retries (Net.init script faults)).2.log ≤ 2 * (retries + 1) :=
  (sends_query port retries).total script faults

/-- The first bound is attained for every retry setting by a server that never answers. -/
theorem C13_jc2m_send_bound_attained (port : Option Nat) (retries : Nat) :
    nSends (query port retries (Net.init [] [])).2.log = retries + 1
      ∧ nRecvOk (query port retries (Net.init [] [])).2.log = 0 :=
  ⟨(silent_query port retries (Net.init [] []) rfl rfl).counts.2.1,
   (silent_query port retries (Net.init [] []) rfl rfl).counts.2.2.2.1⟩

/-- both are attained by a server that answers the handshakes only (one retry): 4 = 2 · 2 = 2 + 2 -/
example :
    nSends (query none 1 (Net.init [.opened [.data [9, 0, 0, 0, 1, 48, 0], .silence, .data [9, 0, 0, 0, 1, 48, 0], .silence]] [])).2.log = 4
    ∧ nRecvOk (query none 1 (Net.init [.opened [.data [9, 0, 0, 0, 1, 48, 0], .silence, .data [9, 0, 0, 0, 1, 48, 0], .silence]] [])).2.log = 2 := by
  decide
