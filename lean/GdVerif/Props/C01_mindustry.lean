import GdVerif.Lemmas.Mindustry
/-
  C01 — hostile replies never crash or hang a query: Mindustry (`games::mindustry::query`).
-/
open Gd

/-- For EVERY script (any number of sockets, each refused or delivering any datagrams / silences, any send
faults), port and retry count the Mindustry query returns a response or an error, never a crash.  The model
is a total function (no fuel anywhere: one datagram per attempt, at most `retries + 1` attempts). -/
theorem C01_mindustry (port retries : Nat) (script : List ConnScript) (faults : List Bool) :
    (Mindustry.query port retries (Net.init script faults)).1 ≠ .crash :=
  ((Mindustry.logSafe_query port retries).run script faults).1

/-- The reply parser alone, on any bytes. -/
theorem C01_mindustry_parser (data : Bytes) : Mindustry.parseServerData.run data ≠ .crash :=
  Mindustry.safe_parseServerData.run_ne_crash data

/-- It also cannot hang: at most `retries + 1` datagrams are ever sent, whatever the server does. -/
theorem C01_mindustry_bounded (port retries : Nat) (script : List ConnScript) (faults : List Bool) :
    countSends (Mindustry.query port retries (Net.init script faults)).2.log ≤ retries + 1 :=
  Mindustry.sends_query port retries script faults

-- non-vacuity: the pre-fix witness of DESIGN §6 (length byte 0xC8 with two bytes present) is in the quantifier
example : (Mindustry.query 6567 0 (Net.init [.opened [.data [0xC8, 0x41, 0x42]]] [])).1 = .err .packetBad := by
  decide
