import GdVerif.Lemmas.TheShip
/-
  C01 — hostile replies never crash or hang a query: The Ship (`games::theship::query_with_timeout`).
-/
open Gd

/-- For EVERY script, port, retry count, send-fault vector and behaviour of the bzip2/CRC decoders The Ship's
query (a Valve query with engine app 2400 followed by the conversion that requires ship fields, players and
rules) returns a response or an error, never a crash. -/
theorem C01_theship (ext : Valve.Ext) (port retries : Nat) (script : List ConnScript) (faults : List Bool) :
    (TheShip.query ext port retries (Net.init script faults)).1 ≠ .crash :=
  (TheShip.query_safe ext port retries (Net.init script faults)).1

/-- The conversion alone, on any Valve response (ship fields / players / rules / deaths / money missing or not). -/
theorem C01_theship_conversion (r : Valve.Response) : TheShip.convert r ≠ .crash := TheShip.convert_ne r

-- non-vacuity: a server that answers the info request and nothing else: players are required → PacketBad
example :
    (TheShip.query ⟨fun _ => none, fun _ => 0⟩ 27015 0 (Net.init [.opened [.data
      ([0xFF, 0xFF, 0xFF, 0xFF, 0x49, 17, 0, 0, 0, 0] ++ [0x60, 0x09] ++ [1, 8, 0, 100, 108, 0, 1, 2, 3, 4, 0])]] [])).1
      = .err .packetBad := by
  decide
