import GdVerif.Lemmas.ValveFaults
import GdVerif.Lemmas.TheShip
import GdVerif.Props.C07_theship
/-
  C10 on WHOLE The Ship queries with faults injected.

  `theship::query` is `valve::query` with engine app 2400 and the DEFAULT gathering settings (players and rules are
  only *tried*), followed by the conversion, which *requires* both sections.  The theorems of
  `Props/C10_valve_whole.lean` therefore carry over through the conversion: same plans, same scripts
  (`Spec/ValveFaults.lean`, on `TheShip.Spec.shipConfig cfg`), any number of challenge rounds, split replies in any
  arrival order — and failed attempts that still receive some of the fragments of a split reply before the silence.

  What this makes explicit (see `C10_theship_section_exhausted`): when all `retries + 1` attempts of the players or of
  the rules unit time out, the Valve query — per C11 — returns a response with that section absent, and the conversion
  then fails with `PacketBad`: the caller of the game's own query sees `PacketBad`, not the receive/send-class error of
  the unit.  The info unit (always required) surfaces its own error.
-/
open Gd Gd.Valve Gd.Valve.Spec Gd.Faults

theorem C10_theship_bind_lift_log {α β : Type} (q : Q α) (g : α → Res β) (w : Net) :
    ((q >>= fun r => Q.lift (g r)) w).2 = (q w).2 := by
  rw [Q.bind_apply]
  cases h : q w with
  | mk res w' => cases res <;> rfl

/-- THE GENERAL STATEMENT for The Ship: on the script of any plan in C10's domain (followed by anything), the game's query
returns the conversion of the outcome prescribed for the Valve query, having sent exactly the plan's datagrams. -/
theorem C10_theship_query_faulty (ext : Ext) (port retries : Nat) (cfg : Config) (st : State)
    (hwf : TheShip.Spec.wf cfg st = true) (hx : wfExchanges (TheShip.Spec.shipConfig cfg) = true)
    (hdec : DecodersAgree ext (TheShip.Spec.shipConfig cfg) st) (ai ap ar : List Bytes)
    (hai : ai.Perm (infoDatagrams (TheShip.Spec.shipConfig cfg) st))
    (hap : ap.Perm (playersDatagrams (TheShip.Spec.shipConfig cfg) st))
    (har : ar.Perm (rulesDatagrams (TheShip.Spec.shipConfig cfg) st))
    (hfit : fits (scriptAs (TheShip.Spec.shipConfig cfg) ai ap ar) = true)
    (plan : Plan) (hplan : wfPlanReached retries (TheShip.Spec.shipConfig cfg) st plan = true)
    (restQ : List Delivery) (restF : List Bool) :
    (TheShip.query ext port retries (Net.init
        [.opened (faultyScript (TheShip.Spec.shipConfig cfg) plan ai ap ar ++ restQ)]
        (faultyFaults (TheShip.Spec.shipConfig cfg) plan ++ restF))).1
      = (faultyExpected (TheShip.Spec.shipConfig cfg) st plan >>= TheShip.convert)
    ∧ sentOf (TheShip.query ext port retries (Net.init
        [.opened (faultyScript (TheShip.Spec.shipConfig cfg) plan ai ap ar ++ restQ)]
        (faultyFaults (TheShip.Spec.shipConfig cfg) plan ++ restF))).2.log
      = faultySends (TheShip.Spec.shipConfig cfg) st plan := by
  obtain ⟨h1, h2⟩ := query_faulty ext port retries (TheShip.Spec.shipConfig cfg) st hwf hx hdec.1 hdec.2.1 hdec.2.2
    ai ap ar hai hap har hfit plan hplan restQ restF
  unfold TheShip.query
  rw [bind_lift_fst, C10_theship_bind_lift_log]
  exact ⟨by rw [← h1]; rfl, h2⟩

/-- (a) RECOVERY: at most `retries` timeout-class failures before the valid exchange of each of the three units — the
game's query returns exactly `TheShip.Spec.expected st`, the fault-free result (`C07_theship`). -/
theorem C10_theship_query_recovers (ext : Ext) (port retries : Nat) (cfg : Config) (st : State)
    (hwf : TheShip.Spec.wf cfg st = true) (hx : wfExchanges (TheShip.Spec.shipConfig cfg) = true)
    (hdec : DecodersAgree ext (TheShip.Spec.shipConfig cfg) st) (ai ap ar : List Bytes)
    (hai : ai.Perm (infoDatagrams (TheShip.Spec.shipConfig cfg) st))
    (hap : ap.Perm (playersDatagrams (TheShip.Spec.shipConfig cfg) st))
    (har : ar.Perm (rulesDatagrams (TheShip.Spec.shipConfig cfg) st))
    (hfit : fits (scriptAs (TheShip.Spec.shipConfig cfg) ai ap ar) = true)
    (fi fp fr : List Attempt) (hki : fi.length ≤ retries) (hkp : fp.length ≤ retries) (hkr : fr.length ≤ retries)
    (hwi : ∀ a ∈ fi, a.wf (infoDatagrams (TheShip.Spec.shipConfig cfg) st) = true)
    (hwp : ∀ a ∈ fp, a.wf (playersDatagrams (TheShip.Spec.shipConfig cfg) st) = true)
    (hwr : ∀ a ∈ fr, a.wf (rulesDatagrams (TheShip.Spec.shipConfig cfg) st) = true)
    (restQ : List Delivery) (restF : List Bool) :
    (TheShip.query ext port retries (Net.init
        [.opened (faultyScript (TheShip.Spec.shipConfig cfg) ⟨⟨fi, .valid⟩, ⟨fp, .valid⟩, ⟨fr, .valid⟩⟩ ai ap ar ++ restQ)]
        (faultyFaults (TheShip.Spec.shipConfig cfg) ⟨⟨fi, .valid⟩, ⟨fp, .valid⟩, ⟨fr, .valid⟩⟩ ++ restF))).1
      = TheShip.Spec.expected st := by
  have hplan : wfPlan retries (TheShip.Spec.shipConfig cfg) st ⟨⟨fi, .valid⟩, ⟨fp, .valid⟩, ⟨fr, .valid⟩⟩ = true := by
    simp only [wfPlan, wfUnit, Bool.and_eq_true, Bool.or_eq_true, decide_eq_true_eq, List.all_eq_true]
    exact ⟨⟨⟨hwi, hki⟩, Or.inr ⟨hwp, hkp⟩⟩, Or.inr ⟨hwr, hkr⟩⟩
  rw [(C10_theship_query_faulty ext port retries cfg st hwf hx hdec ai ap ar hai hap har hfit _
    (wfPlanReached_of_wfPlan _ _ st _ hplan) restQ restF).1,
    faultyExpected_recovers _ st _ (fun u _ => by cases u <;> rfl)]
  exact TheShip.convert_expected cfg st hwf

/-- (b) EXHAUSTION of the info unit (`retries + 1` timeout-class failures): the query fails with the last failure's
error, `PacketReceive` or `PacketSend`; nothing of the other units is sent. -/
theorem C10_theship_info_exhausted (ext : Ext) (port retries : Nat) (cfg : Config) (st : State)
    (hwf : TheShip.Spec.wf cfg st = true) (hx : wfExchanges (TheShip.Spec.shipConfig cfg) = true)
    (hdec : DecodersAgree ext (TheShip.Spec.shipConfig cfg) st) (ai ap ar : List Bytes)
    (hai : ai.Perm (infoDatagrams (TheShip.Spec.shipConfig cfg) st))
    (hap : ap.Perm (playersDatagrams (TheShip.Spec.shipConfig cfg) st))
    (har : ar.Perm (rulesDatagrams (TheShip.Spec.shipConfig cfg) st))
    (hfit : fits (scriptAs (TheShip.Spec.shipConfig cfg) ai ap ar) = true)
    (fi : List Attempt) (hki : fi.length = retries + 1)
    (hwi : ∀ a ∈ fi, a.wf (infoDatagrams (TheShip.Spec.shipConfig cfg) st) = true) (pp pr : UnitPlan)
    (restQ : List Delivery) (restF : List Bool) :
    let plan : Plan := ⟨⟨fi, .gaveUp⟩, pp, pr⟩
    let out := TheShip.query ext port retries (Net.init
        [.opened (faultyScript (TheShip.Spec.shipConfig cfg) plan ai ap ar ++ restQ)]
        (faultyFaults (TheShip.Spec.shipConfig cfg) plan ++ restF))
    out.1 = .err (lastError Attempt.error fi)
    ∧ sentOf out.2.log = fi.flatMap (Attempt.sends .info cfg.info) := by
  intro plan out
  have hu : (plan.unit .info).error = some (lastError Attempt.error fi) := rfl
  have hplan := wfPlanReached_stops retries (TheShip.Spec.shipConfig cfg) st plan .info _
    (fun v hv _ => by
      have : v = .info := by simpa [earlier] using hv
      subst this
      simp only [plan, Plan.unit, wfUnit, poolOf, Bool.and_eq_true, List.all_eq_true, beq_iff_eq]
      exact ⟨hwi, hki⟩) hu rfl
  obtain ⟨h1, h2⟩ := C10_theship_query_faulty ext port retries cfg st hwf hx hdec ai ap ar hai hap har hfit plan hplan
    restQ restF
  rw [faultyExpected_stops _ st plan .info _ (fun v hv => by simp [earlier] at hv) hu rfl (fun h => absurd rfl h)] at h1
  rw [faultySends_stops _ st plan .info _ (fun v hv => by simp [earlier] at hv) hu rfl (fun h => absurd rfl h)] at h2
  refine ⟨h1, ?_⟩
  show sentOf out.2.log = _
  rw [show sentOf out.2.log = _ from h2]
  simp [sendsOf, earlier, toggleOf, plan, Plan.unit, exchangeOf, UnitPlan.sends, Ending.sends, TheShip.Spec.shipConfig]

/-- (b') EXHAUSTION / malformed reply of the PLAYERS or RULES unit.  These sections are only tried by the game's query
(default gathering settings) but required by its conversion: when unit `u` does not end with the server's reply — all
its `retries + 1` attempts time out, or an attempt receives a malformed datagram — while the other units are answered
and the server is The Ship (app 2400), the game's query fails with `PacketBad`, NOT with the unit's receive/send-class
error. -/
theorem C10_theship_section_exhausted (ext : Ext) (port retries : Nat) (cfg : Config) (st : State)
    (hwf : TheShip.Spec.wf cfg st = true) (hx : wfExchanges (TheShip.Spec.shipConfig cfg) = true)
    (hdec : DecodersAgree ext (TheShip.Spec.shipConfig cfg) st) (ai ap ar : List Bytes)
    (hai : ai.Perm (infoDatagrams (TheShip.Spec.shipConfig cfg) st))
    (hap : ap.Perm (playersDatagrams (TheShip.Spec.shipConfig cfg) st))
    (har : ar.Perm (rulesDatagrams (TheShip.Spec.shipConfig cfg) st))
    (hfit : fits (scriptAs (TheShip.Spec.shipConfig cfg) ai ap ar) = true)
    (plan : Plan) (hplan : wfPlan retries (TheShip.Spec.shipConfig cfg) st plan = true) (u : Request) (hu0 : u ≠ .info)
    (hothers : ∀ v, v ≠ u → (plan.unit v).ending = .valid) (hu : (plan.unit u).ending ≠ .valid)
    (happ : st.info.appid = 2400) (restQ : List Delivery) (restF : List Bool) :
    (TheShip.query ext port retries (Net.init
        [.opened (faultyScript (TheShip.Spec.shipConfig cfg) plan ai ap ar ++ restQ)]
        (faultyFaults (TheShip.Spec.shipConfig cfg) plan ++ restF))).1 = .err .packetBad := by
  obtain ⟨k, hk⟩ := error_of_not_valid hu
  have htry : toggleOf (TheShip.Spec.shipConfig cfg) u = .try_ := by
    cases u with
    | info => exact absurd rfl hu0
    | players => rfl
    | rules => rfl
  rw [(C10_theship_query_faulty ext port retries cfg st hwf hx hdec ai ap ar hai hap har hfit plan
    (wfPlanReached_of_wfPlan _ _ st _ hplan) restQ restF).1,
    faultyExpected_try _ st plan u k (fun v hv _ => error_of_valid (hothers v hv)) hk htry]
  have hexp : ∃ r, expected (TheShip.Spec.shipConfig cfg) st = .ok r := by
    unfold expected
    simp [TheShip.Spec.shipConfig, TheShip.Spec.shipEngine, appIdOk, Engine.new, Gather.default, happ]
  obtain ⟨r, hr⟩ := hexp
  rw [hr]
  simp only [Res.bind_ok]
  cases u with
  | info => exact absurd rfl hu0
  | players => exact (C07_theship_required (withoutSection r .players)).2.1 rfl
  | rules => exact (C07_theship_required (withoutSection r .rules)).2.2 rfl

/-! ### non-vacuity: a The Ship server whose players reply sits behind one challenge round, retries = 1 -/

def C10_theship_demoState : State :=
  ⟨⟨17, [83], [109], [115, 104, 105, 112], [84], 2400, 1, 8, 0, .dedicated, .linux, false, true,
    some ⟨1, 2, 3⟩, [49], some ⟨some 27015, none, none, none, some [107], none⟩, false, none⟩,
    [⟨[80], -3, 0x41200000, some 2, some 500⟩], [([97], [98])]⟩

def C10_theship_demoCfg : Config :=
  ⟨.source none, ⟨.skip, .skip, false⟩, false, [], ⟨[], .single⟩, ⟨[[1, 2, 3, 4]], .single⟩, ⟨[], .sourceSplit 5 [4]⟩⟩

/-- the first of the two fragments of the rules reply (`sourceSplit 5 [4]`) -/
def C10_theship_demoGot : List Bytes :=
  (rulesDatagrams (TheShip.Spec.shipConfig C10_theship_demoCfg) C10_theship_demoState).take 1

/-- both attempts of the players unit are lost: once at the initial request, once after the challenge round -/
def C10_theship_demoPlan : Plan := ⟨⟨[], .valid⟩, ⟨[⟨0, false, []⟩, ⟨1, false, []⟩], .gaveUp⟩, ⟨[], .valid⟩⟩

-- the hypotheses of `C10_theship_section_exhausted` hold for it: the game's query answers PacketBad; with at most one
-- failure per unit — the failed attempt of the rules unit having received the first of the two fragments of the reply
-- before the silence — it answers the state
example (ext : Ext) (port : Nat) :
    (TheShip.query ext port 1 (Net.init
        [.opened (faultyScript (TheShip.Spec.shipConfig C10_theship_demoCfg) C10_theship_demoPlan
          (infoDatagrams (TheShip.Spec.shipConfig C10_theship_demoCfg) C10_theship_demoState)
          (playersDatagrams (TheShip.Spec.shipConfig C10_theship_demoCfg) C10_theship_demoState)
          (rulesDatagrams (TheShip.Spec.shipConfig C10_theship_demoCfg) C10_theship_demoState) ++ [])]
        (faultyFaults (TheShip.Spec.shipConfig C10_theship_demoCfg) C10_theship_demoPlan ++ []))).1 = .err .packetBad
    ∧ (TheShip.query ext port 1 (Net.init
        [.opened (faultyScript (TheShip.Spec.shipConfig C10_theship_demoCfg)
          ⟨⟨[⟨0, true, []⟩], .valid⟩, ⟨[⟨1, false, []⟩], .valid⟩, ⟨[⟨0, false, C10_theship_demoGot⟩], .valid⟩⟩
          (infoDatagrams (TheShip.Spec.shipConfig C10_theship_demoCfg) C10_theship_demoState)
          (playersDatagrams (TheShip.Spec.shipConfig C10_theship_demoCfg) C10_theship_demoState)
          (rulesDatagrams (TheShip.Spec.shipConfig C10_theship_demoCfg) C10_theship_demoState) ++ [])]
        (faultyFaults (TheShip.Spec.shipConfig C10_theship_demoCfg)
          ⟨⟨[⟨0, true, []⟩], .valid⟩, ⟨[⟨1, false, []⟩], .valid⟩, ⟨[⟨0, false, C10_theship_demoGot⟩], .valid⟩⟩ ++ []))).1
      = TheShip.Spec.expected C10_theship_demoState := by
  constructor
  · exact C10_theship_section_exhausted ext port 1 C10_theship_demoCfg C10_theship_demoState (by decide) (by decide)
      (decodersAgree_of_uncompressed ext _ _ (by decide)) _ _ _ (List.Perm.refl _) (List.Perm.refl _) (List.Perm.refl _)
      (by decide) C10_theship_demoPlan (by decide) .players (by decide)
      (fun v hv => by cases v <;> first | rfl | exact absurd rfl hv) (by decide) rfl [] []
  · exact C10_theship_query_recovers ext port 1 C10_theship_demoCfg C10_theship_demoState (by decide) (by decide)
      (decodersAgree_of_uncompressed ext _ _ (by decide)) _ _ _ (List.Perm.refl _) (List.Perm.refl _) (List.Perm.refl _)
      (by decide) [⟨0, true, []⟩] [⟨1, false, []⟩] [⟨0, false, C10_theship_demoGot⟩] (by decide) (by decide) (by decide)
      (by decide) (by decide) (by decide) [] []
