import GdVerif.Lemmas.QuakeCost
import GdVerif.Lemmas.QuakeBlock
/-
  C13 (requests sent) — Quake 1 / 2 / 3.  `units` = 1: the query is one exchange (status request out,
  one datagram back) and the whole exchange is the retried unit.
-/
open Gd Gd.Quake

/-- Whatever the server does, for every script, fault vector, version and retry setting, the Quake
query sends at most one datagram per attempt: `retries + 1` in all, however many datagrams it
receives (nothing a server sends earns a further request). -/
theorem C13_quake_send_bound (port : Nat) (v : Version) (retries : Nat) (script : List ConnScript) (faults : List Bool) :
    nSends (query port v retries (Net.init script faults)).2.log ≤ retries + 1 :=
  (sends_query port v retries).total script faults

/-- The form the trace oracle of `props/c13.py` checks (`send_units` = 1). -/
theorem C13_quake_send_bound_units (port : Nat) (v : Version) (retries : Nat) (script : List ConnScript) (faults : List Bool) :
    nSends (query port v retries (Net.init script faults)).2.log
      ≤ 1 * (retries + 1) + nRecvOk (query port v retries (Net.init script faults)).2.log := by
  have := C13_quake_send_bound port v retries script faults
  omega

/-- The bound is attained for every retry setting: against a server that never answers exactly
`retries + 1` requests are sent. -/
theorem C13_quake_send_bound_attained (port : Nat) (v : Version) (retries : Nat) :
    nSends (query port v retries (Net.init [] [])).2.log = retries + 1 :=
  (silent_query port v retries (Net.init [] []) rfl rfl).counts.2.1

example : nSends (query 27960 .three 2 (Net.init [.opened [.silence, .silence, .silence]] [])).2.log = 3 := by decide
