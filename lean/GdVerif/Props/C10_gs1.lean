import GdVerif.Spec.Gs1
/- C10_gs1: theorems to come -/
