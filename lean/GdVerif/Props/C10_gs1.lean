import GdVerif.Proto.Gs1
/-
  C10 — Retries: GameSpy 1.  The retried unit is the whole status exchange (request + all parts):
  `get_server_values` is `retry_on_timeout(retries, get_server_values_impl)` over one socket, so
  the generic theorems of `Props/C10.lean` (`C10_at_most_r_plus_one`, `C10_first_non_timeout_decides`,
  `C10_all_timeouts`, stated for any unit) apply to it as they are.
-/
open Gd Gd.Gs1

/-- `query_vars` opens the socket once and retries the status exchange. -/
theorem C10_gs1_unit (port retries : Nat) :
    queryVars port retries = (do
      let s ← openSock false port
      retryOnTimeout retries (getServerValuesImpl s)) := rfl

/-- `query` does no I/O of its own: it is `query_vars` followed by pure decoding. -/
theorem C10_gs1_query_unit (port retries : Nat) :
    query port retries = (do
      let vars ← queryVars port retries
      Q.lift (buildResponse vars)) := rfl

/-- Every attempt starts from scratch: nothing received during a timed-out attempt (parts, query
id, values) is carried into the next one — the loop state is re-initialised. -/
theorem C10_gs1_attempt_is_fresh (s : Sock) :
    getServerValuesImpl s = (do
      send s statusRequest
      fun w => recvLoop s (Gs.queued s w + 1) LoopSt.init w) := rfl

-- non-vacuity: r = 1, first attempt gets one part and then silence, second attempt gets the reply
example : (queryVars 7777 1 (Net.init [.opened [.data (asciiBytes "\\a\\b\\queryid\\1.1"), .silence,
    .data (asciiBytes "\\c\\d\\final\\\\queryid\\2.1")]] [])).1 = .ok [(asciiBytes "c", asciiBytes "d")] := by
  decide +kernel
