import GdVerif.Lemmas.Gs1Response
/-
  C08 — Multi-datagram responses do not depend on arrival order: GameSpy 1 parts.

  MODEL: `Gs1.recvLoop` / `Gs1.processPacket` (the receive loop of `get_server_values_impl` in the
  repaired tree: the part that carries `final` gives the number of parts, the loop runs until that
  many distinct parts have arrived; a repeated part number is an error).  The code does not sort:
  the parts are merged into one map as they arrive, and a map has no order (the model returns its
  canonical form), so the theorem is about the merge, not about a sort.
-/
open Gd Gd.Gs Gd.Gs1 Gd.Gs1.Spec

/-- Every arrival order of the parts of a well-formed reply (any number of parts) gives the same
response as in-order arrival — the complete one. -/
theorem C08_gs1_any_order (y : Style) (st : State) (h : wf y st = true) (port retries : Nat) (arr : List Bytes)
    (hp : arr.Perm (script y st)) :
    (query port retries (Net.init [.opened (arr.map .data)] [])).1
      = (query port retries (Net.init [.opened ((script y st).map .data)] [])).1 := by
  have hw := wf_iff y st h
  rw [show ([.opened (arr.map .data)] : List ConnScript) = scriptOf arr from rfl,
    show ([.opened ((script y st).map .data)] : List ConnScript) = scriptOf (script y st) from rfl,
    query_perm_expected hw port retries arr hp, query_perm_expected hw port retries _ (List.Perm.refl _)]

/-- The same for the raw variables. -/
theorem C08_gs1_vars_any_order (y : Style) (st : State) (h : wf y st = true) (port retries : Nat) (arr : List Bytes)
    (hp : arr.Perm (script y st)) :
    (queryVars port retries (Net.init [.opened (arr.map .data)] [])).1 = .ok (expectedVars y st) :=
  queryVars_any_order (wf_iff y st h) port retries arr hp

/-- Duplicates (and losses): for ANY sequence of datagrams drawn from the parts of the reply — any
order, any part repeated any number of times at any position, any part missing — the query returns
the complete response or an error, never a different successful response. -/
theorem C08_gs1_duplicates (y : Style) (st : State) (h : wf y st = true) (port retries : Nat) (arr : List Bytes)
    (harr : ∀ d ∈ arr, d ∈ script y st) :
    (query port retries (Net.init [.opened (arr.map .data)] [])).1 = .ok (expected st)
    ∨ ∃ k, (query port retries (Net.init [.opened (arr.map .data)] [])).1 = .err k :=
  query_drawn (wf_iff y st h) port retries arr harr

/-- A part that arrives a second time while the reply is still incomplete is rejected at once. -/
theorem C08_gs1_repeated_part_rejected {y : Style} {P seen : List NPart} {st : LoopSt} (hP : PartsOk y P)
    (hinv : Inv y P seen st) {a : NPart} (ha : a ∈ P) (hdup : a.1 ∈ seen.map (·.1)) :
    processPacket st (encN y P.length a) = .err .packetBad :=
  step_dup hP hinv ha hdup

/-- The loop does not stop early: with fewer distinct parts than the reply has, it goes on
receiving — also when the part carrying `final` has already arrived. -/
theorem C08_gs1_waits_for_all {y : Style} {P seen : List NPart} {st : LoopSt} (hP : PartsOk y P) (hne : P ≠ [])
    (hinv : Inv y P seen st) (hlt : seen.length < P.length) : st.done = false := by
  cases hd : st.done with
  | false => rfl
  | true =>
    have := ((hinv.done_iff hP hne).mp hd).length_eq
    omega

def C08_gs1_exState : Spec.State :=
  { name := bs "S", map := bs "m", mapTitle := none, adminContact := none, adminName := none, hasPassword := false,
    gameMode := bs "g", gameVersion := bs "1", playersMaximum := 8, playersMinimum := none,
    players := [⟨bs "A", none, 1, none, none, none, 2, none, none, none⟩, ⟨bs "B", none, 3, none, none, none, 4, none, none, none⟩],
    tournament := none, extras := [] }

def C08_gs1_exStyle : Style := ⟨7, [3, 4], true, 0, false, false, false, 0⟩

-- non-vacuity: three parts; the last part first, then the first, then the second, gives the two players;
-- the last part twice gives an error
def C08_gs1_exPart (i : Nat) : Bytes := (script C08_gs1_exStyle C08_gs1_exState).getD i []

example : wf C08_gs1_exStyle C08_gs1_exState = true ∧ (script C08_gs1_exStyle C08_gs1_exState).length = 3 ∧
    (query 7777 0 (Net.init [.opened ([C08_gs1_exPart 2, C08_gs1_exPart 0, C08_gs1_exPart 1].map .data)] [])).1 = .ok (expected C08_gs1_exState)
    ∧ (query 7777 0 (Net.init [.opened ([C08_gs1_exPart 2, C08_gs1_exPart 2, C08_gs1_exPart 0, C08_gs1_exPart 1].map .data)] [])).1 = .err .packetBad := by
  decide +kernel
