import GdVerif.Spec.Gs1
/- C08_gs1: theorems to come -/
