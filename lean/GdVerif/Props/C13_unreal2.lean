import GdVerif.Lemmas.Unreal2Cost
/-
  C13 (requests sent) — Unreal 2.  The reservations the code makes are fixed: the receive buffer
  (`PACKET_SIZE` = 1024 bytes per datagram) and `Players::with_capacity(min(num_players, 50))`
  (`MAXIMUM_PLAYER_PREALLOCATION`): no field of a reply sizes an allocation beyond that cap.
-/
open Gd Gd.Unreal2

/-- Whatever the server does, the Unreal 2 query sends at most `retries + 1` datagrams for each of
its three requests — `3 · (retries + 1)` in all — however many datagrams it receives: listening for
the further datagrams of a list never sends anything. -/
theorem C13_unreal2_send_bound (port : Nat) (g : Gather) (retries : Nat) (script : List ConnScript) (faults : List Bool) :
    nSends (query port g retries (Net.init script faults)).2.log ≤ 3 * (retries + 1) := by
  have hq : query port g retries = (openSock false port >>= fun s => queryBody s g retries) := rfl
  rw [hq, Q.bind_apply]
  have key : ∀ (s : Sock) (w0 : Net) (ev : Ev), w0.log = [ev] → isSend ev = false →
      nSends (queryBody s g retries w0).2.log ≤ 3 * (retries + 1) := by
    intro s w0 ev hlog hs
    obtain ⟨added, hl, hc⟩ := sends_queryBody s g retries w0
    rw [hl, hlog, nSends_append]
    have h1 : nSends [ev] = 0 := by simp [nSends, hs]
    omega
  cases hp : (Net.init script faults).pending with
  | nil =>
    simp only [openSock, hp]
    exact key _ _ _ rfl rfl
  | cons c rest =>
    cases c with
    | opened ds =>
      simp only [openSock, hp]
      exact key _ _ _ rfl rfl
    | refused =>
      simp only [openSock, hp]
      simp [Net.init, nSends, isSend]

/-- One request: at most `retries + 1` sends. -/
theorem C13_unreal2_request_bound (s : Sock) (r : Nat) (kind : PacketKind) (w : Net) :
    ∃ added, (requestData s r kind w).2.log = w.log ++ added ∧ nSends added ≤ r + 1 :=
  sends_requestData s r kind w

/-- The pre-allocation for the players lists never exceeds the cap, whatever number the server
announces (`num_players.unwrap_or(10).min(50)`, and half of it for bots). -/
theorem C13_unreal2_prealloc_cap (numPlayers : Nat) : min numPlayers 50 ≤ 50 ∧ min numPlayers 50 / 2 ≤ 25 := by
  omega
