import GdVerif.Lemmas.Gs3Safe
import GdVerif.Props.C10
/-
  C10 (GameSpy 3) — the retried unit is the whole exchange: handshake, data request and all packets
  of the response (`get_server_packets` = `retry_on_timeout(retry_count, get_server_packets_impl)`).
  The combinator's theorems (`C10_at_most_r_plus_one`, `C10_first_non_timeout_decides`,
  `C10_all_timeouts`, in `Props/C10.lean`) apply to it as to any unit.
-/
open Gd Gd.Gs3

/-- the unit, definitionally -/
theorem C10_gs3_unit (s : Sock) (r : Nat) (payload : Bytes) (single : Bool) :
    getServerPackets s r payload single = retryOnTimeout r (getServerPacketsImpl s payload single) := rfl

/-- `query` and `query_vars` do all their I/O inside that one unit: open the socket, run the unit,
then only pure post-processing. -/
theorem C10_gs3_query_is_one_unit (port r : Nat) :
    query port r = (do
      let s ← openSock false port
      let packets ← retryOnTimeout r (getServerPacketsImpl s DEFAULT_PAYLOAD false)
      Q.lift (buildResponse packets))
    ∧ queryVars port r = (do
      let s ← openSock false port
      let packets ← retryOnTimeout r (getServerPacketsImpl s DEFAULT_PAYLOAD false)
      Q.lift (buildVars packets)) := ⟨rfl, rfl⟩

/-- At most `r + 1` attempts, whatever the server does. -/
theorem C10_gs3_at_most (s : Sock) (r : Nat) (payload : Bytes) (single : Bool) (w : Net) :
    (retryCounting r (getServerPacketsImpl s payload single) w).2 ≤ r + 1
    ∧ (retryCounting r (getServerPacketsImpl s payload single) w).1 = getServerPackets s r payload single w :=
  ⟨C10_at_most_r_plus_one r _ w, C10_counting_faithful r _ w⟩

-- non-vacuity: with r = 1, a silent first attempt is followed by exactly one more
example : (retryCounting 1 (getServerPacketsImpl ⟨0, 29900, false⟩ DEFAULT_PAYLOAD false)
    ⟨[], [[.silence, .silence]], [], []⟩).2 = 2 := by decide
