import GdVerif.Lemmas.Battalion
/-
  C01 — hostile replies never crash or hang a query: Battalion 1944 (`games::battalion1944::query`).
-/
open Gd

/-- For EVERY script, port, send-fault vector and behaviour of the bzip2/CRC decoders the Battalion 1944 query
(a Valve query with engine app 489940, the `bat_*` rule overrides, the conversion to the generic Valve game
response) returns a response or an error, never a crash. -/
theorem C01_battalion (ext : Valve.Ext) (port : Nat) (script : List ConnScript) (faults : List Bool) :
    (Battalion.query ext port (Net.init script faults)).1 ≠ .crash :=
  (Battalion.query_safe ext port (Net.init script faults)).1

/-- The overrides alone, on any Valve response (any rule values: non-numeric, out of range, empty, …). -/
theorem C01_battalion_overrides (r : Valve.Response) : Battalion.applyOverrides r ≠ .crash :=
  Battalion.applyOverrides_ne r

-- non-vacuity: an out-of-range number in a rule is an error value, not a crash
example :
    Battalion.applyOverrides ⟨⟨17, [], [], [], [], 489940, 0, 0, 0, .dedicated, .linux, false, false, none, [], none, false, none⟩,
      none, some [(asciiBytes "bat_max_players_i", asciiBytes "256")]⟩ = .err .typeParse := by
  decide
