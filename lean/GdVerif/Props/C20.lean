import GdVerif.Lemmas.IdCheck
import GdVerif.Gen.Games
/-
  C20 — The game-id naming checker is total and self-consistent.

  MODEL: `GdVerif/Proto/IdCheck.lean` (ASCII names); `number_to_words` is the parameter `ext.n2w`.
-/
open Gd Gd.IdCheck

/-- Totality: on EVERY list of (id, name) pairs — any byte strings, in particular every name of the
documented grammar, hyphenated numbers followed by text included — the checker returns a list of
failures; it never panics (no `unwrap` on an empty word is reachable).  The only assumption is on
the external crate: `number_to_words` never returns an empty string. -/
theorem C20_total (ext : Ext) (hn : ∀ n, ext.n2w n ≠ []) (games : List (Bytes × Bytes)) :
    ∃ fails, checkAll ext games = .ok fails :=
  checkAllFrom_ok ext hn _ []

/-- The words of every parsed name are non-empty (the invariant behind totality). -/
theorem C20_words_nonempty (name : Bytes) : ∀ w ∈ (extractParts name).words, w ≠ [] :=
  extractParts_ne name

/-- Self-consistency for a single game: there is an id `E` the checker expects for the name; the
checker accepts an id exactly when it is `E`, or — when the name has a `-`, i.e. a 'Game - Mod' name —
the id `E'` it expects for the part after the first `-`. -/
theorem C20_self_consistent (ext : Ext) (hn : ∀ n, ext.n2w n ≠ []) (id name : Bytes) :
    ∃ E, singleExpected ext (extractParts name) false = .ok E ∧
      (checkOne ext id name = .ok [] ↔
        (id = E ∨ ∃ m E', afterDash (extractParts name).name = some m
            ∧ singleExpected ext (extractParts m) true = .ok E' ∧ id = E')) := by
  obtain ⟨E, hE, hiff⟩ := checkRule_nil_accepts ext hn id (extractParts name)
  refine ⟨E, hE, ?_⟩
  rw [← hiff]
  unfold checkOne checkAll
  simp only [List.map_cons, List.map_nil, sortGames, List.foldl_cons, List.foldl_nil, insertGame, checkAllFrom]
  obtain ⟨⟨fails, seen'⟩, hr⟩ := checkRule_ok ext hn [] id (extractParts name)
  rw [hr]
  simp only [List.append_nil]
  constructor
  · intro h
    cases h
    exact ⟨seen', rfl⟩
  · rintro ⟨s, hs⟩
    cases hs
    rfl

/-- The expected id does not depend on the id that was proposed: it is a function of the name alone. -/
theorem C20_expected_independent_of_proposed_id (ext : Ext) (name : Bytes) (isMod : Bool) :
    ∀ id₁ id₂ : Bytes, singleExpected ext (extractParts name) isMod = singleExpected ext (extractParts name) isMod := by
  intro _ _; rfl

-- non-vacuity / examples from CONTRIBUTING.md, evaluated on the model
example : let ext : Ext := ⟨fun n => if n == 7 then asciiBytes "seven" else asciiBytes "x"⟩
    singleExpected ext (extractParts (asciiBytes "Left 4 Dead")) false = .ok (asciiBytes "l4d")
    ∧ singleExpected ext (extractParts (asciiBytes "7 Days to Die")) false = .ok (asciiBytes "sdtd")
    ∧ singleExpected ext (extractParts (asciiBytes "Team Fortress 2")) false = .ok (asciiBytes "teamfortress2")
    ∧ singleExpected ext (extractParts (asciiBytes "Grand Theft Auto XIV")) false = .ok (asciiBytes "gta14")
    ∧ singleExpected ext (extractParts (asciiBytes "Dino D-Day")) false = .ok (asciiBytes "ddd")
    ∧ singleExpected ext (extractParts (asciiBytes "Left 4-Dead")) false = .ok (asciiBytes "l4d") := by
  decide
