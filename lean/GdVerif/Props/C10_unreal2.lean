import GdVerif.Props.C10
import GdVerif.Lemmas.Unreal2Query
/-
  C10 (Unreal 2) — retries.  A *unit* is what the code wraps in `retry_on_timeout`: one request and
  the receipt of the first reply datagram (`get_request_data`).  Parsing the reply, and listening for
  further datagrams of a list, happen after the unit and are never re-attempted.
  The combinator's own theorems (`C10_at_most_r_plus_one`, `C10_first_non_timeout_decides`,
  `C10_all_timeouts`, …) are in `Props/C10.lean` and hold for any unit; here they are tied to the
  three Unreal 2 units on scripts.
-/
open Gd Gd.Unreal2 Gd.Unreal2.Spec

/-- Each of the three requests is one retried unit: send the five request bytes, await one datagram. -/
theorem C10_unreal2_unit (s : Sock) (r : Nat) (kind : PacketKind) :
    requestData s r kind = retryOnTimeout r (send s (requestBytes kind) >>= fun _ => recv s (some 1024)) := rfl

/-- Never more than `r + 1` attempts of a request, whatever the server does. -/
theorem C10_unreal2_at_most (s : Sock) (r : Nat) (kind : PacketKind) (w : Net) :
    (retryCounting r (requestImpl s kind) w).1 = requestData s r kind w
    ∧ (retryCounting r (requestImpl s kind) w).2 ≤ r + 1 :=
  ⟨C10_counting_faithful r _ w, C10_at_most_r_plus_one r _ w⟩

/-- `L` silent attempts make a chain of `L` timed-out attempts. -/
theorem silentChain (port : Nat) (kind : PacketKind) (q : List Delivery) :
    ∀ (L : Nat) (w : Net), Live w (List.replicate L .silence ++ q) →
      ∃ w', TimeoutChain (requestImpl (sock port) kind) L w w' ∧ Live w' q := by
  intro L
  induction L with
  | zero => intro w h; exact ⟨w, TimeoutChain.nil w, by simpa using h⟩
  | succ L ih =>
    intro w h
    have h' : Live w (.silence :: (List.replicate L .silence ++ q)) := by
      simpa [List.replicate_succ] using h
    obtain ⟨w1, h1, hl1⟩ := requestImpl_silence h' port kind
    obtain ⟨w2, h2, hl2⟩ := ih w1 hl1
    exact ⟨w2, TimeoutChain.cons h1 rfl h2, hl2⟩

/-- The first attempt that gets a datagram decides: after `L ≤ r` unanswered attempts, a datagram `d`
— valid or malformed, the unit does not look inside — ends the unit after exactly `L + 1` attempts
with `d`; a malformed reply is therefore never re-requested (its parse error arises after the unit). -/
theorem C10_unreal2_first_answer (port r L : Nat) (kind : PacketKind) (d : Bytes) (q : List Delivery) (w : Net)
    (hL : L ≤ r) (hd : d.length ≤ 1024) (hl : Live w (List.replicate L .silence ++ .data d :: q)) :
    ∃ w', retryCounting r (requestImpl (sock port) kind) w = ((.ok d, w'), L + 1) ∧ Live w' q := by
  obtain ⟨w1, hchain, hl1⟩ := silentChain port kind _ L w hl
  obtain ⟨w2, h2, hl2⟩ := requestImpl_data hl1 port kind hd
  exact ⟨w2, C10_first_non_timeout_decides r L _ w w1 w2 (.ok d) hL hchain h2 (fun k hk => by cases hk), hl2⟩

/-- If nothing comes back for `r + 1` attempts the request fails with a receive-class error after
exactly `r + 1` attempts (and the query fails with it, or — section on Try — goes on without the
section: `C11_unreal2_*`). -/
theorem C10_unreal2_all_silent (port r : Nat) (kind : PacketKind) (q : List Delivery) (w : Net)
    (hl : Live w (List.replicate (r + 1) .silence ++ q)) :
    ∃ w', retryCounting r (requestImpl (sock port) kind) w = ((.err .packetReceive, w'), r + 1) ∧ Live w' q := by
  have hl' : Live w (List.replicate r .silence ++ .silence :: q) := by
    have : List.replicate (r + 1) Delivery.silence ++ q = List.replicate r .silence ++ .silence :: q := by
      rw [List.replicate_succ']; simp
    rwa [this] at hl
  obtain ⟨w1, hchain, hl1⟩ := silentChain port kind _ r w hl'
  obtain ⟨w2, h2, hl2⟩ := requestImpl_silence hl1 port kind
  exact ⟨w2, C10_all_timeouts r _ w w1 w2 .packetReceive hchain h2 rfl, hl2⟩

/-- A send that fails is a timeout-class failure of the attempt as well: nothing is awaited, the
attempt ends with `PacketSend`. -/
theorem C10_unreal2_send_fault (s : Sock) (kind : PacketKind) (w : Net) (rest : List Bool) (hf : w.faults = true :: rest) :
    (requestImpl s kind w).1 = .err .packetSend ∧ ErrKind.isTimeout .packetSend = true := by
  refine ⟨?_, rfl⟩
  unfold requestImpl
  rw [Q.bind_apply]
  unfold Gd.send
  rw [hf]

/-- The listening for further datagrams of a list is outside every unit: a datagram that does not
parse there fails the section at once, and silence there ends the list — neither is retried. -/
theorem C10_unreal2_listening_not_retried (s : Sock) (r : Nat) :
    queryRules s r = (requestData s r .mutatorsAndRules >>= fun data =>
      parse (consumeHeaders .mutatorsAndRules >>= fun _ => parseRules .empty) data >>= fun st =>
      fun w => recvWhile s rulesRound (queued s w + 1) st w) := rfl

-- non-vacuity: two silences then a datagram with r = 2: three attempts, the datagram is the result
example : (retryCounting 2 (requestImpl (sock 7777) .players)
    ⟨[], [[.silence, .silence, .data [1, 2, 3]]], [], []⟩).1.1 = .ok [1, 2, 3]
  ∧ (retryCounting 2 (requestImpl (sock 7777) .players) ⟨[], [[.silence, .silence, .data [1, 2, 3]]], [], []⟩).2 = 3 := by
  decide
