import GdVerif.Lemmas.CliBson
import GdVerif.Lemmas.CliCodec
/-
  C19 — BSON's binary layout inside the model (`Proto/CliBson.lean`: the bytes `bson::to_vec(&result)` writes for the
  value serde hands it, and a reader written from bsonspec.org).

  For EVERY value (any nesting, any strings and keys, every Rust integer type at every value, every f64 bit pattern):
    * the serialiser fails exactly on what BSON cannot hold — a `u64` above `i64::MAX`, a key with a NUL in it (a key is
      a cstring: the crate answers `InvalidCString`, the tool exits non-zero with that message and prints nothing), a
      value that is not a document at the top — and otherwise writes the document;
    * the reader gives the value back, numbers in the BSON type the crate chose for their Rust type
      (i8 / i16 / i32 / u8 / u16 → int32, u32 / i64 / u64 → int64, f64 → double), and a value already in BSON's types
      comes back unchanged;
    * every int32 length field holds exactly the number of bytes the specification says it spans, every document and
      array ends with 0x00 and holds a well-formed element list, keys are cstrings, array keys are the decimal indices;
    * composed with hex / base64: the text the tool prints decodes to the value.
  The crate does not check that a length fits an int32 (it writes `len as i32`): the theorems ask for documents below
  2^31 bytes (`V.small`; the model writes the length modulo 2^32 as the crate does).  Strings and keys are UTF-8
  (`typed`; Rust `String`s are) — the reader checks it, as the crate's does.
-/
open Gd Gd.Cli

/-- the response of a Valve server with two rules, one of them named like an extended-JSON marker: Rust types as the
derive hands them over -/
def C19_bson_sample : VMembers :=
  .cons (asciiBytes "name") (.str (asciiBytes "srv"))
    (.cons (asciiBytes "players") (.arr (.cons (.num (.int .u8 200)) (.cons (.num (.int .i64 (-1))) (.cons (.num (.f64 0x3FF8000000000000)) .nil))))
      (.cons (asciiBytes "max") (.num (.int .u64 9223372036854775807))
        (.cons (asciiBytes "rules") (.doc (.cons (asciiBytes "$numberLong") (.str (asciiBytes "7")) (.cons [] .null .nil))) .nil)))

/-- FULL ROUND TRIP: for EVERY document the serialiser accepts (no `u64` above `i64::MAX`, no NUL in a key), of well-typed
numbers and UTF-8 text, below 2^31 bytes: `bson::to_vec` succeeds and the reader gives back the value, numbers in their
BSON type. -/
theorem C19_bson_decode_encode (ms : VMembers) (he : VMembers.encodable ms = true) (ht : VMembers.typed ms = true)
    (hs : V.small (.doc ms) = true) :
    bsonEncode (.doc ms) = .ok (encV (.doc ms)) ∧ bsonDecode (encV (.doc ms)) = some (.doc (VMembers.canon ms)) := by
  have hf := (VMembers.firstErr_none_iff ms).mpr he
  exact ⟨by simp [bsonEncode, hf], bsonDecode_enc ms hf ht hs⟩

example : VMembers.encodable C19_bson_sample = true ∧ VMembers.typed C19_bson_sample = true
    ∧ V.small (.doc C19_bson_sample) = true := by decide +kernel

/-- what comes back is made of BSON's own types, and a value that already is comes back UNCHANGED (so the reader is an
exact inverse on them: decode (encode v) = v) -/
theorem C19_bson_decode_encode_exact (ms : VMembers) (hb : VMembers.isBson ms = true) (he : VMembers.encodable ms = true)
    (ht : VMembers.typed ms = true) (hs : V.small (.doc ms) = true) :
    bsonDecode (encV (.doc ms)) = some (.doc ms) ∧ ∀ ms', VMembers.isBson (VMembers.canon ms') = true := by
  refine ⟨?_, VMembers.canon_isBson⟩
  have h := (C19_bson_decode_encode ms he ht hs).2
  rwa [VMembers.canon_of_isBson ms hb] at h

example : VMembers.isBson (VMembers.canon C19_bson_sample) = true ∧ VMembers.isBson C19_bson_sample = false := by
  decide +kernel

/-- THE SERIALISER FAILS EXACTLY ON WHAT BSON CANNOT HOLD: a document is written iff it holds no `u64` above `i64::MAX`
and no key with a NUL; the error is the first one met walking the value; nothing but a document is accepted at the top
(an error, not a panic). -/
theorem C19_bson_fails_exactly (v : V) :
    ((∃ b, bsonEncode v = .ok b) ↔ ∃ ms, v = .doc ms ∧ VMembers.encodable ms = true)
    ∧ (∀ ms e, v = .doc ms → (bsonEncode v = .error e ↔ VMembers.firstErr ms = some e))
    ∧ (∀ k x t, v = .doc (.cons k x t) → (0 : UInt8) ∈ k → bsonEncode v = .error .nulKey)
    ∧ (∀ k n t, v = .doc (.cons k (.num (.int .u64 n)) t) → (0 : UInt8) ∉ k → i64Max < n →
        bsonEncode v = .error .unsignedRange) := by
  refine ⟨⟨?_, ?_⟩, ?_, ?_, ?_⟩
  · rintro ⟨b, hb⟩
    cases v with
    | doc ms =>
      refine ⟨ms, rfl, (VMembers.firstErr_none_iff ms).mp ?_⟩
      cases hf : VMembers.firstErr ms with
      | none => rfl
      | some e => simp [bsonEncode, hf] at hb
    | num n => simp only [bsonEncode] at hb; split at hb <;> cases hb
    | null => simp [bsonEncode] at hb
    | bool _ => simp [bsonEncode] at hb
    | str _ => simp [bsonEncode] at hb
    | arr _ => simp [bsonEncode] at hb
  · rintro ⟨ms, rfl, he⟩
    exact ⟨encV (.doc ms), by simp [bsonEncode, (VMembers.firstErr_none_iff ms).mpr he]⟩
  · rintro ms e rfl
    cases hf : VMembers.firstErr ms <;> simp [bsonEncode, hf]
  · rintro k x t rfl hk
    simp [bsonEncode, VMembers.firstErr, hk]
  · rintro k n t rfl hk hn
    simp [bsonEncode, VMembers.firstErr, hk, V.firstErr, Num.refused, hn]

example : bsonEncode (.doc (.cons [97, 0] .null .nil)) = .error .nulKey
    ∧ bsonEncode (.doc (.cons [97] (.num (.int .u64 9223372036854775808)) .nil)) = .error .unsignedRange
    ∧ bsonEncode (.arr .nil) = .error .notDocument
    ∧ bsonEncode (.doc .nil) = .ok [5, 0, 0, 0, 0] := ⟨rfl, rfl, rfl, rfl⟩

/-- THE LAYOUT: the bytes written are a document in the sense of the specification — the int32 at its head is the length
of the whole document, every embedded document, array and string carries the length of exactly the bytes it spans
(`WfVal.doc`, `.arr`, `.str`), each ends with 0x00, element lists nest properly, keys are cstrings. -/
theorem C19_bson_layout (ms : VMembers) (he : VMembers.encodable ms = true) (hs : V.small (.doc ms) = true) :
    WfVal 0x03 (encV (.doc ms))
    ∧ encV (.doc ms) = natLE 4 (encV (.doc ms)).length ++ encMembers ms ++ [0]
    ∧ leNat ((encV (.doc ms)).take 4) = (encV (.doc ms)).length := by
  have hl : (encV (.doc ms)).length = (encMembers ms).length + 5 := by
    simp only [encV, List.length_append, natLE_length, List.length_singleton]; omega
  have hsm : (encMembers ms).length + 5 < 2 ^ 31 := by
    simp only [V.small, Bool.and_eq_true, decide_eq_true_eq] at hs; exact hs.1
  refine ⟨encV_wf (.doc ms) (by simpa [V.encodable] using he) hs, ?_, ?_⟩
  · rw [hl]; simp [encV]
  · rw [hl]
    have : (encV (.doc ms)).take 4 = natLE 4 ((encMembers ms).length + 5) := by
      simp only [encV, List.append_assoc]
      exact List.take_left' (natLE_length 4 _)
    rw [this, leNat_natLE]
    exact Nat.mod_eq_of_lt (by omega)

example : encV (.doc C19_bson_sample) = natLE 4 108 ++ encMembers C19_bson_sample ++ [0]
    ∧ (encV (.doc C19_bson_sample)).length = 108 := by decide +kernel

/-- arrays are documents whose keys are the decimal indices, in order -/
theorem C19_bson_array_keys (i : Nat) (h : V) (t : VList) :
    encItems i (.cons h t) = h.tag :: (natDec i ++ [0] ++ encV h ++ encItems (i + 1) t) := by
  simp [encItems]

/-- THE PRINTED TEXT DECODES TO THE VALUE: `bson-hex` and `bson-base64` of every document the serialiser accepts, read
back through the hex / base64 decoder and the BSON reader. -/
theorem C19_bson_printed_text_decodes (ms : VMembers) (he : VMembers.encodable ms = true) (ht : VMembers.typed ms = true)
    (hs : V.small (.doc ms) = true) :
    ∃ b, bsonEncode (.doc ms) = .ok b
      ∧ (hexDecode (hexEncode b)).bind bsonDecode = some (.doc (VMembers.canon ms))
      ∧ (b64Decode (b64Encode b)).bind bsonDecode = some (.doc (VMembers.canon ms)) := by
  obtain ⟨h1, h2⟩ := C19_bson_decode_encode ms he ht hs
  exact ⟨_, h1, by simp [hexDecode_encode, h2], by simp [b64Decode_encode, h2]⟩
