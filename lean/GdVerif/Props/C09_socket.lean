import GdVerif.Lemmas.Socket
/-
  C09 — socket.rs inside the model: everything a socket emits goes to the address it was created for, and is what the
  protocol handed to `send`.
-/
open Gd Gd.SockRs Gd.Settings

/-- For every kind of socket, remote address (either family, with its port, flow label and scope), settings, behaviour
of the system and sequence of operations: every call that names a destination — the connection attempt of a TCP socket,
every `send_to` of a UDP socket — names exactly the remote address the socket was created for; a UDP socket makes no
connection attempt, a TCP socket no `send_to`. -/
theorem C09_socket_destination (k : Kind) (os : Os) (remote : Addr) (t : Option Timeout) (ops : List Op) :
    ∀ r ∈ destinations (session k os remote t ops).2.2, r = remote := by
  have hnew : ∀ r ∈ destinations (sockNew k os remote t []).2, r = remote := by
    cases k with
    | udp =>
      simp only [sockNew, udpNew]
      cases hb : os.bind [] (localFor remote) with
      | error e => simp [destinations]
      | ok u =>
        simp only []
        rcases applyTimeout_hist os t ([] ++ [.bindUdp (localFor remote)]) with e | e <;> rw [e] <;> simp [destinations]
    | tcp =>
      simp only [sockNew, tcpNew]
      have hc : ∀ rest, destinations (connectCall remote (connectOrDefault t) :: rest) = remote :: destinations rest := by
        intro rest; unfold connectCall; cases connectOrDefault t <;> rfl
      cases hb : os.connect [] remote (connectOrDefault t) with
      | error e => simp only [List.nil_append, hc]; simp [destinations]
      | ok u =>
        simp only []
        rcases applyTimeout_hist os t ([] ++ [connectCall remote (connectOrDefault t)]) with e | e <;> rw [e] <;>
          simp only [List.nil_append, List.cons_append, hc] <;> simp [destinations]
  unfold session
  cases hx : sockNew k os remote t [] with
  | mk r h1 =>
    rw [hx] at hnew
    cases r with
    | ok u => exact runOps_destinations k os remote ops h1 hnew
    | err e => exact hnew
    | crash => exact hnew

example : destinations (session .udp quietOs (.v6 0x2001 0xdb8 0 0 0 0 0 1 27015 0 3) none [.send [1], .send [2]]).2.2
    = [.v6 0x2001 0xdb8 0 0 0 0 0 1 27015 0 3, .v6 0x2001 0xdb8 0 0 0 0 0 1 27015 0 3] := by decide

/-- …and the payloads handed to `send_to` / `write` are exactly the byte strings given to `send`, one call each, in
order, nothing else (for buffer sizes below `isize::MAX`, where no operation can panic and end the sequence). -/
theorem C09_socket_payloads (k : Kind) (os : Os) (remote : Addr) (t : Option Timeout) (ops : List Op)
    (hops : ∀ op ∈ ops, op.sizeOk) (hok : (session k os remote t ops).1 = .ok ()) :
    dataSent (session k os remote t ops).2.2 = ops.filterMap Op.payload := by
  unfold session at hok ⊢
  cases hx : sockNew k os remote t [] with
  | mk r h1 =>
    rw [hx] at hok
    cases r with
    | ok u =>
      have hh : dataSent h1 = [] := by
        cases k with
        | udp =>
          have this : udpNew os remote t [] = (.ok (), h1) := hx
          unfold udpNew at this
          cases hb : os.bind [] (localFor remote) with
          | error e => simp [hb] at this
          | ok u => simp only [hb] at this; rw [applyTimeout_ok os t _ h1 this]; rfl
        | tcp =>
          have this : tcpNew os remote t [] = (.ok (), h1) := hx
          unfold tcpNew at this
          cases hb : os.connect [] remote (connectOrDefault t) with
          | error e => simp [hb] at this
          | ok u =>
            simp only [hb] at this; rw [applyTimeout_ok os t _ h1 this]
            unfold connectCall; cases connectOrDefault t <;> rfl
      have := (runOps_sent k os remote ops h1 hops).1
      simp only []
      rw [this, hh, List.nil_append]
    | err e => simp at hok
    | crash => simp at hok

example : dataSent (session .udp ⟨fun _ _ => .ok (), fun _ _ _ => .ok (), fun _ _ => .ok (), fun _ _ => .ok (), fun _ _ _ => .ok 0,
    fun _ _ => .error .wouldBlock, fun _ _ => .ok 0, fun _ => .closed, fun _ _ => 0⟩ (.v6 0 0 0 0 0 0 0 1 27015 0 0)
    none [.send [1, 2], .receive none, .send [3]]).2.2 = [[1, 2], [3]] := by decide

/-- `Socket::port()` is the port of that address -/
theorem C09_socket_port (remote : Addr) : sockPort remote = remote.port := rfl
