import GdVerif.Lemmas.QuakeSafe
import GdVerif.Spec.Quake
/-
  C09 — Requests are the protocol's and go to the right port: the Quake 1 / 2 / 3 family.
  (The Quake status protocol has no challenge.)
-/
open Gd Gd.Quake

/-- The request of each version is byte for byte the specification's: the out-of-band marker, `status`
(Quake 1, 2) or `getstatus` (Quake 3), a NUL. -/
theorem C09_quake_request_bytes (v : Version) : request v = Spec.request v := by
  cases v <;> decide

/-- Whatever the server does (any script), every datagram the Quake query emits goes out of the one UDP
socket it opened, to the port it was given, and is exactly the version's status request; every receive uses
the fixed 65535-byte buffer; nothing else is done to the transport. -/
theorem C09_quake_conforms (port : Nat) (v : Version) (retries : Nat) (script : List ConnScript) (faults : List Bool) :
    ∀ e ∈ (query port v retries (Net.init script faults)).2.log,
      match e with
      | .opened c tcp p _ => c = 0 ∧ tcp = false ∧ p = port
      | .send c p data _ => c = 0 ∧ p = port ∧ data = Spec.request v
      | .recv c size _ => c = 0 ∧ size = some 65535 := by
  obtain ⟨_, added, hlog, hall⟩ := query_safe port v retries (Net.init script faults)
  intro e he
  rw [hlog] at he
  simp only [Net.init, List.nil_append] at he
  have := hall e he
  simp only [Net.init, List.length_nil] at this
  cases e with
  | opened c tcp p r => exact this
  | send c p d f => exact ⟨this.1, this.2.1, by rw [← C09_quake_request_bytes]; exact this.2.2⟩
  | recv c s gt => exact this

theorem C09_quake_send_log (s : Sock) (d : Bytes) (w : Net) :
    ∃ failed, (send s d w).2.log = w.log ++ [.send s.id s.port d failed] := by
  unfold Gd.send
  split
  · exact ⟨true, rfl⟩
  · exact ⟨false, rfl⟩
  · exact ⟨false, rfl⟩

theorem C09_quake_recv_log (s : Sock) (size : Option Nat) (w : Net) :
    ∃ got, (recv s size w).2.log = w.log ++ [.recv s.id size got] := by
  unfold Gd.recv
  split
  · exact ⟨_, rfl⟩
  · exact ⟨_, rfl⟩
  · split <;> exact ⟨_, rfl⟩

/-- One attempt of the exchange sends exactly one datagram — the request — and then receives at most once:
the log of `get_data_impl` from any state is `send request` followed (if the send did not fail) by one
receive into the 65535-byte buffer. -/
theorem C09_quake_one_request_per_attempt (s : Sock) (v : Version) (w : Net) :
    ∃ failed, ∃ tail, (getDataImpl s v w).2.log = w.log ++ .send s.id s.port (Spec.request v) failed :: tail
      ∧ ∀ e ∈ tail, ∃ got, e = .recv s.id (some 65535) got := by
  rw [← C09_quake_request_bytes]
  obtain ⟨failed, hs⟩ := C09_quake_send_log s (request v) w
  unfold getDataImpl
  rw [Q.bind_apply]
  cases hsend : send s (request v) w with
  | mk res w1 =>
    rw [hsend] at hs
    simp only at hs
    cases res with
    | err k => exact ⟨failed, [], by simpa using hs, by simp⟩
    | crash => exact ⟨failed, [], by simpa using hs, by simp⟩
    | ok u =>
      simp only [Q.bind_apply]
      obtain ⟨got, hr⟩ := C09_quake_recv_log s (some PACKET_SIZE) w1
      cases hrecv : recv s (some PACKET_SIZE) w1 with
      | mk res2 w2 =>
        rw [hrecv] at hr
        simp only at hr
        refine ⟨failed, [.recv s.id (some PACKET_SIZE) got], ?_, by simp [PACKET_SIZE]⟩
        cases res2 with
        | ok d => simp only [parse, Q.lift]; rw [hr, hs]; simp
        | err k => simp only; rw [hr, hs]; simp
        | crash => simp only; rw [hr, hs]; simp

-- non-vacuity: the three requests
example : Spec.request .one = [0xFF, 0xFF, 0xFF, 0xFF, 0x73, 0x74, 0x61, 0x74, 0x75, 0x73, 0x00] := by decide
example : Spec.request .three = [0xFF, 0xFF, 0xFF, 0xFF, 0x67, 0x65, 0x74, 0x73, 0x74, 0x61, 0x74, 0x75, 0x73, 0x00] := by decide
