import GdVerif.Props.C19_cli
/-
  C14 — the command-line tool as a caller of the definition-driven entry point (`Proto/CliPlan.lean`).

  For EVERY invocation that gets as far as a query: the query issued is exactly
  `query_with_timeout_and_extra_settings(definition of the given id, address, the caller's port or none, the caller's
  timeout settings or none, the caller's extra settings)` — the generic path of C14, whose agreement with the game's
  module and with the protocol's own function is `C14_dispatch_*` — and every id of the table reaches its own row.
-/
open Gd Gd.Cli Gd.CliPlan

/-- Every row of the definitions table is found under its own id (the ids are distinct keys), and under no other
text: what `find_game` returns for an id is the definition of that id. -/
theorem C14_cli_every_game_found : (Gen.gameDefs.all fun row => lookupGame (asciiBytes row.id) == some row) = true := by
  decide +kernel

/-- what `lookupGame` finds has the id that was asked for -/
theorem C14_cli_found_has_the_id (id : Bytes) (row : Gen.GameRow) (h : lookupGame id = some row) :
    row ∈ Gen.gameDefs ∧ asciiBytes row.id = id := by
  refine ⟨lookupGame_mem h, ?_⟩
  have := List.find?_some h
  simpa using this

/-- THE QUERY THE TOOL ISSUES.  For every invocation with a plan, every environment and transport state: the library is
called through the generic entry point with the definition looked up under `--game`, `--port` (or none: the
dispatch then applies the definition's default, `C14_dispatch_destination_port`), the timeout settings built from the
timeout flags (or none) and the extra settings built from the extra flags — with the host name added exactly when
the host was a name and no `--hostname` was given. -/
theorem C14_cli_issues_the_generic_query (env : Env) (fl : Flags) (w : Net) (p : Plan) (hp : plan env.resolve fl = .ok p) :
    ∃ args game, clap fl = some args ∧ lookupGame args.game = some p.row ∧ Dispatch.Game.ofRow p.row = some game
      ∧ query env p w = .ok (Dispatch.generic env.dispatch game args.port args.timeoutSettings p.extraOptions w)
      ∧ ((parseIpAddr args.ip).isSome = true → p.extraOptions = args.extraOptions)
      ∧ ((parseIpAddr args.ip).isSome = false → p.extraOptions = setHostnameIfMissing args.ip args.extraOptions) := by
  obtain ⟨args, hc, hg, h1, h2, _, _, hhost⟩ := (C19_cli_plan env.resolve fl p).mp hp
  have hsome := List.all_eq_true.mp C14_dispatch_rows_modelled.1 p.row (lookupGame_mem hg)
  obtain ⟨game, hgame⟩ := Option.isSome_iff_exists.mp hsome
  refine ⟨args, game, hc, hg, hgame, ?_, ?_, ?_⟩
  · simp only [query, hgame, h1, h2]
  · intro hs
    rcases hhost with ⟨_, _, he⟩ | ⟨hn, _⟩
    · exact he
    · rw [hn] at hs; cases hs
  · intro hs
    rcases hhost with ⟨hn, _⟩ | ⟨_, _, _, he⟩
    · rw [hn] at hs; cases hs
    · exact he

-- non-vacuity: `-g valheim -i ::1 -p 2460 --gather-rules skip`: the row of Valheim, its own port overridden, no host name
example : (plan (fun _ => none) { game := some (asciiBytes "valheim"), ip := some (asciiBytes "::1"), port := some (asciiBytes "2460"), gatherRules := some (asciiBytes "skip") }).bind
      (fun p => .ok (p.row.port, p.port, p.extraOptions, p.address))
    = .ok (2457, some 2460, some ⟨none, none, none, some .skip, none⟩, .v6 0 0 0 0 0 0 0 1) := by
  decide +kernel
