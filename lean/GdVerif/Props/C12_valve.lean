import GdVerif.Lemmas.ValveSilent
/-
  C12 — Valve, additions to `Props/C12.lean`: the sharp count and the silent server for the whole
  query (socket creation included).
-/
open Gd Gd.Valve

/-- `C12_valve_blocking_bound` sharpened: at most `3 · retries + 2` blocking steps run into their
timeout.  The players and rules requests are only made after the info request has succeeded, i.e.
after at most `retries` failed attempts; a failed socket creation ends the query at once. -/
theorem C12_valve_blocking_bound_sharp (ext : Ext) (port : Nat) (engine : Engine) (g : Gather) (retries : Nat)
    (script : List ConnScript) (faults : List Bool) :
    nBlocked (query ext port engine g retries (Net.init script faults)).2.log ≤ 3 * retries + 2 := by
  have := (block_query_sharp ext port engine g retries).total script faults
  omega
/-- The whole query against a silent server: the info request fails after exactly `retries + 1` attempts and the query fails with the receive-class error, whatever the gather settings. -/
theorem C12_valve_query_silent_server (ext : Ext) (port : Nat) (engine : Engine) (g : Gather) (retries : Nat) (script : List ConnScript)
    (h : PendingSilent false (retries + 1) script) :
    (query ext port engine g retries (Net.init script [])).1 = .err .packetReceive
      ∧ nSends (query ext port engine g retries (Net.init script [])).2.log = retries + 1
      ∧ nBlocked (query ext port engine g retries (Net.init script [])).2.log = retries + 1
      ∧ nRecvOk (query ext port engine g retries (Net.init script [])).2.log = 0
      ∧ nOpened (query ext port engine g retries (Net.init script [])).2.log = 1 :=
  (silent_query ext port engine g retries (Net.init script []) rfl h).counts

example (retries : Nat) (rest : List Delivery) (more : List ConnScript) :
    PendingSilent false (retries + 1) [] ∧
    PendingSilent false (retries + 1) (.opened (List.replicate (retries + 1) .silence ++ rest) :: more) :=
  ⟨rfl, SilentFor.replicate false (retries + 1) rest⟩

/-- the sharp bound is attained (no retry): info answered, players and rules not -/
example : nBlocked (query ⟨fun _ => none, fun _ => 0⟩ 27015 (Engine.new 2400) Gather.default 0
    (Net.init [.opened [.data [255, 255, 255, 255, 73, 0, 32, 1, 48, 240, 159, 152, 128, 194, 167, 40, 122, 45, 47, 240, 159, 152, 128, 48, 226, 130, 172, 0, 92, 62, 58, 0, 57, 0, 1, 59, 195, 169, 227, 129, 130, 66, 38, 195, 191, 194, 167, 58, 58, 38, 34, 93, 59, 93, 65, 47, 1, 244, 143, 191, 191, 60, 95, 46, 195, 191, 48, 194, 167, 48, 194, 167, 97, 91, 46, 66, 47, 0, 96, 9, 0, 107, 128, 112, 109, 0, 0, 254, 127, 165, 9, 1, 92, 57, 244, 143, 191, 191, 58, 40, 227, 129, 130, 0, 224, 0, 0, 255, 255, 57, 10, 0, 92, 196, 128, 65, 39, 196, 128, 239, 191, 191, 95, 227, 129, 130, 244, 143, 191, 191, 60, 59, 239, 191, 191, 0], .silence, .silence]] [])).2.log = 2 := by
  decide +kernel
