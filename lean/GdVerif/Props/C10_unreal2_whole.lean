import GdVerif.Lemmas.Unreal2Faults
import GdVerif.Props.C06
/-
  C10 on WHOLE Unreal 2 queries with faults injected.

  `Props/C10.lean` proves C10 for the combinator, `Props/C10_unreal2.lean` names the three retried units (server info,
  mutators and rules, players: each ONE request and its FIRST reply datagram) and shows that the listening loops for the
  further datagrams are outside them.  Here the property is proved end to end for `Unreal2.query` against the SPEC's
  server (`Spec/Unreal2.lean`), on the scripts of `props/families/unreal2.py: c10_build / c10_build_multi`: a plan
  (`Spec/Unreal2Faults.lean`) gives for EACH unit the attempts that end in a timeout-class failure — `false`: the request
  goes out and nothing comes back, `true`: the request cannot be sent — and how the unit ends: the server's answer (for
  rules and players: all its datagrams; the rules answer is followed by the silence that ends the client's listening),
  nothing, or a malformed first datagram.  Units are gathered under their toggles: Skip — never asked for; Try — a
  failure leaves the response intact with the section absent; Enforce (and the server info, always) — a failure ends
  the query and later units are not asked for.  `faultyScript` / `faultyFaults` are the two arguments of `Net.init`;
  what follows them (`restQ`, `restF`) is arbitrary, except that when the client is still listening for players after the
  last players datagram (fewer players listed than announced) it must be nothing or begin with a silence
  (`stillListening` / `quiet`).  Quantified: state and cuts into datagrams in the SPEC's domain, all 9 toggle pairs, port,
  retry count, the plan.
-/
open Gd Gd.Unreal2 Gd.Unreal2.Spec Gd.Faults

/-- THE GENERAL STATEMENT.  For every plan in C10's domain for the retry count (`wfPlan`: every unit the query gets to
that is answered — validly, or by a first datagram shorter than the reply header or with another kind byte — had at
most `retries` timeout-class failures before, a unit that is given up exactly `retries + 1`): the query returns the
outcome the property prescribes (`faultyExpected`: each section present / absent / fatal according to its toggle and
its unit's ending, the error being the last failure's or the malformed datagram's), and the datagrams it sent are
exactly the plan's (`faultySends`: per unit that is reached its request once per attempt; a silence in a listening loop
causes no request). -/
theorem C10_unreal2_query_faulty (cfg : Config) (st : State) (hwf : wf cfg st = true) (port : Nat) (plan : Plan)
    (hplan : wfPlan cfg plan = true) (restQ : List Delivery) (restF : List Bool)
    (hrest : stillListening cfg st plan = true → quiet restQ = true) :
    (Unreal2.query port cfg.gather cfg.retries
        (Net.init [.opened (faultyScript cfg st plan ++ restQ)] (faultyFaults cfg plan ++ restF))).1
      = faultyExpected cfg st plan
    ∧ sentOf (Unreal2.query port cfg.gather cfg.retries
        (Net.init [.opened (faultyScript cfg st plan ++ restQ)] (faultyFaults cfg plan ++ restF))).2.log
      = faultySends cfg plan :=
  query_faulty cfg st hwf port plan hplan restQ restF hrest

/-- attempts per unit seen on the wire (requests of its kind): the plan's for a unit the query gets to, none for a unit
it does not get to (skipped, or behind a fatal failure) -/
theorem C10_unreal2_attempts (cfg : Config) (plan : Plan) (sec : Section) :
    attemptsOf sec (faultySends cfg plan) = if reached cfg plan sec then (plan.unit sec).attempts else 0 :=
  attemptsOf_faultySends cfg plan sec

/-- (a) RECOVERY.  Each unit loses `fi` / `fr` / `fp` attempts (any numbers ≤ `retries`, each a lost reply or a failed
send; every unit has its own `retries + 1` tries) before it is answered: the query returns exactly the fault-free
result (`Spec.expected` of the configuration with both sections answered — by `C06_query` what the query returns on the
fault-free script), and each unit that is gathered was tried `k + 1` times, a skipped one never. -/
theorem C10_unreal2_query_recovers (cfg : Config) (st : State) (hwf : wf cfg st = true) (port : Nat)
    (fi fr fp : List Bool) (hi : fi.length ≤ cfg.retries) (hr : fr.length ≤ cfg.retries) (hp : fp.length ≤ cfg.retries)
    (restQ : List Delivery) (restF : List Bool)
    (hrest : cfg.gather.players ≠ .skip → st.players.length < st.numPlayers → quiet restQ = true) :
    let plan : Plan := ⟨⟨fi, .valid⟩, ⟨fr, .valid⟩, ⟨fp, .valid⟩⟩
    let out := Unreal2.query port cfg.gather cfg.retries
        (Net.init [.opened (faultyScript cfg st plan ++ restQ)] (faultyFaults cfg plan ++ restF))
    out.1 = expected cfg.answered st
    ∧ sentOf out.2.log = faultySends cfg plan
    ∧ attemptsOf .info (sentOf out.2.log) = fi.length + 1
    ∧ attemptsOf .rules (sentOf out.2.log) = (if cfg.gather.mutatorsAndRules = .skip then 0 else fr.length + 1)
    ∧ attemptsOf .players (sentOf out.2.log) = (if cfg.gather.players = .skip then 0 else fp.length + 1) := by
  intro plan out
  have hplan : wfPlan cfg plan = true := by
    simp [wfPlan, wfUnit, plan, hi, hr, hp]
  have hst : rulesStops cfg plan = false := by simp [rulesStops, plan]
  obtain ⟨h1, h2⟩ := C10_unreal2_query_faulty cfg st hwf port plan hplan restQ restF (by
    intro hs
    simp only [stillListening, playersReached, plan, Bool.and_eq_true, bne_iff_ne, ne_eq, decide_eq_true_eq] at hs
    exact hrest hs.1.1.2 hs.2)
  rw [faultyExpected_answered cfg st plan rfl rfl rfl] at h1
  have h2' : sentOf out.2.log = faultySends cfg plan := h2
  refine ⟨h1, h2', ?_, ?_, ?_⟩
  · rw [h2', C10_unreal2_attempts]; rfl
  · rw [h2', C10_unreal2_attempts]
    cases ht : cfg.gather.mutatorsAndRules <;>
      simp [reached, rulesReached, infoOk, plan, ht, Plan.unit, UnitPlan.attempts]
  · rw [h2', C10_unreal2_attempts]
    cases ht : cfg.gather.players <;>
      simp [reached, playersReached, infoOk, hst, plan, ht, Plan.unit, UnitPlan.attempts]

/-- (b) EXHAUSTION of a required unit.  The query gets to unit `sec` (the server info; or a section set to Enforce, the
units before it having ended without stopping the query), and all `retries + 1` attempts of that unit end in a
timeout-class failure: the query fails with the LAST attempt's error — `PacketReceive`, or `PacketSend` when that
attempt was a failed send — after exactly `retries + 1` requests of that unit, and no later unit is asked for, whatever
the script still holds. -/
theorem C10_unreal2_query_exhausted (cfg : Config) (st : State) (hwf : wf cfg st = true) (port : Nat) (plan : Plan)
    (hplan : wfPlan cfg plan = true) (sec : Section) (hreach : reached cfg plan sec = true)
    (ht : toggleOf cfg sec = .enforce) (hend : (plan.unit sec).ending = .gaveUp)
    (restQ : List Delivery) (restF : List Bool) :
    let out := Unreal2.query port cfg.gather cfg.retries
        (Net.init [.opened (faultyScript cfg st plan ++ restQ)] (faultyFaults cfg plan ++ restF))
    out.1 = .err (lastError attemptError (plan.unit sec).fails)
    ∧ (out.1 = .err .packetReceive ∨ out.1 = .err .packetSend)
    ∧ attemptsOf sec (sentOf out.2.log) = cfg.retries + 1
    ∧ (sec = .info → attemptsOf .rules (sentOf out.2.log) = 0)
    ∧ (sec ≠ .players → attemptsOf .players (sentOf out.2.log) = 0) := by
  intro out
  have hk : (plan.unit sec).error = some (lastError attemptError (plan.unit sec).fails) := by
    simp [UnitPlan.error, hend]
  -- the unit is in the plan's domain: exactly `retries + 1` failures
  have hlen : (plan.unit sec).fails.length = cfg.retries + 1 := by
    simp only [wfPlan, Bool.and_eq_true, Bool.or_eq_true, Bool.not_eq_true'] at hplan
    obtain ⟨⟨h0, h1⟩, h2⟩ := hplan
    cases sec with
    | info =>
      simp only [Plan.unit] at hend ⊢
      simpa [wfUnit, hend] using (show wfUnit cfg.retries 0 plan.info = true from h0)
    | rules =>
      simp only [reached] at hreach
      simp only [Plan.unit] at hend ⊢
      rcases h1 with h | h
      · rw [hreach] at h; cases h
      · simpa [wfUnit, hend] using h
    | players =>
      simp only [reached] at hreach
      simp only [Plan.unit] at hend ⊢
      rcases h2 with h | h
      · rw [hreach] at h; cases h
      · simpa [wfUnit, hend] using h
  have hnotlisten : stillListening cfg st plan = false := by
    cases sec with
    | info =>
      simp only [Plan.unit] at hend
      simp [stillListening, playersReached, infoOk, hend]
    | rules =>
      simp only [Plan.unit] at hend
      simp only [toggleOf] at ht
      simp [stillListening, playersReached, rulesStops, ht, hend]
    | players =>
      simp only [Plan.unit] at hend
      simp [stillListening, hend]
  obtain ⟨h1, h2⟩ := C10_unreal2_query_faulty cfg st hwf port plan hplan restQ restF (by rw [hnotlisten]; intro h; cases h)
  rw [faultyExpected_stops cfg st plan sec _ hreach ht hk] at h1
  have h1' : out.1 = .err (lastError attemptError (plan.unit sec).fails) := h1
  have h2' : sentOf out.2.log = faultySends cfg plan := h2
  have hne : (plan.unit sec).fails ≠ [] := by intro h0; rw [h0] at hlen; simp at hlen
  refine ⟨h1', ?_, ?_, ?_, ?_⟩
  · rw [h1']
    rcases lastError_class _ hne with e | e <;> simp [e]
  · rw [h2', C10_unreal2_attempts, hreach]
    simp [UnitPlan.attempts, hend, hlen]
  · intro hs
    subst hs
    simp only [Plan.unit] at hend
    rw [h2', C10_unreal2_attempts]
    simp [reached, rulesReached, infoOk, hend]
  · intro hs
    rw [h2', C10_unreal2_attempts]
    cases sec with
    | info =>
      simp only [Plan.unit] at hend
      simp [reached, playersReached, infoOk, hend]
    | rules =>
      simp only [Plan.unit] at hend
      simp only [toggleOf] at ht
      simp [reached, playersReached, rulesStops, ht, hend]
    | players => exact absurd rfl hs

theorem C10_unreal2_last_error (fails : List Bool) (f : Bool) :
    lastError attemptError (fails ++ [f]) = (if f then .packetSend else .packetReceive) :=
  lastError_attempt fails f

/-- (b') A unit that is only TRIED and fails — all `retries + 1` attempts time out, or its first datagram is malformed —
leaves the response intact with the section absent: for the rules unit (players answered) the query returns what the
SPEC prescribes for a rules section that is tried and not answered, and the rules request was sent once per attempt
of the plan; the players unit is still asked for. -/
theorem C10_unreal2_query_rules_tried (cfg : Config) (st : State) (hwf : wf cfg st = true) (port : Nat) (plan : Plan)
    (hplan : wfPlan cfg plan = true) (hi : plan.info.ending = .valid) (ht : cfg.gather.mutatorsAndRules = .try_)
    (hr : plan.rules.ending ≠ .valid) (hpl : plan.players.ending = .valid) (restQ : List Delivery) (restF : List Bool)
    (hrest : cfg.gather.players ≠ .skip → st.players.length < st.numPlayers → quiet restQ = true) :
    let out := Unreal2.query port cfg.gather cfg.retries
        (Net.init [.opened (faultyScript cfg st plan ++ restQ)] (faultyFaults cfg plan ++ restF))
    out.1 = expected { cfg.answered with rulesOutcome := .silent } st
    ∧ (∃ r, out.1 = .ok r ∧ r.mutatorsAndRules = .empty)
    ∧ attemptsOf .rules (sentOf out.2.log) = plan.rules.attempts
    ∧ attemptsOf .players (sentOf out.2.log) = (if cfg.gather.players = .skip then 0 else plan.players.attempts) := by
  intro out
  obtain ⟨k, hk⟩ : ∃ k, plan.rules.error = some k := by
    unfold UnitPlan.error
    cases he : plan.rules.ending with
    | valid => exact absurd he hr
    | gaveUp => exact ⟨_, rfl⟩
    | malformed m => exact ⟨_, rfl⟩
  have hst : rulesStops cfg plan = false := by simp [rulesStops, ht]
  obtain ⟨h1, h2⟩ := C10_unreal2_query_faulty cfg st hwf port plan hplan restQ restF (by
    intro hs
    simp only [stillListening, playersReached, Bool.and_eq_true, bne_iff_ne, ne_eq, decide_eq_true_eq] at hs
    exact hrest hs.1.1.2 hs.2)
  rw [faultyExpected_rules_tried cfg st plan hi ht k hk hpl] at h1
  have h1' : out.1 = expected { cfg.answered with rulesOutcome := .silent } st := h1
  have h2' : sentOf out.2.log = faultySends cfg plan := h2
  refine ⟨h1', ?_, ?_, ?_⟩
  · rw [h1']
    unfold expected sectionResult Config.answered
    simp only [ht]
    cases cfg.gather.players <;> exact ⟨_, rfl, rfl⟩
  · rw [h2', C10_unreal2_attempts]
    simp [reached, rulesReached, infoOk, hi, ht, Plan.unit]
  · rw [h2', C10_unreal2_attempts]
    cases htp : cfg.gather.players <;> simp [reached, playersReached, infoOk, hi, hst, htp, Plan.unit]

/-- the same for the players unit (rules answered): the response without players -/
theorem C10_unreal2_query_players_tried (cfg : Config) (st : State) (hwf : wf cfg st = true) (port : Nat) (plan : Plan)
    (hplan : wfPlan cfg plan = true) (hi : plan.info.ending = .valid) (hr : plan.rules.ending = .valid)
    (ht : cfg.gather.players = .try_) (hpl : plan.players.ending ≠ .valid) (restQ : List Delivery) (restF : List Bool) :
    let out := Unreal2.query port cfg.gather cfg.retries
        (Net.init [.opened (faultyScript cfg st plan ++ restQ)] (faultyFaults cfg plan ++ restF))
    out.1 = expected { cfg.answered with playersOutcome := .silent } st
    ∧ (∃ r, out.1 = .ok r ∧ r.players = .empty)
    ∧ attemptsOf .players (sentOf out.2.log) = plan.players.attempts := by
  intro out
  obtain ⟨k, hk⟩ : ∃ k, plan.players.error = some k := by
    unfold UnitPlan.error
    cases he : plan.players.ending with
    | valid => exact absurd he hpl
    | gaveUp => exact ⟨_, rfl⟩
    | malformed m => exact ⟨_, rfl⟩
  have hst : rulesStops cfg plan = false := by simp [rulesStops, hr]
  obtain ⟨h1, h2⟩ := C10_unreal2_query_faulty cfg st hwf port plan hplan restQ restF (by
    intro hs
    simp only [stillListening, Bool.and_eq_true, beq_iff_eq] at hs
    exact absurd hs.1.2 hpl)
  rw [faultyExpected_players_tried cfg st plan hi hr ht k hk] at h1
  have h1' : out.1 = expected { cfg.answered with playersOutcome := .silent } st := h1
  have h2' : sentOf out.2.log = faultySends cfg plan := h2
  refine ⟨h1', ?_, ?_⟩
  · rw [h1']
    unfold expected sectionResult Config.answered
    simp only [ht]
    cases cfg.gather.mutatorsAndRules <;> exact ⟨_, rfl, rfl⟩
  · rw [h2', C10_unreal2_attempts]
    simp [reached, playersReached, infoOk, hi, hst, ht, Plan.unit]

/-- (c) A MALFORMED REPLY IS NOT RETRIED.  The query gets to a required unit `sec`; after any number ≤ `retries` of
timed-out attempts the first datagram that comes back is one the header check rejects — ANY datagram (within the
receive buffer) shorter than the 5 header bytes or whose kind byte is not the unit's (`Spec.malformedAt`).  Whatever
`retries` is, the query fails at once with `PacketBad` / `PacketUnderflow` (not a timeout-class error), no further
request of that unit is sent — `fails.length + 1` in all — and no later unit is asked for. -/
theorem C10_unreal2_query_malformed_not_retried (cfg : Config) (st : State) (hwf : wf cfg st = true) (port : Nat)
    (plan : Plan) (hplan : wfPlan cfg plan = true) (sec : Section) (hreach : reached cfg plan sec = true)
    (ht : toggleOf cfg sec = .enforce) (m : Bytes) (hend : (plan.unit sec).ending = .malformed m)
    (restQ : List Delivery) (restF : List Bool) :
    let out := Unreal2.query port cfg.gather cfg.retries
        (Net.init [.opened (faultyScript cfg st plan ++ restQ)] (faultyFaults cfg plan ++ restF))
    out.1 = .err (malformedError m)
    ∧ (malformedError m).isTimeout = false
    ∧ attemptsOf sec (sentOf out.2.log) = (plan.unit sec).fails.length + 1
    ∧ (plan.unit sec).fails.length ≤ cfg.retries
    ∧ (sec ≠ .players → attemptsOf .players (sentOf out.2.log) = 0) := by
  intro out
  have hk : (plan.unit sec).error = some (malformedError m) := by simp [UnitPlan.error, hend]
  have hlen : (plan.unit sec).fails.length ≤ cfg.retries := by
    simp only [wfPlan, Bool.and_eq_true, Bool.or_eq_true, Bool.not_eq_true'] at hplan
    obtain ⟨⟨h0, h1⟩, h2⟩ := hplan
    cases sec with
    | info =>
      have := (show wfUnit cfg.retries 0 plan.info = true from h0)
      simp only [Plan.unit] at hend ⊢
      simp [wfUnit, hend] at this
      exact this.1.1
    | rules =>
      simp only [reached] at hreach
      simp only [Plan.unit] at hend ⊢
      rcases h1 with h | h
      · rw [hreach] at h; cases h
      · simp [wfUnit, hend] at h; exact h.1.1
    | players =>
      simp only [reached] at hreach
      simp only [Plan.unit] at hend ⊢
      rcases h2 with h | h
      · rw [hreach] at h; cases h
      · simp [wfUnit, hend] at h; exact h.1.1
  have hnotlisten : stillListening cfg st plan = false := by
    cases sec with
    | info =>
      simp only [Plan.unit] at hend
      simp [stillListening, playersReached, infoOk, hend]
    | rules =>
      simp only [Plan.unit] at hend
      simp only [toggleOf] at ht
      simp [stillListening, playersReached, rulesStops, ht, hend]
    | players =>
      simp only [Plan.unit] at hend
      simp [stillListening, hend]
  obtain ⟨h1, h2⟩ := C10_unreal2_query_faulty cfg st hwf port plan hplan restQ restF (by rw [hnotlisten]; intro h; cases h)
  rw [faultyExpected_stops cfg st plan sec _ hreach ht hk] at h1
  have h2' : sentOf out.2.log = faultySends cfg plan := h2
  refine ⟨h1, malformedError_not_timeout m, ?_, hlen, ?_⟩
  · rw [h2', C10_unreal2_attempts, hreach]
    simp [UnitPlan.attempts, hend]
  · intro hs
    rw [h2', C10_unreal2_attempts]
    cases sec with
    | info =>
      simp only [Plan.unit] at hend
      simp [reached, playersReached, infoOk, hend]
    | rules =>
      simp only [Plan.unit] at hend
      simp only [toggleOf] at ht
      simp [reached, playersReached, rulesStops, ht, hend]
    | players => exact absurd rfl hs

/-! ### non-vacuity: the server of `Props/C06.lean` (rules and players over two datagrams each, retries = 1) -/

theorem C10_unreal2_exWf : wf C06Example.cfg C06Example.st = true := by decide +kernel

/-- the same server asked with the rules section only tried -/
def C10_unreal2_exCfgTry : Config := { C06Example.cfg with gather := ⟨.enforce, .try_⟩ }

theorem C10_unreal2_exWf' : wf C10_unreal2_exCfgTry C06Example.st = true := by
  decide +kernel

/-- a failed send at the info unit, a lost reply at the rules unit, a lost reply at the players unit -/
abbrev C10_unreal2_exPlan : Plan := ⟨⟨[true], .valid⟩, ⟨[false], .valid⟩, ⟨[false], .valid⟩⟩

-- (a) every unit recovers from one failure: the plan is in the domain, its script holds 1 + (1 + 2 + 1) + (1 + 2)
-- deliveries and six send flags, the query answers the fault-free response after 2 requests per unit
theorem C10_unreal2_exPlan_facts :
    wfPlan C06Example.cfg C10_unreal2_exPlan = true
    ∧ (faultyScript C06Example.cfg C06Example.st C10_unreal2_exPlan).length = 8
    ∧ faultyFaults C06Example.cfg C10_unreal2_exPlan = [true, false, false, false, false, false]
    ∧ ([true] : List Bool).length ≤ C06Example.cfg.retries
    ∧ (if C06Example.cfg.gather.players = .skip then 0 else ([false] : List Bool).length + 1) = 2 := by decide +kernel

example (port : Nat) :
    (Unreal2.query port C06Example.cfg.gather C06Example.cfg.retries (Net.init
        [.opened (faultyScript C06Example.cfg C06Example.st C10_unreal2_exPlan ++ [])]
        (faultyFaults C06Example.cfg C10_unreal2_exPlan ++ []))).1 = expected C06Example.cfg.answered C06Example.st
    ∧ attemptsOf .players (sentOf (Unreal2.query port C06Example.cfg.gather C06Example.cfg.retries (Net.init
        [.opened (faultyScript C06Example.cfg C06Example.st C10_unreal2_exPlan ++ [])]
        (faultyFaults C06Example.cfg C10_unreal2_exPlan ++ []))).2.log) = 2 := by
  obtain ⟨h1, _, _, _, h5⟩ := C10_unreal2_query_recovers C06Example.cfg C06Example.st C10_unreal2_exWf port [true]
    [false] [false] C10_unreal2_exPlan_facts.2.2.2.1 C10_unreal2_exPlan_facts.2.2.2.1 C10_unreal2_exPlan_facts.2.2.2.1 [] []
    (fun _ _ => rfl)
  refine ⟨h1, ?_⟩
  rw [h5]
  exact C10_unreal2_exPlan_facts.2.2.2.2

-- (b) both attempts of the (enforced) rules unit are lost: PacketReceive, two rules requests, players never asked for
abbrev C10_unreal2_exPlanB : Plan := ⟨⟨[], .valid⟩, ⟨[false, false], .gaveUp⟩, ⟨[], .valid⟩⟩

theorem C10_unreal2_exPlanB_facts :
    wfPlan C06Example.cfg C10_unreal2_exPlanB = true ∧ reached C06Example.cfg C10_unreal2_exPlanB .rules = true
    ∧ toggleOf C06Example.cfg .rules = .enforce := by decide +kernel

example (port : Nat) (restQ : List Delivery) :
    (Unreal2.query port C06Example.cfg.gather C06Example.cfg.retries (Net.init
        [.opened (faultyScript C06Example.cfg C06Example.st C10_unreal2_exPlanB ++ restQ)]
        (faultyFaults C06Example.cfg C10_unreal2_exPlanB ++ []))).1 = .err .packetReceive
    ∧ attemptsOf .players (sentOf (Unreal2.query port C06Example.cfg.gather C06Example.cfg.retries (Net.init
        [.opened (faultyScript C06Example.cfg C06Example.st C10_unreal2_exPlanB ++ restQ)]
        (faultyFaults C06Example.cfg C10_unreal2_exPlanB ++ []))).2.log) = 0 := by
  obtain ⟨h1, _, _, _, h5⟩ := C10_unreal2_query_exhausted C06Example.cfg C06Example.st C10_unreal2_exWf port
    C10_unreal2_exPlanB C10_unreal2_exPlanB_facts.1 .rules C10_unreal2_exPlanB_facts.2.1 C10_unreal2_exPlanB_facts.2.2
    rfl restQ []
  exact ⟨h1, h5 (by decide)⟩

-- (b') the same failure (a lost reply, then a failed send) with the rules section only tried: the response without rules
abbrev C10_unreal2_exPlanT : Plan := ⟨⟨[], .valid⟩, ⟨[false, true], .gaveUp⟩, ⟨[], .valid⟩⟩

theorem C10_unreal2_exPlanT_facts : wfPlan C10_unreal2_exCfgTry C10_unreal2_exPlanT = true := by decide +kernel

example (port : Nat) :
    ∃ r, (Unreal2.query port C10_unreal2_exCfgTry.gather C10_unreal2_exCfgTry.retries (Net.init
        [.opened (faultyScript C10_unreal2_exCfgTry C06Example.st C10_unreal2_exPlanT ++ [])]
        (faultyFaults C10_unreal2_exCfgTry C10_unreal2_exPlanT ++ []))).1 = .ok r
      ∧ r.mutatorsAndRules = .empty :=
  (C10_unreal2_query_rules_tried C10_unreal2_exCfgTry C06Example.st C10_unreal2_exWf' port C10_unreal2_exPlanT
    C10_unreal2_exPlanT_facts rfl rfl (by decide) rfl [] [] (fun _ _ => rfl)).2.1

-- (c) the check's malformed datagram `ff ff` as the first players datagram after a lost attempt; a four-byte datagram
-- and one with the wrong kind byte are malformed too
abbrev C10_unreal2_exPlanM : Plan := ⟨⟨[], .valid⟩, ⟨[], .valid⟩, ⟨[false], .malformed [0xFF, 0xFF]⟩⟩

theorem C10_unreal2_exPlanM_facts :
    wfPlan C06Example.cfg C10_unreal2_exPlanM = true ∧ reached C06Example.cfg C10_unreal2_exPlanM .players = true
    ∧ toggleOf C06Example.cfg .players = .enforce ∧ malformedError [0xFF, 0xFF] = .packetBad
    ∧ malformedAt 2 [0x80, 0, 0, 0] = true ∧ malformedError [0x80, 0, 0, 0] = .packetUnderflow
    ∧ malformedAt 2 [0x80, 0, 0, 0, 1, 5] = true := by decide +kernel

example (port : Nat) :
    (Unreal2.query port C06Example.cfg.gather C06Example.cfg.retries (Net.init
        [.opened (faultyScript C06Example.cfg C06Example.st C10_unreal2_exPlanM ++ [])]
        (faultyFaults C06Example.cfg C10_unreal2_exPlanM ++ []))).1 = .err .packetBad :=
  (C10_unreal2_query_malformed_not_retried C06Example.cfg C06Example.st C10_unreal2_exWf port C10_unreal2_exPlanM
    C10_unreal2_exPlanM_facts.1 .players C10_unreal2_exPlanM_facts.2.1 C10_unreal2_exPlanM_facts.2.2.1 [0xFF, 0xFF] rfl
    [] []).1
