import GdVerif.Proto.Valve
/-
  C11 — Gather toggles and the app-id check behave as documented.

  MODEL: `maybeGather` (`maybe_gather!` in utils.rs), `Valve.appIdOk` and `Valve.query`
  (`get_response` in protocols/valve/protocol.rs).
-/
open Gd Gd.Valve

/-- Skip: the section's function is not run at all — the transport state (in particular the log
of requests sent) is untouched — and the section is absent. -/
theorem C11_skip (f : Q α) (w : Net) : maybeGather .skip f w = (.ok none, w) := rfl

/-- Try, section succeeds: present. -/
theorem C11_try_ok (f : Q α) (w w' : Net) (a : α) (h : f w = (.ok a, w')) :
    maybeGather .try_ f w = (.ok (some a), w') := by
  simp [maybeGather, h]

/-- Try, section fails (timeout or malformed, any error kind): the query goes on, the section is
absent. -/
theorem C11_try_fail (f : Q α) (w w' : Net) (k : ErrKind) (h : f w = (.err k, w')) :
    maybeGather .try_ f w = (.ok none, w') := by
  simp [maybeGather, h]

/-- Enforce, section succeeds: present. -/
theorem C11_enforce_ok (f : Q α) (w w' : Net) (a : α) (h : f w = (.ok a, w')) :
    maybeGather .enforce f w = (.ok (some a), w') := by
  simp only [maybeGather]
  show (f >>= fun a => pure (some a)) w = _
  rw [Q.bind_apply, h]
  rfl

/-- Enforce, section fails: the whole computation fails with that failure. -/
theorem C11_enforce_fail (f : Q α) (w w' : Net) (k : ErrKind) (h : f w = (.err k, w')) :
    maybeGather .enforce f w = (.err k, w') := by
  simp only [maybeGather]
  show (f >>= fun a => pure (some a)) w = _
  rw [Q.bind_apply, h]

/-- App-id check on, engine with expected ids: accepted exactly when the server's id is the main
or the dedicated-server id. -/
theorem C11_appid_on (main : Nat) (dedicated : Option Nat) (players rules : Toggle) (appid : Nat) :
    appIdOk (.source (some (main, dedicated))) ⟨players, rules, true⟩ appid = true
      ↔ (appid = main ∨ dedicated = some appid) := by
  cases dedicated with
  | none =>
    simp only [appIdOk, Bool.or_false, Bool.not_true, Bool.or_eq_true, beq_iff_eq, reduceCtorEq, or_false]
    exact ⟨fun h => h.symm, fun h => h.symm⟩
  | some d =>
    simp only [appIdOk, Bool.or_false, Bool.not_true, Bool.or_eq_true, beq_iff_eq, Option.some.injEq]
    constructor
    · rintro (h | h)
      · exact Or.inl h.symm
      · exact Or.inr h
    · rintro (h | h)
      · exact Or.inl h.symm
      · exact Or.inr h

/-- App-id check off: the id never causes failure. -/
theorem C11_appid_off (engine : Engine) (players rules : Toggle) (appid : Nat) :
    appIdOk engine ⟨players, rules, false⟩ appid = true := by
  unfold appIdOk
  split <;> simp

/-- Engines without an expected id: never a failure. -/
theorem C11_appid_no_expectation (g : Gather) (appid : Nat) (force : Bool) :
    appIdOk (.source none) g appid = true ∧ appIdOk (.goldSrc force) g appid = true := by
  simp [appIdOk]

/-- In the query, once the info section has been obtained the outcome is decided exactly by the
app-id check and then the two toggles: a bad id gives `BadGame` without any further request. -/
theorem C11_query_after_info (ext : Ext) (port : Nat) (engine : Engine) (g : Gather) (r : Nat)
    (w w0 w1 : Net) (s : Sock) (info : ServerInfo)
    (hopen : openSock false port w = (.ok s, w0))
    (hinfo : getServerInfo ext s r engine w0 = (.ok info, w1)) :
    query ext port engine g r w =
      if appIdOk engine g info.appid then
        (do
          let players ← maybeGather g.players (getServerPlayers ext s r engine info.protocolVersion)
          let rules ← maybeGather g.rules (getServerRules ext s r engine info.protocolVersion)
          pure (⟨info, players, rules⟩ : Response)) w1
      else (.err .badGame, w1) := by
  unfold query
  rw [Q.bind_apply, hopen]
  simp only
  rw [Q.bind_apply, hinfo]
  simp only
  split <;> simp_all [Q.fail]

/-- If the info section fails, the query fails with that failure (it is always required). -/
theorem C11_info_required (ext : Ext) (port : Nat) (engine : Engine) (g : Gather) (r : Nat)
    (w w0 w1 : Net) (s : Sock) (k : ErrKind)
    (hopen : openSock false port w = (.ok s, w0))
    (hinfo : getServerInfo ext s r engine w0 = (.err k, w1)) :
    query ext port engine g r w = (.err k, w1) := by
  unfold query
  rw [Q.bind_apply, hopen]
  simp only
  rw [Q.bind_apply, hinfo]

example : appIdOk (.source (some (730, some 740))) ⟨.try_, .try_, true⟩ 740 = true
    ∧ appIdOk (.source (some (730, some 740))) ⟨.try_, .try_, true⟩ 10 = false := by decide
