import GdVerif.Lemmas.HttpIpv6
/-
  C09 — requests go to the caller's address and port and name the right host: the HTTP client and the Eco query.

  MODEL: `GdVerif/Proto/Http.lean` (`new`, `makeRequest`, the `url` crate's parser and path setter, `Eco.query`), tied to
         `crates/lib/src/http.rs` / `games/eco/protocol.rs` on every run: the real client makes its request to a loopback
         listener that records the connection and the request head (`http-plan`), and the URL it builds is read back for
         arbitrary addresses (`http-url`); the model driver must print the same.
  PARAMETERS: `idna` (UTS 46 for names that are not plain ASCII), the wire (`ureq` + network), the JSON deserialiser.
         Statements about the text on the wire (`Ureq.hostHeader`, `Ureq.target`, `Ureq.requestHead`) are about the mirror
         of `ureq`'s `send_prelude` in the model file; the others are about gamedig's own logic and the `url` crate.
-/
open Gd Gd.Http

/-- WHERE THE CONNECTION GOES, for every address (IPv4 / IPv6), port, host name (any bytes), protocol, headers and
timeout settings: whenever a client is built, the resolver handed to the agent answers EVERY name — the host of the URL,
the host of a redirect, anything — with exactly the caller's socket address (IP and port).  No name is ever looked up. -/
theorem C09_http_connects_to_the_address (idna : Bytes → Option Bytes) (ua : Bytes) (address : SocketAddr)
    (ts : Option Settings.Timeout) (hs : HttpSettings) (client : Client) (h : Http.new idna ua address ts hs = .ok client) :
    ∀ name : Bytes, client.agent.resolver name = [address] := by
  intro name
  unfold Http.new at h
  simp only [] at h
  split at h
  · cases h; rfl
  · cases h
  · cases h

/-- Building a client cannot panic — the one panic site of the code it runs, `parse_ipv4addr`'s `expect("a non-empty list of
numbers")`, is a crash branch of the model and is not reached (`Lemmas/Http.lean: parseIpv4_no_crash`) —, and the only
error is `InvalidInput` (a host text the URL parser rejects). -/
theorem C09_http_new_total (idna : Bytes → Option Bytes) (ua : Bytes) (address : SocketAddr)
    (ts : Option Settings.Timeout) (hs : HttpSettings) :
    Http.new idna ua address ts hs ≠ .crash ∧ ∀ k, Http.new idna ua address ts hs = .err k → k = .invalidInput := by
  exact new_total idna ua address ts hs

/-- NO HOST NAME GIVEN, IPv4: for every address `a.b.c.d`, port, protocol, headers and timeout settings the client is
built, the host of its URL is that address, the URL's port is the given port (left out when it is the scheme's
default, as the parser does), path `/`, no user info, no query, no fragment. -/
theorem C09_http_url_v4 (idna : Bytes → Option Bytes) (ua : Bytes) (a b c d : UInt8) (port : Nat) (hp : port < 65536)
    (ts : Option Settings.Timeout) (proto : Protocol) (headers : List (Bytes × Bytes)) :
    ∃ client, Http.new idna ua ⟨.v4 a b c d, port⟩ ts ⟨proto, none, headers⟩ = .ok client
      ∧ client.address = ⟨proto, [], none, .ipv4 (a.toNat * 2 ^ 24 + b.toNat * 2 ^ 16 + c.toNat * 2 ^ 8 + d.toNat),
          if port = proto.defaultPort then none else some port, [47], none, none⟩
      ∧ client.headers = headers := by
  have h := parseUrl_hostText idna proto (showIpv4_hostText a b c d) port hp
  rw [parseHost_showIpv4] at h
  simp only [Http.new, ipHostText]
  rw [show asciiBytes "//" ++ showIpv4 a b c d ++ [58] ++ natDec port = asciiBytes "//" ++ showIpv4 a b c d ++ [58] ++ natDec port from rfl, h]
  exact ⟨_, rfl, rfl, rfl⟩

/-- NO HOST NAME GIVEN, IPv6: for every address (eight segments, whatever their values — all zero, loopback, IPv4-mapped,
zero runs anywhere), port, protocol, headers and timeout settings the client is built and the host of its URL is that
address: the text `Display for Ipv6Addr` prints (IPv4-mapped addresses in their dotted form, the longest zero run as `::`),
put in brackets, is read back by the `url` crate's `parse_ipv6addr` as the same eight segments. -/
theorem C09_http_url_v6 (idna : Bytes → Option Bytes) (ua : Bytes) (s0 s1 s2 s3 s4 s5 s6 s7 : UInt16) (port : Nat) (hp : port < 65536)
    (ts : Option Settings.Timeout) (proto : Protocol) (headers : List (Bytes × Bytes)) :
    ∃ client, Http.new idna ua ⟨.v6 s0 s1 s2 s3 s4 s5 s6 s7, port⟩ ts ⟨proto, none, headers⟩ = .ok client
      ∧ client.address = ⟨proto, [], none, .ipv6 [s0.toNat, s1.toNat, s2.toNat, s3.toNat, s4.toNat, s5.toNat, s6.toNat, s7.toNat],
          if port = proto.defaultPort then none else some port, [47], none, none⟩
      ∧ client.headers = headers := by
  have h := parseUrl_hostText idna proto (bracketed_hostText [s0, s1, s2, s3, s4, s5, s6, s7]) port hp
  rw [parseHost_bracketed] at h
  simp only [Http.new, ipHostText, IpAddr.segs]
  rw [show asciiBytes "//" ++ ([91] ++ showIpv6 [s0, s1, s2, s3, s4, s5, s6, s7] ++ [93]) ++ [58] ++ natDec port
      = asciiBytes "//" ++ (91 :: (showIpv6 [s0, s1, s2, s3, s4, s5, s6, s7] ++ [93])) ++ [58] ++ natDec port from rfl, h]
  exact ⟨_, rfl, rfl, rfl⟩

/-- THE `Host` HEADER, no name given, IPv6: the bracketed text the URL serialiser writes for the address, and `:port` unless
the port is the scheme's default — and that bracketed text DENOTES the address: read as a host it is the same eight segments
(the serialiser never uses the dotted form, `::ffff:127.0.0.1` is written `[::ffff:7f00:1]`). -/
theorem C09_http_host_header_v6 (idna : Bytes → Option Bytes) (s0 s1 s2 s3 s4 s5 s6 s7 : UInt16) (port : Nat) (proto : Protocol) :
    let host := Host.ipv6 [s0.toNat, s1.toNat, s2.toNat, s3.toNat, s4.toNat, s5.toNat, s6.toNat, s7.toNat]
    Ureq.hostHeader ⟨proto, [], none, host, if port = proto.defaultPort then none else some port, [47], none, none⟩
      = host.text ++ (if port = proto.defaultPort then [] else 58 :: natDec port)
    ∧ parseHost idna host.text = .ok host := by
  refine ⟨?_, parseHost_writeIpv6 idna s0 s1 s2 s3 s4 s5 s6 s7⟩
  simp only [Ureq.hostHeader]
  by_cases hpd : port = proto.defaultPort <;> simp [hpd]

/-- A HOST NAME GIVEN: for every plain name (ASCII without the characters the deny list of domains holds, no Punycode
label, not read as a number — `Lemmas/Http.lean: PlainName`), every address of either family, port, protocol, headers and
timeout settings the client is built and the host of its URL is that name in lower case; port, path etc. as above.
(The address does not occur in the URL at all: it only sits in the resolver, `C09_http_connects_to_the_address`.) -/
theorem C09_http_url_named (idna : Bytes → Option Bytes) (ua : Bytes) (address : SocketAddr) (hp : address.port < 65536)
    (name : Bytes) (hname : PlainName name) (ts : Option Settings.Timeout) (proto : Protocol) (headers : List (Bytes × Bytes)) :
    ∃ client, Http.new idna ua address ts ⟨proto, some name, headers⟩ = .ok client
      ∧ client.address = ⟨proto, [], none, .domain (asciiLower name),
          if address.port = proto.defaultPort then none else some address.port, [47], none, none⟩
      ∧ client.headers = headers := by
  have h := parseUrl_plain idna proto hname address.port hp
  simp only [Http.new]
  rw [h]
  exact ⟨_, rfl, rfl, rfl⟩

/-- THE `Host` HEADER (as `ureq` writes it from the URL), no name given, IPv4: the address in dotted form, and `:port`
unless the port is the scheme's default. -/
theorem C09_http_host_header_v4 (a b c d : UInt8) (port : Nat) (proto : Protocol) :
    Ureq.hostHeader ⟨proto, [], none, .ipv4 (a.toNat * 2 ^ 24 + b.toNat * 2 ^ 16 + c.toNat * 2 ^ 8 + d.toNat),
        if port = proto.defaultPort then none else some port, [47], none, none⟩
      = showIpv4 a b c d ++ (if port = proto.defaultPort then [] else 58 :: natDec port) := by
  simp only [Ureq.hostHeader, hostText_ipv4]
  by_cases hpd : port = proto.defaultPort <;> simp [hpd]

/-- THE `Host` HEADER, a plain name given: that name (lower case), and `:port` unless the port is the scheme's default. -/
theorem C09_http_host_header_named (name : Bytes) (port : Nat) (proto : Protocol) :
    Ureq.hostHeader ⟨proto, [], none, .domain (asciiLower name), if port = proto.defaultPort then none else some port, [47], none, none⟩
      = asciiLower name ++ (if port = proto.defaultPort then [] else 58 :: natDec port) := by
  simp only [Ureq.hostHeader, Host.text]
  by_cases hpd : port = proto.defaultPort <;> simp [hpd]

/-- THE REQUEST TARGET: for every client whose URL has no query (the two theorems above) and every path
`/seg/seg/…` of plain segments (`Lemmas/Http.lean: PlainSegment`: ASCII outside the escape set, no dot segment),
`request*` asks for exactly that path; method and headers are the caller's, host and port of the URL are untouched. -/
theorem C09_http_request_target (client : Client) (hq : client.address.query = none) (segs : List Bytes)
    (hsegs : ∀ s ∈ segs, PlainSegment s) (method : Bytes) (headers : List (Bytes × Bytes)) :
    let req := client.makeRequest method (47 :: joinWith [47] segs) headers
    Ureq.target req.url = 47 :: joinWith [47] segs ∧ req.method = method
    ∧ req.url.host = client.address.host ∧ req.url.port = client.address.port ∧ req.url.protocol = client.address.protocol := by
  simp only [Client.makeRequest, Ureq.target, setPath_plain _ hsegs]
  have : (client.address.setPath (47 :: joinWith [47] segs)).query = none := hq
  rw [this]
  simp [Url.setPath]

/-- … and a path given without its leading slash gets one. -/
theorem C09_http_request_target_relative (client : Client) (hq : client.address.query = none) (s : Bytes) (segs : List Bytes)
    (hne : s ≠ []) (hsegs : ∀ x ∈ s :: segs, PlainSegment x) (method : Bytes) (headers : List (Bytes × Bytes)) :
    Ureq.target (client.makeRequest method (joinWith [47] (s :: segs)) headers).url = 47 :: joinWith [47] (s :: segs) := by
  simp only [Client.makeRequest, Ureq.target, setPath_plain_relative _ hne hsegs]
  have : (client.address.setPath (joinWith [47] (s :: segs))).query = none := hq
  rw [this]
  simp

/-- The headers of a request: the client's, then the request's, in that order (through `ureq`'s `set`). -/
theorem C09_http_request_headers (client : Client) (method path : Bytes) (headers : List (Bytes × Bytes)) :
    (client.makeRequest method path headers).headers = (client.headers ++ headers).foldl setHeader []
    ∧ (client.headers = [] → headers = [] → (client.makeRequest method path headers).headers = []) :=
  ⟨rfl, fun h1 h2 => by simp [Client.makeRequest, h1, h2]⟩

/-- THE ECO QUERY, IPv4 address, no host name: for every address, port (given, or 3001 when omitted), timeout settings, wire
behaviour and deserialiser — one `GET /frontpage`, no extra headers, `Host` = the address and port, every name resolved to the
address and port; as `ureq` sends it: the request head spelled out. -/
theorem C09_eco_request_v4 (idna : Bytes → Option Bytes) (ua : Bytes) (w : Wire) (json : Bytes → Option Eco.Info)
    (a b c d : UInt8) (port : Option Nat) (hp : port.getD Eco.DEFAULT_PORT < 65536) (ts : Option Settings.Timeout) :
    ∃ client req, (Eco.query idna ua w json (.v4 a b c d) port ts none).1 = some (client, req)
      ∧ (∀ name, client.agent.resolver name = [⟨.v4 a b c d, port.getD 3001⟩])
      ∧ req.method = asciiBytes "GET" ∧ Ureq.target req.url = asciiBytes "/frontpage" ∧ req.headers = []
      ∧ Ureq.hostHeader req.url = showIpv4 a b c d ++ (if port.getD 3001 = 80 then [] else 58 :: natDec (port.getD 3001))
      ∧ Ureq.requestHead client.agent req = asciiBytes "GET /frontpage HTTP/1.1\r\nHost: " ++
          (showIpv4 a b c d ++ (if port.getD 3001 = 80 then [] else 58 :: natDec (port.getD 3001))) ++
          asciiBytes "\r\nUser-Agent: " ++ ua ++ asciiBytes "\r\nAccept: */*\r\naccept-encoding: gzip\r\n\r\n" := by
  obtain ⟨client, hnew, haddr, hhead⟩ := C09_http_url_v4 idna ua a b c d (port.getD Eco.DEFAULT_PORT) hp ts .http []
  have hres := C09_http_connects_to_the_address idna ua _ ts _ client hnew
  have hua : client.agent.userAgent = ua := by
    unfold Http.new at hnew
    simp only [] at hnew
    split at hnew
    · cases hnew; rfl
    · cases hnew
    · cases hnew
  have hq : Eco.query idna ua w json (.v4 a b c d) port ts none
      = (some (client, client.makeRequest GET (asciiBytes Eco.PATH) []),
          (client.requestJson w json GET (asciiBytes Eco.PATH) []).2.1.bind (fun info => .ok (Eco.fromRoot info)),
          (client.requestJson w json GET (asciiBytes Eco.PATH) []).2.2) := by
    simp only [Eco.query, Option.getD_none, Eco.RequestSettings.toHttp]
    rw [hnew]
    simp only [requestJson_fst]
  have hurl : (client.makeRequest GET (asciiBytes Eco.PATH) []).url
      = ⟨.http, [], none, .ipv4 (a.toNat * 2 ^ 24 + b.toNat * 2 ^ 16 + c.toNat * 2 ^ 8 + d.toNat),
          if port.getD Eco.DEFAULT_PORT = 80 then none else some (port.getD Eco.DEFAULT_PORT), asciiBytes "/frontpage", none, none⟩ := by
    simp only [Client.makeRequest, Url.setPath, haddr]
    congr 1
  have hhost := C09_http_host_header_v4 a b c d (port.getD Eco.DEFAULT_PORT) .http
  have hh : Ureq.hostHeader (client.makeRequest GET (asciiBytes Eco.PATH) []).url
      = showIpv4 a b c d ++ (if port.getD 3001 = 80 then [] else 58 :: natDec (port.getD 3001)) := by
    rw [hurl]
    exact hhost
  refine ⟨client, client.makeRequest GET (asciiBytes Eco.PATH) [], by rw [hq], hres, rfl, ?_, ?_, hh, ?_⟩
  · rw [hurl]; rfl
  · simp [Client.makeRequest, hhead]
  · have hheaders : (client.makeRequest GET (asciiBytes Eco.PATH) []).headers = [] := by simp [Client.makeRequest, hhead]
    simp only [Ureq.requestHead, Ureq.headerLines, hheaders, hh, hua]
    rw [hurl]
    simp [Ureq.hasHeader, Ureq.target, Client.makeRequest, GET, asciiBytes, asciiLower, inRange, List.flatMap_cons, List.append_assoc]

/-- THE ECO QUERY, IPv6 address, no host name: the same request; the URL's host is the address, `Host` its bracketed text. -/
theorem C09_eco_request_v6 (idna : Bytes → Option Bytes) (ua : Bytes) (w : Wire) (json : Bytes → Option Eco.Info)
    (s0 s1 s2 s3 s4 s5 s6 s7 : UInt16) (port : Option Nat) (hp : port.getD Eco.DEFAULT_PORT < 65536) (ts : Option Settings.Timeout) :
    ∃ client req, (Eco.query idna ua w json (.v6 s0 s1 s2 s3 s4 s5 s6 s7) port ts none).1 = some (client, req)
      ∧ (∀ name, client.agent.resolver name = [⟨.v6 s0 s1 s2 s3 s4 s5 s6 s7, port.getD 3001⟩])
      ∧ req.method = asciiBytes "GET" ∧ Ureq.target req.url = asciiBytes "/frontpage" ∧ req.headers = []
      ∧ req.url.host = .ipv6 [s0.toNat, s1.toNat, s2.toNat, s3.toNat, s4.toNat, s5.toNat, s6.toNat, s7.toNat]
      ∧ Ureq.hostHeader req.url = req.url.host.text ++ (if port.getD 3001 = 80 then [] else 58 :: natDec (port.getD 3001)) := by
  obtain ⟨client, hnew, haddr, hhead⟩ := C09_http_url_v6 idna ua s0 s1 s2 s3 s4 s5 s6 s7 (port.getD Eco.DEFAULT_PORT) hp ts .http []
  have hres := C09_http_connects_to_the_address idna ua _ ts _ client hnew
  have hq : (Eco.query idna ua w json (.v6 s0 s1 s2 s3 s4 s5 s6 s7) port ts none).1 = some (client, client.makeRequest GET (asciiBytes Eco.PATH) []) := by
    simp only [Eco.query, Option.getD_none, Eco.RequestSettings.toHttp]
    rw [hnew]
    simp only [requestJson_fst]
  have hurl : (client.makeRequest GET (asciiBytes Eco.PATH) []).url
      = ⟨.http, [], none, .ipv6 [s0.toNat, s1.toNat, s2.toNat, s3.toNat, s4.toNat, s5.toNat, s6.toNat, s7.toNat],
          if port.getD Eco.DEFAULT_PORT = 80 then none else some (port.getD Eco.DEFAULT_PORT), asciiBytes "/frontpage", none, none⟩ := by
    simp only [Client.makeRequest, Url.setPath, haddr]
    congr 1
  refine ⟨client, _, hq, hres, rfl, ?_, ?_, ?_, ?_⟩
  · rw [hurl]; rfl
  · simp [Client.makeRequest, hhead]
  · rw [hurl]
  · rw [hurl]
    simp only [Ureq.hostHeader]
    by_cases hpd : port.getD Eco.DEFAULT_PORT = 80 <;> simp [hpd, Eco.DEFAULT_PORT] <;> simp_all [Eco.DEFAULT_PORT]

/-- THE ECO QUERY with a plain host name in the request settings, any address of either family: the same request, `Host` =
that name (lower case) and the port; the connection still goes to the address (`C09_http_connects_to_the_address`). -/
theorem C09_eco_request_named (idna : Bytes → Option Bytes) (ua : Bytes) (w : Wire) (json : Bytes → Option Eco.Info)
    (ip : IpAddr) (port : Option Nat) (hp : port.getD Eco.DEFAULT_PORT < 65536) (ts : Option Settings.Timeout)
    (name : Bytes) (hname : PlainName name) :
    ∃ client req, (Eco.query idna ua w json ip port ts (some ⟨some name⟩)).1 = some (client, req)
      ∧ (∀ n, client.agent.resolver n = [⟨ip, port.getD 3001⟩])
      ∧ req.method = asciiBytes "GET" ∧ Ureq.target req.url = asciiBytes "/frontpage" ∧ req.headers = []
      ∧ Ureq.hostHeader req.url = asciiLower name ++ (if port.getD 3001 = 80 then [] else 58 :: natDec (port.getD 3001)) := by
  obtain ⟨client, hnew, haddr, hhead⟩ := C09_http_url_named idna ua ⟨ip, port.getD Eco.DEFAULT_PORT⟩ hp name hname ts .http []
  have hres := C09_http_connects_to_the_address idna ua _ ts _ client hnew
  have hq : (Eco.query idna ua w json ip port ts (some ⟨some name⟩)).1 = some (client, client.makeRequest GET (asciiBytes Eco.PATH) []) := by
    simp only [Eco.query, Option.getD_some, Eco.RequestSettings.toHttp]
    rw [hnew]
    simp only [requestJson_fst]
  have hurl : (client.makeRequest GET (asciiBytes Eco.PATH) []).url
      = ⟨.http, [], none, .domain (asciiLower name),
          if port.getD Eco.DEFAULT_PORT = 80 then none else some (port.getD Eco.DEFAULT_PORT), asciiBytes "/frontpage", none, none⟩ := by
    simp only [Client.makeRequest, Url.setPath, haddr]
    congr 1
  refine ⟨client, _, hq, hres, rfl, ?_, ?_, ?_⟩
  · rw [hurl]; rfl
  · simp [Client.makeRequest, hhead]
  · rw [hurl]
    exact C09_http_host_header_named name (port.getD Eco.DEFAULT_PORT) .http

/-- `from_url` (the services' way in: a URL instead of an address): whenever a client is built, every name is resolved to ONE
socket address, fixed when the client is made — for an IP-literal URL that very address with the URL's port (or the scheme's
default), for a domain the FIRST address the system resolver returned for `(domain, port)` (the lookup is a parameter) —
and the host text of the URL is what `new` is given as host name; a failed or empty lookup is `HostLookup`. -/
theorem C09_http_from_url (idna : Bytes → Option Bytes) (ua : Bytes) (lookup : Bytes → Nat → Option (List SocketAddr)) (tls : Bool)
    (url : Url) (ts : Option Settings.Timeout) (headers : Option (List (Bytes × Bytes))) :
    (∀ client, Http.fromUrl idna ua lookup tls url ts headers = .ok client →
      ∃ address, (∀ name, client.agent.resolver name = [address])
        ∧ Http.new idna ua address ts ⟨if url.protocol == .https && tls then .https else .http, some url.host.text, headers.getD []⟩ = .ok client
        ∧ ((∃ d rest, url.host = .domain d ∧ lookup d url.portOrDefault = some (address :: rest))
           ∨ (url.host.ipAddr = some address.ip ∧ address.port = url.portOrDefault)))
    ∧ (∀ d, url.host = .domain d → (lookup d url.portOrDefault = none ∨ lookup d url.portOrDefault = some []) →
        Http.fromUrl idna ua lookup tls url ts headers = .err .hostLookup) := by
  constructor
  · intro client h
    unfold Http.fromUrl at h
    simp only [] at h
    generalize hset : (⟨if url.protocol == .https && tls then .https else .http, some url.host.text, headers.getD []⟩ : HttpSettings) = hs at h ⊢
    cases hh : url.host with
    | domain d =>
      rw [hh] at h
      simp only [] at h
      cases hl : lookup d url.portOrDefault with
      | none => rw [hl] at h; cases h
      | some l =>
        cases l with
        | nil => rw [hl] at h; cases h
        | cons a rest =>
          rw [hl] at h
          exact ⟨a, C09_http_connects_to_the_address idna ua a ts _ client h, h, .inl ⟨d, rest, rfl, hl⟩⟩
    | ipv4 n =>
      rw [hh] at h
      simp only [] at h
      cases hip : (Host.ipv4 n).ipAddr with
      | none => rw [hip] at h; cases h
      | some ip =>
        rw [hip] at h
        exact ⟨_, C09_http_connects_to_the_address idna ua _ ts _ client h, h, .inr ⟨rfl, rfl⟩⟩
    | ipv6 segs =>
      rw [hh] at h
      simp only [] at h
      cases hip : (Host.ipv6 segs).ipAddr with
      | none => rw [hip] at h; cases h
      | some ip =>
        rw [hip] at h
        exact ⟨_, C09_http_connects_to_the_address idna ua _ ts _ client h, h, .inr ⟨rfl, rfl⟩⟩
  · intro d hd hl
    unfold Http.fromUrl
    simp only [hd]
    rcases hl with hl | hl <;> rw [hl]

-- non-vacuity: clients are built (IPv6 address and odd host name, IPv4-mapped address, `from_url` with a domain that the
-- resolver knows), a plain name, plain segments
example :
    (Http.new (fun _ => none) (asciiBytes "gamedig/0") ⟨.v6 0x2001 0xdb8 0 0 0 0 0 1, 3001⟩ none ⟨.http, some (asciiBytes "Eco.Example"), []⟩).toOption.map
      (fun c => (c.address.text, c.agent.resolver (asciiBytes "anything:80")))
      = some (asciiBytes "http://eco.example:3001/", [⟨.v6 0x2001 0xdb8 0 0 0 0 0 1, 3001⟩])
    ∧ (Http.new (fun _ => none) [] ⟨.v6 0 0 0 0 0 0xffff 0x7f00 1, 80⟩ none {}).toOption.map (fun c => (c.address.text, c.address.host))
      = some (asciiBytes "http://[::ffff:7f00:1]/", .ipv6 [0, 0, 0, 0, 0, 0xffff, 0x7f00, 1])
    ∧ (Http.fromUrl (fun _ => none) [] (fun d p => if d == asciiBytes "example.org" then some [⟨.v4 10 0 0 7, p⟩, ⟨.v4 10 0 0 8, p⟩] else none) false
        ⟨.https, [], none, .domain (asciiBytes "example.org"), none, asciiBytes "/ignored", none, none⟩ none none).toOption.map
      (fun c => (c.address.text, c.agent.resolver []))
      = some (asciiBytes "http://example.org:443/", [⟨.v4 10 0 0 7, 443⟩]) := by
  decide +kernel

example : PlainName (asciiBytes "Play.Eco-1.example") := ⟨by decide, by decide, by decide, by decide⟩
example : PlainSegment (asciiBytes "frontpage") := ⟨by decide, by decide, by decide⟩
example : PlainSegment (asciiBytes "%2e%2e") → False := fun h => absurd h.notDoubleDot (by decide)

/-- What the parser makes of host names that are NOT plain (the oddities are the code's, shown on the model and observed on the
real client by the `http-plan` / `http-url` cases): upper case is folded, `127.1` is the address 127.0.0.1, a `/` or `?` in
the name ends the authority — the port then belongs to the path / query, so the URL has the default port and the `Host`
header no port —, text before an `@` becomes user info (`ureq` sends it as `Authorization: Basic`), an empty name and a
name with a colon are rejected. -/
theorem C09_http_odd_names :
    let url (name : String) := (Http.new (fun _ => none) [] ⟨.v4 127 0 0 2, 3001⟩ none ⟨.http, some (asciiBytes name), []⟩).toOption.map
      fun c => (c.address.setPath (asciiBytes "/frontpage")).text
    url "LocalHost" = some (asciiBytes "http://localhost:3001/frontpage")
    ∧ url "127.1" = some (asciiBytes "http://127.0.0.1:3001/frontpage")
    ∧ url "0x7f.1" = some (asciiBytes "http://127.0.0.1:3001/frontpage")
    ∧ url "a/b" = some (asciiBytes "http://a/frontpage")
    ∧ url "a?b" = some (asciiBytes "http://a/frontpage?b:3001")
    ∧ url "u:p@h" = some (asciiBytes "http://u:p@h:3001/frontpage")
    ∧ url "[::1]" = some (asciiBytes "http://[::1]:3001/frontpage")
    ∧ url "" = none ∧ url "h:80" = none ∧ url "a b" = none ∧ url "1.2.3.4.5" = none := by
  decide +kernel
