import GdVerif.Lemmas.Mindustry
/-
  C10 — retries: Mindustry.  The retried unit is the whole exchange (new socket, ping, one datagram, decode);
  the combinator theorems of `Props/C10.lean` (`C10_at_most_r_plus_one`, `C10_first_non_timeout_decides`,
  `C10_all_timeouts`) are generic in the unit and apply to it verbatim.
-/
open Gd

/-- `mindustry::query` is `retry_on_timeout(retries, attempt)`. -/
theorem C10_mindustry_unit (port retries : Nat) :
    Mindustry.query port retries = retryOnTimeout retries (Mindustry.attempt port) := rfl

/-- On the wire: never more than `retries + 1` pings, for any script. -/
theorem C10_mindustry_attempts_on_wire (port retries : Nat) (script : List ConnScript) (faults : List Bool) :
    countSends (Mindustry.query port retries (Net.init script faults)).2.log ≤ retries + 1 :=
  Mindustry.sends_query port retries script faults

-- non-vacuity: two silent attempts (each on its own socket), then an answer on the third socket, r = 2
example :
    (Mindustry.query 6567 2 (Net.init [.opened [.silence], .opened [], .opened [.data [0, 0, 0, 0, 0, 1, 0, 0, 0, 2, 0, 0, 0, 3, 0, 3, 0, 0, 0, 9, 0]]] [])).1
      = .ok ⟨[], [], 1, 2, 3, [], .pvp, 9, [], none⟩ := by
  decide
