import GdVerif.Lemmas.Socket
/-
  C12 — socket.rs inside the model: which calls `UdpSocketImpl` / `TcpSocketImpl` make on `std::net`, with which
  arguments, and what they make of the answers — for every remote address, every settings value and every behaviour of
  `std::net` + kernel + peer (`Os`: each answer a function of the whole history of calls).

  What stays measured (props/sockplan.py, real loopback sockets): that the kernel honours SO_RCVTIMEO / SO_SNDTIMEO /
  the connect deadline, and that a wildcard socket of the remote's family reaches the remote.
-/
open Gd Gd.SockRs Gd.Settings

/-! ### the local address -/

/-- The UDP socket is bound to the wildcard address of the REMOTE's family, port 0 — for every remote address; an
IPv4 host named by its IPv4-mapped IPv6 address (`::ffff:a.b.c.d`) gets the IPv6 wildcard `[::]:0` (what the code does:
a dual-stack socket, which reaches it unless the system makes IPv6 sockets v6-only). -/
theorem C12_socket_udp_local_address (remote : Addr) :
    (localFor remote).isV6 = remote.isV6 ∧ (localFor remote).isUnspecified = true ∧ (localFor remote).port = 0
    ∧ (remote.isMapped = true → localFor remote = anyV6) := by
  cases remote with
  | v4 a b c d p => exact ⟨rfl, rfl, rfl, by intro h; simp [Addr.isMapped] at h⟩
  | v6 s0 s1 s2 s3 s4 s5 s6 s7 p f sc => exact ⟨rfl, rfl, rfl, fun _ => rfl⟩

example : localFor (.v6 0 0 0 0 0 0xffff 0x7f00 1 27015 0 0) = anyV6 ∧ localFor (.v4 10 0 0 7 27015) = anyV4 := by decide

/-- `UdpSocketImpl::new`: the first call is that bind; an error of the bind, whatever its kind, is `SocketBind` and
nothing else is called; after a successful bind the only further calls are `set_read_timeout(read)` and
`set_write_timeout(write)`, in this order, with the durations of the settings (the defaults without settings) — never a
`connect`. -/
theorem C12_socket_udp_new_calls (os : Os) (remote : Addr) (t : Option Timeout) (h : List Call) :
    (∀ k, os.bind h (localFor remote) = .error k →
      udpNew os remote t h = (.err .socketBind, h ++ [.bindUdp (localFor remote)]))
    ∧ (os.bind h (localFor remote) = .ok () →
      (udpNew os remote t h).2 = h ++ [.bindUdp (localFor remote), .setReadTimeout (readAndWriteOrDefaults t).1]
      ∨ (udpNew os remote t h).2 = h ++ [.bindUdp (localFor remote), .setReadTimeout (readAndWriteOrDefaults t).1,
          .setWriteTimeout (readAndWriteOrDefaults t).2])
    ∧ (∀ h', udpNew os remote t h = (.ok (), h') →
      h' = h ++ [.bindUdp (localFor remote), .setReadTimeout (readAndWriteOrDefaults t).1,
          .setWriteTimeout (readAndWriteOrDefaults t).2]) := by
  refine ⟨?_, ?_, ?_⟩
  · intro k hk; simp [udpNew, hk]
  · intro hk
    have := applyTimeout_hist os t (h ++ [.bindUdp (localFor remote)])
    simp only [udpNew, hk]
    rcases this with e | e <;> rw [e]
    · left; simp
    · right; simp
  · intro h' hok
    unfold udpNew at hok
    cases hb : os.bind h (localFor remote) with
    | error k => simp [hb] at hok
    | ok u =>
      simp only [hb] at hok
      rw [applyTimeout_ok os t _ h' hok]; simp

example : udpNew quietOs (.v6 0 0 0 0 0 0xffff 0x7f00 1 27015 0 0) (some ⟨some ⟨3, 0⟩, some ⟨1, 0⟩, some ⟨2, 0⟩, 0⟩) []
    = (.ok (), [.bindUdp anyV6, .setReadTimeout (some ⟨1, 0⟩), .setWriteTimeout (some ⟨2, 0⟩)]) := by decide

/-- `TcpSocketImpl::new`: one connection attempt, to the remote address as given: `connect_timeout(remote, d)` when the
settings (or the defaults: 4 s) carry a connect duration `d`, the unbounded `connect(remote)` only when the caller asked
for no connect timeout; its failure, whatever the kind (refused, unreachable, timed out, a zero duration refused by
std), is `SocketConnect`; then the two setters as for UDP. -/
theorem C12_socket_tcp_new_calls (os : Os) (remote : Addr) (t : Option Timeout) (h : List Call) :
    let attempt : Call := connectCall remote (connectOrDefault t)
    (∀ k, os.connect h remote (connectOrDefault t) = .error k → tcpNew os remote t h = (.err .socketConnect, h ++ [attempt]))
    ∧ (∀ h', tcpNew os remote t h = (.ok (), h') →
      h' = h ++ [attempt, .setReadTimeout (readAndWriteOrDefaults t).1, .setWriteTimeout (readAndWriteOrDefaults t).2]) := by
  refine ⟨?_, ?_⟩
  · intro k hk; simp [tcpNew, hk]
  · intro h' hok
    unfold tcpNew at hok
    cases hb : os.connect h remote (connectOrDefault t) with
    | error k => simp [hb] at hok
    | ok u =>
      simp only [hb] at hok
      rw [applyTimeout_ok os t _ h' hok]; simp

/-- with no settings the connection attempt is bounded by 4 s, never unbounded -/
example (os : Os) (remote : Addr) (h : List Call) (k : IoKind) (hk : os.connect h remote (some ⟨4, 0⟩) = .error k) :
    tcpNew os remote none h = (.err .socketConnect, h ++ [.connectTimeout remote ⟨4, 0⟩]) :=
  (C12_socket_tcp_new_calls os remote none h).1 k hk

/-! ### sends -/

/-- A UDP send is exactly one `send_to` of exactly the bytes given to exactly the remote address the socket was created
for (address, port, flow label and scope); it succeeds iff that call does (the count is not looked at), and any error of
it is `PacketSend`. -/
theorem C12_socket_udp_send_exact (os : Os) (remote : Addr) (data : Bytes) (h : List Call) :
    (udpSend os remote data h).2 = h ++ [.sendTo data remote]
    ∧ (∀ n, os.sendTo h data remote = .ok n → (udpSend os remote data h).1 = .ok ())
    ∧ (∀ k, os.sendTo h data remote = .error k → (udpSend os remote data h).1 = .err .packetSend) :=
  ⟨udpSend_hist os remote data h, by intro n hn; simp [udpSend, hn], by intro k hk; simp [udpSend, hk]⟩

example : udpSend quietOs (.v4 10 0 0 7 27015) [0xff, 0xff, 0xff, 0xff, 0x54] []
    = (.ok (), [.sendTo [0xff, 0xff, 0xff, 0xff, 0x54] (.v4 10 0 0 7 27015)]) := by decide

/-- A TCP send is exactly ONE `write` of exactly the bytes given; any error of it is `PacketSend`.  What the code does
with the count: nothing — a write that took only `n < |data|` bytes is reported as success. -/
theorem C12_socket_tcp_send_one_write (os : Os) (data : Bytes) (h : List Call) :
    (tcpSend os data h).2 = h ++ [.write data]
    ∧ (∀ n, os.write h data = .ok n → (tcpSend os data h).1 = .ok ())
    ∧ (∀ k, os.write h data = .error k → (tcpSend os data h).1 = .err .packetSend) :=
  ⟨tcpSend_hist os data h, by intro n hn; simp [tcpSend, hn], by intro k hk; simp [tcpSend, hk]⟩

/-- one byte of three taken: success all the same -/
example : tcpSend { quietOs with write := fun _ _ => .ok 1 } [1, 2, 3] [] = (.ok (), [.write [1, 2, 3]]) := by decide

/-! ### receives -/

/-- A UDP receive is one `recv_from` into a buffer of the size asked for (1024 when none is); it returns exactly the
datagram the system delivered, cut to that size — whoever sent it (the socket is not connected and the source is not
looked at); any error (a timeout included) is `PacketReceive`; nothing can panic for sizes below `isize::MAX`. -/
theorem C12_socket_udp_receive_exact (os : Os) (size : Option Nat) (h : List Call)
    (hs : size.getD 1024 < 2 ^ 63) :
    (∀ d src, os.recvFrom h (size.getD 1024) = .ok (d, src) →
      udpReceive os size h = (.ok (d.take (size.getD 1024)), h ++ [.recvFrom (size.getD 1024)]))
    ∧ (∀ k, os.recvFrom h (size.getD 1024) = .error k →
      udpReceive os size h = (.err .packetReceive, h ++ [.recvFrom (size.getD 1024)])) := by
  have hnc : ¬ CAPACITY_LIMIT ≤ size.getD DEFAULT_PACKET_SIZE := by
    simp only [CAPACITY_LIMIT, DEFAULT_PACKET_SIZE]; omega
  refine ⟨?_, ?_⟩
  · intro d src hos
    have h1 := udpReceive_result os size h d src hs hos
    have h2 : (udpReceive os size h).2 = h ++ [.recvFrom (size.getD 1024)] := by
      unfold udpReceive
      simp only [hnc, ↓reduceIte]
      have hos' : os.recvFrom h (size.getD DEFAULT_PACKET_SIZE) = .ok (d, src) := hos
      simp only [hos']
      split <;> rfl
    exact Prod.ext h1 h2
  · intro k hos
    have hos' : os.recvFrom h (size.getD DEFAULT_PACKET_SIZE) = .error k := hos
    unfold udpReceive
    simp only [hnc, ↓reduceIte, hos']
    rfl

/-- a datagram longer than the buffer loses its tail, a shorter one arrives whole -/
example (os : Os) (h : List Call) (src : Addr) (hos : os.recvFrom h 4 = .ok ([1, 2, 3, 4, 5, 6], src)) :
    (udpReceive os (some 4) h).1 = .ok [1, 2, 3, 4] := by
  rw [((C12_socket_udp_receive_exact os (some 4) h (by decide)).1 _ _ hos)]; rfl

/-- A TCP receive is `read_to_end`: whatever buffers std offers to the reads (`os.bufPolicy`) and whatever size was
asked for (it is a capacity only), the result is everything the stream delivers up to its end — a read of 0 bytes —, with
`Interrupted` reads tried again; the first read that fails otherwise (the read timeout: `WouldBlock` / `TimedOut`, a
reset, …) makes the whole receive fail with `PacketReceive`, whatever had been read before.  The loop always ends
(its fuel is never exhausted) and every call it makes is a `read`. -/
theorem C12_socket_tcp_receive_to_end (os : Os) (size : Option Nat) (h : List Call) (hs : size.getD 1024 < 2 ^ 63) :
    (tcpReceive os size h).1 = (os.reads h).outcome []
    ∧ (tcpReceive os size h).1 ≠ .crash
    ∧ ∃ reads, (tcpReceive os size h).2 = h ++ reads ∧ ∀ c ∈ reads, ∃ n, c = .read n := by
  have h1 := tcpReceive_result os size h hs
  exact ⟨h1, by rw [h1]; exact outcome_not_crash _ _, tcpReceive_hist os size h⟩

/-- a peer that writes in three pieces (one of them after an interrupted read) and closes: everything, in order -/
example : (Stream.data [1, 2] (.fail .interrupted (.data [3] (.data [4, 5] .closed)))).outcome [] = .ok [1, 2, 3, 4, 5] := by
  decide
/-- a peer that writes 2 bytes and stalls: the read timeout ends the receive with an error, the 2 bytes are dropped -/
example : (Stream.data [1, 2] (.fail .wouldBlock .closed)).outcome [] = .err .packetReceive := by decide
/-- an instance of the theorem with buffers of one byte -/
example : (tcpReceive ⟨fun _ _ => .ok (), fun _ _ _ => .ok (), fun _ _ => .ok (), fun _ _ => .ok (), fun _ _ _ => .ok 0,
    fun _ _ => .error .wouldBlock, fun _ _ => .ok 0, fun _ => .data [1, 2, 3] .closed, fun _ _ => 0⟩ (some 2) []).1
      = .ok [1, 2, 3] := by decide

/-! ### which duration bounds which blocking step -/

/-- the whole history of a socket: the opening call, the two setters, then sends and receives only -/
theorem C12_socket_session_shape (k : Kind) (os : Os) (remote : Addr) (t : Option Timeout) (ops : List Op) :
    ∃ opening io, (session k os remote t ops).2.2 = opening ++ io
      ∧ (∀ c ∈ io, c.isIo = true)
      ∧ (io ≠ [] → (session k os remote t ops).1 = .ok ())
      ∧ (opening = [openCall k remote t]
        ∨ opening = [openCall k remote t, .setReadTimeout (readAndWriteOrDefaults t).1]
        ∨ opening = [openCall k remote t, .setReadTimeout (readAndWriteOrDefaults t).1,
            .setWriteTimeout (readAndWriteOrDefaults t).2])
      ∧ ((session k os remote t ops).1 = .ok () → opening = [openCall k remote t, .setReadTimeout (readAndWriteOrDefaults t).1,
            .setWriteTimeout (readAndWriteOrDefaults t).2]) := by
  -- the history of `new`
  have hnew : ∀ (first : Call), (∀ h, ∃ r, (sockNew k os remote t []) = (r, h) → True) →
      True := fun _ _ => trivial
  clear hnew
  have key : ∃ first, first = openCall k remote t ∧
      ((sockNew k os remote t []).2 = [first] ∧ (sockNew k os remote t []).1 ≠ .ok ()
      ∨ ((sockNew k os remote t []).2 = [first, .setReadTimeout (readAndWriteOrDefaults t).1] ∧ (sockNew k os remote t []).1 ≠ .ok ())
      ∨ (sockNew k os remote t []).2 = [first, .setReadTimeout (readAndWriteOrDefaults t).1, .setWriteTimeout (readAndWriteOrDefaults t).2]) := by
    refine ⟨_, rfl, ?_⟩
    cases k with
    | udp =>
      simp only [sockNew, udpNew, openCall]
      cases hb : os.bind [] (localFor remote) with
      | error e => left; simp
      | ok u =>
        simp only []
        cases hx : applyTimeout os t ([] ++ [Call.bindUdp (localFor remote)]) with
        | mk r h1 =>
          cases r with
          | ok u => right; right; simpa using applyTimeout_ok os t _ h1 hx
          | err e => exact absurd (by rw [hx]) (applyTimeout_not_err os t ([] ++ [Call.bindUdp (localFor remote)]) e)
          | crash =>
            have := applyTimeout_hist os t ([] ++ [Call.bindUdp (localFor remote)])
            rw [hx] at this
            rcases this with e | e
            · right; left; simpa using e
            · right; right; simpa using e
    | tcp =>
      simp only [sockNew, tcpNew, openCall]
      cases hb : os.connect [] remote (connectOrDefault t) with
      | error e => left; simp
      | ok u =>
        simp only []
        cases hx : applyTimeout os t ([] ++ [connectCall remote (connectOrDefault t)]) with
        | mk r h1 =>
          cases r with
          | ok u => right; right; simpa using applyTimeout_ok os t _ h1 hx
          | err e => exact absurd (by rw [hx]) (applyTimeout_not_err os t _ e)
          | crash =>
            have := applyTimeout_hist os t ([] ++ [connectCall remote (connectOrDefault t)])
            rw [hx] at this
            rcases this with e | e
            · right; left; simpa using e
            · right; right; simpa using e
  obtain ⟨first, hfirst, hcases⟩ := key
  subst hfirst
  unfold session
  cases hx : sockNew k os remote t [] with
  | mk r h1 =>
    rw [hx] at hcases
    simp only at hcases
    cases r with
    | ok u =>
      obtain ⟨added, e1, io1⟩ := runOps_hist k os remote ops h1
      have hh1 : h1 = [openCall k remote t, .setReadTimeout (readAndWriteOrDefaults t).1, .setWriteTimeout (readAndWriteOrDefaults t).2] := by
        rcases hcases with ⟨_, hne⟩ | ⟨_, hne⟩ | e
        · exact absurd rfl hne
        · exact absurd rfl hne
        · exact e
      refine ⟨h1, added, ?_, io1, fun _ => rfl, Or.inr (Or.inr hh1), fun _ => hh1⟩
      simp only []
      exact e1
    | err e =>
      refine ⟨h1, [], by simp, by simp, by simp, ?_, by simp⟩
      rcases hcases with ⟨e1, _⟩ | ⟨e1, _⟩ | e1
      · exact Or.inl e1
      · exact Or.inr (Or.inl e1)
      · exact Or.inr (Or.inr e1)
    | crash =>
      refine ⟨h1, [], by simp, by simp, by simp, ?_, by simp⟩
      rcases hcases with ⟨e1, _⟩ | ⟨e1, _⟩ | e1
      · exact Or.inl e1
      · exact Or.inr (Or.inl e1)
      · exact Or.inr (Or.inr e1)

example : (session .tcp quietOs (.v4 127 0 0 1 25565) none [.send [1], .receive none]).2.2
    = [.connectTimeout (.v4 127 0 0 1 25565) ⟨4, 0⟩, .setReadTimeout (some ⟨4, 0⟩), .setWriteTimeout (some ⟨4, 0⟩), .write [1], .read 1] := by
  decide

/-- For every kind of socket, every remote address, every settings value (or none: the defaults), every behaviour of the
system and every sequence of sends and receives — failed ones included: each blocking call is made under the bound the
settings ask for.  The connection attempt is bounded by the connect duration; every `send_to` / `write` is made after
`set_write_timeout(write)` and every `recv_from` / `read` after `set_read_timeout(read)`, no later call having changed
either option; the durations are passed on as they are (no arithmetic is done on them anywhere). -/
theorem C12_socket_timeouts_in_force (k : Kind) (os : Os) (remote : Addr) (t : Option Timeout) (ops : List Op) :
    ∀ b ∈ timedBy (session k os remote t ops).2.2, b.asAsked t = true := by
  obtain ⟨opening, io, hshape, hio, hne, hopen, hfull⟩ := C12_socket_session_shape k os remote t ops
  intro b hb
  rw [hshape, timedBy, timedByAux_append] at hb
  rcases List.mem_append.mp hb with hb | hb
  · -- the opening calls: at most the connection attempt blocks
    rcases hopen with e | e | e <;> rw [e] at hb <;> cases k
    all_goals simp only [openCall, connectCall] at hb
    all_goals first
      | (simp [timedByAux] at hb; done)
      | (cases hc : connectOrDefault t <;> simp only [hc, timedByAux, List.mem_cons, List.not_mem_nil, or_false] at hb
           <;> subst hb <;> simp [Blocking.asAsked, hc])
  · by_cases hnil : io = []
    · subst hnil; simp [timedByAux] at hb
    · have hfullo := hfull (hne hnil)
      have hbounds : boundsAfter (Bound.unset, Bound.unset) opening
          = (.set (readAndWriteOrDefaults t).1, .set (readAndWriteOrDefaults t).2) := by
        rw [hfullo]; cases k
        · rfl
        · simp only [openCall, connectCall]; cases connectOrDefault t <;> rfl
      rw [hbounds] at hb
      rcases timedByAux_io io hio _ _ b hb with rfl | rfl <;> simp [Blocking.asAsked]

/-- three different durations: the connection attempt carries the third, the receive runs under the first, the send under
the second -/
example : timedBy (session .tcp ⟨fun _ _ => .ok (), fun _ _ _ => .ok (), fun _ _ => .ok (), fun _ _ => .ok (), fun _ _ _ => .ok 0,
    fun _ _ => .error .wouldBlock, fun _ _ => .ok 0, fun _ => .closed, fun _ _ => 0⟩ (.v4 127 0 0 1 25565)
    (some ⟨some ⟨3, 0⟩, some ⟨1, 0⟩, some ⟨2, 0⟩, 0⟩) [.send [1], .receive none]).2.2
      = [.connect (.set (some ⟨3, 0⟩)), .send (.set (some ⟨2, 0⟩)), .recv (.set (some ⟨1, 0⟩))] := by decide

/-! ### error kinds -/

/-- The total table: whatever `io::ErrorKind` the system reports, the failure of the bind is `SocketBind`, of the
connection attempt `SocketConnect`, of a send `PacketSend`, of a receive `PacketReceive` (for the TCP read loop: of the first
read that fails other than by `Interrupted`).  The last two are the classes `retry_on_timeout` tries again, the first two
end the query at once. -/
theorem C12_socket_error_table (os : Os) (remote : Addr) (t : Option Timeout) (h : List Call) (k : IoKind) :
    (os.bind h (localFor remote) = .error k → (udpNew os remote t h).1 = .err .socketBind)
    ∧ (os.connect h remote (connectOrDefault t) = .error k → (tcpNew os remote t h).1 = .err .socketConnect)
    ∧ (∀ d, os.sendTo h d remote = .error k → (udpSend os remote d h).1 = .err .packetSend)
    ∧ (∀ d, os.write h d = .error k → (tcpSend os d h).1 = .err .packetSend)
    ∧ (∀ size, size.getD 1024 < 2 ^ 63 → os.recvFrom h (size.getD 1024) = .error k → (udpReceive os size h).1 = .err .packetReceive)
    ∧ (∀ size rest, size.getD 1024 < 2 ^ 63 → k ≠ .interrupted → os.reads h = .fail k rest → (tcpReceive os size h).1 = .err .packetReceive)
    ∧ ErrKind.socketBind.isTimeout = false ∧ ErrKind.socketConnect.isTimeout = false
    ∧ ErrKind.packetSend.isTimeout = true ∧ ErrKind.packetReceive.isTimeout = true := by
  refine ⟨?_, ?_, ?_, ?_, ?_, ?_, rfl, rfl, rfl, rfl⟩
  · intro hk; simp [udpNew, hk]
  · intro hk; simp [tcpNew, hk]
  · intro d hk; simp [udpSend, hk]
  · intro d hk; simp [tcpSend, hk]
  · intro size hs hk; rw [(C12_socket_udp_receive_exact os size h hs).2 k hk]
  · intro size rest hs hne hk
    rw [(C12_socket_tcp_receive_to_end os size h hs).1, hk]
    simp [Stream.outcome, hne]

/-- the table is about every kind the model knows -/
example : ∀ k ∈ allIoKinds, k ≠ .interrupted → (Stream.fail k .closed).outcome [] = .err .packetReceive := by decide

/-! ### the abstract transport is this code on top of the system the script stands for -/

/-- `Net.openSock`: a scripted `refused` is a failing bind (UDP) / connection attempt (TCP), anything else a system that
lets the socket be opened and configured — the results agree. -/
theorem C12_socket_refines_open (os : Os) (hos : SettersFailOnlyOnZero os) (remote : Addr) (t : Option Timeout)
    (ht : zeroOpt (readAndWriteOrDefaults t).1 = false ∧ zeroOpt (readAndWriteOrDefaults t).2 = false)
    (tcp : Bool) (w : Net) (k : IoKind)
    (hopen : match w.pending with
      | .refused :: _ => os.bind [] (localFor remote) = .error k ∧ os.connect [] remote (connectOrDefault t) = .error k
      | _ => os.bind [] (localFor remote) = .ok () ∧ os.connect [] remote (connectOrDefault t) = .ok ()) :
    (sockNew (if tcp then .tcp else .udp) os remote t []).1 = ((openSock tcp remote.port w).1.bind fun _ => .ok ()) := by
  have apply_ok : ∀ h, (applyTimeout os t h).1 = .ok () := by
    intro h
    obtain ⟨h', e⟩ := applyTimeout_not_crash os hos t h ht.1 ht.2
    rw [e]
  cases hp : w.pending with
  | nil =>
    rw [hp] at hopen
    cases tcp <;> simp [sockNew, udpNew, tcpNew, openSock, hp, hopen.1, hopen.2, apply_ok, Res.bind]
  | cons c rest =>
    cases c with
    | refused =>
      rw [hp] at hopen
      cases tcp <;> simp [sockNew, udpNew, tcpNew, openSock, hp, hopen.1, hopen.2, Res.bind]
    | opened ds =>
      rw [hp] at hopen
      cases tcp <;> simp [sockNew, udpNew, tcpNew, openSock, hp, hopen.1, hopen.2, apply_ok, Res.bind]

/-- `Net.send`: a scripted send fault is a failing `send_to` / `write` -/
theorem C12_socket_refines_send (os : Os) (remote : Addr) (s : Sock) (data : Bytes) (h : List Call) (w : Net) (k : IoKind)
    (hsend : match w.faults with
      | true :: _ => os.sendTo h data remote = .error k ∧ os.write h data = .error k
      | _ => os.sendTo h data remote = .ok data.length ∧ os.write h data = .ok data.length) :
    (step (if s.tcp then .tcp else .udp) os remote (.send data) h).1 = ((Gd.send s data w).1.bind fun _ => .ok []) := by
  cases hf : w.faults with
  | nil =>
    rw [hf] at hsend
    cases hs : s.tcp <;> simp [step, udpSend, tcpSend, Gd.send, hf, hsend.1, hsend.2, Res.bind]
  | cons b rest =>
    cases b <;> rw [hf] at hsend <;>
      cases hs : s.tcp <;> simp [step, udpSend, tcpSend, Gd.send, hf, hsend.1, hsend.2, Res.bind]

/-- `Net.recv`: a scripted datagram is what `recv_from` delivers (from any source), scripted silence a receive that runs
into its timeout; a scripted TCP delivery is a peer that writes it and closes, silence one that keeps the connection open
without writing, an exhausted script a peer that has closed.  On that system socket.rs returns what `Net.recv` returns. -/
theorem C12_socket_refines_recv (os : Os) (remote src : Addr) (s : Sock) (size : Option Nat) (h : List Call) (w : Net)
    (hs : size.getD 1024 < 2 ^ 63)
    (hudp : os.recvFrom h (size.getD 1024) = udpAnswer src (w.conns.getD s.id []))
    (htcp : os.reads h = tcpAnswer (w.conns.getD s.id [])) :
    (step (if s.tcp then .tcp else .udp) os remote (.receive size) h).1 = (Gd.recv s size w).1 := by
  cases hs' : s.tcp with
  | false =>
    simp only [Bool.false_eq_true, ↓reduceIte, step, Gd.recv]
    cases hq : w.conns.getD s.id [] with
    | nil =>
      rw [hq] at hudp
      rw [(C12_socket_udp_receive_exact os size h hs).2 _ hudp]; simp [hs']
    | cons dl rest =>
      rw [hq] at hudp
      cases dl with
      | data d => rw [(C12_socket_udp_receive_exact os size h hs).1 _ _ hudp]; simp [hs']
      | silence => rw [(C12_socket_udp_receive_exact os size h hs).2 _ hudp]
  | true =>
    simp only [↓reduceIte, step, Gd.recv]
    rw [(C12_socket_tcp_receive_to_end os size h hs).1, htcp]
    cases hq : w.conns.getD s.id [] with
    | nil => simp [tcpAnswer, Stream.outcome, hs']
    | cons dl rest =>
      cases dl with
      | data d => simp only [tcpAnswer, Stream.outcome, hs', ↓reduceIte]; cases d <;> simp
      | silence => simp [tcpAnswer, Stream.outcome]

/-- the three refinement statements on an instance: a scripted datagram of 3 bytes read into a buffer of 2 -/
example : (step .udp { quietOs with recvFrom := fun _ _ => udpAnswer (.v4 127 0 0 1 9) [.data [1, 2, 3]] } (.v4 127 0 0 1 9) (.receive (some 2)) []).1
    = (Gd.recv ⟨0, 9, false⟩ (some 2) ⟨[], [[.data [1, 2, 3]]], [], []⟩).1 := by decide
