import GdVerif.Lemmas.McFaults
import GdVerif.Props.C03
/-
  C10 on WHOLE legacy Minecraft queries (1.6 / 1.4 / beta 1.8, each on its own) with faults injected.

  The retried unit is ping + read + decode on ONE TCP socket (`Props/C10_minecraft.lean`).  Here the property is proved
  end to end for `queryLegacySpecific g` on the scripts of `props/families/mclegacy.py: c10_build` (`props/mc_c10.py`):
  a plan (`Spec/FaultsN.lean: PlanN`, one request per attempt) lists the attempts that end in a timeout-class failure —
  the ping cannot be sent, or it goes out and the read TIMES OUT ON THE OPEN STREAM — and then what the peer writes (the
  server's kick packet, or a malformed stream), or nothing.  A stream the peer has CLOSED is an empty read: a malformed
  reply, not retried (`C10_mclegacy_query_closed_not_retried`).  What follows the plan in the script is arbitrary.
-/
open Gd Gd.Mc Gd.Mc.Spec Gd.Faults

/-- THE GENERAL STATEMENT, for each of the three clients: for every plan in C10's domain (TCP: any answer is read whole)
whose answer, if the decoder rejects it, is rejected with an error that is not a timeout: the result is the plan's
outcome and the ping was sent exactly as the plan says. -/
theorem C10_mclegacy_query_faulty (g : LegacyGroup) (port retries : Nat) (p : PlanN)
    (hp : p.wf retries 1 (fitsRead true none) = true)
    (hcheck : ∀ d e, p.answer = some d → legacyCheck g d = .err e → e.isTimeout = false)
    (restQ : List Delivery) (restF : List Bool) :
    (queryLegacySpecific g port retries (Net.init [.opened (p.deliveries ++ restQ)] (p.faults 1 ++ restF))).1
      = p.outcome (legacyCheck g)
    ∧ sentOf (queryLegacySpecific g port retries (Net.init [.opened (p.deliveries ++ restQ)] (p.faults 1 ++ restF))).2.log
      = p.sends [legacyRequest g] := by
  rw [queryLegacy_queryN]
  exact queryN_faulty true port retries [legacyRequest g] none (legacyCheck g) p hp hcheck restQ restF

/-- (a) RECOVERY, for any kick packet `pkt` the client's parser decodes to `x` (`C10_mclegacy_kicks`: the SPEC's
packets of `C03_legacy16 / 14 / b18`): `fails` (≤ `retries`) precede it: the query returns `x`, the ping was sent
`fails.length + 1` times. -/
theorem C10_mclegacy_query_recovers (g : LegacyGroup) (pkt : Bytes) (x : JavaResponse)
    (hdec : DecodesEnd (legacyParse g pkt.length) pkt x) (port retries : Nat)
    (fails : List AttemptN) (hfails : ∀ a ∈ fails, a.wf 1 = true) (hk : fails.length ≤ retries)
    (restQ : List Delivery) (restF : List Bool) :
    let p : PlanN := ⟨fails, some pkt⟩
    let out := queryLegacySpecific g port retries (Net.init [.opened (p.deliveries ++ restQ)] (p.faults 1 ++ restF))
    out.1 = .ok x
    ∧ sentOf out.2.log = fails.map (fun a => (legacyRequest g, a.sendFault)) ++ [(legacyRequest g, false)]
    ∧ (sentOf out.2.log).length = fails.length + 1 := by
  intro p out
  have := queryN_recovers true port retries [legacyRequest g] none (legacyCheck g) pkt x hdec.run (by simp [fitsRead])
    fails hfails hk restQ restF
  rw [← queryLegacy_queryN, sends_one_flatMap _ _ hfails] at this
  obtain ⟨h1, h2⟩ := this
  have h2' : sentOf out.2.log = fails.map (fun a => (legacyRequest g, a.sendFault)) ++ [(legacyRequest g, false)] := h2
  exact ⟨h1, h2', by rw [h2']; simp⟩

/-- the kick packets of the SPEC's servers are decoded to the expected responses (the hypotheses of
`C10_mclegacy_query_recovers` for the four combinations of `Props/C03.lean`) -/
theorem C10_mclegacy_kicks :
    (∀ st, wf16 st = true → DecodesEnd (legacyParse .v1_6 (kick16 st).length) (kick16 st) (expected16 st))
    ∧ (∀ st, wf16 st = true → DecodesEnd (legacyParse .v1_4 (kick16 st).length) (kick16 st) (expected16 st))
    ∧ (∀ st, wfOld st = true → DecodesEnd (legacyParse .v1_4 (kickOld st).length) (kickOld st) (expectedOld .v1_4 st))
    ∧ (∀ st, wfOld st = true → DecodesEnd (legacyParse .vb1_8 (kickOld st).length) (kickOld st) (expectedOld .vb1_8 st)) :=
  ⟨fun st h => decodesEnd_legacy16 st h .v1_6 (Or.inl rfl), fun st h => decodesEnd_legacy16 st h .v1_4 (Or.inr rfl),
   fun st h => decodesEnd_legacy14 st h, fun st h => decodesEnd_legacyB18 st h⟩

/-- (b) EXHAUSTION.  All `retries + 1` attempts end in a timeout-class failure (the stream stays open and silent, or
the ping cannot be sent): the last attempt's error after exactly `retries + 1` pings. -/
theorem C10_mclegacy_query_exhausted (g : LegacyGroup) (port retries : Nat) (fails : List AttemptN)
    (hfails : ∀ a ∈ fails, a.wf 1 = true) (hk : fails.length = retries + 1) (restQ : List Delivery)
    (restF : List Bool) :
    let p : PlanN := ⟨fails, none⟩
    let out := queryLegacySpecific g port retries (Net.init [.opened (p.deliveries ++ restQ)] (p.faults 1 ++ restF))
    out.1 = .err (lastError AttemptN.error fails)
    ∧ (out.1 = .err .packetReceive ∨ out.1 = .err .packetSend)
    ∧ sentOf out.2.log = fails.map (fun a => (legacyRequest g, a.sendFault))
    ∧ (sentOf out.2.log).length = retries + 1 := by
  intro p out
  have := queryN_exhausted true port retries [legacyRequest g] none (legacyCheck g) fails hfails hk restQ restF
  rw [← queryLegacy_queryN, sends_one_flatMap _ _ hfails] at this
  obtain ⟨h1, h2, h3⟩ := this
  have h3' : sentOf out.2.log = fails.map (fun a => (legacyRequest g, a.sendFault)) := h3
  exact ⟨h1, h2, h3', by rw [h3', List.length_map, hk]⟩

/-- (c) A MALFORMED REPLY IS NOT RETRIED.  After any number ≤ `retries` of timed-out attempts the peer writes a stream
that is not a kick packet — ANY stream that does not start with `FF` or ends inside the 3-byte header
(`Spec.malformedLegacy`).  The query fails at once with `ProtocolFormat` / `PacketUnderflow` (not a timeout-class
error), and no further ping is sent. -/
theorem C10_mclegacy_query_malformed_not_retried (g : LegacyGroup) (port retries : Nat) (fails : List AttemptN)
    (hfails : ∀ a ∈ fails, a.wf 1 = true) (hk : fails.length ≤ retries) (m : Bytes)
    (hm : malformedLegacy m = true) (restQ : List Delivery) (restF : List Bool) :
    let p : PlanN := ⟨fails, some m⟩
    let out := queryLegacySpecific g port retries (Net.init [.opened (p.deliveries ++ restQ)] (p.faults 1 ++ restF))
    out.1 = .err (malformedLegacyError m)
    ∧ (malformedLegacyError m).isTimeout = false
    ∧ sentOf out.2.log = fails.map (fun a => (legacyRequest g, a.sendFault)) ++ [(legacyRequest g, false)]
    ∧ (sentOf out.2.log).length = fails.length + 1 := by
  intro p out
  have := queryN_malformed true port retries [legacyRequest g] none (legacyCheck g) m _ (legacy_malformed g m hm)
    (malformedLegacyError_not_timeout m) (by simp [fitsRead]) fails hfails hk restQ restF
  rw [← queryLegacy_queryN, sends_one_flatMap _ _ hfails] at this
  obtain ⟨h1, h2⟩ := this
  have h2' : sentOf out.2.log = fails.map (fun a => (legacyRequest g, a.sendFault)) ++ [(legacyRequest g, false)] := h2
  exact ⟨h1, malformedLegacyError_not_timeout m, h2', by rw [h2']; simp⟩

/-- (c') A CLOSED STREAM IS NOT RETRIED.  After any number ≤ `retries` of timed-out attempts the peer closes the
connection (the script ends): the read returns nothing, which is a malformed reply — `PacketUnderflow`, at once, one
more ping and no further one. -/
theorem C10_mclegacy_query_closed_not_retried (g : LegacyGroup) (port retries : Nat) (fails : List AttemptN)
    (hfails : ∀ a ∈ fails, a.wf 1 = true) (hk : fails.length ≤ retries) (restF : List Bool) :
    let out := queryLegacySpecific g port retries (Net.init [.opened (fails.flatMap AttemptN.deliveries)]
      (fails.flatMap AttemptN.faults ++ (List.replicate 1 false ++ restF)))
    out.1 = .err .packetUnderflow
    ∧ sentOf out.2.log = fails.map (fun a => (legacyRequest g, a.sendFault)) ++ [(legacyRequest g, false)] := by
  intro out
  have hc : legacyCheck g [] = .err .packetUnderflow := legacy_malformed g [] (by decide)
  have := queryN_closed port retries [legacyRequest g] none (legacyCheck g) fails hfails hk
    (fun e he => by rw [hc] at he; cases he; rfl) restF
  rw [hc, sends_one_flatMap _ _ hfails] at this
  show (queryLegacySpecific g port retries _).1 = _ ∧ sentOf (queryLegacySpecific g port retries _).2.log = _
  rw [queryLegacy_queryN g port retries]
  exact this

/-! ### non-vacuity (the servers of `Props/C03.lean`) -/

-- (a) retries = 2, the 1.4 client: a failed send and a read that times out before the kick packet: the status
example (port : Nat) :
    (queryLegacySpecific .v1_4 port 2 (Net.init
      [.opened ((PlanN.mk [⟨0, true⟩, ⟨1, false⟩] (some (kickOld exOld))).deliveries ++ [])]
      ((PlanN.mk [⟨0, true⟩, ⟨1, false⟩] (some (kickOld exOld))).faults 1 ++ []))).1 = .ok (expectedOld .v1_4 exOld) :=
  (C10_mclegacy_query_recovers .v1_4 _ _ (C10_mclegacy_kicks.2.2.1 exOld (by decide +kernel)) port 2
    [⟨0, true⟩, ⟨1, false⟩] (by decide) (by decide) [] []).1

-- (b) retries = 1, the 1.4 client: a failed send, then a read that times out: PacketReceive after 2 pings
example (port : Nat) (restQ : List Delivery) :
    (queryLegacySpecific .v1_4 port 1 (Net.init [.opened ((PlanN.mk [⟨0, true⟩, ⟨1, false⟩] none).deliveries ++ restQ)]
      ((PlanN.mk [⟨0, true⟩, ⟨1, false⟩] none).faults 1 ++ []))).1 = .err .packetReceive :=
  (C10_mclegacy_query_exhausted .v1_4 port 1 [⟨0, true⟩, ⟨1, false⟩] (by decide) rfl restQ []).1

-- (c) retries = 4: the check's malformed stream `ff ff` (ends inside the header) and one with a wrong first byte
example (port : Nat) :
    (queryLegacySpecific .vb1_8 port 4 (Net.init [.opened ((PlanN.mk [⟨1, false⟩] (some [0xFF, 0xFF])).deliveries ++ [])]
      ((PlanN.mk [⟨1, false⟩] (some [0xFF, 0xFF])).faults 1 ++ []))).1 = .err .packetUnderflow
    ∧ malformedLegacy [0x00, 1, 2, 3] = true ∧ malformedLegacyError [0x00, 1, 2, 3] = .protocolFormat :=
  ⟨(C10_mclegacy_query_malformed_not_retried .vb1_8 port 4 [⟨1, false⟩] (by decide) (by decide) [0xFF, 0xFF] (by decide)
    [] []).1, by decide, by decide⟩

-- (c') retries = 3, the 1.6 client: one read times out, then the peer closes the stream
example (port : Nat) :
    (queryLegacySpecific .v1_6 port 3 (Net.init [.opened ([⟨1, false⟩].flatMap AttemptN.deliveries)]
      ([⟨1, false⟩].flatMap AttemptN.faults ++ (List.replicate 1 false ++ [])))).1 = .err .packetUnderflow :=
  (C10_mclegacy_query_closed_not_retried .v1_6 port 3 [⟨1, false⟩] (by decide) (by decide) []).1
