import GdVerif.Lemmas.SmallBlock
/-
  C12 (blocking steps that can run into their timeout) — Just Cause 2: Multiplayer (via GameSpy 3).
-/
open Gd Gd.Jc2m

/-- At most `retries + 1` blocking steps run into their timeout, whatever the server does: one per
attempt of the exchange (handshake, data request, one packet). -/
theorem C12_jc2m_blocking_bound (port : Option Nat) (retries : Nat) (script : List ConnScript) (faults : List Bool) :
    nBlocked (query port retries (Net.init script faults)).2.log ≤ retries + 1 := by
  have := (block_query port retries).total script faults
  omega
/-- A silent server: the receive-class error after exactly `retries + 1` attempts (one handshake request, one timed-out receive each). -/
theorem C12_jc2m_silent_server (port : Option Nat) (retries : Nat) (script : List ConnScript)
    (h : PendingSilent false (retries + 1) script) :
    (query port retries (Net.init script [])).1 = .err .packetReceive
      ∧ nSends (query port retries (Net.init script [])).2.log = retries + 1
      ∧ nBlocked (query port retries (Net.init script [])).2.log = retries + 1
      ∧ nRecvOk (query port retries (Net.init script [])).2.log = 0
      ∧ nOpened (query port retries (Net.init script [])).2.log = 1 :=
  (silent_query port retries (Net.init script []) rfl h).counts

example (retries : Nat) (rest : List Delivery) (more : List ConnScript) :
    PendingSilent false (retries + 1) [] ∧
    PendingSilent false (retries + 1) (.opened (List.replicate (retries + 1) .silence ++ rest) :: more) :=
  ⟨rfl, SilentFor.replicate false (retries + 1) rest⟩

/-- attained by a server that answers the handshake and then stops (one retry) -/
example : nBlocked (query none 1 (Net.init [.opened [.data [9, 0, 0, 0, 1, 48, 0], .silence, .data [9, 0, 0, 0, 1, 48, 0], .silence]] [])).2.log = 2 := by
  decide
