import GdVerif.Proto.Gs2
/-
  C10 — Retries: GameSpy 2.  The retried unit is the request/response exchange including the header
  check: `request_data` is `retry_on_timeout(retry_count, request_data_impl)`; the generic theorems
  of `Props/C10.lean` apply to it as they are.
-/
open Gd Gd.Gs2

theorem C10_gs2_unit (s : Sock) (retries : Nat) :
    requestData s retries = retryOnTimeout retries (requestDataImpl s) := rfl

/-- The unit is used exactly once per query, and decoding happens outside it (a malformed body is
therefore never retried). -/
theorem C10_gs2_query_unit (port retries : Nat) :
    query port retries = (do
      let s ← openSock false port
      let (data, idx) ← requestData s retries
      parse (do moveCursor (idx : Int); parseBody) data) := rfl

-- non-vacuity: r = 2, two silences then a reply with a wrong header: three sends, PacketBad
example : (query 2302 2 (Net.init [.opened [.silence, .silence, .data [9]]] [])).1 = .err .packetBad
    ∧ ((query 2302 2 (Net.init [.opened [.silence, .silence, .data [9]]] [])).2.log.filter
        (fun e => match e with | .send .. => true | _ => false)).length = 3 := by
  decide +kernel
