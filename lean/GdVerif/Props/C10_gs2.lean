import GdVerif.Spec.Gs2
/- C10_gs2: theorems to come -/
