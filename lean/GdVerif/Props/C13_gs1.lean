import GdVerif.Lemmas.Gs1Cost
import GdVerif.Lemmas.Gs1Block
/-
  C13 (requests sent) — GameSpy 1.  `units` = 1: one request (`\\status\\xserverquery`), any number of
  answer parts back; the exchange with its receive loop is the retried unit.
-/
open Gd Gd.Gs1

/-- Whatever the server does, for every script, fault vector and retry setting, the GameSpy 1 query
sends at most one datagram per attempt: `retries + 1` in all, however many parts it receives
(listening for further parts never sends). -/
theorem C13_gs1_send_bound (port retries : Nat) (script : List ConnScript) (faults : List Bool) :
    nSends (query port retries (Net.init script faults)).2.log ≤ retries + 1 :=
  (sends_query port retries).total script faults

/-- the same for `query_vars` -/
theorem C13_gs1_vars_send_bound (port retries : Nat) (script : List ConnScript) (faults : List Bool) :
    nSends (queryVars port retries (Net.init script faults)).2.log ≤ retries + 1 :=
  (sends_queryVars port retries).total script faults

/-- The form the trace oracle of `props/c13.py` checks (`send_units` = 1). -/
theorem C13_gs1_send_bound_units (port retries : Nat) (script : List ConnScript) (faults : List Bool) :
    nSends (query port retries (Net.init script faults)).2.log
      ≤ 1 * (retries + 1) + nRecvOk (query port retries (Net.init script faults)).2.log := by
  have := C13_gs1_send_bound port retries script faults
  omega

/-- The bound is attained for every retry setting: against a server that never answers exactly
`retries + 1` requests are sent. -/
theorem C13_gs1_send_bound_attained (port retries : Nat) :
    nSends (query port retries (Net.init [] [])).2.log = retries + 1 :=
  (silent_query port retries (Net.init [] []) rfl rfl).counts.2.1

/-- attained with datagrams received too: a first part (`\\hostname\\x\\queryid\\1.1`, not final), then silence -/
example : nSends (query 7777 1 (Net.init [.opened [.data [92, 104, 111, 115, 116, 110, 97, 109, 101, 92, 120, 92, 113, 117, 101, 114, 121, 105, 100, 92, 49, 46, 49, 0], .silence, .silence]] [])).2.log = 2
    ∧ nRecvOk (query 7777 1 (Net.init [.opened [.data [92, 104, 111, 115, 116, 110, 97, 109, 101, 92, 120, 92, 113, 117, 101, 114, 121, 105, 100, 92, 49, 46, 49, 0], .silence, .silence]] [])).2.log = 1 := by
  decide
