import GdVerif.Lemmas.Gs2Block
/-
  C12 (blocking steps that can run into their timeout) — GameSpy 2.
-/
open Gd Gd.Gs2

/-- Whatever the server does — for every script, fault vector and retry setting — at most
`retries + 1` blocking steps of a GameSpy 2 query run into their timeout (a failed socket creation, a
failed send, a timed-out receive): one per attempt of the single exchange.
Wall time ≤ (retries + 1) · timeout + the server's own delays. -/
theorem C12_gs2_blocking_bound (port retries : Nat) (script : List ConnScript) (faults : List Bool) :
    nBlocked (query port retries (Net.init script faults)).2.log ≤ retries + 1 := by
  have := (block_query port retries).total script faults
  omega

/-- A silent server (the socket is created, its first `retries + 1` receives time out; the rest of
the script is arbitrary): the query fails with the receive-class error after exactly `retries + 1`
attempts — `retries + 1` requests, `retries + 1` timed-out receives, nothing received, one socket. -/
theorem C12_gs2_silent_server (port retries : Nat) (script : List ConnScript)
    (h : PendingSilent false (retries + 1) script) :
    (query port retries (Net.init script [])).1 = .err .packetReceive
      ∧ nSends (query port retries (Net.init script [])).2.log = retries + 1
      ∧ nBlocked (query port retries (Net.init script [])).2.log = retries + 1
      ∧ nRecvOk (query port retries (Net.init script [])).2.log = 0
      ∧ nOpened (query port retries (Net.init script [])).2.log = 1 :=
  (silent_query port retries (Net.init script []) rfl h).counts

/-- the hypothesis is satisfiable: no script at all, or `retries + 1` silences followed by anything -/
example (retries : Nat) (rest : List Delivery) (more : List ConnScript) :
    PendingSilent false (retries + 1) [] ∧
    PendingSilent false (retries + 1) (.opened (List.replicate (retries + 1) .silence ++ rest) :: more) :=
  ⟨rfl, SilentFor.replicate false (retries + 1) rest⟩

/-- the bound is attained: two retries, a server that answers nothing; a failed send counts too -/
example : nBlocked (query 2302 2 (Net.init [.opened [.silence, .silence, .silence, .data [0]]] [])).2.log = 3 := by decide
example : nBlocked (query 2302 2 (Net.init [.opened [.silence, .silence]] [true])).2.log = 3 := by decide
