import GdVerif.Lemmas.Gs2Faults
import GdVerif.Props.C04_gs2
/-
  C10 on WHOLE GameSpy 2 queries with faults injected.

  `Props/C10.lean` proves C10 for the combinator, `Props/C10_gs2.lean` names the retried unit (the one request/response
  exchange including the header check; GameSpy 2 has no handshake).  Here the property is proved end to end for
  `Gs2.query` against the SPEC's server (`Spec/Gs2.lean`), on the scripts `props/families/gs2.py: c10_build` injects: a
  plan (`Faults.Plan1`, `Spec/Faults.lean`) lists the attempts that end in a timeout-class failure — `false`: the request
  goes out and the reply is lost, `true`: the request cannot be sent — and then the datagram that answers, if any.
  `Plan1.deliveries` / `Plan1.faults` are the two arguments of `Net.init`; whatever follows them (`restQ`, `restF`) is
  arbitrary.  Quantified: state and table style in the SPEC's domain, port, retry count, the failures.
-/
open Gd Gd.Gs Gd.Gs2 Gd.Gs2.Spec Gd.Faults

/-- THE GENERAL STATEMENT: for every plan in C10's domain (`Plan1.wf`: an answered unit had at most `retries` failures
before, a unit given up exactly `retries + 1`; the answer fits the 2048-byte receive buffer) whose answer, if rejected
by the header check, is rejected with an error that is not a timeout, the query's result is the plan's outcome — header
check and decoder applied to the answer, or the last failure's error — and it sent the request exactly once per attempt
of the plan. -/
theorem C10_gs2_query_faulty (port retries : Nat) (p : Plan1) (hp : p.wf retries 2048 = true)
    (hcheck : ∀ d e, p.answer = some d → headerCheck d = .err e → e.isTimeout = false)
    (restQ : List Delivery) (restF : List Bool) :
    (Gs2.query port retries (Net.init [.opened (p.deliveries ++ restQ)] (p.faults ++ restF))).1
      = (p.outcome headerCheck >>= decode)
    ∧ sentOf (Gs2.query port retries (Net.init [.opened (p.deliveries ++ restQ)] (p.faults ++ restF))).2.log
      = p.sends Gs2.request :=
  query_faulty port retries p hp hcheck restQ restF

/-- (a) RECOVERY.  `fails` (any number ≤ `retries`, each a lost reply or a failed send) precede the server's reply: the
query returns exactly `Spec.expected st` — by `C04_gs2_query` the result with no faults —, and the request was sent
`fails.length + 1` times. -/
theorem C10_gs2_query_recovers (y : Style) (st : State) (hw : wf y st = true) (port retries : Nat)
    (fails : List Bool) (hk : fails.length ≤ retries) (restQ : List Delivery) (restF : List Bool) :
    let p := recovering y st fails
    let out := Gs2.query port retries (Net.init [.opened (p.deliveries ++ restQ)] (p.faults ++ restF))
    out.1 = .ok (expected st)
    ∧ sentOf out.2.log = fails.map (fun f => (Gs2.request, f)) ++ [(Gs2.request, false)]
    ∧ (sentOf out.2.log).length = fails.length + 1 := by
  intro p out
  have hW := wf_iff y st hw
  have hp : p.wf retries 2048 = true := by
    simp [p, recovering, Plan1.wf, hk, hW.size]
  obtain ⟨h1, h2⟩ := C10_gs2_query_faulty port retries p hp
    (fun d e hd he => by
      have : d = reply y st := by simpa [p, recovering] using hd.symm
      subst this
      rw [headerCheck_reply] at he
      cases he) restQ restF
  have ho : (p.outcome headerCheck >>= decode) = .ok (expected st) := by
    simp only [p, recovering, Plan1.outcome, headerCheck_reply, Res.bind_ok]
    exact decode_reply hW
  refine ⟨h1.trans ho, h2, ?_⟩
  show (sentOf out.2.log).length = _
  rw [show sentOf out.2.log = _ from h2]
  simp [p, recovering, Plan1.sends]

/-- (b) EXHAUSTION.  All `retries + 1` attempts end in a timeout-class failure: the query fails with the last attempt's
error — `PacketReceive`, or `PacketSend` when that attempt was a failed send (`C10_gs2_last_error`) — after exactly
`retries + 1` requests, whatever the script still holds. -/
theorem C10_gs2_query_exhausted (port retries : Nat) (fails : List Bool)
    (hk : fails.length = retries + 1) (restQ : List Delivery) (restF : List Bool) :
    let p : Plan1 := ⟨fails, none⟩
    let out := Gs2.query port retries (Net.init [.opened (p.deliveries ++ restQ)] (p.faults ++ restF))
    out.1 = .err (lastError attemptError fails)
    ∧ (out.1 = .err .packetReceive ∨ out.1 = .err .packetSend)
    ∧ sentOf out.2.log = fails.map (fun f => (Gs2.request, f))
    ∧ (sentOf out.2.log).length = retries + 1 := by
  intro p out
  obtain ⟨h1, h2⟩ := C10_gs2_query_faulty port retries p (by simp [p, Plan1.wf, hk])
    (fun d e hd _ => by simp [p] at hd) restQ restF
  have h1' : out.1 = .err (lastError attemptError fails) := h1
  have h2' : sentOf out.2.log = fails.map (fun f => (Gs2.request, f)) := by
    rw [show sentOf out.2.log = _ from h2]; simp [p, Plan1.sends]
  refine ⟨h1', ?_, h2', by rw [h2', List.length_map, hk]⟩
  rw [h1']
  obtain ⟨init, f, rfl⟩ : ∃ init f, fails = init ++ [f] := by
    cases hne : fails.reverse with
    | nil => simp at hne; subst hne; simp at hk
    | cons f r => exact ⟨r.reverse, f, by rw [← List.reverse_reverse fails, hne]; simp⟩
  rw [lastError_attempt]
  cases f <;> simp

theorem C10_gs2_last_error (fails : List Bool) (f : Bool) :
    lastError attemptError (fails ++ [f]) = (if f then .packetSend else .packetReceive) :=
  lastError_attempt fails f

/-- (c) A MALFORMED REPLY IS NOT RETRIED.  After any number ≤ `retries` of timed-out attempts the client receives a
datagram the header check rejects — ANY datagram that does not start with `00` or is shorter than the 5-byte header
(`Spec.malformed`; within the receive buffer).  Whatever `retries` is, the query fails at once with `PacketBad` /
`PacketUnderflow` (not a timeout-class error), and no further request is sent: `fails.length + 1` in all. -/
theorem C10_gs2_query_malformed_not_retried (port retries : Nat) (fails : List Bool)
    (hk : fails.length ≤ retries) (m : Bytes) (hm : malformed m = true) (hl : m.length ≤ 2048)
    (restQ : List Delivery) (restF : List Bool) :
    let p : Plan1 := ⟨fails, some m⟩
    let out := Gs2.query port retries (Net.init [.opened (p.deliveries ++ restQ)] (p.faults ++ restF))
    out.1 = .err (malformedError m)
    ∧ (malformedError m).isTimeout = false
    ∧ sentOf out.2.log = fails.map (fun f => (Gs2.request, f)) ++ [(Gs2.request, false)]
    ∧ (sentOf out.2.log).length = fails.length + 1 := by
  intro p out
  obtain ⟨h1, h2⟩ := C10_gs2_query_faulty port retries p (by simp [p, Plan1.wf, hk, hl])
    (fun d e hd he => by
      have : d = m := by simpa [p] using hd.symm
      subst this
      rw [headerCheck_malformed d hm] at he
      cases he
      exact malformedError_not_timeout d) restQ restF
  have h1' : out.1 = .err (malformedError m) := by
    rw [show out.1 = _ from h1]
    simp [p, Plan1.outcome, headerCheck_malformed m hm]
  have h2' : sentOf out.2.log = fails.map (fun f => (Gs2.request, f)) ++ [(Gs2.request, false)] := by
    rw [show sentOf out.2.log = _ from h2]; simp [p, Plan1.sends]
  exact ⟨h1', malformedError_not_timeout m, h2', by rw [h2']; simp⟩

/-! ### non-vacuity: the servers of `Props/C04_gs2.lean`, retries = 2 -/

-- (a) a failed send and a lost reply before the reply: the state, 3 requests
example (port : Nat) :
    (recovering C04_gs2_exStyle C04_gs2_exState2 [true, false]).deliveries.length = 2
    ∧ (recovering C04_gs2_exStyle C04_gs2_exState2 [true, false]).faults = [true, false, false]
    ∧ (Gs2.query port 2 (Net.init [.opened ((recovering C04_gs2_exStyle C04_gs2_exState2 [true, false]).deliveries ++ [])]
        ((recovering C04_gs2_exStyle C04_gs2_exState2 [true, false]).faults ++ []))).1 = .ok (expected C04_gs2_exState2)
    ∧ (sentOf (Gs2.query port 2 (Net.init [.opened ((recovering C04_gs2_exStyle C04_gs2_exState2 [true, false]).deliveries ++ [])]
        ((recovering C04_gs2_exStyle C04_gs2_exState2 [true, false]).faults ++ []))).2.log).length = 3 := by
  have h := C10_gs2_query_recovers C04_gs2_exStyle C04_gs2_exState2 (by decide +kernel) port 2 [true, false] (by decide)
    [] []
  exact ⟨rfl, rfl, h.1, h.2.2⟩

-- (b) three lost replies: PacketReceive after 3 requests, whatever is still queued
example (port : Nat) (restQ : List Delivery) :
    (Gs2.query port 2 (Net.init [.opened ((Plan1.mk [false, false, false] none).deliveries ++ restQ)]
      ((Plan1.mk [false, false, false] none).faults ++ []))).1 = .err .packetReceive :=
  (C10_gs2_query_exhausted port 2 [false, false, false] rfl restQ []).1

-- (c) retries = 4: the check's malformed datagram `09 00 00 00 01` (wrong first byte) and a 3-byte one
example (port : Nat) :
    (Gs2.query port 4 (Net.init [.opened ((Plan1.mk [true] (some [9, 0, 0, 0, 1])).deliveries ++ [])]
      ((Plan1.mk [true] (some [9, 0, 0, 0, 1])).faults ++ []))).1 = .err .packetBad
    ∧ malformed [0, 0, 0] = true ∧ malformedError [0, 0, 0] = .packetUnderflow :=
  ⟨(C10_gs2_query_malformed_not_retried port 4 [true] (by decide) [9, 0, 0, 0, 1] (by decide) (by decide) [] []).1,
    by decide, by decide⟩
