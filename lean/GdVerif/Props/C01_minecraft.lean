import GdVerif.Lemmas.McSafe
/-
  C01 (Minecraft) — hostile server responses never crash or hang a query.

  For EVERY reply script (any number of connections, each refused or delivering any byte strings and
  silences in any order, any failing sends), every port, retry count and request settings, and ANY
  behaviour of the external JSON crate (`ext` is universally quantified: whatever value `from_str` returns
  or whether it fails, whatever `to_string` prints), the model of each public Minecraft query returns a
  response or an error, never `crash` (panic, index out of bounds, arithmetic overflow).  Termination is
  Lean's: all model functions are total; the only loop is `retry_on_timeout`, recursive on the retry count.
  On the unrepaired tree the statement was false (legacy `u16` length arithmetic, see known_findings.json).
-/
open Gd Gd.Mc

/-- `minecraft::protocol::query_java` -/
theorem C01_minecraft_java (ext : Ext) (port : Nat) (st : RequestSettings) (retries : Nat)
    (script : List ConnScript) (faults : List Bool) :
    (queryJava ext port st retries (Net.init script faults)).1 ≠ .crash :=
  (queryJava_safe ext port st retries _).1

/-- `minecraft::protocol::query_bedrock` -/
theorem C01_minecraft_bedrock (port retries : Nat) (script : List ConnScript) (faults : List Bool) :
    (queryBedrock port retries (Net.init script faults)).1 ≠ .crash :=
  (queryBedrock_safe port retries _).1

/-- `minecraft::protocol::query_legacy_specific`, each of the three groups -/
theorem C01_minecraft_legacy_specific (g : LegacyGroup) (port retries : Nat) (script : List ConnScript) (faults : List Bool) :
    (queryLegacySpecific g port retries (Net.init script faults)).1 ≠ .crash :=
  (queryLegacySpecific_safe g port retries _).1

/-- `minecraft::protocol::query_legacy` -/
theorem C01_minecraft_legacy (port retries : Nat) (script : List ConnScript) (faults : List Bool) :
    (queryLegacy port retries (Net.init script faults)).1 ≠ .crash :=
  (queryLegacy_safe port retries _).1

/-- `minecraft::protocol::query` (auto-detect) -/
theorem C01_minecraft_auto (ext : Ext) (port : Nat) (st : RequestSettings) (retries : Nat)
    (script : List ConnScript) (faults : List Bool) :
    (queryAuto ext port st retries (Net.init script faults)).1 ≠ .crash :=
  (queryAuto_safe ext port st retries _).1

/-- The parsers alone, on any bytes (`n` = the stream length the legacy header check is given). -/
theorem C01_minecraft_parsers (ext : Ext) (g : LegacyGroup) (n : Nat) (data : Bytes) :
    ((javaParse ext).run data) ≠ .crash ∧ (javaUnframe.run data) ≠ .crash
    ∧ (bedrockParse.run data) ≠ .crash ∧ ((legacyParse g n).run data) ≠ .crash :=
  ⟨run_ne (safe_javaParse ext) data, run_ne safe_javaUnframe data, run_ne safe_bedrockParse data,
   run_ne (safe_legacyParse g n) data⟩

/-- The field extraction on any JSON value (numbers of any size and sign, members of any type). -/
theorem C01_minecraft_json_extraction (ext : Ext) (v : Json) : javaExtract ext v ≠ .crash :=
  javaExtract_ne ext v

/-- The indexing `split[0..2]` after the size check is in bounds: the explicit crash branch of the model is
unreachable (this is what `safe_legacySplitResponse` shows); a kick message with too few / too many `§`
separated parts is an error. -/
example : (queryLegacySpecific .vb1_8 25565 0 (Net.init [.opened [.data [0xFF, 0, 1, 0, 0x41]]] [])).1 = .err .packetUnderflow := by
  decide

-- non-vacuity: hostile scripts are in the quantifier — the pre-repair witness `FF 80 00` (u16 overflow)
example : (queryLegacySpecific .v1_6 25565 1 (Net.init [.opened [.data [0xFF, 0x80, 0x00]]] [])).1 = .err .packetUnderflow := by
  decide

example : (queryAuto ⟨fun _ => none, fun _ => []⟩ 25565 RequestSettings.default 0
    (Net.init [.refused, .opened [.silence], .opened [.data [0xFF, 0x7F, 0xFF]], .refused, .opened [.data []]] [true])).1
    = .err .autoQuery := by
  decide
