import GdVerif.Lemmas.Jc2mFaults
import GdVerif.Props.C07_jc2m
/-
  C10 on WHOLE Just Cause 2: Multiplayer queries with faults injected.

  The game's query is the GameSpy 3 exchange in single-packet mode; the retried unit is the WHOLE exchange (handshake
  request → challenge reply → data request → the data packet).  Plans are GameSpy 3's (`Spec/Gs3Faults.lean`): attempts
  that end in a timeout-class failure at the HANDSHAKE stage (reply lost / request cannot be sent) or at the DATA stage
  (after a valid handshake: packet lost / data request cannot be sent), then the valid exchange, nothing, or a
  malformed datagram at either stage — the scripts of `props/families/jc2m.py: c10_build`.  Whatever follows the plan
  in the script and in the fault vector is arbitrary.
-/
open Gd Gd.Jc2m Gd.Jc2m.Spec Gd.Faults
open Gd.Gs3.Spec (Plan Attempt Ending Stage faultyFaults wfPlan malformedError malformedAt attemptsOf handshakeRequest)

/-- THE GENERAL STATEMENT: for every plan in C10's domain for the retry count (`Gs3.Spec.wfPlan` for a reply of ONE data
packet — `Spec.pool`: a failed attempt therefore receives nothing of it), the query returns the
outcome the property prescribes (`faultyExpected`) and has sent exactly the plan's datagrams (`faultySends`). -/
theorem C10_jc2m_query_faulty (cfg : Config) (st : State) (h : wf cfg st = true) (port : Option Nat) (retries : Nat)
    (plan : Plan) (hplan : wfPlan retries (pool cfg st) plan = true) (restQ : List Delivery) (restF : List Bool) :
    (Jc2m.query port retries
        (Net.init [.opened (faultyScript cfg st plan ++ restQ)] (faultyFaults plan ++ restF))).1
      = faultyExpected st plan
    ∧ Gd.sentOf (Jc2m.query port retries
        (Net.init [.opened (faultyScript cfg st plan ++ restQ)] (faultyFaults plan ++ restF))).2.log
      = faultySends cfg plan :=
  query_faulty cfg st h port retries plan hplan restQ restF

/-- (a) RECOVERY: at most `retries` timeout-class failures (at either stage) before the valid exchange — the query
returns exactly `Spec.expected st` (`C07_jc2m_query`: the result with no faults) after `fails.length + 1` attempts. -/
theorem C10_jc2m_query_recovers (cfg : Config) (st : State) (h : wf cfg st = true) (port : Option Nat) (retries : Nat)
    (fails : List Attempt) (hk : fails.length ≤ retries) (hw : ∀ a ∈ fails, a.got = []) (restQ : List Delivery)
    (restF : List Bool) :
    let plan : Plan := ⟨fails, .valid⟩
    let out := Jc2m.query port retries
        (Net.init [.opened (faultyScript cfg st plan ++ restQ)] (faultyFaults plan ++ restF))
    out.1 = .ok (expected st) ∧ attemptsOf (Gd.sentOf out.2.log) = fails.length + 1 := by
  intro plan out
  obtain ⟨h1, h2⟩ := C10_jc2m_query_faulty cfg st h port retries plan
    (by simp only [plan, wfPlan, Bool.and_eq_true, List.all_eq_true, decide_eq_true_eq]
        exact ⟨fun a ha => wf_of_got_nil _ a (hw a ha), hk⟩) restQ restF
  refine ⟨h1, ?_⟩
  show attemptsOf (Gd.sentOf out.2.log) = _
  rw [show Gd.sentOf out.2.log = _ from h2, faultySends,
    Gs3.attemptsOf_sendsWith _ (dataRequest_ne cfg.challenge)]
  rfl

/-- (b) EXHAUSTION: all `retries + 1` attempts end in a timeout-class failure — the query fails with the last attempt's
error (`PacketReceive`, or `PacketSend` for a failed send) after exactly `retries + 1` attempts. -/
theorem C10_jc2m_query_exhausted (cfg : Config) (st : State) (h : wf cfg st = true) (port : Option Nat) (retries : Nat)
    (fails : List Attempt) (hk : fails.length = retries + 1) (hw : ∀ a ∈ fails, a.got = []) (restQ : List Delivery)
    (restF : List Bool) :
    let plan : Plan := ⟨fails, .gaveUp⟩
    let out := Jc2m.query port retries
        (Net.init [.opened (faultyScript cfg st plan ++ restQ)] (faultyFaults plan ++ restF))
    out.1 = .err (lastError Attempt.error fails)
    ∧ (out.1 = .err .packetReceive ∨ out.1 = .err .packetSend)
    ∧ attemptsOf (Gd.sentOf out.2.log) = retries + 1 := by
  intro plan out
  obtain ⟨h1, h2⟩ := C10_jc2m_query_faulty cfg st h port retries plan
    (by simp only [plan, wfPlan, Bool.and_eq_true, List.all_eq_true, beq_iff_eq]
        exact ⟨fun a ha => wf_of_got_nil _ a (hw a ha), hk⟩) restQ restF
  have h1' : out.1 = .err (lastError Attempt.error fails) := h1
  refine ⟨h1', ?_, ?_⟩
  · rw [h1']
    rcases Gs3.lastError_class fails with e | e <;> rw [e] <;> simp
  · show attemptsOf (Gd.sentOf out.2.log) = _
    rw [show Gd.sentOf out.2.log = _ from h2, faultySends,
      Gs3.attemptsOf_sendsWith _ (dataRequest_ne cfg.challenge)]
    simp [plan, Gs3.Spec.Plan.attempts, hk]

/-- (c) A MALFORMED REPLY IS NOT RETRIED: after any number ≤ `retries` of timed-out attempts, ANY datagram that is empty
or does not start with the kind byte of its stage (`09` at the handshake, `00` at the data stage) ends the query at
once with `PacketUnderflow` / `PacketBad`, whatever `retries` is, after `fails.length + 1` attempts. -/
theorem C10_jc2m_query_malformed_not_retried (cfg : Config) (st : State) (h : wf cfg st = true) (port : Option Nat)
    (retries : Nat) (fails : List Attempt) (hk : fails.length ≤ retries) (hw : ∀ a ∈ fails, a.got = [])
    (stage : Stage) (m : Bytes) (hm : malformedAt stage m = true) (restQ : List Delivery) (restF : List Bool) :
    let plan : Plan := ⟨fails, .malformed stage [] m⟩
    let out := Jc2m.query port retries
        (Net.init [.opened (faultyScript cfg st plan ++ restQ)] (faultyFaults plan ++ restF))
    out.1 = .err (malformedError m) ∧ (malformedError m).isTimeout = false
    ∧ attemptsOf (Gd.sentOf out.2.log) = fails.length + 1 := by
  intro plan out
  obtain ⟨h1, h2⟩ := C10_jc2m_query_faulty cfg st h port retries plan
    (by simp only [plan, wfPlan, Bool.and_eq_true, List.all_eq_true, decide_eq_true_eq]
        exact ⟨fun a ha => wf_of_got_nil _ a (hw a ha), ⟨hk, hm⟩, by simp [Gs3.Spec.gotAt, partOf]⟩) restQ restF
  refine ⟨h1, Gs3.malformedError_not_timeout m, ?_⟩
  show attemptsOf (Gd.sentOf out.2.log) = _
  rw [show Gd.sentOf out.2.log = _ from h2, faultySends,
    Gs3.attemptsOf_sendsWith _ (dataRequest_ne cfg.challenge)]
  rfl

/-! ### non-vacuity: the server of `Props/C07_jc2m.lean` -/

-- retries = 2: the data packet lost once, the handshake request unsendable once, then the exchange: the state, 3
-- attempts; retries = 1 and two lost packets: PacketReceive; `FF FF` as handshake reply with retries = 6: PacketBad
example (port : Option Nat) (restQ : List Delivery) :
    (Jc2m.query port 2 (Net.init [.opened (faultyScript C07_jc2m_exampleConfig C07_jc2m_exampleState
          ⟨[⟨.data, false, []⟩, ⟨.handshake, true, []⟩], .valid⟩ ++ restQ)]
        (faultyFaults ⟨[⟨.data, false, []⟩, ⟨.handshake, true, []⟩], .valid⟩ ++ []))).1 = .ok (expected C07_jc2m_exampleState)
    ∧ (Jc2m.query port 1 (Net.init [.opened (faultyScript C07_jc2m_exampleConfig C07_jc2m_exampleState
          ⟨[⟨.data, false, []⟩, ⟨.data, false, []⟩], .gaveUp⟩ ++ restQ)]
        (faultyFaults ⟨[⟨.data, false, []⟩, ⟨.data, false, []⟩], .gaveUp⟩ ++ []))).1 = .err .packetReceive
    ∧ (Jc2m.query port 6 (Net.init [.opened (faultyScript C07_jc2m_exampleConfig C07_jc2m_exampleState
          ⟨[], .malformed .handshake [] [0xFF, 0xFF]⟩ ++ restQ)]
        (faultyFaults ⟨[], .malformed .handshake [] [0xFF, 0xFF]⟩ ++ []))).1 = .err .packetBad :=
  ⟨(C10_jc2m_query_recovers _ _ C07_jc2m_example_wf port 2 [⟨.data, false, []⟩, ⟨.handshake, true, []⟩] (by decide)
      (by decide) restQ []).1,
   (C10_jc2m_query_exhausted _ _ C07_jc2m_example_wf port 1 [⟨.data, false, []⟩, ⟨.data, false, []⟩] rfl (by decide) restQ []).1,
   (C10_jc2m_query_malformed_not_retried _ _ C07_jc2m_example_wf port 6 [] (by decide) (by decide) .handshake [0xFF, 0xFF]
      (by decide) restQ []).1⟩
