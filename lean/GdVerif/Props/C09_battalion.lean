import GdVerif.Lemmas.Battalion
/-
  C09 — requests are the protocol's and go to the right port: Battalion 1944 (the Valve requests, C09_valve_*).
-/
open Gd Gd.Valve

/-- Whatever the server does, the Battalion 1944 query puts on the wire exactly what the Valve query does: one
UDP socket to the given port, A2S requests (without challenge, or carrying a challenge) to that port, 6144-byte
receives; the overrides and the conversion do no I/O. -/
theorem C09_battalion_conforms (ext : Ext) (port : Nat) (script : List ConnScript) (faults : List Bool) :
    ∀ e ∈ (Battalion.query ext port (Net.init script faults)).2.log,
      match e with
      | .opened c tcp p _ => c = 0 ∧ tcp = false ∧ p = port
      | .send c p data _ => c = 0 ∧ p = port ∧ Allowed data
      | .recv c size _ => c = 0 ∧ size = some 6144 := by
  obtain ⟨_, added, hlog, hall⟩ := Battalion.query_safe ext port (Net.init script faults)
  intro e he
  rw [hlog] at he
  simp only [Net.init, List.nil_append] at he
  have := hall e he
  simp only [Net.init, List.length_nil] at this
  cases e with
  | opened c tcp p r => exact this
  | send c p d f => exact this
  | recv c s gt => exact this

/-- the default query port is the game port + 3 -/
theorem C09_battalion_default_port : Battalion.DEFAULT_PORT = Battalion.Spec.defaultPort := rfl
