import GdVerif.Proto.Games
import GdVerif.Lemmas.ValveSafe
import GdVerif.Gen.Games
/-
  C14 — Definition-driven, per-game and protocol-level queries agree.

  `Gen.gameDefs` / `Gen.gameMods` are regenerated from games/definitions.rs and the game modules on
  every run; the table theorems are re-checked against what the source says now.
-/
open Gd Gd.Valve Gd.Games

/-- does module row `m` belong to definition `d`? (module named after the id, or same display name) -/
def sameGame (d m : Gd.Gen.GameRow) : Bool := d.id == m.id || d.name == m.name

/-- Every game of the definitions table that has a dedicated module: the module's default port,
protocol, engine (app ids) and gathering settings are the definition's (as texts and as the typed `tag`). -/
theorem C14_tables_agree :
    (Gd.Gen.gameDefs.all fun d => Gd.Gen.gameMods.all fun m =>
      !sameGame d m || (d.port == m.port && d.proto == m.proto && d.engine == m.engine && d.gather == m.gather
        && d.tag == m.tag)) = true := by
  decide

/-- Every row is in the translator's grammar (no engine / gather / protocol expression it could not read). -/
theorem C14_rows_understood :
    ((Gd.Gen.gameDefs ++ Gd.Gen.gameMods).all fun r => r.understood) = true := by
  decide

/-- Ids are unique in the definitions table. -/
theorem C14_ids_unique : (Gd.Gen.gameDefs.map (·.id)).Nodup := by decide

/-- If the tables agree on a game, the generic path (definition-driven), the dedicated module and the
protocol-level query with the definition's parameters are the same computation for EVERY server
behaviour (every script), port given or omitted: same socket, same destination port, same bytes in the
same order, and the same result up to the documented conversion `game::Response::new_from_valve_response`.
(The module uses the default timeout settings, i.e. retry count 0.) -/
theorem C14_paths_agree (ext : Ext) (d m : ValveParams) (h : d = m) (port : Option Nat) (w : Net) :
    mapQ gameView (genericQuery ext d port 0) w = moduleQuery ext m port w
    ∧ genericQuery ext d port 0 w = protocolQuery ext (port.getD d.port) d.engine d.gather 0 w := by
  subst h
  exact ⟨rfl, rfl⟩

/-- The destination port: the given port, or the definition's default when none is given — every
event the generic path logs carries that port. -/
theorem C14_destination_port (ext : Ext) (d : ValveParams) (port : Option Nat) (retries : Nat)
    (script : List ConnScript) (faults : List Bool) :
    ∀ e ∈ (genericQuery ext d port retries (Net.init script faults)).2.log,
      match e with
      | .opened _ _ p _ => p = port.getD d.port
      | .send _ p _ _ => p = port.getD d.port
      | .recv _ _ _ => True := by
  obtain ⟨_, added, hlog, hall⟩ := Valve.query_safe ext (port.getD d.port) d.engine d.gather retries (Net.init script faults)
  intro e he
  unfold genericQuery at he
  rw [hlog] at he
  simp only [Net.init, List.nil_append] at he
  have := hall e he
  cases e with
  | opened c tcp p r => exact this.2.2
  | send c p dd f => exact this.2.1
  | recv c s g => trivial
