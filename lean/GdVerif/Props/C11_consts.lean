import GdVerif.Gen.Consts
import GdVerif.Lemmas.Consts
/-
  C11 — the default gather toggles of the SOURCE are the MODEL's (tie by TRANSLATION).
-/
open Gd Gd.Gen Gd.ConstsAux

/-- `valve::GatheringSettings::default()`: players Try, rules Try, check_app_id true = `Valve.Gather.default` -/
theorem C11_consts_valve_gather_default :
    [("players", toggleName Valve.Gather.default.players), ("rules", toggleName Valve.Gather.default.rules),
     ("check_app_id", boolName Valve.Gather.default.checkAppId)] = Consts.valve_gather_default := by decide

/-- `unreal2::GatheringSettings::default()`: players Try, mutators_and_rules Enforce = `Unreal2.Gather.default` -/
theorem C11_consts_unreal2_gather_default :
    [("players", toggleName Unreal2.Gather.default.players),
     ("mutators_and_rules", toggleName Unreal2.Gather.default.mutatorsAndRules)] = Consts.unreal2_gather_default := by decide

example : Consts.valve_gather_default.length = 3 := by decide
