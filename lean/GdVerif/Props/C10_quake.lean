import GdVerif.Proto.Quake
/-
  C10 — Retries: the Quake 1 / 2 / 3 family.  The generic theorems about `retryOnTimeout` are in
  `Props/C10.lean`; here: which computation is the retried unit.
-/
open Gd

/-- Quake: the whole exchange (send the request, receive one datagram, check its header) is the one retried
unit; the socket is opened once, outside it. -/
theorem C10_quake_unit (s : Sock) (r : Nat) (v : Quake.Version) :
    Quake.getDataOn s r v = retryOnTimeout r (Quake.getDataImpl s v) := rfl

/-- … and `get_data` is: open the socket, then that unit. -/
theorem C10_quake_get_data (port r : Nat) (v : Quake.Version) :
    Quake.getData port r v = (openSock false port >>= fun s => retryOnTimeout r (Quake.getDataImpl s v)) := rfl
