import GdVerif.Lemmas.SmallBlock
/-
  C12 (blocking steps that can run into their timeout) — Mindustry.  Every attempt creates its own
  socket, so up to `retries + 1` sockets exist; a failed socket creation is not a timeout-class error
  and ends the query.
-/
open Gd Gd.Mindustry

/-- At most `retries + 1` blocking steps run into their timeout, whatever the server does: one per
attempt (its socket creation, its send or its receive). -/
theorem C12_mindustry_blocking_bound (port retries : Nat) (script : List ConnScript) (faults : List Bool) :
    nBlocked (query port retries (Net.init script faults)).2.log ≤ retries + 1 := by
  have := (block_query port retries).total script faults
  omega
/-- A silent server (every one of the `retries + 1` sockets is created and its receive times out): the receive-class error after exactly `retries + 1` attempts — `retries + 1` sockets, pings and timed-out receives. -/
theorem C12_mindustry_silent_server (port retries : Nat) (script : List ConnScript)
    (h : AllSilent 1 (List.replicate (retries + 1) false) script) :
    (query port retries (Net.init script [])).1 = .err .packetReceive
      ∧ nSends (query port retries (Net.init script [])).2.log = retries + 1
      ∧ nBlocked (query port retries (Net.init script [])).2.log = retries + 1
      ∧ nRecvOk (query port retries (Net.init script [])).2.log = 0
      ∧ nOpened (query port retries (Net.init script [])).2.log = retries + 1 :=
  (silent_query port retries (Net.init script []) rfl h).counts

/-- the hypothesis is satisfiable -/
example : AllSilent 1 (List.replicate (2 + 1) false) [.opened [.silence], .opened [.silence, .data [1]], .opened []] :=
  ⟨True.intro, True.intro, rfl, True.intro⟩

example : nBlocked (query 6567 2 (Net.init [.opened [.silence], .opened [.silence], .opened []] [])).2.log = 3 := by decide
/-- a socket that cannot be created ends the query with one blocked step -/
example : nBlocked (query 6567 2 (Net.init [.opened [.silence], .refused, .opened []] [])).2.log = 2 := by decide
