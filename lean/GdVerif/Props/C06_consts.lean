import GdVerif.Gen.Consts
import GdVerif.Lemmas.Consts
import GdVerif.Spec.Unreal2
/-
  C06 — the constants of the Unreal 2 string decoder and section parsers: SOURCE = MODEL = SPEC (tie by TRANSLATION).
  `Gd.Gen.Consts.*` is regenerated from protocols/unreal2/{protocol,types}.rs on every run.
-/
open Gd Gd.Gen Gd.ConstsAux

/-- `decode_string`: a length byte ≥ 0x80 announces UCS-2 (`(length & 0x7f) * 2` bytes), a stray `1` may follow it -/
theorem C06_consts_unreal2_string_lengths (sl body : Bytes) :
    Unreal2.u2Dec sl = (match sl with
      | [] => .err .packetBad
      | l :: body =>
        if l.toNat ≥ num Consts.unreal2_string_consts "ucs2_threshold"
        then Unreal2.ucs2Part ((l.toNat % (num Consts.unreal2_string_consts "length_mask" + 1)) * 2)
               (Unreal2.strayOf body) (body.drop (Unreal2.strayOf body))
        else Unreal2.latin1Part l.toNat body)
    ∧ Unreal2.strayOf body = (if body.head? == some (UInt8.ofNat (num Consts.unreal2_string_consts "stray_byte")) then 1 else 0) := by
  have h : num Consts.unreal2_string_consts "ucs2_threshold" = 0x80
      ∧ num Consts.unreal2_string_consts "length_mask" + 1 = 0x80
      ∧ UInt8.ofNat (num Consts.unreal2_string_consts "stray_byte") = 1 := by decide
  rw [h.1, h.2.1, h.2.2]
  exact ⟨rfl, rfl⟩

/-- the colour escape `0x1b` drops itself and the next 3 characters; characters up to `0x1a` are removed -/
theorem C06_consts_unreal2_colour_filter (skip c : Nat) (r : List Nat) :
    Unreal2.colourFilter skip (c :: r)
      = (if skip > 0 then Unreal2.colourFilter (skip - 1) r
         else if c == num Consts.unreal2_string_consts "colour_escape"
           then Unreal2.colourFilter (num Consts.unreal2_string_consts "colour_skip") r
         else c :: Unreal2.colourFilter 0 r)
    ∧ Unreal2.isCtl c = (0 < c && c ≤ num Consts.unreal2_string_consts "last_control") := by
  have h : num Consts.unreal2_string_consts "colour_escape" = 0x1b
      ∧ num Consts.unreal2_string_consts "colour_skip" = 3
      ∧ num Consts.unreal2_string_consts "last_control" = 0x1a := by decide
  rw [h.1, h.2.1, h.2.2]
  exact ⟨rfl, rfl⟩

/-- `impl TryFrom<u8> for PacketKind` = `Unreal2.packetKindOf`; the 4 header bytes skipped in front of the kind -/
theorem C06_consts_unreal2_packet_kind_of (expected : Unreal2.PacketKind) :
    graph Unreal2.packetKindOf u2KindName = Consts.unreal2_packet_kind_of
    ∧ Unreal2.consumeHeaders expected = (do
      moveCursor (Consts.unreal2_header_skip : Nat)
      let t ← readU8
      let kind ← Par.lift (Unreal2.packetKindOf t)
      (if kind != expected then Par.fail .packetBad else pure () : Par Unit)) := ⟨by decide, rfl⟩

/-- `key.eq_ignore_ascii_case("mutator")`, `rules.get("GamePassword")` compared with `"true"` — MODEL and SPEC -/
theorem C06_consts_unreal2_rule_names (info : Unreal2.ServerInfo) (mr : Unreal2.MutatorsAndRules) (k : Bytes) :
    Unreal2.mutatorKey = asciiBytes Consts.unreal2_mutator_key
    ∧ Unreal2.Spec.isMutatorKey k = (asciiLower k == asciiBytes Consts.unreal2_mutator_key)
    ∧ Unreal2.gamePasswordKey = asciiBytes (Consts.unreal2_password_rule.getD 0 "")
    ∧ Unreal2.applyPassword info mr = (match mr.rules.lookup Unreal2.gamePasswordKey with
      | some vs => { info with password := asciiLower vs.flatten == asciiBytes (Consts.unreal2_password_rule.getD 1 "") }
      | none => info)
    ∧ Unreal2.Spec.expectedPassword mr = (match mr.rules.lookup (asciiBytes (Consts.unreal2_password_rule.getD 0 "")) with
      | some vs => asciiLower vs.flatten == asciiBytes (Consts.unreal2_password_rule.getD 1 "")
      | none => false) := ⟨by decide, rfl, by decide, rfl, rfl⟩

example : Consts.unreal2_string_consts.length = 6 := by decide
