import GdVerif.Lemmas.TheShip
/-
  C09 — requests are the protocol's and go to the right port: The Ship (the Valve requests, C09_valve_*).
-/
open Gd Gd.Valve

/-- Whatever the server does, The Ship's query puts on the wire exactly what the Valve query does: one UDP
socket to the given port, A2S requests (without challenge, or carrying a challenge) to that port, 6144-byte
receives; the conversion does no I/O. -/
theorem C09_theship_conforms (ext : Ext) (port retries : Nat) (script : List ConnScript) (faults : List Bool) :
    ∀ e ∈ (TheShip.query ext port retries (Net.init script faults)).2.log,
      match e with
      | .opened c tcp p _ => c = 0 ∧ tcp = false ∧ p = port
      | .send c p data _ => c = 0 ∧ p = port ∧ Allowed data
      | .recv c size _ => c = 0 ∧ size = some 6144 := by
  obtain ⟨_, added, hlog, hall⟩ := TheShip.query_safe ext port retries (Net.init script faults)
  intro e he
  rw [hlog] at he
  simp only [Net.init, List.nil_append] at he
  have := hall e he
  simp only [Net.init, List.length_nil] at this
  cases e with
  | opened c tcp p r => exact this
  | send c p d f => exact this
  | recv c s gt => exact this

/-- The transport log is the Valve query's, event for event. -/
theorem C09_theship_same_wire (ext : Ext) (port retries : Nat) (w : Net) :
    (TheShip.query ext port retries w).2.log
      = (Valve.query ext port TheShip.ENGINE Gather.default retries w).2.log := by
  unfold TheShip.query
  rw [Q.bind_apply]
  cases Valve.query ext port TheShip.ENGINE Gather.default retries w with
  | mk res w' => cases res <;> rfl

/-- the default port is the Source engine's -/
theorem C09_theship_default_port : TheShip.DEFAULT_PORT = TheShip.Spec.defaultPort := rfl
