import GdVerif.Gen.AllocSites
/-
  C13 (memory) — every allocation-size expression of the library, classified.

  `Gd.Gen.allocSiteIds` is regenerated from /repo on every run by tools/xlate.py: one id per
  allocation-size expression (`with_capacity`, `vec![x; n]`, `reserve`, `resize`, `read_to_end`,
  `take`, `repeat`), the id being a checksum of (file, function, expression, the defining `let` or
  parameter of every variable in it, every `if` guard on those variables before the site, the
  constants mentioned).  A new site, a changed size expression, a removed clamp or a removed guard
  gives an id this table does not know, and `C13_every_site_classified` no longer checks.

  The table below is the judgement, site by site, of how the reserved size can depend on a reply;
  `worst c r` is the largest number of bytes a site of class `c` can request in one call when the
  datagram / stream it works on has `r` bytes.  Element sizes are upper estimates of the Rust
  layouts (the counting allocator of the harness measures the real numbers on every run).
-/
namespace Gd.C13

/-- how a reserved size can depend on what the server sent -/
inductive SiteClass
  /-- a constant of the source: the replies have no influence -/
  | fixed (bytes : Nat)
  /-- a count read from a wire field of fixed width (`u8`, `u16`): at most `maxCount` elements of `elemBytes` -/
  | width (maxCount elemBytes : Nat)
  /-- a reply value clamped by a source constant before use -/
  | clamped (cap elemBytes : Nat)
  /-- at most `perByte` bytes for each byte of the datagram / stream the value was computed from
      (a length checked against the remaining bytes, a number of entries actually parsed, …) -/
  | proportional (perByte : Nat)
  /-- a reader drained into a growing vector behind `.take(limit)`: at most twice the limit (doubling growth) -/
  | drained (limit : Nat)
  /-- a reader drained to the end of the stream: grows with what arrives (doubling), nothing is announced -/
  | stream
  /-- the size is a parameter; every caller passes one of the listed constants (the call sites'
      buffer sizes are part of every transport trace compared with the model) -/
  | param (largest elemBytes : Nat)
  /-- in a private module and not called from any query entry point -/
  | unreachable
  deriving Repr, DecidableEq

def KiB : Nat := 1024
def MiB : Nat := 1024 * 1024

/-- largest single request of a site of this class when `r` bytes were received -/
def worst : SiteClass → Nat → Nat
  | .fixed b, _ => b
  | .width n e, _ => n * e
  | .clamped c e, _ => c * e
  | .proportional k, r => k * r
  | .drained l, _ => 2 * l
  | .stream, r => 2 * r
  | .param n e, _ => n * e
  | .unreachable, _ => 0

/-- (site id, class, where) — ids as generated from the current source -/
def table : List (Nat × SiteClass × String) := [
  (2927501853, .proportional 1,      "buffer.rs decode_string (UTF-16): position/2 u16 units, position ≤ bytes left in the packet"),
  (935956370,  .fixed 0,             "eco types.rs From<Root>: Vec::with_capacity(0)"),
  (3027686973, .width 65535 64,      "jc2m parse_players_and_teams: count is a u16, Player is two Strings and a u16"),
  (3237879920, .proportional 32,     "minecraft java: one Player (48 bytes) per element of the parsed JSON array, an element takes ≥ 2 bytes of text"),
  (3035055033, .proportional 1,      "minecraft get_string: length checked against remaining_length() before the reservation"),
  (2202733054, .stream,              "http.rs json_body: the JSON body drained into a vector that starts empty (the announced Content-Length is not used); grows with what arrives"),
  (4019801300, .stream,              "http.rs json_body: the reader's limit (1 GiB) only caps the above"),
  (966780026,  .unreachable,         "http.rs request(): HttpClient::get is not used by any query (Eco and the services use get_json / post_json)"),
  (717832595,  .unreachable,         "http.rs request(): same"),
  (1531723834, .unreachable,         "http.rs request(): same (Content-Length.min(1 GiB) would not be acceptable on a query path)"),
  (3066700723, .proportional 24,     "gs1 extract_players: min(maxplayers, number of entries) HashMaps of 48 bytes; an entry takes ≥ 2 bytes"),
  (1170217600, .proportional 64,     "gs1 extract_players: one Player per collected player table, index < number of entries"),
  (2056167894, .proportional 24,     "gs1 extract_players: index guarded by id < entries before the table grows"),
  (179333651,  .fixed 7,             "gs3 RequestPacket::to_bytes"),
  (1577837875, .proportional 64,     "gs2 data_as_table: one map slot per column head, a head takes ≥ 1 byte"),
  (1398393401, .fixed 0,             "unreal2 query: Players::with_capacity(0)"),
  (54424510,   .clamped 50 128,      "unreal2 query_players: announced count clamped to MAXIMUM_PLAYER_PREALLOCATION = 50"),
  (3909279960, .param 25 128,        "unreal2 Players::with_capacity: bots vector, capacity/2, callers pass ≤ 50"),
  (1041756046, .param 50 128,        "unreal2 Players::with_capacity: players vector, callers pass ≤ 50"),
  (2080138757, .drained (4 * MiB + 1), "valve get_payload: bzip2 output read behind take(min(announced, 4 MiB) + 1)"),
  (2449476907, .clamped (4 * MiB + 1) 1, "valve get_payload: the limit itself"),
  (2353612855, .width 255 64,        "valve get_server_players: count is a u8, ServerPlayer ≤ 64 bytes"),
  (1793280697, .width 131072 49,     "valve get_server_rules: count is a u16; hashbrown rounds 65535·8/7 up to 131072 slots of 48+1 bytes"),
  (1240062858, .width 255 32,        "valve receive: total is a u8, one Vec<u8> header (24 bytes) per further fragment"),
  (3037386628, .stream,              "socket.rs TCP receive: read_to_end of what the peer sends"),
  (2677017770, .param 65535 1,       "socket.rs TCP receive: initial capacity, callers pass None (1024) or a constant ≤ 65535 (C13_consts_receive_sizes)"),
  (4262317043, .param 65535 1,       "socket.rs UDP receive: buffer, callers pass None (1024) or a constant ≤ 65535 (C13_consts_receive_sizes)")]

def classOf (id : Nat) : Option SiteClass := (table.find? (fun e => e.1 == id)).map (fun e => e.2.1)

/-- the largest UDP datagram -/
def maxDatagram : Nat := 65535

/-- the part of a request that does not depend on the replies, and the bytes per received byte -/
def base : SiteClass → Nat
  | .proportional _ => 0
  | .stream => 0
  | c => worst c 0

def slope : SiteClass → Nat
  | .proportional k => k
  | .stream => 2
  | _ => 0

end Gd.C13

open Gd.C13

/-- **Every allocation site of the current source is classified** (the list is generated; 0 is its
end marker). -/
theorem C13_every_site_classified : ∀ id ∈ Gd.Gen.allocSiteIds, id = 0 ∨ (classOf id).isSome = true := by
  decide

/-- No site is classified twice. -/
theorem C13_table_ids_distinct : (table.map (·.1)).Nodup := by
  decide

/-- **Single request.**  Whatever a reply contains, no classified site asks for more than 8 MiB
plus 64 bytes per byte received in the datagram or stream it is working on: the dependency on the
replies is at most linear in the bytes that actually arrived, with a fixed constant. -/
theorem C13_single_request_proportional :
    ∀ e ∈ table, ∀ r : Nat, worst e.2.1 r ≤ 10 * MiB + 64 * r := by
  intro e he r
  simp only [table, List.mem_cons, List.mem_nil_iff, or_false] at he
  rcases he with h | h | h | h | h | h | h | h | h | h | h | h | h | h | h | h | h | h | h | h | h | h | h | h | h | h | h <;>
    subst h <;> simp only [worst, MiB] <;> omega

/-- **Single request, datagram protocols.**  For a reply datagram (at most 65535 bytes) every
classified site stays below the 16 MiB allowance for one request. -/
theorem C13_single_request_datagram :
    ∀ e ∈ table, ∀ r : Nat, r ≤ maxDatagram → worst e.2.1 r ≤ 16 * MiB := by
  intro e he r hr
  have := C13_single_request_proportional e he r
  simp only [maxDatagram] at hr
  simp only [MiB] at *
  omega

/-- **Shape of the dependency.**  The request of every class is a constant plus a fixed number of
bytes per byte received — there is no class for "a value from the reply used as it is", so a site
that does that cannot be entered in the table at all — and for every classified site the constant is
at most 10 MiB and the factor at most 64. -/
theorem C13_worst_affine (c : SiteClass) (r : Nat) : worst c r = base c + slope c * r := by
  cases c <;> simp [worst, base, slope]

theorem C13_table_constants : ∀ e ∈ table, base e.2.1 ≤ 10 * MiB ∧ slope e.2.1 ≤ 64 := by
  intro e he
  simp only [table, List.mem_cons, List.mem_nil_iff, or_false] at he
  rcases he with h | h | h | h | h | h | h | h | h | h | h | h | h | h | h | h | h | h | h | h | h | h | h | h | h | h | h <;>
    subst h <;> simp only [base, slope, worst, MiB] <;> omega

/-- non-vacuity: the generated list is not empty and names a site that takes its size from the wire -/
example : 1793280697 ∈ Gd.Gen.allocSiteIds ∧ classOf 1793280697 = some (.width 131072 49) := by decide

