import GdVerif.Lemmas.Savage2
/-
  C01 — hostile replies never crash or hang a query: Savage 2 (`games::savage2::query_with_timeout`).
-/
open Gd

/-- For EVERY script, port and send-fault vector the Savage 2 query returns a response or an error, never a
crash.  (The model is a total function without loops: one socket, one send, one receive.) -/
theorem C01_savage2 (port : Nat) (script : List ConnScript) (faults : List Bool) :
    (Savage2.query port (Net.init script faults)).1 ≠ .crash :=
  (Savage2.query_safe port (Net.init script faults)).1

/-- The reply parser alone, on any bytes. -/
theorem C01_savage2_parser (data : Bytes) : Savage2.parseResponse.run data ≠ .crash :=
  Savage2.safe_parseResponse.run_ne_crash data

/-- It cannot hang: at most one datagram is ever sent. -/
theorem C01_savage2_bounded (port : Nat) (script : List ConnScript) (faults : List Bool) :
    countSends (Savage2.query port (Net.init script faults)).2.log ≤ 1 :=
  (Savage2.sendBound_query port).run script faults

-- non-vacuity: a reply shorter than the 12 skipped bytes is in the quantifier and is an error, not a crash
example : (Savage2.query 11235 (Net.init [.opened [.data [1, 2, 3]]] [])).1 = .err .packetBad := by decide
