import GdVerif.Lemmas.MasterRounds
/-
  C13 (requests sent) — the Valve master-server service.  The service never retries (no `retry_on_timeout`), so the
  bound "retry setting and the number of datagrams received" reads: one request, plus one per datagram received.
-/
open Gd Gd.Master

/-- Whatever the server does (any script, any send faults), for every region and filter set, the complete query sends
at most one request more than the datagrams it successfully received: each follow-up request needs a received page. -/
theorem C13_master_send_bound (region : Nat) (fs : Option SearchFilters) (script : List ConnScript)
    (faults : List Bool) :
    nSends (Master.query region fs (Net.init script faults)).2.log
      ≤ 1 + nRecvOk (Master.query region fs (Net.init script faults)).2.log :=
  (cost_query region fs).totalLe 1 (by omega) (by omega) script faults

/-- The single-page query sends at most one request, whatever arrives. -/
theorem C13_master_singular_send_bound (region : Nat) (fs : Option SearchFilters) (script : List ConnScript)
    (faults : List Bool) : nSends (Master.querySingular region fs (Net.init script faults)).2.log ≤ 1 := by
  rw [querySingular_log]
  unfold singularLog
  cases hfc : firstConn script with
  | none => simp [nSends, isSend]
  | some ds =>
    have := nSends_firstRound msock region (filterBytesOf fs) ds faults zeroIp 0
    simpa [nSends, isSend] using this

/-- The paging loop on a socket the caller keeps, from any state and with any fuel: what it adds to the log has at
most one send more than successful receives. -/
theorem C13_master_loop_bound (s : Sock) (region : Nat) (fb : Bytes) (fuel : Nat) (ips : List Addr) (ip : Bytes)
    (port : Nat) (w : Net) :
    ∃ added, (pageLoop s region fb fuel ips ip port w).2.log = w.log ++ added ∧ nSends added ≤ 1 + nRecvOk added := by
  obtain ⟨added, hl, hc⟩ := cost_pageLoop s region fb fuel ips ip port w
  refine ⟨added, hl, ?_⟩
  cases hres : (pageLoop s region fb fuel ips ip port w).1 <;> rw [hres] at hc <;> simp only at hc <;> omega

/-- The number of requests is also bounded by the script alone: one per datagram the peer will ever deliver to the
socket, plus one (so memory for the result grows only with bytes actually received: at most 232 six-byte entries
per 1400-byte datagram). -/
theorem C13_master_requests_by_script (region : Nat) (fs : Option SearchFilters) (ds : List Delivery)
    (rest : List ConnScript) (faults : List Bool) :
    nSends (Master.query region fs (Net.init (.opened ds :: rest) faults)).2.log ≤ countData ds + 1 := by
  rw [query_log]
  simp only [queryLog, firstConn]
  have := nSends_roundsLog msock region (filterBytesOf fs) ds faults zeroIp 0
  simpa [nSends, isSend] using this

-- non-vacuity: the bound is attained — three pages received, four requests sent
example :
    let r := Master.query 3 none (Net.init [.opened [
      .data [0xFF, 0xFF, 0xFF, 0xFF, 0x66, 0x0A, 1, 2, 3, 4, 0x69, 0x87],
      .data [0xFF, 0xFF, 0xFF, 0xFF, 0x66, 0x0A, 5, 6, 7, 8, 0x69, 0x87],
      .data [0xFF, 0xFF, 0xFF, 0xFF, 0x66, 0x0A, 9, 9, 9, 9, 0, 80]]] [])
    nSends r.2.log = 4 ∧ nRecvOk r.2.log = 3 := by
  decide

-- a datagram that is not a page earns no follow-up request
example :
    let r := Master.query 3 none (Net.init [.opened [.data [1, 2, 3], .data [0xFF, 0xFF, 0xFF, 0xFF, 0x66, 0x0A]]] [])
    nSends r.2.log = 1 ∧ nRecvOk r.2.log = 1 := by
  decide
