import GdVerif.Lemmas.Ffow
/-
  C07 — single-game protocols map every field: Frontlines: Fuel of War.

  MODEL: `GdVerif/Proto/Ffow.lean` on top of `Proto/Valve.lean` (tied to games/ffow by the checks on every run).
  SPEC:  `GdVerif/Spec/Ffow.lean` (written from node-gamedig's `protocols/ffow.js`; big endian).
-/
open Gd Gd.Ffow Gd.Ffow.Spec

/-- For every server state in the specification's domain (six strings of any length, all byte fields over
0–255, both 16-bit fields over 0–65535, every server type / environment letter in either case) the parser returns
each field of the reply in the correspondingly named response field; the two-byte game port and the average-fps
byte are skipped, and `time_left` is the big-endian value. -/
theorem C07_ffow_decode (upper : Bool) (st : State) (h : wf st = true) :
    parseResponse.run (encode upper st) = .ok (expected st) :=
  (decodesEnd_response upper st h).run

/-- The whole query against a conforming server (`FFFFFFFF 49` + body in one datagram), for every port, retry
count and behaviour of the external decoders. -/
theorem C07_ffow (ext : Valve.Ext) (upper : Bool) (st : State) (h : wf st = true)
    (hlen : (replyPacket upper st).length ≤ 6144) (port retries : Nat) :
    (query ext port retries (Net.init [.opened [.data (replyPacket upper st)]] [])).1 = .ok (expected st) := by
  exact (query_script_fst ext port retries upper st hlen).trans (C07_ffow_decode upper st h)

/-- The byte order is the reference's: `01 2C` is 300 seconds (and 300 is sent as `01 2C`). -/
theorem C07_ffow_time_left_big_endian :
    Spec.be 2 300 = [0x01, 0x2C] ∧ (readUnsigned .big 2).run [0x01, 0x2C] = .ok 300 := by decide

-- non-vacuity
example :
    let st : State := ⟨2, [70], [109], [], [99], [100], [49], 5476, 3, 32, .dedicated, .windows, true, false, 60, 1, 5, 300⟩
    wf st = true ∧ (query ⟨fun _ => none, fun _ => 0⟩ 5478 0 (Net.init [.opened [.data (replyPacket true st)]] [])).1 = .ok (expected st) := by
  decide

