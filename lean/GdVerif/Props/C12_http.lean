import GdVerif.Lemmas.Http
/-
  C12 — timeouts bound every blocking step and every failure of the transport is reported under the matching class: the
  HTTP client and the Eco query.

  MODEL: `GdVerif/Proto/Http.lean` (`call`, `readBody`, `request`, `requestJson`, `requestError`, `Eco.query`).  The wire — what
  `ureq` and the network make of one request: how the connect, the write of the request, the response head and the body
  end — is a PARAMETER (`Wire`); the theorems hold for every wire.  Tied on every run: the real client against a loopback
  listener that refuses / does not answer the connection attempt / stays mute / closes / stalls after the status line /
  sends garbage / an error status / stops or closes inside the body / sends a body that is not the document (`http-plan`,
  generator `httperr`), result kind, requests seen and wall clock against the model of the same behaviour.
  What is measured, not proved: that `ureq` and the OS honour the three timeouts.
-/
open Gd Gd.Http

/-- `request_error` is total over `ureq`'s error kinds: a failed connection is `SocketConnect`, every other way a call can fail
is `PacketSend`. -/
theorem C12_http_request_error_table (k : UreqErrorKind) :
    requestError k = (if k = .connectionFailed then .socketConnect else .packetSend) := by
  cases k <;> rfl

/-- THE DECISION TABLE of `get_json`, for every client, wire behaviour, deserialiser, path and headers: a connection
that is refused or not answered is `SocketConnect`; a request that cannot be written, a response head that does not arrive
(mute peer, peer closing, stalling in the head), that is not HTTP, a redirect loop, and an error status are `PacketSend`
(no answer to the request: the client library cannot tell which half of the exchange failed); a body that stops arriving
or is cut short is `PacketReceive`; a body that arrives whole and is not the document is `ProtocolFormat`; otherwise the
document. -/
theorem C12_http_json_decision_table {α : Type} (client : Client) (w : Wire) (json : Bytes → Option α) (method path : Bytes)
    (headers : List (Bytes × Bytes)) :
    (client.requestJson w json method path headers).2.1 =
      match w.connect, w.send, w.head, w.body with
      | .refused, _, _, _ => .err .socketConnect
      | .timedOut, _, _, _ => .err .socketConnect
      | .connected, .failed, _, _ => .err .packetSend
      | .connected, .timedOut, _, _ => .err .packetSend
      | .connected, .sent, .timedOut, _ => .err .packetSend
      | .connected, .sent, .closed, _ => .err .packetSend
      | .connected, .sent, .malformed, _ => .err .packetSend
      | .connected, .sent, .tooManyRedirects, _ => .err .packetSend
      | .connected, .sent, .head status _, body =>
        if status ≥ 400 then .err .packetSend
        else match body with
          | .timedOut => .err .packetReceive
          | .closedEarly => .err .packetReceive
          | .complete b => match json b with
            | some v => .ok v
            | none => .err .protocolFormat := by
  obtain ⟨c, s, h, b⟩ := w
  cases c <;> cases s <;> cases b <;> (cases h with
    | head status cl =>
      by_cases hs : status ≥ 400 <;> simp only [Client.requestJson, call, readBody, requestError, hs, if_true, if_false] <;>
        (try rfl) <;> (split <;> simp_all)
    | _ => rfl)

/-- THE DECISION TABLE of `get` (the body as bytes): as above, except that a `Content-Length` header which is not a number is
`ProtocolFormat` and any complete body is returned as it is. -/
theorem C12_http_raw_decision_table (client : Client) (w : Wire) (method path : Bytes) (headers : List (Bytes × Bytes)) :
    (client.request w method path headers).2.1 =
      match w.connect, w.send, w.head, w.body with
      | .refused, _, _, _ => .err .socketConnect
      | .timedOut, _, _, _ => .err .socketConnect
      | .connected, .failed, _, _ => .err .packetSend
      | .connected, .timedOut, _, _ => .err .packetSend
      | .connected, .sent, .timedOut, _ => .err .packetSend
      | .connected, .sent, .closed, _ => .err .packetSend
      | .connected, .sent, .malformed, _ => .err .packetSend
      | .connected, .sent, .tooManyRedirects, _ => .err .packetSend
      | .connected, .sent, .head status cl, body =>
        if status ≥ 400 then .err .packetSend
        else if (match cl with | some l => (parseUnsigned 64 l).isSome | none => true) = false then .err .protocolFormat
        else match body with
          | .timedOut => .err .packetReceive
          | .closedEarly => .err .packetReceive
          | .complete b => .ok b := by
  obtain ⟨c, s, h, b⟩ := w
  cases c <;> cases s <;> cases b <;> (cases h with
    | head status cl =>
      by_cases hs : status ≥ 400 <;> simp only [Client.request, call, readBody, requestError, hs, if_true, if_false] <;>
        (try rfl) <;> (cases cl <;> simp) <;> (split <;> simp_all)
    | _ => rfl)

/-- WHAT C12 EXPECTS of each class of failure, written from the property: the connection cannot be made → the connect
class; connected but no well-formed answer to the request (nothing at all, a head that does not complete, garbage, an
error status, a redirect loop) → the send / receive class; the answer begins and its body stops → the receive class; a
complete body → the document or a format error. -/
def C12_http_expected (w : Wire) : List ErrKind :=
  match w.connect with
  | .refused | .timedOut => [.socketConnect]
  | .connected =>
    match w.send with
    | .failed | .timedOut => [.packetSend, .packetReceive]
    | .sent =>
      match w.head with
      | .timedOut | .closed | .malformed | .tooManyRedirects => [.packetSend, .packetReceive]
      | .head status _ =>
        if status ≥ 400 then [.packetSend, .packetReceive]
        else match w.body with
          | .timedOut | .closedEarly => [.packetReceive]
          | .complete _ => [.protocolFormat]

/-- Every failure lands in the class the property expects, and a query fails only when the transport did or the document is
not the expected one — for every wire behaviour. -/
theorem C12_http_error_classes {α : Type} (client : Client) (w : Wire) (json : Bytes → Option α) (method path : Bytes)
    (headers : List (Bytes × Bytes)) :
    (∀ k, (client.requestJson w json method path headers).2.1 = .err k → k ∈ C12_http_expected w)
    ∧ (client.requestJson w json method path headers).2.1 ≠ .crash
    ∧ (∀ v, (client.requestJson w json method path headers).2.1 = .ok v →
        ∃ status cl body, w = ⟨.connected, .sent, .head status cl, .complete body⟩ ∧ status < 400 ∧ json body = some v) := by
  rw [C12_http_json_decision_table]
  obtain ⟨c, s, h, b⟩ := w
  cases c <;> cases s <;> cases b <;> (cases h with
    | head status cl =>
      by_cases hs : status ≥ 400 <;> simp [C12_http_expected, hs] <;> (try omega) <;> (split <;> simp_all) <;>
        (try exact ⟨_, _, _, ⟨⟨rfl, rfl⟩, rfl⟩, by omega, by assumption⟩)
    | _ => simp [C12_http_expected])

/-- AT MOST ONE BLOCKING STEP RUNS INTO ITS TIMEOUT, whatever the wire does, and it is the step the behaviour names: the
connect when the connection attempt is not answered, the write when the request cannot be written, one read when the
response head or — after a good head — the body stops arriving.  A request that fails for any other reason waits for
nothing. -/
theorem C12_http_blocking_bound {α : Type} (client : Client) (w : Wire) (json : Bytes → Option α) (method path : Bytes)
    (headers : List (Bytes × Bytes)) :
    let steps := (client.requestJson w json method path headers).2.2
    steps.length ≤ 1
    ∧ (steps = [.connect] ↔ w.connect = .timedOut)
    ∧ (steps = [.write] ↔ w.connect = .connected ∧ w.send = .timedOut)
    ∧ (steps = [.read] ↔ w.connect = .connected ∧ w.send = .sent ∧
        (w.head = .timedOut ∨ ∃ status cl, w.head = .head status cl ∧ status < 400 ∧ w.body = .timedOut)) := by
  obtain ⟨c, s, h, b⟩ := w
  cases c <;> cases s <;> cases b <;> (cases h with
    | head status cl =>
      by_cases hs : status ≥ 400 <;> simp [Client.requestJson, call, readBody, hs] <;> (try omega) <;> (split <;> simp_all)
    | _ => simp [Client.requestJson, call, readBody])

/-- The same bound for `get`. -/
theorem C12_http_raw_blocking_bound (client : Client) (w : Wire) (method path : Bytes) (headers : List (Bytes × Bytes)) :
    (client.request w method path headers).2.2.length ≤ 1 := by
  obtain ⟨c, s, h, b⟩ := w
  cases c <;> cases s <;> cases b <;> (cases h with
    | head status cl =>
      by_cases hs : status ≥ 400 <;> simp [Client.request, call, readBody, hs] <;> (split <;> simp_all) <;> (split <;> simp)
    | _ => simp [Client.request, call, readBody])

/-- THE DURATION THAT BOUNDS EACH STEP is the one configured for it and no other: with the client `new` builds from timeout
settings `t`, a blocked read waits `t.read`, a blocked write `t.write`, an unanswered connect `t.connect` (`ureq`'s own 30 s
when the settings leave the connect timeout out); there is no deadline for the whole request that could cut any of them short
or stretch it (`AgentBuilder::timeout` is never called). -/
theorem C12_http_step_timeouts (idna : Bytes → Option Bytes) (ua : Bytes) (address : SocketAddr) (t : Settings.Timeout)
    (hs : HttpSettings) (client : Client) (h : Http.new idna ua address (some t) hs = .ok client) :
    client.agent.timeoutOverall = none
    ∧ Ureq.timeoutOf client.agent .read = t.read
    ∧ Ureq.timeoutOf client.agent .write = t.write
    ∧ Ureq.timeoutOf client.agent .connect = (match t.connect with | some c => some c | none => some ⟨30, 0⟩) := by
  unfold Http.new at h
  simp only [Settings.readAndWriteOrDefaults, Settings.connectOrDefault] at h
  split at h
  · cases h
    cases hr : t.read <;> cases hw : t.write <;> cases hc : t.connect <;> simp [Ureq.timeoutOf, ureqDefaults]
  · cases h
  · cases h

/-- Without settings the defaults apply: 4 s each, finite. -/
theorem C12_http_default_timeouts (idna : Bytes → Option Bytes) (ua : Bytes) (address : SocketAddr)
    (hs : HttpSettings) (client : Client) (h : Http.new idna ua address none hs = .ok client) :
    Ureq.timeoutOf client.agent .read = some ⟨4, 0⟩ ∧ Ureq.timeoutOf client.agent .write = some ⟨4, 0⟩
    ∧ Ureq.timeoutOf client.agent .connect = some ⟨4, 0⟩ := by
  unfold Http.new at h
  simp only [Settings.readAndWriteOrDefaults, Settings.connectOrDefault, Settings.default] at h
  split at h
  · cases h; simp [Ureq.timeoutOf, ureqDefaults]
  · cases h
  · cases h

/-- THE ECO QUERY: its result is the table's, the document mapped by `From<Root>`; at most one blocking step times out. -/
theorem C12_eco_error_classes (idna : Bytes → Option Bytes) (ua : Bytes) (w : Wire) (json : Bytes → Option Eco.Info)
    (ip : IpAddr) (port : Option Nat) (ts : Option Settings.Timeout) (extra : Option Eco.RequestSettings) :
    let r := Eco.query idna ua w json ip port ts extra
    r.2.2.length ≤ 1 ∧ r.2.1 ≠ .crash
    ∧ (∀ k, r.2.1 = .err k → k = .invalidInput ∧ r.1 = none ∨ r.1.isSome ∧ k ∈ C12_http_expected w) := by
  simp only [Eco.query]
  have hnew := new_total idna ua ⟨ip, port.getD Eco.DEFAULT_PORT⟩ ts (extra.getD {}).toHttp
  split
  · rename_i client hn
    have hb := (C12_http_blocking_bound client w json GET (asciiBytes Eco.PATH) []).1
    have hc := C12_http_error_classes client w json GET (asciiBytes Eco.PATH) []
    refine ⟨hb, ?_, ?_⟩
    · cases hr : (client.requestJson w json GET (asciiBytes Eco.PATH) []).2.1 with
      | ok v => simp [Res.bind]
      | err k => simp [Res.bind]
      | crash => exact absurd hr hc.2.1
    · intro k hk
      right
      refine ⟨rfl, ?_⟩
      cases hr : (client.requestJson w json GET (asciiBytes Eco.PATH) []).2.1 with
      | ok v => rw [hr] at hk; simp [Res.bind] at hk
      | err k' =>
        rw [hr] at hk
        simp only [Res.bind] at hk
        cases hk
        exact hc.1 k hr
      | crash => exact absurd hr hc.2.1
  · rename_i k hn
    have := hnew.2 k hn
    subst this
    simp
  · rename_i hn
    exact absurd hn hnew.1

-- non-vacuity: behaviours of each class, and a document that arrives
example : C12_http_expected ⟨.connected, .sent, .timedOut, .closedEarly⟩ = [.packetSend, .packetReceive] := rfl
example :
    let c : Client := ⟨ureqDefaults, ⟨.http, [], none, .domain [97], none, [47], none, none⟩, []⟩
    (c.requestJson ⟨.connected, .sent, .head 200 none, .complete [49]⟩ (fun b => some b.length) GET [47] []).2.1 = .ok 1
    ∧ (c.requestJson ⟨.connected, .sent, .head 200 none, .timedOut⟩ (fun b => some b.length) GET [47] []).2 = (.err .packetReceive, [.read])
    ∧ (c.requestJson ⟨.timedOut, .sent, .closed, .closedEarly⟩ (fun b => some b.length) GET [47] []).2 = (.err .socketConnect, [.connect])
    ∧ (c.requestJson ⟨.connected, .sent, .head 503 none, .complete []⟩ (fun b => some b.length) GET [47] []).2 = (.err .packetSend, []) := by
  decide
