import GdVerif.Lemmas.Mindustry
/-
  C07 — single-game protocols map every field: Mindustry.

  MODEL: `GdVerif/Proto/Mindustry.lean` (tied to games/mindustry by the C07/C01/C09/C10 checks on every run).
  SPEC:  `GdVerif/Spec/Mindustry.lean` (written from Mindustry's `NetworkIO.writeServerData`).
-/
open Gd Gd.Mindustry Gd.Mindustry.Spec

/-- For every server state in the specification's domain (strings of 0–255 bytes of valid UTF-8, the four
integers over the whole `i32` range, each of the five game modes, the trailing mode name present or absent,
at most 500 bytes in all) the parser returns every field of the reply in the correspondingly named field. -/
theorem C07_mindustry_decode (st : State) (h : wf st = true) :
    parseServerData.run (encode st) = .ok (expected st) :=
  (decodesEnd_serverData st h).run

/-- The whole query against a conforming server (socket, ping, the one reply datagram), for every port and
retry count. -/
theorem C07_mindustry (st : State) (h : wf st = true) (port retries : Nat) :
    (query port retries (Net.init [.opened [.data (encode st)]] [])).1 = .ok (expected st) := by
  have hlen : (encode st).length ≤ MAX_BUFFER_SIZE := by
    simp only [wf, Bool.and_eq_true, decide_eq_true_eq] at h
    exact h.2
  have h1 := attempt_script port (encode st) hlen
  rw [C07_mindustry_decode st h] at h1
  unfold query
  cases hq : attempt port (Net.init [.opened [.data (encode st)]] []) with
  | mk res w' =>
    rw [hq] at h1
    simp only at h1
    subst h1
    rw [retryOnTimeout_ok retries hq]

/-- The optional trailing field: present iff the server wrote it. -/
theorem C07_mindustry_mode_name (st : State) (h : wf st = true) :
    (parseServerData.run (encode st)).toOption.map (·.modeName) = some st.modeName := by
  rw [C07_mindustry_decode st h]; rfl

-- non-vacuity: a concrete state in the domain, with the trailing mode name
example :
    let st : State := ⟨[72, 105], [109], 5, -1, 146, [111], .pvp, 2147483647, [], some [120, 121]⟩
    wf st = true ∧ (query 6567 2 (Net.init [.opened [.data (encode st)]] [])).1 = .ok (expected st) := by
  decide

/-! ### U+0000 inside a string

`writeString` may carry U+0000; the reader ends the text there (its documented delimiter) but — since the repair of
the length-prefixed decoder — still moves past the declared length, so every other field is unaffected. -/

/-- For every reply whose strings may contain U+0000 (any bytes up to 255 whose part before the first NUL is valid
UTF-8): each string comes back cut at its first NUL, every other field exactly as sent. -/
theorem C07_mindustry_nul_cut (st : State) (h : wfCut st = true) :
    parseServerData.run (encode st) = .ok (expected (cutState st)) :=
  (decodesEnd_serverData_cut st h).run

-- the former witness of the cursor defect (host `"A\0B"`): now only the host is cut
example :
    let st : State := ⟨[65, 0, 66], [109, 97, 112], 1, 2, 146, [111, 102, 102, 105, 99, 105, 97, 108], .survival, 10, [100], none⟩
    wfCut st = true ∧ parseServerData.run (encode st) = .ok { expected st with host := [65] } := by
  decide
