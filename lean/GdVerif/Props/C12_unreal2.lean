import GdVerif.Lemmas.Unreal2Block
/-
  C12 (blocking steps that can run into their timeout) — Unreal 2.
-/
open Gd Gd.Unreal2

/-- Whatever the server does — for every script, fault vector, gather setting and retry setting — at
most `3 · retries + 2` blocking steps of an Unreal 2 query run into their timeout (a failed socket
creation, failed sends, timed-out receives).  The three requests are retried separately; the rules
and players answers are lists that are listened for until a receive times out, which adds one
timeout per list but only after its request has succeeded, i.e. after at most `retries` failed
attempts; and the two list requests are only made once the server info has been obtained.  The number
of datagrams a list consists of does not enter the bound.
Wall time ≤ (3 · retries + 2) · timeout + the server's own delays. -/
theorem C12_unreal2_blocking_bound (port : Nat) (g : Gather) (retries : Nat) (script : List ConnScript)
    (faults : List Bool) :
    nBlocked (query port g retries (Net.init script faults)).2.log ≤ 3 * retries + 2 := by
  have := (block_query port g retries).total script faults
  omega

/-- One list request with its listening loop: at most `retries + 1` timeouts, whatever arrives. -/
theorem C12_unreal2_list_bound (s : Sock) (retries n : Nat) (w : Net) :
    (∃ added, (queryRules s retries w).2.log = w.log ++ added ∧ nBlocked added ≤ retries + 1)
    ∧ (∃ added, (queryPlayers s retries n w).2.log = w.log ++ added ∧ nBlocked added ≤ retries + 1) := by
  constructor
  · obtain ⟨added, hl, hc⟩ := block_queryRules s retries w
    refine ⟨added, hl, ?_⟩
    cases hr : (queryRules s retries w).1 <;> rw [hr] at hc <;> exact hc
  · obtain ⟨added, hl, hc⟩ := block_queryPlayers s retries n w
    refine ⟨added, hl, ?_⟩
    cases hr : (queryPlayers s retries n w).1 <;> rw [hr] at hc <;> exact hc

/-- A silent server (the socket is created, its first `retries + 1` receives time out; the rest of
the script is arbitrary): the server-info request fails after exactly `retries + 1` attempts and the
query fails with the receive-class error — `retries + 1` requests, `retries + 1` timed-out receives,
nothing received, whatever the gather settings. -/
theorem C12_unreal2_silent_server (port : Nat) (g : Gather) (retries : Nat) (script : List ConnScript)
    (h : PendingSilent false (retries + 1) script) :
    (query port g retries (Net.init script [])).1 = .err .packetReceive
      ∧ nSends (query port g retries (Net.init script [])).2.log = retries + 1
      ∧ nBlocked (query port g retries (Net.init script [])).2.log = retries + 1
      ∧ nRecvOk (query port g retries (Net.init script [])).2.log = 0
      ∧ nOpened (query port g retries (Net.init script [])).2.log = 1 :=
  (silent_query port g retries (Net.init script []) rfl h).counts

/-- the hypothesis is satisfiable: no script at all, or `retries + 1` silences followed by anything -/
example (retries : Nat) (rest : List Delivery) (more : List ConnScript) :
    PendingSilent false (retries + 1) [] ∧
    PendingSilent false (retries + 1) (.opened (List.replicate (retries + 1) .silence ++ rest) :: more) :=
  ⟨rfl, SilentFor.replicate false (retries + 1) rest⟩

/-- the bound is attained.  No retry: the info is answered (1 player announced), the rules request is
not (Try: dropped), the players request is not: 2 = 3·0 + 2 timeouts. -/
example : nBlocked (query 7777 ⟨.try_, .try_⟩ 0 (Net.init [.opened [.data [128, 0, 0, 0, 0, 0, 0, 0, 0, 0, 0, 0, 0, 0, 0, 0, 0, 0, 0, 0, 0, 1, 0, 0, 0, 0, 0, 0, 0], .silence, .silence]] [])).2.log = 2 := by
  decide

/-- One retry: every request is answered at its second attempt, both lists end with the timeout of the
listening loop: 1 + 2 + 2 = 5 = 3·1 + 2 timeouts, and the query succeeds. -/
example :
    nBlocked (query 7777 ⟨.enforce, .enforce⟩ 1 (Net.init [.opened [.silence, .data [128, 0, 0, 0, 0, 0, 0, 0, 0, 0, 0, 0, 0, 0, 0, 0, 0, 0, 0, 0, 0, 1, 0, 0, 0, 0, 0, 0, 0], .silence, .data [128, 0, 0, 0, 1], .silence,
      .silence, .data [128, 0, 0, 0, 2], .silence]] [])).2.log = 5
    ∧ (query 7777 ⟨.enforce, .enforce⟩ 1 (Net.init [.opened [.silence, .data [128, 0, 0, 0, 0, 0, 0, 0, 0, 0, 0, 0, 0, 0, 0, 0, 0, 0, 0, 0, 0, 1, 0, 0, 0, 0, 0, 0, 0], .silence, .data [128, 0, 0, 0, 1], .silence,
      .silence, .data [128, 0, 0, 0, 2], .silence]] [])).1.isOk = true := by
  decide +kernel
