import GdVerif.Lemmas.ValveSafe
import GdVerif.Lemmas.Unreal2Safe
/-
  C01 — Hostile server responses never crash or hang a query.

  One theorem per query entry point that has a model: for EVERY reply script (any number of
  datagrams of any content and size, any silences, refused sockets, failing sends) and every
  setting, the model returns a response or an error — never `crash` (panic, slice out of bounds,
  arithmetic overflow, failed allocation, exhausted fuel = a loop that would not end).
  Termination is Lean's: every model function is total, loops take fuel from a measure (queued
  deliveries), and "fuel suffices" is part of what is proved here.
-/
open Gd

/-- Valve A2S (`protocols::valve::query`, and through it every Valve game wrapper): no crash for
any script, engine, gather settings, retry count, and any behaviour of the bzip2/CRC decoders. -/
theorem C01_valve (ext : Valve.Ext) (port : Nat) (engine : Valve.Engine) (g : Valve.Gather) (retries : Nat)
    (script : List ConnScript) (faults : List Bool) :
    (Valve.query ext port engine g retries (Net.init script faults)).1 ≠ .crash :=
  (Valve.query_safe ext port engine g retries (Net.init script faults)).1

/-- The section parsers alone, on any bytes. -/
theorem C01_valve_parsers (engine : Valve.Engine) (data : Bytes) :
    ((Valve.parseInfo engine).run data).isCrash = false
    ∧ ((Valve.parsePlayers engine).run data).isCrash = false
    ∧ ((Valve.parseRules engine).run data).isCrash = false := by
  have key : ∀ {α : Type} (p : Par α), Safe p → (p.run data).isCrash = false := by
    intro α p hp
    have := hp (Buf.new data)
    unfold Par.run
    cases h : p (Buf.new data) with
    | ok x => rfl
    | err k => rfl
    | crash => rw [h] at this; exact this.elim
  exact ⟨key _ (Valve.safe_parseInfo engine), key _ (Valve.safe_parsePlayers engine), key _ (Valve.safe_parseRules engine)⟩

/-- The packet reader and the wire codecs on any bytes (see also C17). -/
theorem C01_reader (e : Endian) (ops : List ROp) (data : Bytes) : (ROp.afterAll e ops (Buf.new data)).isSome = true := by
  have hsafe : ∀ op : ROp, Safe (op.exec e) := by
    intro op
    cases op <;> simp only [ROp.exec]
    · exact Safe.bind (safe_readUnsigned _ _) fun _ => Safe.pure _
    · exact Safe.bind (safe_readSigned _ _) fun _ => Safe.pure _
    · exact Safe.bind (safe_moveCursor _) fun _ => Safe.pure _
    · exact Safe.bind (safe_readStringWith _ (utf8Dec_noCrash _)) fun _ => Safe.pure _
    · exact Safe.bind (safe_readStringWith _ (utf8LenDec_noCrash _)) fun _ => Safe.pure _
    · exact Safe.bind (safe_readStringWith _ (utf16Dec_noCrash _ _ _)) fun _ => Safe.pure _
    · exact Safe.bind (safe_switchEndianChunk _) fun _ => Safe.pure _
    · exact Safe.bind Mc.safe_getVarint fun _ => Safe.pure _
    · exact Safe.bind Mc.safe_getString fun _ => Safe.pure _
    · exact Safe.bind Unreal2.safe_readU2Str fun _ => Safe.pure _
  generalize Buf.new data = b
  induction ops generalizing b with
  | nil => rfl
  | cons op r ih =>
    simp only [ROp.afterAll, ROp.after]
    have hp := hsafe op b
    cases hx : op.exec e b with
    | ok x => exact ih _
    | err k => exact ih _
    | crash => rw [hx] at hp; exact hp.elim

-- non-vacuity: a hostile script (split header announcing 0 fragments, truncated) is in the quantifier
example : (Valve.query ⟨fun _ => none, fun _ => 0⟩ 27015 (.source none) Valve.Gather.default 1
    (Net.init [.opened [.data [0xFE, 0xFF, 0xFF, 0xFF, 1, 0, 0, 0, 0, 0]]] [])).1 = .err .packetUnderflow := by
  decide
