import GdVerif.Spec.Eco
/-
  C09 — requests go to the right port: Eco.  The HTTP client (`ureq`) is a parameter of the model; what the model
  fixes is the document's path and the default port.  That the request line is `GET /frontpage HTTP/1.1` and the
  Host header is the caller's address (IPv4, and IPv6 in brackets) is observed on every run by the `eco_http` /
  `eco_http6` entries against a real loopback server.
-/
open Gd

theorem C09_eco_path_and_port : Eco.PATH = "/frontpage" ∧ Eco.DEFAULT_PORT = Eco.Spec.defaultPort := ⟨rfl, rfl⟩
